(* C09: which branch of IsCheckmate / IsStalemate answers, and soundness of the answer "false"
   (a legal move exists) for the branches proved so far.

   [mate_exit b] / [stale_exit b] name the return statement by which the transliterated function leaves;
   [is_checkmate_exit] / [is_stalemate_exit] tie them to the verdicts.  Soundness of "false":
     - king step (both functions)          Proofs/MateKing.v   king_step_sound
     - en-passant exits (both functions)   here: with the engine's normal form of the en-passant state
                                           (normal_ep) a recorded target always has a legal capture *)
From Coq Require Import NArith ZArith List Bool Lia.
From Chess3 Require Import Base.Bits Model.Types Spec.Geometry Model.Att Model.BoardDef Model.Board
     Model.Movegen Model.Mate Spec.Chess Spec.Rep Proofs.MateGeom Proofs.MateAbs Proofs.MateKing Proofs.MateCapture Proofs.MateBlock Proofs.MateStale Proofs.MatePin Proofs.MatePawnPin Proofs.MateConv4 Proofs.MateConvEp Proofs.StaleConv4 Proofs.StaleConvEp.
Import ListNotations.
Open Scope N_scope.

Inductive mate_exit_t := MKingStep | MDoubleCheck | MCapture | MEnPassant | MBlock | MMate.
Inductive stale_exit_t := SFreePawn | SQueen | SBishop | SRook | SKnight | SKingStep | SPinnedPawn | SEnPassant | SStale.

Definition mate_exit (b : board) : mate_exit_t :=
  let me := stm b in
  let king := band (pieces b King) (colors b me) in
  let occ := bor (colors b White) (colors b Black) in
  let opp := colors b (flip me) in
  let atk := attackers b king occ (flip me) in
  let kingSq := lsb king in
  if king_can_step b kingSq king occ (colors b me) then MKingStep else
  if 1 <? popcount atk then MDoubleCheck else
  let attacker := atk in
  let defenders := band (attackers b attacker occ me) (bnot king) in
  if mate_capture_loop b kingSq occ attacker opp (bits_of defenders) then MCapture else
  if negb (ep b =? 0) && (pawn_single_push_moves (bit (ep b)) (flip me) =? attacker) then MEnPassant else
  let aSq := lsb attacker in
  let blocked := band (in_between kingSq aSq) (bnot (bor king attacker)) in
  let defenders := block b blocked me in
  if mate_block_loop b kingSq occ blocked (bits_of defenders) then MBlock else MMate.

Lemma is_checkmate_exit b :
  is_checkmate b = match mate_exit b with MDoubleCheck | MMate => true | _ => false end.
Proof.
  unfold is_checkmate, mate_exit. cbv zeta.
  repeat match goal with |- context [if ?c then _ else _] => destruct c end; reflexivity.
Qed.

Definition stale_exit (b : board) : stale_exit_t :=
  let me := colors b (stm b) in
  let opp := colors b (flip (stm b)) in
  let king := band (pieces b King) me in
  let kingSq := lsb king in
  let occ := bor me opp in
  let maybePinned := band (bor (bishop_moves kingSq occ) (rook_moves kingSq occ)) me in
  let pawns := band (band (pieces b Pawn) me) (bnot maybePinned) in
  if stale_free_pawn (stm b) pawns occ opp then SFreePawn else
  if stale_queen b occ me then SQueen else
  if stale_bishop b kingSq occ me opp then SBishop else
  if stale_rook b kingSq occ me opp then SRook else
  if stale_knight b kingSq occ me opp maybePinned then SKnight else
  if king_can_step b kingSq king occ me then SKingStep else
  if stale_pinned_pawn b kingSq occ me opp maybePinned then SPinnedPawn else
  if stale_ep b kingSq occ me opp then SEnPassant else SStale.

Lemma is_stalemate_exit b :
  is_stalemate b = match stale_exit b with SStale => true | _ => false end.
Proof.
  unfold is_stalemate, stale_exit. cbv zeta.
  repeat match goal with |- context [if ?c then _ else _] => destruct c end; reflexivity.
Qed.

(* ------------------------------------------------------------------------------------------ *)
(* en passant: a recorded target has a legal capture (the engine's normal form, C02) *)

Lemma normal_ep_move p e : epsq p = Some e -> normal_ep p = true ->
  exists from, from < 64 /\ legal_spec p (mk_move from e 0) = true.
Proof.
  intros He Hn. unfold normal_ep in Hn. rewrite He in Hn. unfold ep_capturable in Hn.
  destruct p as [a t r e' h f]. cbn [epsq at_ turn rights half fullm] in *. subst e'.
  apply existsb_exists in Hn. destruct Hn as [from [Hf H]]. apply andb_prop in H. destruct H as [_ H].
  exists from. split; [apply squares64_spec; exact Hf|exact H].
Qed.

Lemma ep_flag_sound b : Rep b -> normal_ep (abs b) = true -> ep b <> 0 -> legal_moves (abs b) <> [].
Proof.
  intros HR Hn He.
  assert (Hs : epsq (abs b) = Some (ep b)).
  { unfold abs. cbn [epsq]. destruct (N.eqb_spec (ep b) 0); [contradiction|reflexivity]. }
  destruct (normal_ep_move _ _ Hs Hn) as [from [Hf Hl]].
  destruct (rep_unpack b HR) as (_ & _ & _ & _ & _ & _ & Hep).
  apply (legal_moves_nonempty _ from (ep b) 0); try assumption. left. reflexivity.
Qed.

(* ------------------------------------------------------------------------------------------ *)
(* soundness of "false", branches proved so far *)

Theorem mate_sound_king_ep b : Rep b -> valid (abs b) = true -> normal_ep (abs b) = true ->
  mate_exit b = MKingStep \/ mate_exit b = MEnPassant -> legal_moves (abs b) <> [].
Proof.
  intros HR HV HN [H|H].
  - apply (king_step_legal_moves b HR HV). unfold mate_exit in H. cbv zeta in H.
    destruct (king_can_step b _ _ _ _) eqn:E; [reflexivity|].
    repeat match type of H with (if ?c then _ else _) = _ => destruct c end; discriminate.
  - apply (ep_flag_sound b HR HN). unfold mate_exit in H. cbv zeta in H.
    destruct (N.eqb_spec (ep b) 0) as [E|E]; [|exact E]. exfalso. cbn [negb andb] in H.
    repeat match type of H with (if ?c then _ else _) = _ => destruct c end; discriminate.
Qed.

Theorem mate_sound_capture b : Rep b -> valid (abs b) = true ->
  mate_exit b = MCapture -> legal_moves (abs b) <> [].
Proof.
  intros HR HV H. unfold mate_exit in H. cbv zeta in H.
  destruct (king_can_step b _ _ _ _); [discriminate|].
  destruct (1 <? popcount _) eqn:Hpop; [discriminate|].
  destruct (mate_capture_loop b _ _ _ _ _) eqn:Hloop.
  - exact (capture_exit_sound b HR HV Hpop Hloop).
  - repeat match type of H with (if ?c then _ else _) = _ => destruct c end; discriminate.
Qed.

Theorem mate_sound_partial b : Rep b -> valid (abs b) = true -> normal_ep (abs b) = true ->
  mate_exit b = MKingStep \/ mate_exit b = MCapture \/ mate_exit b = MEnPassant -> legal_moves (abs b) <> [].
Proof.
  intros HR HV HN [H|[H|H]].
  - apply (mate_sound_king_ep b HR HV HN). left. exact H.
  - apply (mate_sound_capture b HR HV H).
  - apply (mate_sound_king_ep b HR HV HN). right. exact H.
Qed.

Theorem mate_sound_block b : Rep b -> valid (abs b) = true -> in_check b (stm b) = true ->
  mate_exit b = MBlock -> legal_moves (abs b) <> [].
Proof.
  intros HR HV Hchk H. unfold mate_exit in H. cbv zeta in H.
  destruct (king_can_step b _ _ _ _); [discriminate|].
  destruct (1 <? popcount _) eqn:Hpop; [discriminate|].
  destruct (mate_capture_loop b _ _ _ _ _); [discriminate|].
  destruct (negb (ep b =? 0) && _); [discriminate|].
  destruct (mate_block_loop b _ _ _ _) eqn:Hloop; [|discriminate].
  exact (block_exit_sound b HR HV Hchk Hpop Hloop).
Qed.

(* the soundness direction of the checkmate test, complete: every "return false" exhibits a legal move *)
Theorem mate_sound b : Rep b -> valid (abs b) = true -> normal_ep (abs b) = true ->
  in_check b (stm b) = true -> is_checkmate b = false -> legal_moves (abs b) <> [].
Proof.
  intros HR HV HN Hchk H. rewrite is_checkmate_exit in H.
  destruct (mate_exit b) eqn:E; try discriminate.
  - apply (mate_sound_partial b HR HV HN). left. exact E.
  - apply (mate_sound_partial b HR HV HN). right. left. exact E.
  - apply (mate_sound_partial b HR HV HN). right. right. exact E.
  - apply (mate_sound_block b HR HV Hchk E).
Qed.

Theorem mate_complete_half b : Rep b -> valid (abs b) = true -> normal_ep (abs b) = true ->
  in_check b (stm b) = true -> legal_moves (abs b) = [] -> is_checkmate b = true.
Proof.
  intros HR HV HN Hchk Hno. destruct (is_checkmate b) eqn:E; [reflexivity|].
  exfalso. apply (mate_sound b HR HV HN Hchk E). exact Hno.
Qed.

Theorem stale_sound_king_ep b : Rep b -> valid (abs b) = true -> normal_ep (abs b) = true ->
  stale_exit b = SKingStep \/ stale_exit b = SEnPassant -> legal_moves (abs b) <> [].
Proof.
  intros HR HV HN [H|H].
  - apply (king_step_legal_moves b HR HV). unfold stale_exit in H. cbv zeta in H.
    change (bor (colors b (stm b)) (colors b (flip (stm b)))) with (bor (colors b (stm b)) (colors b (flip (stm b)))) in H.
    assert (Hocc : bor (colors b (stm b)) (colors b (flip (stm b))) = bor (colors b White) (colors b Black)).
    { destruct (stm b); cbn [flip]; [reflexivity|apply N.lor_comm]. }
    rewrite Hocc in H.
    destruct (king_can_step b _ _ _ _) eqn:E; [reflexivity|].
    repeat match type of H with (if ?c then _ else _) = _ => destruct c end; discriminate.
  - apply (ep_flag_sound b HR HN). unfold stale_exit in H. cbv zeta in H.
    unfold stale_ep in H.
    destruct (N.eqb_spec (ep b) 0) as [E|E]; [|exact E]. exfalso.
    repeat match type of H with (if ?c then _ else _) = _ => destruct c end; discriminate.
Qed.

(* IsStalemate: the exits of men that are not pinned *)
Theorem stale_sound_unpinned b : Rep b -> valid (abs b) = true -> in_check b (stm b) = false ->
  stale_exit b = SFreePawn \/ stale_exit b = SKnight -> legal_moves (abs b) <> [].
Proof.
  intros HR HV Hchk H.
  destruct (king_is_bit b HR HV (stm b)) as [k0 [Hk0 [Hking [Hholds Hwho]]]].
  assert (Hocc : bor (colors b (stm b)) (colors b (flip (stm b))) = occupancy b).
  { unfold occupancy. destruct (stm b); cbn [flip]; [reflexivity|apply N.lor_comm]. }
  unfold stale_exit in H. cbv zeta in H. rewrite Hocc, Hking, (lsb_bit k0 Hk0) in H.
  destruct (stale_free_pawn _ _ _ _) eqn:E1.
  - exact (free_pawn_exit_sound b HR HV Hchk k0 Hk0 Hking Hholds E1).
  - destruct (stale_queen _ _ _); [destruct H; discriminate|].
    destruct (stale_bishop _ _ _ _ _); [destruct H; discriminate|].
    destruct (stale_rook _ _ _ _ _); [destruct H; discriminate|].
    destruct (stale_knight _ _ _ _ _ _) eqn:E5.
    + exact (knight_exit_sound b HR HV Hchk k0 Hk0 Hking Hholds E5).
    + repeat match type of H with _ \/ _ => destruct H as [H|H] end;
        repeat match type of H with (if ?c then _ else _) = _ => destruct c end; discriminate.
Qed.

Theorem stale_sound_partial b : Rep b -> valid (abs b) = true -> normal_ep (abs b) = true ->
  in_check b (stm b) = false ->
  stale_exit b = SFreePawn \/ stale_exit b = SKnight \/ stale_exit b = SKingStep \/ stale_exit b = SEnPassant ->
  legal_moves (abs b) <> [].
Proof.
  intros HR HV HN Hchk [H|[H|[H|H]]].
  - apply (stale_sound_unpinned b HR HV Hchk). left. exact H.
  - apply (stale_sound_unpinned b HR HV Hchk). right. exact H.
  - apply (stale_sound_king_ep b HR HV HN). left. exact H.
  - apply (stale_sound_king_ep b HR HV HN). right. exact H.
Qed.

(* IsStalemate: the queen, bishop and rook loops *)
Lemma nocc_agrees b : Rep b -> forall d x, x <> d ->
  N.testbit (band (occupancy b) (bnot (bit d))) x = N.testbit (occupancy b) x.
Proof.
  intros HR d x Hx. unfold band. rewrite N.land_spec, bnot_testbit, bit_testbit.
  destruct (N.eqb_spec d x); [congruence|]. destruct (N.ltb_spec x 64) as [L|L]; [apply andb_true_r|].
  rewrite (occ_high b HR x L). reflexivity.
Qed.

Theorem stale_sound_sliders b : Rep b -> valid (abs b) = true -> in_check b (stm b) = false ->
  stale_exit b = SQueen \/ stale_exit b = SBishop \/ stale_exit b = SRook -> legal_moves (abs b) <> [].
Proof.
  intros HR HV Hchk H.
  destruct (king_is_bit b HR HV (stm b)) as [k0 [Hk0 [Hking [Hholds Hwho]]]].
  assert (Hocc : bor (colors b (stm b)) (colors b (flip (stm b))) = occupancy b).
  { unfold occupancy. destruct (stm b); cbn [flip]; [reflexivity|apply N.lor_comm]. }
  unfold stale_exit in H. cbv zeta in H. rewrite Hocc, Hking, (lsb_bit k0 Hk0) in H.
  assert (Hown_lt : forall s, N.testbit (colors b (stm b)) s = true -> s < 64).
  { intros s Hs. destruct (N.lt_ge_cases s 64) as [L|L]; [exact L|]. rewrite (colors_high b HR _ s L) in Hs. discriminate. }
  destruct (stale_free_pawn _ _ _ _); [destruct H as [H|[H|H]]; discriminate|].
  destruct (stale_queen _ _ _) eqn:EQ.
  { (* queen *)
    unfold stale_queen in EQ. apply existsb_exists in EQ. destruct EQ as [d [Hdin Htg]].
    apply bits_of_spec in Hdin. unfold band in Hdin. rewrite N.land_spec in Hdin. apply andb_prop in Hdin. destruct Hdin as [Hpc Hdown].
    pose proof (Hown_lt d Hdown) as Hd.
    apply band_some in Htg. destruct Htg as [t [Hatt Hn]]. rewrite bnot_testbit in Hn. apply andb_prop in Hn.
    destruct Hn as [Ht Hn]. apply N.ltb_lt in Ht. apply negb_true_iff in Hn.
    assert (Hw : who (abs b) d = Some (stm b, Queen)) by (apply (who_abs_intro b HR); try assumption; unfold Queen; lia).
    apply (slider_piece_sound b HR Hchk k0 Hk0 Hking Hholds d Queen t Hd Hw (or_intror (or_intror eq_refl)) Ht Hn).
    - unfold mem. change (attacks_from (stm b) Queen d (occupancy b)) with (N.lor (rook_attacks d (occupancy b)) (bishop_attacks d (occupancy b))).
      unfold bor, bishop_moves, rook_moves in Hatt. rewrite N.lor_spec in *. rewrite orb_comm. exact Hatt.
    - intros E. unfold Queen, Bishop in E. discriminate.
    - intros E. unfold Queen, Rook in E. discriminate. }
  destruct (stale_bishop _ _ _ _ _) eqn:EB.
  { (* bishop *)
    unfold stale_bishop in EB. apply existsb_exists in EB. destruct EB as [d [Hdin Htg]].
    apply bits_of_spec in Hdin. unfold band in Hdin. rewrite N.land_spec in Hdin. apply andb_prop in Hdin. destruct Hdin as [Hpc Hdown].
    pose proof (Hown_lt d Hdown) as Hd. cbv zeta in Htg. apply andb_prop in Htg. destruct Htg as [Hline Htg].
    apply band_some in Htg. destruct Htg as [t [Hatt Hn]]. rewrite bnot_testbit in Hn. apply andb_prop in Hn.
    destruct Hn as [Ht Hn]. apply N.ltb_lt in Ht. apply negb_true_iff in Hn.
    assert (Hw : who (abs b) d = Some (stm b, Bishop)) by (apply (who_abs_intro b HR); try assumption; unfold Bishop; lia).
    apply (slider_piece_sound b HR Hchk k0 Hk0 Hking Hholds d Bishop t Hd Hw (or_introl eq_refl) Ht Hn).
    - unfold mem. change (attacks_from (stm b) Bishop d (occupancy b)) with (bishop_attacks d (occupancy b)).
      unfold bishop_moves in Hatt. rewrite <- Hatt. symmetry. apply (bishop_ext d t _ _ Hd Ht).
      intros x Hx _. apply (nocc_agrees b HR d x Hx).
    - intros _. exact Hline.
    - intros E. unfold Bishop, Rook in E. discriminate. }
  destruct (stale_rook _ _ _ _ _) eqn:ER.
  { (* rook *)
    unfold stale_rook in ER. apply existsb_exists in ER. destruct ER as [d [Hdin Htg]].
    apply bits_of_spec in Hdin. unfold band in Hdin. rewrite N.land_spec in Hdin. apply andb_prop in Hdin. destruct Hdin as [Hpc Hdown].
    pose proof (Hown_lt d Hdown) as Hd. cbv zeta in Htg. apply andb_prop in Htg. destruct Htg as [Hdiag Htg].
    apply band_some in Htg. destruct Htg as [t [Hatt Hn]]. rewrite bnot_testbit in Hn. apply andb_prop in Hn.
    destruct Hn as [Ht Hn]. apply N.ltb_lt in Ht. apply negb_true_iff in Hn.
    assert (Hw : who (abs b) d = Some (stm b, Rook)) by (apply (who_abs_intro b HR); try assumption; unfold Rook; lia).
    apply (slider_piece_sound b HR Hchk k0 Hk0 Hking Hholds d Rook t Hd Hw (or_intror (or_introl eq_refl)) Ht Hn).
    - unfold mem. change (attacks_from (stm b) Rook d (occupancy b)) with (rook_attacks d (occupancy b)).
      unfold rook_moves in Hatt. rewrite <- Hatt. symmetry. apply (rook_ext d t _ _ Hd Ht).
      intros x Hx _. apply (nocc_agrees b HR d x Hx).
    - intros E. unfold Bishop, Rook in E. discriminate.
    - intros _. exact Hdiag. }
  destruct H as [H|[H|H]];
    repeat match type of H with (if ?c then _ else _) = _ => destruct c end; discriminate.
Qed.

(* IsStalemate: the "maybe pinned pawns" loop *)
Theorem stale_sound_pinned_pawn b : Rep b -> valid (abs b) = true -> in_check b (stm b) = false ->
  stale_exit b = SPinnedPawn -> legal_moves (abs b) <> [].
Proof.
  intros HR HV Hchk H.
  destruct (king_is_bit b HR HV (stm b)) as [k0 [Hk0 [Hking [Hholds Hwho]]]].
  assert (Hocc : bor (colors b (stm b)) (colors b (flip (stm b))) = occupancy b).
  { unfold occupancy. destruct (stm b); cbn [flip]; [reflexivity|apply N.lor_comm]. }
  unfold stale_exit in H. cbv zeta in H. rewrite Hocc, Hking, (lsb_bit k0 Hk0) in H.
  destruct (stale_free_pawn _ _ _ _); [discriminate|].
  destruct (stale_queen _ _ _); [discriminate|].
  destruct (stale_bishop _ _ _ _ _); [discriminate|].
  destruct (stale_rook _ _ _ _ _); [discriminate|].
  destruct (stale_knight _ _ _ _ _ _); [discriminate|].
  destruct (king_can_step _ _ _ _ _); [discriminate|].
  destruct (stale_pinned_pawn _ _ _ _ _ _) eqn:E; [|destruct (stale_ep _ _ _ _ _); discriminate].
  clear H. unfold stale_pinned_pawn in E. apply existsb_exists in E. destruct E as [d [Hdin E]].
  apply bits_of_spec in Hdin. unfold band in Hdin. rewrite !N.land_spec in Hdin.
  apply andb_prop in Hdin. destruct Hdin as [Hdin _]. apply andb_prop in Hdin. destruct Hdin as [Hpc Hdown].
  assert (Hd : d < 64).
  { destruct (N.lt_ge_cases d 64) as [L|L]; [exact L|]. rewrite (colors_high b HR _ d L) in Hdown. discriminate. }
  assert (Hw : who (abs b) d = Some (stm b, Pawn)) by (apply (who_abs_intro b HR); try assumption; unfold Pawn; lia).
  cbv zeta in E.
  match type of E with (if ?c then _ else _) = true => destruct c eqn:C end.
  - apply andb_prop in C. destruct C as [C1 C2]. apply negb_true_iff in C1.
    exact (pinned_push_sound b HR HV Hchk k0 Hk0 Hking Hholds d Hd Hw C1 C2).
  - apply andb_prop in E. destruct E as [E1 E2]. apply negb_true_iff in E1.
    exact (pinned_capture_sound b HR HV Hchk k0 Hk0 Hking Hholds d Hd Hw E1 E2).
Qed.

(* the soundness direction of the stalemate test, complete: every "return false" exhibits a legal move *)
Theorem stale_sound b : Rep b -> valid (abs b) = true -> normal_ep (abs b) = true ->
  in_check b (stm b) = false -> is_stalemate b = false -> legal_moves (abs b) <> [].
Proof.
  intros HR HV HN Hchk H. rewrite is_stalemate_exit in H.
  destruct (stale_exit b) eqn:E; try discriminate.
  - apply (stale_sound_unpinned b HR HV Hchk). left. exact E.
  - apply (stale_sound_sliders b HR HV Hchk). left. exact E.
  - apply (stale_sound_sliders b HR HV Hchk). right. left. exact E.
  - apply (stale_sound_sliders b HR HV Hchk). right. right. exact E.
  - apply (stale_sound_unpinned b HR HV Hchk). right. exact E.
  - apply (stale_sound_king_ep b HR HV HN). left. exact E.
  - apply (stale_sound_pinned_pawn b HR HV Hchk E).
  - apply (stale_sound_king_ep b HR HV HN). right. exact E.
Qed.

Theorem stale_complete_half b : Rep b -> valid (abs b) = true -> normal_ep (abs b) = true ->
  in_check b (stm b) = false -> legal_moves (abs b) = [] -> is_stalemate b = true.
Proof.
  intros HR HV HN Hchk Hno. destruct (is_stalemate b) eqn:E; [reflexivity|].
  exfalso. apply (stale_sound b HR HV HN Hchk E). exact Hno.
Qed.

(* the property follows from the proved half and the converse *)
Theorem statement_from_converse :
  (forall b : board, Rep b -> valid (abs b) = true -> normal_ep (abs b) = true ->
    (in_check b (stm b) = true -> is_checkmate b = true -> legal_moves (abs b) = []) /\
    (in_check b (stm b) = false -> is_stalemate b = true -> legal_moves (abs b) = [])) ->
  forall b : board, Rep b -> valid (abs b) = true -> normal_ep (abs b) = true ->
    (in_check b (stm b) = true -> (is_checkmate b = true <-> legal_moves (abs b) = [])) /\
    (in_check b (stm b) = false -> (is_stalemate b = true <-> legal_moves (abs b) = [])).
Proof.
  intros Hc b HR HV HN. destruct (Hc b HR HV HN) as [C1 C2]. split; intros Hchk; split.
  - apply C1. exact Hchk.
  - apply (mate_complete_half b HR HV HN Hchk).
  - apply C2. exact Hchk.
  - apply (stale_complete_half b HR HV HN Hchk).
Qed.

(* IsCheckmate, both directions, for positions without an en-passant target *)
Lemma normal_ep_noep b : ep b = 0 -> normal_ep (abs b) = true.
Proof. intros H. unfold normal_ep, abs. cbn [epsq]. rewrite H. reflexivity. Qed.

Theorem mate_iff_noep b : Rep b -> valid (abs b) = true -> ep b = 0 -> in_check b (stm b) = true ->
  (is_checkmate b = true <-> legal_moves (abs b) = []).
Proof.
  intros HR HV He Hchk. split.
  - intros H. exact (mate_converse_noep b HR HV He Hchk H).
  - apply (mate_complete_half b HR HV (normal_ep_noep b He) Hchk).
Qed.

(* IsCheckmate, both directions: the first half of the property, complete *)
Theorem mate_iff b : Rep b -> valid (abs b) = true -> normal_ep (abs b) = true -> in_check b (stm b) = true ->
  (is_checkmate b = true <-> legal_moves (abs b) = []).
Proof.
  intros HR HV HN Hchk. split.
  - intros H. destruct (N.eq_dec (ep b) 0) as [E|E].
    + exact (mate_converse_noep b HR HV E Hchk H).
    + exfalso. exact (mate_converse_ep b HR HV HN E Hchk H).
  - apply (mate_complete_half b HR HV HN Hchk).
Qed.

(* IsStalemate, both directions: the second half of the property, complete *)
Theorem stale_iff b : Rep b -> valid (abs b) = true -> normal_ep (abs b) = true -> in_check b (stm b) = false ->
  (is_stalemate b = true <-> legal_moves (abs b) = []).
Proof.
  intros HR HV HN Hchk. split.
  - intros H. destruct (N.eq_dec (ep b) 0) as [E|E].
    + exact (stale_converse_noep b HR HV E Hchk H).
    + exfalso. exact (stale_converse_ep b HR HV HN E Hchk H).
  - apply (stale_complete_half b HR HV HN Hchk).
Qed.

(* property C09 at full strength *)
Theorem c09_full : forall b : board, Rep b -> valid (abs b) = true -> normal_ep (abs b) = true ->
    (in_check b (stm b) = true -> (is_checkmate b = true <-> legal_moves (abs b) = [])) /\
    (in_check b (stm b) = false -> (is_stalemate b = true <-> legal_moves (abs b) = [])).
Proof.
  intros b HR HV HN. split; intros Hchk.
  - apply (mate_iff b HR HV HN Hchk).
  - apply (stale_iff b HR HV HN Hchk).
Qed.
