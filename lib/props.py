"""Per-property configuration and the generic run of one property check."""
import json, os, re, time
import vcheck as V


class StreamCfg:
    def __init__(self, name, quick, thorough, judge=None, rule="", model=True, race=False):
        self.name, self.quick, self.thorough, self.judge, self.rule = name, quick, thorough, judge, rule
        self.model = model      # False: implementation-only stream judged by `judge`
        self.race = race


class Prop:
    def __init__(self, pid, title, coq, streams, allowed_axioms=(), trusted=(), assumptions=(),
                 extra=None, classify=None, design_ref=""):
        self.pid, self.title, self.coq, self.streams = pid, title, coq, streams
        self.allowed_axioms = set(allowed_axioms)
        self.trusted, self.assumptions = list(trusted), list(assumptions)
        self.extra = extra          # callable(prop, res) for property specific steps
        self.classify = classify    # callable(witness dict) -> known-finding id or None
        self.design_ref = design_ref


COMMON_TRUSTED = [
    "Coq 8.16.1 kernel (coqc, full .vo build; vm_compute for finite sweeps; no native_compute)",
    "translator /verif/harness/cmd/gen (Go compiler evaluating the repo's own constants through the verif hooks) -> coq/Gen/*.v, regenerated on this run",
    "extraction: Require ExtrOcamlBasic only (its Extract Inductive bool/option/unit/prod/list/sumbool/sumor and Extract Inlined Constant andb/orb/negb/fst/snd...); N, Z, positive, nat stay inductive; generic OCaml driver Extract/driver.ml (hex <-> positive, no arithmetic)",
    "correspondence harness /verif/harness (Go, built from /repo's working tree with -tags verif) and the line diff in lib/vcheck.py",
]

PROPS = {}


def reg(p):
    PROPS[p.pid] = p


# ------------------------------------------------------------------------------------------------
# generic run

def check_obligations(prop, res):
    """Re-check the property's theorems against the regenerated Gen files."""
    rel = prop.coq
    names = V.theorem_names(rel)
    res.obligations = len(names)
    res.theorems = names
    ok, out = V.coq_make([rel[:-2] + ".vo"])
    with open(os.path.join(V.BUILD, "logs", f"{prop.pid}-make.log"), "w") as f:
        f.write(out)
    if not ok:
        loc = V.locate_failure(out) or {"file": rel, "statement": None, "error": out[-800:]}
        res.broken.append({"kind": "obligation", "name": f"{loc.get('file')}:{loc.get('statement')}", "detail": loc})
        V.log(f"proof obligation broken: {loc.get('file')} {loc.get('statement')}")
        return False
    ok, out = V.coqc_file(rel)
    if not ok:
        loc = V.locate_failure(out) or {"file": rel, "statement": None, "error": out[-800:]}
        res.broken.append({"kind": "obligation", "name": f"{loc.get('file')}:{loc.get('statement')}", "detail": loc})
        return False
    blocks = V.parse_assumptions(out)
    axioms = sorted(set(a for b in blocks for a in b))
    res.assumptions = axioms
    res.assumption_blocks = len(blocks)
    unexpected = [a for a in axioms if a not in prop.allowed_axioms]
    if unexpected:
        res.broken.append({"kind": "obligation", "name": "Print Assumptions allow-list",
                           "detail": {"unexpected_axioms": unexpected}})
        return False
    res.discharged = len(names)
    return True


def run_stream(prop, res, sc, workdir):
    n = sc.quick if res.tier == "quick" else sc.thorough
    prefix = os.path.join(workdir, sc.name)
    info = {"stream": sc.name, "requested": n}
    t0 = time.time()
    # corpus (minimised earlier failures) first
    corpus = os.path.join(V.VERIF, "corpus", sc.name + ".in")
    rc, out = V.run_h(["gen", sc.name, str(n), res.tier, prefix], race=sc.race)
    if rc != 0:
        res.broken.append({"kind": "correspondence", "name": f"stream {sc.name}: harness failed",
                           "detail": {"log": out[-2000:]}})
        return info
    if os.path.exists(corpus):
        cin = V.read_lines(corpus)
        cin = [l for l in cin if l.strip() and not l.startswith("#")]
        rc, cout = V.run_h(["run", sc.name], inp="\n".join(cin) + "\n")
        couts = cout.split("\n")[:len(cin)]
        # prepend
        for suf, extra in ((".in", cin), (".impl", couts), (".desc", ["corpus"] * len(cin))):
            body = open(prefix + suf).read()
            with open(prefix + suf, "w") as f:
                f.write("\n".join(extra) + "\n" + body)
        info["corpus"] = len(cin)
    stats = json.load(open(prefix + ".stats.json"))
    info["harness_s"] = round(time.time() - t0, 2)
    ins, impl, desc = (V.read_lines(prefix + s) for s in (".in", ".impl", ".desc"))
    res.evaluations += len(ins)
    res.distinct += stats.get("distinct_nontrivial", 0)
    for k, v in stats.get("tags", {}).items():
        res.tags[f"{sc.name}:{k}"] = v
    if ins:
        for j in (0, len(ins) // 2, len(ins) - 1):
            res.samples.append({"stream": sc.name, "input": desc[j] if j < len(desc) else ins[j], "impl": impl[j][:200]})
    info.update(cases=len(ins), distinct_nontrivial=stats.get("distinct_nontrivial", 0))
    mism = []
    if sc.model:
        t1 = time.time()
        rc, err = V.run_model_sharded(sc.name, prefix + ".in", prefix + ".model")
        info["model_s"] = round(time.time() - t1, 2)
        if rc != 0:
            res.broken.append({"kind": "correspondence", "name": f"stream {sc.name}: modelrun failed",
                               "detail": {"log": err[-2000:]}})
            return info
        n_cmp, mism = V.compare(prefix)
        info["compared"] = n_cmp
        info["mismatches"] = len(mism)
        if mism:
            res.broken.append({"kind": "correspondence", "name": f"stream {sc.name}: model and implementation disagree",
                               "detail": {"count": len(mism), "first": mism[:3]}})
            V.log(f"correspondence {sc.name}: {len(mism)} mismatches, first: {mism[0]['desc']} impl={mism[0]['impl'][:120]} model={mism[0]['model'][:120]}")
    info["_mism"] = mism
    info["_prefix"] = prefix
    return info


def witness_search(prop, res, infos):
    """Run the property judges over everything the streams observed on the implementation."""
    found = 0
    for sc, info in infos:
        if not sc.judge or "_prefix" not in info:
            continue
        prefix = info["_prefix"]
        ins, impl, desc = (V.read_lines(prefix + s) for s in (".in", ".impl", ".desc"))
        bad = V.judge(sc.judge, ins, impl, os.path.dirname(prefix), sc.name)
        info["judged"] = len(ins)
        info["judge_failures"] = len(bad)
        seen = set()
        for idx, verdict in bad:
            w = {"stream": sc.name, "input": ins[idx], "desc": desc[idx] if idx < len(desc) else "",
                 "impl_output": impl[idx], "verdict": verdict,
                 "replay_hint": f"echo '{ins[idx]}' | build/bin/h run {sc.name}"}
            kid = prop.classify(w) if prop.classify else None
            if kid:
                if kid not in seen:
                    seen.add(kid)
                    res.known.append((kid, w))
                continue
            cls = verdict
            if cls in seen:
                continue
            seen.add(cls)
            found += 1
            res.add_violation("witness", w, True)
            if found >= 5:
                break
    return found


def write_evidence(prop, res, infos, checker_cmd):
    cov = {
        "obligations": max(res.obligations, 1),
        "discharged": res.discharged,
        "checker_cmd": checker_cmd,
        "trusted_base": COMMON_TRUSTED + prop.trusted + [
            "axioms reported by Print Assumptions on this run: " + (", ".join(res.assumptions) if res.assumptions else "none (Closed under the global context)")],
        "theorems": getattr(res, "theorems", []),
        "evaluations": res.evaluations,
        "distinct_nontrivial": res.distinct,
        "rule": "; ".join(f"{sc.name}: {sc.rule}" for sc, _ in infos if sc.rule),
        "samples": res.samples[:12] or [{"note": "no correspondence stream ran"}],
        "input_distribution": res.tags,
        "streams": [{k: v for k, v in info.items() if not k.startswith("_")} for _, info in infos],
        "broken": [b["name"] for b in res.broken],
        "known_findings_reported": [k for k, _ in res.known],
        "notes": res.notes,
    }
    if cov["discharged"] < 1:
        # schema: a proof-level file with discharged = 0 is not valid; fall back to the generic keys
        cov["discharged_count"] = cov.pop("discharged")
    ev = {
        "property_id": prop.pid,
        "tier": res.tier,
        "seed": res.seed,
        "level": "proof",
        "coverage": cov,
        "assumptions": prop.assumptions,
        "wall_s": round(time.time() - res.t0, 2),
        "violations": len(res.violations),
    }
    os.makedirs(os.path.join(V.VERIF, "evidence"), exist_ok=True)
    with open(os.path.join(V.VERIF, "evidence", f"{prop.pid}.json"), "w") as f:
        json.dump(ev, f, indent=1)


def run(prop, res):
    workdir = os.path.join(V.BUILD, "run", f"{prop.pid}-{res.tier}")
    os.makedirs(workdir, exist_ok=True)
    os.makedirs(os.path.join(V.BUILD, "logs"), exist_ok=True)
    checker_cmd = (f"make -C coq -j16 {prop.coq[:-2]}.vo && coqc -Q coq Chess3 coq/{prop.coq}  "
                   f"(Print Assumptions under every theorem; hygiene grep over coq/**/*.v)")
    proofs_ok = check_obligations(prop, res)
    bad = V.hygiene()
    if bad:
        res.broken.append({"kind": "obligation", "name": "hygiene (Admitted/Axiom/...)", "detail": {"hits": bad[:20]}})
    infos = []
    model_ok = True
    try:
        V.build_modelrun()
    except V.BuildError as e:
        model_ok = False
        loc = V.locate_failure(e.log) or {}
        res.broken.append({"kind": "correspondence", "name": f"executable model does not build ({e.stage})",
                           "detail": {"log": e.log[-1500:], **loc}})
    for sc in prop.streams:
        if sc.model and not model_ok:
            # still run the implementation side so that the witness search has observations
            sc2 = StreamCfg(sc.name, sc.quick, sc.thorough, sc.judge, sc.rule, model=False, race=sc.race)
            infos.append((sc, run_stream(prop, res, sc2, workdir)))
        else:
            infos.append((sc, run_stream(prop, res, sc, workdir)))
    if prop.extra:
        prop.extra(prop, res, workdir)
    if res.tier == "thorough" and os.environ.get("VERIF_COQCHK", "1") == "1" and proofs_ok:
        rc, out = V.sh(["coqchk", "-silent", "-o", "-Q", ".", "Chess3", "Chess3." + prop.coq[:-2].replace("/", ".")],
                       cwd=V.COQ, timeout=5400)
        with open(os.path.join(V.BUILD, "logs", f"{prop.pid}-coqchk.log"), "w") as f:
            f.write(out)
        res.notes.append("coqchk -silent -o: " + ("ok" if rc == 0 else "FAILED") + "; " +
                         " ".join(out.strip().split("\n")[-12:])[:1500])
        if rc != 0:
            res.broken.append({"kind": "obligation", "name": "coqchk", "detail": {"log": out[-1500:]}})
    # witness search: after any break, and always in the thorough tier (and always when cheap)
    if model_ok and (res.broken or res.tier == "thorough" or True):
        witness_search(prop, res, infos)
    rc = 0
    for kid, w in res.known:
        print(f"KNOWN-FINDING: property={prop.pid} {kid} {w.get('desc', '')[:200]}")
    if res.broken and not res.violations:
        res.add_violation("unchecked", {"no_longer_checks": res.broken,
                                        "note": "a proof obligation or a correspondence broke and the witness search found no input on which the property fails"}, False)
    for path, found in res.violations:
        rc = 1
        print(f"VIOLATION property={prop.pid} replay={path}" + ("" if found else " no-failing-input-found"))
    write_evidence(prop, res, infos, checker_cmd)
    V.log(f"{prop.pid} {res.tier}: obligations {res.discharged}/{res.obligations}, cases {res.evaluations}, "
          f"violations {len(res.violations)}, {round(time.time() - res.t0, 1)} s")
    return rc


def replay(prop, res, path):
    body = json.load(open(path))
    if body.get("kind") == "witness":
        stream = body["stream"]
        sc = [s for s in prop.streams if s.name == stream][0]
        rc, out = V.run_h(["run", stream], inp=body["input"] + "\n")
        impl = out.strip().split("\n")[0]
        print("input :", body.get("desc") or body["input"])
        print("impl  :", impl)
        try:
            V.build_modelrun()
            wd = os.path.join(V.BUILD, "run", "replay")
            os.makedirs(wd, exist_ok=True)
            bad = V.judge(sc.judge, [body["input"]], [impl], wd, "replay") if sc.judge else []
        except V.BuildError as e:
            print("model does not build:", e.stage)
            return 1
        if bad:
            print(f"VIOLATION property={prop.pid} replay={path}")
            return 1
        print("property holds on this input now")
        return 0
    # unchecked obligation/correspondence: re-run the quick check
    return run(prop, res)


# ------------------------------------------------------------------------------------------------
# the properties

reg(Prop("C14", "Time budget granted to a search never exceeds the clock", "Properties/C14.v",
         [StreamCfg("c14", 20000, 400000, judge="judge_c14",
                    rule="dense grid remaining in -2..257 x 15 increments x colour x 8 move times plus random "
                         "(small, 10^12-range, wild 64-bit) clock states; non-trivial = mover has a clock or a move time; "
                         "distinct by input tuple")],
         trusted=["hook uci/export_verif.go (VerifSoftLimit/VerifHardLimit/VerifTimedMode call the unexported methods)",
                  "modelled, not verified: arming of time.Timer and the wall clock (runtime); see C13 for the protocol side"],
         assumptions=["remaining time 1..9*10^12 ms, increment 0..2^60 ms (superset of the stated 10^12 / 10^9 domain)",
                      "time.Duration(h)*time.Millisecond is int64 multiplication by 10^6"],
         design_ref="5/C14"))


# ------------------------------------------------------------------------------------------------
# C19

def c19_extra(prop, res, workdir):
    """Evidence note: the largest |float - white_relative(int)| the run observed (stream c19env)."""
    import struct
    prefix = os.path.join(workdir, "c19env")
    if not os.path.exists(prefix + ".impl"):
        return
    mx, arg, n = -1.0, "", 0
    desc = V.read_lines(prefix + ".desc")
    for i, line in enumerate(V.read_lines(prefix + ".impl")):
        t = line.split()
        if len(t) != 10 or t[0].startswith("-"):
            continue
        try:
            stm, iv = int(t[0], 16), int(t[4], 16)
            fl = struct.unpack(">d", bytes.fromhex(t[7].zfill(16)))[0]
        except ValueError:
            continue
        d = abs(fl - (iv if stm == 0 else -iv))
        n += 1
        if d > mx:
            mx, arg = d, desc[i] if i < len(desc) else ""
    res.notes.append(f"c19env: max observed |EngineRep.Eval - white_relative(Eval[Score])| = {mx:.6f} cp over {n} positions "
                     f"(envelope 2.25; proved bound for the real-number model 2.0) at: {arg[:300]}")


# exactly what Print Assumptions prints under the theorems of Properties/C19.v that use the real numbers
# (Coq.Reals: the three classical axioms of the Dedekind reals; Interval tactic: primitive floats and 63-bit
# integers with their specification axioms).  None is declared by this development; the theorems of part (b)
# and C19_envelope_partial_int16 are closed under the global context.
C19_AXIOMS = [
    "ClassicalDedekindReals.sig_forall_dec", "ClassicalDedekindReals.sig_not_dec", "Classical_Prop.classic",
    "FloatAxioms.Prim2SF_SF2Prim", "FloatAxioms.Prim2SF_valid", "FloatAxioms.SF2Prim_Prim2SF",
    "FloatAxioms.abs_spec", "FloatAxioms.add_spec", "FloatAxioms.classify_spec",
    "FloatAxioms.compare_spec", "FloatAxioms.div_spec", "FloatAxioms.eqb_spec",
    "FloatAxioms.frshiftexp_spec", "FloatAxioms.ldshiftexp_spec", "FloatAxioms.ltb_spec",
    "FloatAxioms.mul_spec", "FloatAxioms.next_down_spec", "FloatAxioms.next_up_spec",
    "FloatAxioms.normfr_mantissa_spec", "FloatAxioms.of_uint63_spec", "FloatAxioms.opp_spec",
    "FloatAxioms.sqrt_spec", "FloatAxioms.sub_spec", "FunctionalExtensionality.functional_extensionality_dep",
    "PrimFloat.abs", "PrimFloat.add", "PrimFloat.classify",
    "PrimFloat.compare", "PrimFloat.div", "PrimFloat.eqb",
    "PrimFloat.float", "PrimFloat.frshiftexp", "PrimFloat.ldshiftexp",
    "PrimFloat.ltb", "PrimFloat.mul", "PrimFloat.next_down",
    "PrimFloat.next_up", "PrimFloat.normfr_mantissa", "PrimFloat.of_uint63",
    "PrimFloat.opp", "PrimFloat.sqrt", "PrimFloat.sub",
    "PrimInt63.add", "PrimInt63.eqb", "PrimInt63.int",
    "PrimInt63.land", "PrimInt63.leb", "PrimInt63.lor",
    "PrimInt63.lsl", "PrimInt63.lsr", "PrimInt63.ltb",
    "PrimInt63.sub", "Uint63.add_spec", "Uint63.eqb_correct",
    "Uint63.eqb_refl", "Uint63.land_spec", "Uint63.leb_spec",
    "Uint63.lor_spec", "Uint63.lsl_spec", "Uint63.lsr_spec",
    "Uint63.ltb_spec", "Uint63.of_to_Z", "Uint63.sub_spec",
]

reg(Prop("C19", "The tuner optimises the same evaluation the engine plays with", "Properties/C19.v",
         [StreamCfg("c19env", 3000, 120000, judge="judge_c19env", model=False,
                    rule="positions G1 (play-outs) / G2 (sparse, promoted material) / G4 (mutations) plus hand-made "
                         "bare-king, insufficient-material, KNBvK and heavy-material positions, a third of them with the "
                         "halfmove clock overridden to 1..150; each evaluated by Eval[Score] on three loadings (restored with "
                         "hash history, without hash, board.ParseFEN) and by Eval[float64]/EngineRep.Eval with EngineCoeffs() on "
                         "the no-hash board, the ParseFEN board and the epd.Parse board; non-trivial = not a dead-draw "
                         "material balance; distinct by FEN"),
          StreamCfg("c19z", 400, 20000,
                    rule="same generator; Go Eval[Score] on the no-hash board against the wrapping int16 model eval_Z, the "
                         "non-wrapping model eval_U and the no_wrap hypothesis of the envelope theorem"),
          StreamCfg("c19vec", 63, 140000, judge="judge_c19vec",
                    rule="target lists: default targets (tuner order), all fields, none, unknown name, every single field, "
                         "random subsets in random order with duplicates and unknown names (thorough: every one of the 2^17 "
                         "subsets and every index of the default vector); mode 0 write/read-back/TunedParams on the zero struct, "
                         "mode 1 the finite-difference perturbation of client.go on EngineCoeffs(), mode 2 EngineCoeffs() itself; "
                         "non-trivial = at least one target or mode 2; distinct by input")],
         allowed_axioms=C19_AXIOMS,
         trusted=["hooks eval/export_verif.go (VerifSigm, VerifSideOfBoard, VerifInsufficientMat), board/export_verif.go (snapshot/restore)",
                  "tools/tuner/{tuning,epd,checksum} compiled from the working tree in a scratch module (the rest of the tuner module does not build offline)",
                  "coefficient positions on the Go side are offsets in the memory image of the struct (unsafe), i.e. Go's declaration-order layout of a struct of float64 arrays is trusted",
                  "modelled, not verified: reflect (field order = declaration order, Array/Float64 kinds), math.Exp, float64 arithmetic"],
         assumptions=["float64 ~ real numbers: the IEEE-754 rounding of the <= 10^3 float operations of one evaluation (magnitudes <= 10^7) and of math.Exp "
                      "is NOT modelled; it is far below the 0.24 cp that the 2.25 envelope leaves above the proved real-number bound 2.0 (named assumption float64_real_gap)",
                      "halfmove clock 0..200 (|100 - clock| <= 100); outside it the taper factor exceeds 1",
                      "no int16 overflow in the integer evaluation (hypothesis no_wrap of the partial theorem, evaluated on every case of stream c19z)"],
         extra=c19_extra, design_ref="5/C19"))
