(* Executable model of /repo/heur/see.go (heur.SEE): a line-by-line transliteration. Definitions only.

   Go's Score is int16: every arithmetic operation on a Score is followed by [wrap16] here.  Bitboards
   are 64-bit words on N (Base/Bits.v).  The piece values come from Gen/SeeConsts.v (regenerated from
   heur/heur.go on every run).  The attack primitives are Model/Att.v (property C12 ties them to the
   engine's magic tables; the c18 stream runs the real tables against this model).

   The `for { ... switch start[stm] { case Pawn: ... fallthrough ... } }` loop of see.go is modelled
   by [see_iter] (one recursion per loop iteration, fuel 66 > the 64 bits of [occ] that an iteration
   which does not return clears one of), [see_step] (the switch with its fallthroughs) and
   [capture_with] (the block that is repeated for Pawn, Knight, Bishop, Rook and Queen:
       fromBB = stmAttackers & b.Pieces[P]
       if fromBB != 0 { swap = PieceValues[P] - swap; if swap < res { return res == 1 }
                        occ &= ^(fromBB & -fromBB); attackers |= <sliders rediscovered for P>; break }).

   [see_loop] is the pure list core: the same early-exit / res toggle / `swap < res` arithmetic run
   over the sequence of captured values instead of over the board. *)
From Coq Require Import NArith ZArith List Bool.
From Chess3 Require Import Base.Bits Base.Word Model.Types Model.Att Model.BoardDef Model.Board Gen.SeeConsts.
Import ListNotations.
Open Scope N_scope.

(* PieceValues[p] (the Go array has 7 entries; an index above 6 panics, see [see_panics]) *)
Definition pval (p : N) : Z := nth (N.to_nat p) PieceValues 0%Z.

(* x & -x *)
Definition isolate_lsb (x : N) : N := band x (neg64 x).

(* attacks.BishopMoves(to, occ) & (b.Pieces[Bishop] | b.Pieces[Queen]) *)
Definition disc_diag (b : board) (to occ : N) : N :=
  band (bishop_moves to occ) (bor (pieces b Bishop) (pieces b Queen)).
(* attacks.RookMoves(to, occ) & (b.Pieces[Rook] | b.Pieces[Queen]) *)
Definition disc_line (b : board) (to occ : N) : N :=
  band (rook_moves to occ) (bor (pieces b Rook) (pieces b Queen)).

(* what one pass through the switch does *)
Inductive outcome :=
| Return (r : bool)                  (* return r *)
| Next (occ att : N) (swap : Z).     (* break out of the switch with the updated variables *)

(* the block for piece kind p; None = "fromBB == 0", control moves on to the next block *)
Definition capture_with (b : board) (to p : N) (stmAtt occ att : N) (swap res : Z) : option outcome :=
  let fromBB := band stmAtt (pieces b p) in
  if fromBB =? 0 then None else
  let swap := wrap16 (pval p - swap) in
  if (swap <? res)%Z then Some (Return (res =? 1)%Z) else
  let occ := band occ (bnot (isolate_lsb fromBB)) in
  let att :=
    if (p =? Pawn) || (p =? Bishop) then bor att (disc_diag b to occ)
    else if p =? Rook then bor att (disc_line b to occ)
    else if p =? Queen then bor att (bor (disc_diag b to occ) (disc_line b to occ))
    else att (* Knight: nothing can be discovered *) in
  Some (Next occ att swap).

(* switch start[stm] { case Pawn: ...; fallthrough; case Knight: ...; fallthrough; case Bishop: ... }
   returns the outcome and the new value of start[stm].  start[stm] only ever holds Pawn, Knight or
   Bishop; any other value is treated like Bishop here (in Go no case would match). *)
Definition see_step (b : board) (to : N) (stm : color) (occ att : N) (swap res : Z) (start : N) : outcome * N :=
  let stmAtt := band att (colors b stm) in
  let try p := capture_with b to p stmAtt occ att swap res in
  let case_bishop (_ : unit) :=
    match try Bishop with Some o => (o, Bishop) | None =>
    match try Rook with Some o => (o, Bishop) | None =>
    match try Queen with Some o => (o, Bishop) | None =>
      (* only the king is left: it may capture only if the other side has no attacker left *)
      (if negb (band att (bnot (colors b stm)) =? 0) then Return (res =? 0)%Z else Return (res =? 1)%Z, Bishop)
    end end end in
  let case_knight (_ : unit) :=
    match try Knight with Some o => (o, Knight) | None => case_bishop tt end in
  let case_pawn (_ : unit) :=
    match try Pawn with Some o => (o, start) | None => case_knight tt end in
  if start =? Pawn then case_pawn tt else if start =? Knight then case_knight tt else case_bishop tt.

Fixpoint see_iter (fuel : nat) (b : board) (to : N) (stm : color) (occ att : N) (swap res : Z)
                  (startW startB : N) : bool :=
  match fuel with
  | O => (res =? 1)%Z
  | S k =>
      let stm := flip stm in                                  (* stm = stm.Flip() *)
      let att := band att occ in                              (* attackers &= occ *)
      let stmAtt := band att (colors b stm) in
      if stmAtt =? 0 then (res =? 1)%Z else                   (* break; return res == 1 *)
      let res := Z.lxor res 1 in                              (* res ^= 1 *)
      let start := match stm with White => startW | Black => startB end in
      match see_step b to stm occ att swap res start with
      | (Return r, _) => r
      | (Next occ' att' swap', start') =>
          match stm with
          | White => see_iter k b to stm occ' att' swap' res start' startB
          | Black => see_iter k b to stm occ' att' swap' res startW start'
          end
      end
  end.

(* attackers := pawns (captures done backwards) | knights | diagonal sliders | line sliders | kings *)
Definition see_attackers (b : board) (to occ : N) : N :=
  let toBB := bit to in
  bor (bor (bor (bor (bor
    (band (band (pawn_capture_moves toBB Black) (pieces b Pawn)) (colors b White))
    (band (band (pawn_capture_moves toBB White) (pieces b Pawn)) (colors b Black)))
    (band (knight_moves to) (pieces b Knight)))
    (disc_diag b to occ))
    (disc_line b to occ))
    (band (king_moves to) (pieces b King)).

(* occ := (b.Colors[White] | b.Colors[Black]) ^ fromBB; if b.IsEnPassant(m) { occ &= ^captureBB } *)
Definition see_occ (b : board) (m : N) : N :=
  let fromBB := bit (mv_from m) in
  let captureBB := bit (capture_sq b m) in
  let occ := bxor (bor (colors b White) (colors b Black)) fromBB in
  if is_en_passant b m then band occ (bnot captureBB) else occ.

(* the prologue of SEE up to the loop: inl = returned early with that verdict, inr = swap *)
Definition see_prologue (b : board) (m : N) (threshold : Z) : bool + Z :=
  let from := mv_from m in
  let captured := piece_at b (capture_sq b m) in
  let promoVal := if negb (mv_promo m =? NoPiece) then wrap16 (pval (mv_promo m) - pval Pawn) else 0%Z in
  let swap := wrap16 (wrap16 (pval captured + promoVal) - threshold) in
  if (swap <? 0)%Z then inl false else
  let swap := wrap16 (wrap16 (pval (piece_at b from) + promoVal) - swap) in
  if (swap <=? 0)%Z then inl true else
  inr swap.

Definition see (b : board) (m : N) (threshold : Z) : bool :=
  match see_prologue b m threshold with
  | inl r => r
  | inr swap =>
      let to := mv_to m in
      let occ := see_occ b m in
      see_iter 66 b to (stm b) occ (see_attackers b to occ) swap 1 Pawn Pawn
  end.

(* PieceValues[m.Promo()] is evaluated when the promotion bits are not 0; 7 is outside the array *)
Definition see_panics (m : N) : bool := (PieceValuesLen <=? Z.of_N (mv_promo m))%Z.

(* ------------------------------------------------------------------------------------------ *)
(* the pure list core: gains = [g0; g1; ...], g0 what the move itself wins, g(k+1) the value of the
   piece that made capture k and is taken by capture k+1 *)

Fixpoint see_tail (l : list Z) (swap res : Z) : bool :=
  (* one loop iteration in which the side to move does capture *)
  let res := Z.lxor res 1 in
  match l with
  | [] => (res =? 1)%Z                       (* nobody takes back: the next iteration breaks *)
  | g :: l' =>
      let swap := wrap16 (g - swap) in
      if (swap <? res)%Z then (res =? 1)%Z else see_tail l' swap res
  end.

Definition see_loop (gains : list Z) (threshold : Z) : bool :=
  match gains with
  | [] => true
  | g0 :: r =>
      let swap := wrap16 (g0 - threshold) in
      if (swap <? 0)%Z then false else
      match r with
      | [] => true
      | g1 :: r' =>
          let swap := wrap16 (g1 - swap) in
          if (swap <=? 0)%Z then true else see_tail r' swap 1
      end
  end.
