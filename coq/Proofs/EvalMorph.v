(* Property C19 (a), step 1: the generic evaluation commutes with a morphism of score structures.

   If phi : T1 -> T2 commutes with + - * and with the conversion from int, then every statement
   `acc[color] += v` that Eval executes before addKingAttacks adds, in the T2 run with the mapped
   coefficients, exactly phi of what it adds in the T1 run - same statements, same order - because
   no control flow depends on a T value.  Hence all accumulator values correspond under phi.
   Used twice: phi = reduction modulo 2^16 (non-wrapping integers -> int16) and phi = IZR
   (integers -> real numbers).  The proofs never look at coefficient values. *)
From Coq Require Import NArith ZArith List Bool Lia.
From Chess3 Require Import Base.Bits Base.Word Model.Types Model.Att Model.BoardDef Gen.Coeffs Model.Eval Model.EvalU.
Import ListNotations.

Lemma map_flat_map {A B C} (f : B -> C) (g : A -> list B) (l : list A) :
  map f (flat_map g l) = flat_map (fun x => map f (g x)) l.
Proof. induction l as [| x r IH]; [reflexivity|]. cbn [flat_map]. rewrite map_app, IH. reflexivity. Qed.

Lemma flat_map_ext' {A B} (f g : A -> list B) (l : list A) : (forall x, f x = g x) -> flat_map f l = flat_map g l.
Proof. intros H. induction l as [| x r IH]; [reflexivity|]. cbn [flat_map]. rewrite H, IH. reflexivity. Qed.

Lemma map_if {A B} (f : A -> B) (c : bool) (a b : list A) : map f (if c then a else b) = if c then map f a else map f b.
Proof. destruct c; reflexivity. Qed.

Section Morph.
Context {T1 T2 : Type} (O1 : score_ops T1) (O2 : score_ops T2) (phi : T1 -> T2).
Hypothesis Hadd : forall a b, phi (s_add O1 a b) = s_add O2 (phi a) (phi b).
Hypothesis Hsub : forall a b, phi (s_sub O1 a b) = s_sub O2 (phi a) (phi b).
Hypothesis Hmul : forall a b, phi (s_mul O1 a b) = s_mul O2 (phi a) (phi b).
Hypothesis Hof : forall n, phi (s_of_int O1 n) = s_of_int O2 n.
Variable C : CoeffSet T1.
Let C2 := coeff_map phi C.

Definition bmap (e : bump T1) : bump T2 := (fst e, phi (snd e)).

Lemma zero_morph : zero O2 = phi (zero O1).
Proof. unfold zero. rewrite Hof. reflexivity. Qed.

Lemma mul_morph a b : mul O2 (phi a) (phi b) = phi (mul O1 a b).
Proof. unfold mul. rewrite Hmul. reflexivity. Qed.

Lemma of_int_morph n : of_int O2 n = phi (of_int O1 n).
Proof. unfold of_int. rewrite Hof. reflexivity. Qed.

Lemma co1_morph l i : co1 O2 (map phi l) i = phi (co1 O1 l i).
Proof. unfold co1, nthN. rewrite zero_morph. apply map_nth. Qed.

Lemma co2_morph ll i j : co2 O2 (map (map phi) ll) i j = phi (co2 O1 ll i j).
Proof.
  unfold co2, nthN. rewrite zero_morph.
  change (@nil T2) with (map phi []). rewrite (map_nth (map phi)). apply map_nth.
Qed.

Lemma total_morph s c l : total O2 s c (map bmap l) = phi (total O1 s c l).
Proof.
  unfold total. rewrite zero_morph. generalize (zero O1).
  induction l as [| [[s' c'] v] r IH]; intros acc; [reflexivity|].
  cbn [map fold_left]. change (bmap (s', c', v)) with (s', c', phi v). cbn [fst snd].
  destruct (slot_eqb s s' && color_eqb c c').
  - change (add O2 (phi acc) (phi v)) with (s_add O2 (phi acc) (phi v)). rewrite <- Hadd. apply IH.
  - apply IH.
Qed.

Lemma mgeg_morph c f : mgeg c (fun ph => phi (f ph)) = map bmap (mgeg c f).
Proof. reflexivity. Qed.
Lemma kab_morph c f : kab c (fun ph => phi (f ph)) = map bmap (kab c f).
Proof. reflexivity. Qed.

Lemma mgeg_ext {T} c (f g : N -> T) : (forall ph, f ph = g ph) -> mgeg c f = mgeg c g.
Proof. intros H. unfold mgeg. rewrite !H. reflexivity. Qed.
Lemma kab_ext {T} c (f g : N -> T) : (forall ph, f ph = g ph) -> kab c f = kab c g.
Proof. intros H. unfold kab. rewrite !H. reflexivity. Qed.

(* projections of the mapped coefficient set *)
Ltac cm := unfold C2, coeff_map;
  cbn [PSqT PieceValues TempoBonus KingAttackPieces SafeChecks KingShelter MobilityKnight MobilityBishop
       MobilityRook KnightOutpost ConnectedRooks BishopPair ProtectedPasser PasserKingDist PasserRank
       DoubledPawns IsolatedPawns].

Ltac leaf := rewrite ?co1_morph, ?co2_morph, ?of_int_morph, ?mul_morph; reflexivity.

Lemma add_piece_values_morph b : add_piece_values O2 C2 b = map bmap (add_piece_values O1 C b).
Proof.
  unfold add_piece_values. rewrite map_flat_map. apply flat_map_ext'. intros pt. cm.
  cbn [map]. unfold bmap. cbn [fst snd]. rewrite !co2_morph, !of_int_morph, !mul_morph. reflexivity.
Qed.

Lemma add_psqt_morph c pt sq : add_psqt O2 C2 c pt sq = map bmap (add_psqt O1 C c pt sq).
Proof. unfold add_psqt. cm. cbn [map]. unfold bmap. cbn [fst snd]. rewrite !co2_morph. reflexivity. Qed.

Lemma knbvk_terms_morph b : knbvk_terms O2 C2 b = map bmap (knbvk_terms O1 C b).
Proof.
  unfold knbvk_terms. rewrite !map_app, <- !add_psqt_morph. cbn [map]. unfold bmap at 1. cbn [fst snd].
  rewrite <- mul_morph, <- !of_int_morph. reflexivity.
Qed.

Lemma add_tempo_morph b : add_tempo O2 C2 b = map bmap (add_tempo O1 C b).
Proof. unfold add_tempo. rewrite <- mgeg_morph. apply mgeg_ext. intros ph. cm. apply co1_morph. Qed.

Lemma add_bishop_pair_morph b : add_bishop_pair O2 C2 b = map bmap (add_bishop_pair O1 C b).
Proof.
  unfold add_bishop_pair. rewrite map_flat_map. apply flat_map_ext'. intros c. cm. rewrite map_length.
  rewrite map_if. cbn [map]. unfold bmap. cbn [fst snd]. rewrite !co1_morph. reflexivity.
Qed.

Lemma add_passers_morph b pw : add_passers O2 C2 b pw = map bmap (add_passers O1 C b pw).
Proof.
  unfold add_passers. rewrite map_flat_map. apply flat_map_ext'. intros c. rewrite map_app. f_equal.
  - rewrite !map_if. rewrite <- mgeg_morph. cbn [map].
    destruct (is_pow2 _); [|reflexivity]. destruct (_ || _); [|reflexivity].
    apply mgeg_ext. intros ph. cm. rewrite <- mul_morph, <- of_int_morph, <- co1_morph. reflexivity.
  - rewrite map_flat_map. apply flat_map_ext'. intros sq. rewrite map_app, map_if, <- !mgeg_morph. cbn [map]. f_equal.
    + destruct (N.testbit _ _); [|reflexivity]. apply mgeg_ext. intros ph. cm. apply co1_morph.
    + apply mgeg_ext. intros ph. cm. apply co2_morph.
Qed.

Lemma add_doubled_morph pw : add_doubled O2 C2 pw = map bmap (add_doubled O1 C pw).
Proof.
  unfold add_doubled. rewrite map_flat_map. apply flat_map_ext'. intros c. rewrite <- mgeg_morph.
  apply mgeg_ext. intros ph. cm. rewrite <- mul_morph, <- of_int_morph, <- co1_morph. reflexivity.
Qed.

Lemma add_isolated_morph pw : add_isolated O2 C2 pw = map bmap (add_isolated O1 C pw).
Proof.
  unfold add_isolated. rewrite map_flat_map. apply flat_map_ext'. intros c. rewrite <- mgeg_morph.
  apply mgeg_ext. intros ph. cm. rewrite <- mul_morph, <- of_int_morph, <- co1_morph. reflexivity.
Qed.

Lemma add_attack_pieces_morph c pt a k : add_attack_pieces O2 C2 c pt a k = map bmap (add_attack_pieces O1 C c pt a k).
Proof.
  unfold add_attack_pieces. rewrite map_if, <- kab_morph. cbn [map]. destruct (nz _); [|reflexivity].
  apply kab_ext. intros ph. cm. apply co2_morph.
Qed.

Lemma add_rook_mobility_morph b c sq a : add_rook_mobility O2 C2 b c sq a = map bmap (add_rook_mobility O1 C b c sq a).
Proof.
  unfold add_rook_mobility. cbv zeta. rewrite map_app, map_if, <- !mgeg_morph. cbn [map]. f_equal.
  - apply mgeg_ext. intros ph. cm. apply co2_morph.
  - destruct (nz _); [|reflexivity]. apply mgeg_ext. intros ph. cm. apply co1_morph.
Qed.

Lemma add_bishop_mobility_morph b c a : add_bishop_mobility O2 C2 b c a = map bmap (add_bishop_mobility O1 C b c a).
Proof. unfold add_bishop_mobility. cbv zeta. rewrite <- mgeg_morph. apply mgeg_ext. intros ph. cm. apply co2_morph. Qed.

Lemma add_knight_mobility_morph b c a pc : add_knight_mobility O2 C2 b c a pc = map bmap (add_knight_mobility O1 C b c a pc).
Proof. unfold add_knight_mobility. cbv zeta. rewrite <- mgeg_morph. apply mgeg_ext. intros ph. cm. apply co2_morph. Qed.

Lemma add_knight_outposts_morph c sq h : add_knight_outposts O2 C2 c sq h = map bmap (add_knight_outposts O1 C c sq h).
Proof.
  unfold add_knight_outposts. rewrite map_if. cbn [map]. destruct (nz _); [|reflexivity].
  cbv zeta. rewrite <- mgeg_morph. apply mgeg_ext. intros ph. cm. apply co2_morph.
Qed.

Lemma piece_loop_morph pieces (body1 : N -> N * list (bump T1)) (body2 : N -> N * list (bump T2)) :
  (forall sq, body2 sq = (fst (body1 sq), map bmap (snd (body1 sq)))) ->
  piece_loop pieces body2 = (fst (piece_loop pieces body1), map bmap (snd (piece_loop pieces body1))).
Proof.
  intros H. unfold piece_loop.
  assert (G : forall l a l1, fold_left (fun st sq => let r := body2 sq in (bor (fst st) (fst r), snd st ++ snd r)) l (a, map bmap l1)
              = (fst (fold_left (fun st sq => let r := body1 sq in (bor (fst st) (fst r), snd st ++ snd r)) l (a, l1)),
                 map bmap (snd (fold_left (fun st sq => let r := body1 sq in (bor (fst st) (fst r), snd st ++ snd r)) l (a, l1))))).
  { induction l as [| sq r IH]; intros a l1; [reflexivity|].
    cbn [fold_left]. cbv zeta. rewrite H. cbn [fst snd]. rewrite <- map_app. apply IH. }
  exact (G (bits_of pieces) 0%N []).
Qed.

Lemma piece_terms_morph b pw c :
  piece_terms O2 C2 b pw c = (fst (piece_terms O1 C b pw c), map bmap (snd (piece_terms O1 C b pw c))).
Proof.
  unfold piece_terms. cbv zeta.
  set (occ := pw_occ pw). set (eKNb := sel (pw_king_nb pw) (flip c)).
  rewrite (piece_loop_morph (band (pieces b Queen) (colors b c))
            (fun sq => let attacks := bor (bishop_moves sq occ) (rook_moves sq occ) in
               (attacks, add_attack_pieces O1 C c Queen attacks eKNb ++ add_psqt O1 C c Queen sq)))
    by (intros sq; cbv zeta; cbn [fst snd]; rewrite map_app, add_attack_pieces_morph, add_psqt_morph; reflexivity).
  rewrite (piece_loop_morph (band (pieces b Rook) (colors b c))
            (fun sq => let attacks := rook_moves sq occ in
               (attacks, add_attack_pieces O1 C c Rook attacks eKNb ++ add_rook_mobility O1 C b c sq attacks ++ add_psqt O1 C c Rook sq)))
    by (intros sq; cbv zeta; cbn [fst snd]; rewrite !map_app, add_attack_pieces_morph, add_rook_mobility_morph, add_psqt_morph; reflexivity).
  rewrite (piece_loop_morph (band (pieces b Bishop) (colors b c))
            (fun sq => let attacks := bishop_moves sq occ in
               (attacks, add_attack_pieces O1 C c Bishop attacks eKNb ++ add_bishop_mobility O1 C b c attacks ++ add_psqt O1 C c Bishop sq)))
    by (intros sq; cbv zeta; cbn [fst snd]; rewrite !map_app, add_attack_pieces_morph, add_bishop_mobility_morph, add_psqt_morph; reflexivity).
  rewrite (piece_loop_morph (band (pieces b Knight) (colors b c))
            (fun sq => let attacks := knight_moves sq in
               (attacks, add_attack_pieces O1 C c Knight attacks eKNb ++
                         add_knight_mobility O1 C b c attacks (sel (pw_att_pawn pw) (flip c)) ++
                         add_knight_outposts O1 C c sq (band (sel (pw_holes pw) (flip c)) (sel (pw_att_pawn pw) c)) ++
                         add_psqt O1 C c Knight sq)))
    by (intros sq; cbv zeta; cbn [fst snd]; rewrite !map_app, add_attack_pieces_morph, add_knight_mobility_morph, add_knight_outposts_morph, add_psqt_morph; reflexivity).
  rewrite (piece_loop_morph (band (pieces b Pawn) (colors b c)) (fun sq => (0%N, add_psqt O1 C c Pawn sq)))
    by (intros sq; cbn [fst snd]; rewrite add_psqt_morph; reflexivity).
  cbn [fst snd]. rewrite !map_app, add_psqt_morph. reflexivity.
Qed.

Lemma add_safe_checks_morph c pt sc : add_safe_checks O2 C2 c pt sc = map bmap (add_safe_checks O1 C c pt sc).
Proof.
  unfold add_safe_checks. rewrite <- kab_morph. apply kab_ext. intros ph. cm.
  rewrite <- mul_morph, <- of_int_morph, <- co2_morph. reflexivity.
Qed.

Lemma safety_terms_morph b pw att c : safety_terms O2 C2 b pw att c = map bmap (safety_terms O1 C b pw att c).
Proof.
  unfold safety_terms. cbv zeta. rewrite !map_app, <- !add_safe_checks_morph, <- kab_morph.
  do 4 (apply f_equal). apply kab_ext. intros ph. cm. rewrite <- mul_morph, <- of_int_morph, <- co1_morph. reflexivity.
Qed.

(* everything before addKingAttacks *)
Lemma pre_terms_morph b : pre_terms O2 C2 b = map bmap (pre_terms O1 C b).
Proof.
  unfold pre_terms. cbv zeta. rewrite !piece_terms_morph. cbn [fst snd].
  rewrite !map_app, <- add_tempo_morph, <- add_bishop_pair_morph, <- add_passers_morph,
          <- add_doubled_morph, <- add_isolated_morph, <- !safety_terms_morph. reflexivity.
Qed.

Lemma ka_sum_morph b s c : ka_sum O2 C2 b s c = phi (ka_sum O1 C b s c).
Proof. unfold ka_sum. rewrite pre_terms_morph. apply total_morph. Qed.

End Morph.

(* main_terms is pre_terms followed by the four sigmoid statements *)
Lemma main_terms_pre {T} (O : score_ops T) (C : CoeffSet T) b :
  main_terms O C b = pre_terms O C b ++ add_king_attacks O (pre_terms O C b).
Proof. reflexivity. Qed.

Lemma add_king_attacks_ka {T} (O : score_ops T) (C : CoeffSet T) b :
  add_king_attacks O (pre_terms O C b) =
  [(MG, White, s_sigmoid O (ka_sum O C b KA0 White)); (MG, Black, s_sigmoid O (ka_sum O C b KA0 Black));
   (EG, White, s_sigmoid O (ka_sum O C b KA1 White)); (EG, Black, s_sigmoid O (ka_sum O C b KA1 Black))].
Proof. reflexivity. Qed.

Lemma eval_gen_unfold {T} (O : score_ops T) (C : CoeffSet T) b :
  eval_gen O C b =
  if insufficient_mat b then zero O else
  if knbvk b then endgame_score O b (add_piece_values O C b ++ knbvk_terms O C b)
  else s_taper O (mg_score O C b) (eg_score O C b) (Z.min (phase_of b) MaxPhase)
                 (MaxPhase - Z.min (phase_of b) MaxPhase)%Z (fifty b).
Proof. reflexivity. Qed.

Lemma total_app {T} (O : score_ops T) s c l l' :
  total O s c (l ++ l') =
  fold_left (fun acc (e : bump T) =>
     if slot_eqb s (fst (fst e)) && color_eqb c (snd (fst e)) then add O acc (snd e) else acc) l' (total O s c l).
Proof. unfold total. apply fold_left_app. Qed.
