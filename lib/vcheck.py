"""Core of ./check: build from /repo's working tree, regenerate Gen/*.v, re-check the Coq
development, run the correspondence streams, search for witnesses, write evidence."""
import fcntl, glob, hashlib, json, os, re, shutil, subprocess, sys, time

VERIF = os.path.dirname(os.path.dirname(os.path.abspath(__file__)))
REPO = os.environ.get("VERIF_REPO", "/repo")
COQ = os.path.join(VERIF, "coq")
BUILD = os.path.join(VERIF, "build")
BIN = os.path.join(BUILD, "bin")
TUNER_COPY = "/var/tmp/chess3-verif-tuner-" + hashlib.sha256(VERIF.encode()).hexdigest()[:10]
FORBIDDEN = re.compile(
    r"\b(Admitted|admit|Axiom|Axioms|Parameter|Parameters|Conjecture|Conjectures|Admit Obligations|"
    r"Unset Guard Checking|Unset Positivity Checking|Unset Universe Checking|bypass_check|"
    r"type-in-type|impredicative-set|native_compute)\b")

ENV = dict(os.environ)
ENV.update({"GOFLAGS": "-mod=mod", "GOPROXY": "off"})
ENV.pop("GOTOOLCHAIN", None) if ENV.get("GOTOOLCHAIN") == "local" else None
ENV.pop("GOSUMDB", None) if ENV.get("GOSUMDB") == "off" else None


class BuildError(Exception):
    def __init__(self, stage, log):
        super().__init__(stage)
        self.stage, self.log = stage, log


def sh(cmd, cwd=None, timeout=3600, inp=None, env=None):
    p = subprocess.run(cmd, cwd=cwd, timeout=timeout, input=inp, env=env or ENV,
                       stdout=subprocess.PIPE, stderr=subprocess.STDOUT, text=True,
                       shell=isinstance(cmd, str))
    return p.returncode, p.stdout


def log(msg):
    print(f"[check] {msg}", flush=True)


class Lock:
    def __enter__(self):
        os.makedirs(BUILD, exist_ok=True)
        self.f = open(os.path.join(BUILD, ".lock"), "w")
        fcntl.flock(self.f, fcntl.LOCK_EX)
        return self

    def __exit__(self, *a):
        fcntl.flock(self.f, fcntl.LOCK_UN)
        self.f.close()


# ----------------------------------------------------------------------------------------------
# build steps

def sync_tuner_copy():
    """tools/tuner is a separate module whose other dependencies are not available offline; the
    three packages the properties talk about are copied into a scratch module (outside /repo and
    /verif) and removed again after the build."""
    shutil.rmtree(TUNER_COPY, ignore_errors=True)
    os.makedirs(TUNER_COPY)
    for d in ("epd", "tuning", "checksum"):
        shutil.copytree(os.path.join(REPO, "tools/tuner", d), os.path.join(TUNER_COPY, d))
    with open(os.path.join(TUNER_COPY, "go.mod"), "w") as f:
        f.write("module github.com/paulsonkoly/chess-3/tools/tuner\n\ngo 1.25.4\n\n"
                "require github.com/paulsonkoly/chess-3 v0.0.0\n\n"
                f"replace github.com/paulsonkoly/chess-3 => {REPO}\n")


def build_go(race=False):
    """race=True also builds h-race (go build -race) for streams registered with race=True."""
    os.makedirs(BIN, exist_ok=True)
    sync_tuner_copy()
    try:
        h = os.path.join(VERIF, "harness")
        shutil.copy(os.path.join(REPO, "go.sum"), os.path.join(h, "go.sum"))
        with open(os.path.join(h, "go.mod"), "w") as f:
            f.write(open(os.path.join(h, "go.mod.in")).read().replace("@TUNER@", TUNER_COPY).replace("@REPO@", REPO))
        for tool in ("h", "gen"):
            rc, out = sh(["go", "build", "-tags", "verif", "-o", os.path.join(BIN, tool), "./cmd/" + tool],
                         cwd=h, timeout=900)
            if rc != 0:
                raise BuildError("go", out)
        # -race implies -d=checkptr, which rejects the uintptr round trip in transp.(*Table).Resize
        # (transp.go:116-120, listed under "modelled, not verified"); the race detector itself stays on
        rc, out = sh(["go", "build", "-race", "-gcflags=all=-d=checkptr=0", "-tags", "verif", "-o", os.path.join(BIN, "h-race"), "./cmd/h"],
                     cwd=h, timeout=900) if (race or os.environ.get("VERIF_RACE")) else (0, "")
        if rc != 0:
            raise BuildError("go", out)
    finally:
        shutil.rmtree(TUNER_COPY, ignore_errors=True)


def regenerate():
    """Run the translator; replace coq/Gen/X.v only when its content changed. Returns the list of
    changed files."""
    tmp = os.path.join(BUILD, "gen")
    shutil.rmtree(tmp, ignore_errors=True)
    os.makedirs(tmp)
    rc, out = sh([os.path.join(BIN, "gen"), tmp], cwd=REPO, timeout=600)
    if rc != 0:
        raise BuildError("gen", out)
    changed = []
    os.makedirs(os.path.join(COQ, "Gen"), exist_ok=True)
    for fn in sorted(os.listdir(tmp)):
        new = open(os.path.join(tmp, fn)).read()
        dst = os.path.join(COQ, "Gen", fn)
        old = open(dst).read() if os.path.exists(dst) else None
        if old != new:
            with open(dst, "w") as f:
                f.write(new)
            changed.append(fn)
    return changed


def coq_files():
    fs = []
    for root, _, names in os.walk(COQ):
        for n in names:
            if n.endswith(".v"):
                fs.append(os.path.relpath(os.path.join(root, n), COQ))
    return sorted(fs)


def coq_makefile():
    files = coq_files()
    listing = "\n".join(files)
    stamp = os.path.join(COQ, ".filelist")
    old = open(stamp).read() if os.path.exists(stamp) else None
    if old != listing or not os.path.exists(os.path.join(COQ, "Makefile")):
        rc, out = sh(["coq_makefile", "-f", "_CoqProject", "-o", "Makefile"] + files, cwd=COQ)
        if rc != 0:
            raise BuildError("coq_makefile", out)
        with open(stamp, "w") as f:
            f.write(listing)


def coq_make(targets, timeout=3000):
    """Full .vo build of the given targets (never -vos). Returns (ok, log)."""
    rc, out = sh(["make", "-j16", "-k"] + targets, cwd=COQ, timeout=timeout)
    os.makedirs(os.path.join(BUILD, "logs"), exist_ok=True)
    return rc == 0, out


def coqc_file(rel, timeout=1200):
    rc, out = sh(["coqc", "-Q", ".", "Chess3", "-w",
                  "-notation-overridden,-deprecated-hint-without-locality,-deprecated-instance-without-locality",
                  rel], cwd=COQ, timeout=timeout)
    return rc == 0, out


def read_streams_txt():
    table = []
    for line in open(os.path.join(COQ, "Extract", "streams.txt")):
        line = line.split("#")[0].strip()
        if line:
            name, const = line.split()
            table.append((name, const))
    return table


def build_modelrun():
    """Extract the models (ExtrOcamlBasic only) and link them with the generic driver."""
    ok, out = coq_make(["Extract/Streams.vo"])
    if not ok:
        raise BuildError("coq-model", out)
    exd = os.path.join(BUILD, "extract")
    os.makedirs(exd, exist_ok=True)
    table = read_streams_txt()
    vo = os.path.join(COQ, "Extract", "Streams.vo")
    key = hashlib.sha256(open(vo, "rb").read() + repr(table).encode() +
                         open(os.path.join(COQ, "Extract", "driver.ml"), "rb").read()).hexdigest()
    keyf = os.path.join(exd, ".key")
    exe = os.path.join(BIN, "modelrun")
    if os.path.exists(exe) and os.path.exists(keyf) and open(keyf).read() == key:
        return
    consts = sorted(set(c for _, c in table))
    with open(os.path.join(exd, "excmd.v"), "w") as f:
        f.write("From Chess3 Require Import Extract.Streams.\n")
        f.write('Extraction "ex.ml" ' + " ".join(consts) + ".\n")
    rc, out = sh(["coqc", "-Q", COQ, "Chess3", "excmd.v"], cwd=exd, timeout=900)
    if rc != 0:
        raise BuildError("extraction", out)
    with open(os.path.join(exd, "dispatch.ml"), "w") as f:
        f.write("let table = [\n" + "".join(f'  ("{n}", Ex.{c});\n' for n, c in table) + "]\n")
    shutil.copy(os.path.join(COQ, "Extract", "driver.ml"), os.path.join(exd, "driver.ml"))
    rc, out = sh(["ocamlfind", "ocamlopt", "-O3", "-w", "-a", "-o", exe, "ex.mli", "ex.ml", "dispatch.ml", "driver.ml"],
                 cwd=exd, timeout=900)
    if rc != 0:
        rc, out = sh(["ocamlfind", "ocamlopt", "-w", "-a", "-o", exe, "ex.mli", "ex.ml", "dispatch.ml", "driver.ml"],
                     cwd=exd, timeout=900)
    if rc != 0:
        raise BuildError("ocaml", out)
    with open(keyf, "w") as f:
        f.write(key)


def strip_comments(src):
    out, depth, i = [], 0, 0
    while i < len(src):
        if src.startswith("(*", i):
            depth += 1
            i += 2
        elif src.startswith("*)", i) and depth > 0:
            depth -= 1
            i += 2
        else:
            if depth == 0:
                out.append(src[i])
            i += 1
    return "".join(out)


def hygiene():
    """No Admitted/admit/Axiom/Parameter/... anywhere in the development (comments excluded)."""
    bad = []
    for rel in coq_files():
        src = strip_comments(open(os.path.join(COQ, rel)).read())
        # string literals cannot contain the words either; keep it simple and strict
        for m in FORBIDDEN.finditer(src):
            line = src.count("\n", 0, m.start()) + 1
            bad.append(f"{rel}:{line}: {m.group(0)}")
    # Variable/Hypothesis outside a section
    for rel in coq_files():
        src = strip_comments(open(os.path.join(COQ, rel)).read())
        depth = 0
        for ln, line in enumerate(src.split("\n"), 1):
            s = line.strip()
            if re.match(r"^Section\b", s):
                depth += 1
            elif re.match(r"^End\b", s) and depth > 0:
                depth -= 1
            elif depth == 0 and re.match(r"^(Variable|Variables|Hypothesis|Hypotheses|Context)\b", s):
                bad.append(f"{rel}:{ln}: {s.split()[0]} outside a section")
    return bad


def parse_assumptions(coqc_output):
    """Split the output of a Properties file into one block per Print Assumptions."""
    blocks, cur = [], None
    for line in coqc_output.split("\n"):
        if line.startswith("Closed under the global context"):
            blocks.append([])
            cur = None
        elif line.startswith("Axioms:"):
            cur = []
            blocks.append(cur)
        elif cur is not None:
            m = re.match(r"^([A-Za-z_][\w.']*)\s*(:|$)", line)
            if m and not line.startswith(" "):
                cur.append(m.group(1))
    return blocks


def theorem_names(rel):
    src = strip_comments(open(os.path.join(COQ, rel)).read())
    return re.findall(r"^\s*(?:Theorem|Example)\s+([\w']+)", src, re.M)


def locate_failure(logtext):
    """Name the file and the enclosing lemma of the first Coq error in a build log."""
    m = re.search(r'File "\./?([^"]+)", line (\d+)', logtext)
    if not m:
        return None
    rel, line = m.group(1), int(m.group(2))
    path = os.path.join(COQ, rel)
    name = None
    if os.path.exists(path):
        for i, l in enumerate(open(path), 1):
            mm = re.match(r"\s*(?:Lemma|Theorem|Corollary|Example|Definition|Fixpoint|Fact|Remark)\s+([\w']+)", l)
            if mm and i <= line:
                name = mm.group(1)
    err = logtext[m.start():m.start() + 600]
    return {"file": rel, "line": line, "statement": name, "error": err}


# ----------------------------------------------------------------------------------------------
# correspondence

def run_h(args, timeout=3000, inp=None, race=False, cwd=None):
    exe = os.path.join(BIN, "h-race" if race else "h")
    return sh([exe] + args, cwd=cwd or BUILD, timeout=timeout, inp=inp)


def run_model(stream, infile, outfile, timeout=3000):
    with open(infile) as fi, open(outfile, "w") as fo:
        p = subprocess.run([os.path.join(BIN, "modelrun"), stream], stdin=fi, stdout=fo,
                           stderr=subprocess.PIPE, timeout=timeout, text=True)
    return p.returncode, p.stderr


def run_model_sharded(stream, infile, outfile, shards=16, timeout=3000):
    lines = open(infile).read().split("\n")
    if lines and lines[-1] == "":
        lines.pop()
    if len(lines) < 64 or shards <= 1:
        return run_model(stream, infile, outfile, timeout)
    per = (len(lines) + shards - 1) // shards
    procs = []
    for i in range(shards):
        part = lines[i * per:(i + 1) * per]
        pf = f"{infile}.s{i}"
        with open(pf, "w") as f:
            f.write("\n".join(part) + ("\n" if part else ""))
        fi, fo = open(pf), open(f"{outfile}.s{i}", "w")
        procs.append((subprocess.Popen([os.path.join(BIN, "modelrun"), stream], stdin=fi, stdout=fo,
                                       stderr=subprocess.PIPE, text=True), fi, fo, pf))
    rc, err = 0, ""
    for p, fi, fo, pf in procs:
        try:
            _, e = p.communicate(timeout=timeout)
        except subprocess.TimeoutExpired:
            p.kill()
            e, p.returncode = "timeout", 124
        fi.close(); fo.close()
        if p.returncode != 0:
            rc, err = p.returncode, err + (e or "")
    with open(outfile, "w") as f:
        for i in range(shards):
            f.write(open(f"{outfile}.s{i}").read())
            os.remove(f"{outfile}.s{i}")
            os.remove(f"{infile}.s{i}")
    return rc, err


def read_lines(path):
    ls = open(path).read().split("\n")
    if ls and ls[-1] == "":
        ls.pop()
    return ls


def compare(prefix):
    ins, impl, model, desc = (read_lines(prefix + s) for s in (".in", ".impl", ".model", ".desc"))
    mism = []
    n = len(ins)
    if not (len(impl) == len(model) == n):
        mism.append({"index": -1, "in": "", "desc": f"line counts differ: in={n} impl={len(impl)} model={len(model)}",
                     "impl": "", "model": ""})
        n = min(n, len(impl), len(model))
    for i in range(n):
        if impl[i].split() != model[i].split():
            mism.append({"index": i, "in": ins[i], "desc": desc[i] if i < len(desc) else "",
                         "impl": impl[i], "model": model[i]})
    return n, mism


def judge(stream_judge, ins, outs, workdir, tag):
    """Run the property judge (an extracted Coq boolean) on observed (input, output) pairs.
    Returns the list of (index, verdict-line) that are not [1]."""
    jf = os.path.join(workdir, f"{tag}.judge.in")
    with open(jf, "w") as f:
        for a, b in zip(ins, outs):
            f.write(a + " " + b + "\n")
    rc, err = run_model_sharded(stream_judge, jf, jf[:-3] + ".out")
    res = read_lines(jf[:-3] + ".out")
    bad = []
    for i, r in enumerate(res):
        if r.split() != ["1"]:
            bad.append((i, r))
    return bad


# ----------------------------------------------------------------------------------------------
# known findings

def known_findings():
    path = os.path.join(VERIF, "KNOWN_FINDINGS.txt")
    known, fixed = [], []
    if os.path.exists(path):
        for line in open(path):
            line = line.strip()
            if line.startswith("known:"):
                d = dict(kv.split("=", 1) for kv in re.findall(r"(\w+=\S+)", line))
                d["text"] = line[len("known:"):].strip()
                known.append(d)
            elif line.startswith("fixed:"):
                fixed.append(line)
    return known, fixed


# ----------------------------------------------------------------------------------------------
# one property run

class Result:
    def __init__(self, pid, tier, seed):
        self.pid, self.tier, self.seed = pid, tier, seed
        self.violations = []       # dicts with replay content
        self.known = []            # KNOWN-FINDING lines
        self.obligations = 0
        self.discharged = 0
        self.assumptions = []      # axioms seen
        self.evaluations = 0
        self.distinct = 0
        self.samples = []
        self.tags = {}
        self.notes = []
        self.streams = {}
        self.broken = []           # names of broken obligations / correspondences
        self.t0 = time.time()

    def add_violation(self, kind, detail, found_input):
        os.makedirs(os.path.join(BUILD, "replay"), exist_ok=True)
        n = len(self.violations)
        path = os.path.join(BUILD, "replay", f"{self.pid}-{self.tier}-{n}.json")
        body = {"property": self.pid, "kind": kind, "tier": self.tier, "seed": self.seed}
        body.update(detail)
        with open(path, "w") as f:
            json.dump(body, f, indent=1)
        self.violations.append((path, found_input))


def setup():
    with Lock():
        build_go(race=True)
        changed = regenerate()
        coq_makefile()
        log(f"regenerated Gen files changed: {changed}")
        ok, out = coq_make([])
        with open(os.path.join(BUILD, "logs", "setup-make.log"), "w") as f:
            f.write(out)
        if not ok:
            print(out[-6000:])
            return 1
        build_modelrun()
        bad = hygiene()
        if bad:
            print("hygiene:", bad)
            return 1
    log("setup ok")
    return 0


def prepare(res, race=False):
    """Steps 1-4 of a run. Returns False if the tree does not build (outside the contract)."""
    build_go(race)
    changed = regenerate()
    if changed:
        res.notes.append("Gen files changed by the translator on this run: " + ", ".join(changed))
        log("translator changed: " + ", ".join(changed))
    coq_makefile()
    return True


def main(argv):
    import props
    if not argv or argv[0] in ("-h", "--help"):
        print(__doc__)
        return 2
    if argv[0] == "setup":
        try:
            return setup()
        except BuildError as e:
            print(f"setup failed at {e.stage}:\n{e.log[-8000:]}")
            return 1
    if argv[0] == "pins":
        import srcpins
        rc, out = sh(["git", "-C", REPO, "log", "--format=%h", "-1"])
        srcpins.write_pins(REPO, out.strip() if rc == 0 else "")
        print("wrote", srcpins.PINS)
        return 0
    pid = argv[0]
    tier = os.environ.get("VERIF_TIER", "quick")
    replay = None
    i = 1
    while i < len(argv):
        if argv[i] == "--tier":
            tier = argv[i + 1]; i += 2
        elif argv[i] == "--replay":
            replay = argv[i + 1]; i += 2
        else:
            print("unknown argument", argv[i]); return 2
    if pid not in props.PROPS:
        print("unknown property", pid)
        return 2
    try:
        seed = int(os.environ.get("VERIF_SEED", "1"))
    except ValueError:
        seed = 1
    os.environ["VERIF_SEED"] = str(seed)
    ENV["VERIF_SEED"] = str(seed)
    res = Result(pid, tier, seed)
    prop = props.PROPS[pid]
    with Lock():
        try:
            prepare(res, race=any(sc.race for sc in prop.streams))
        except BuildError as e:
            print(f"[check] the working tree does not build ({e.stage}); this is outside the contract of the check\n{e.log[-4000:]}")
            return 2
        if replay:
            return props.replay(prop, res, replay)
        return props.run(prop, res)
