package main

import (
	"unsafe"

	"github.com/paulsonkoly/chess-3/heur"

	. "github.com/paulsonkoly/chess-3/chess"
)

// Gen/SeeConsts.v: the piece values heur.SEE exchanges with (heur/heur.go PieceValues, indexed by
// piece code NoPiece..King) and the piece codes see.go switches on.
func init() {
	generators = append(generators, func() {
		f := newFile("SeeConsts.v", "From Coq Require Import ZArith List.\nImport ListNotations.\nOpen Scope Z_scope.")
		f.p("Definition PieceValues : list Z := [")
		for i, v := range heur.PieceValues {
			if i > 0 {
				f.p("; ")
			}
			f.p("%d", int64(v))
		}
		f.p("].\n")
		f.p("Definition PieceValuesLen : Z := %d.\n", len(heur.PieceValues))
		f.p("Definition ScoreBits : Z := %d.\n", 8*int(unsafe.Sizeof(Score(0))))
		f.p("Definition ScoreInf : Z := %d.\n", int64(Inf))
		f.p("(* piece codes as the Go constants evaluate *)\n")
		f.p("Definition CodeNoPiece : Z := %d.\nDefinition CodePawn : Z := %d.\nDefinition CodeKnight : Z := %d.\n", int64(NoPiece), int64(Pawn), int64(Knight))
		f.p("Definition CodeBishop : Z := %d.\nDefinition CodeRook : Z := %d.\nDefinition CodeQueen : Z := %d.\nDefinition CodeKing : Z := %d.\n", int64(Bishop), int64(Rook), int64(Queen), int64(King))
	})
}
