(* Store sessions: ONE move.Store shared by several pickers and by direct users of the store API,
   driven by a script of legal API calls (property C16, "iterating the staged picker to exhaustion"
   on a shared store). The model is Model/Picker.v's store and picker; nothing new is modelled here
   except the sharing: a Go picker holds a POINTER to the store and looks at the store's top frame
   only inside Next / Move, so a model picker is (ix, hash move, state) and is given the current
   store whenever it runs. picker.New does not touch the store.

   stream c16s
     in : nPos {hm ipl nN {m w}*nN nQ {m w}*nQ}*nPos  nOps {op}*nOps  (then the positions, ignored here)
          op 0            Clear
          op 1            Push
          op 2            Pop
          op 3 m w        Alloc(m).Weight = w
          op 4 k p        slot k := picker.New(position p, hash move of p) on the store as it is now
          op 5 k          Next on the picker in slot k; if true, Move() is recorded
          op 6 f n {m w}*n   probe of Frame() (f, n, .. are the harness's expectation, used by the judge only)
     out: nInst {pos done nY {m w}*nY}*nInst   (one block per picker created, in creation order;
                                               done = its last Next returned false)
          then per op 5: b m w   and per op 6: len {m w}*len
          A Go panic is [-1; -1; -1]. *)
From Coq Require Import ZArith List Bool.
Import ListNotations.
From Chess3 Require Import Base.Word Gen.HeurConsts Model.Hist Model.Picker.
Open Scope Z_scope.

Record inst := { i_pos : Z; i_hash : Z; i_ix : nat; i_state : pstate; i_yielded : list wmove; i_done : bool }.

Definition store_clear : store := {| s_data := []; s_frames := [] |}.

Fixpoint take_env (l : list Z) : (Z * env) * list Z :=
  match l with
  | hm :: ipl :: nN :: rest =>
      let (noisy, r1) := take_pairs (Z.to_nat nN) rest in
      match r1 with
      | nQ :: r2 =>
          let (quiet, r3) := take_pairs (Z.to_nat nQ) r2 in
          ((hm, {| e_ipl := negb (ipl =? 0); e_noisy := noisy; e_quiet := quiet |}), r3)
      | [] => ((hm, {| e_ipl := false; e_noisy := noisy; e_quiet := [] |}), [])
      end
  | _ => ((0, {| e_ipl := false; e_noisy := []; e_quiet := [] |}), [])
  end.

Fixpoint take_envs (n : nat) (l : list Z) : list (Z * env) * list Z :=
  match n with
  | O => ([], l)
  | S n' => let (e, r) := take_env l in let (es, r') := take_envs n' r in (e :: es, r')
  end.

Definition empty_env : Z * env := (0, {| e_ipl := false; e_noisy := []; e_quiet := [] |}).

Fixpoint lookup_slot (k : Z) (slots : list (Z * nat)) : option nat :=
  match slots with
  | [] => None
  | (k', i) :: rest => if k =? k' then Some i else lookup_slot k rest
  end.

Fixpoint set_inst (l : list inst) (i : nat) (v : inst) : list inst :=
  match l, i with
  | [], _ => []
  | _ :: t, O => v :: t
  | x :: t, S i' => x :: set_inst t i' v
  end.

Definition dummy_inst : inst :=
  {| i_pos := 0; i_hash := 0; i_ix := O; i_state := PickHash; i_yielded := []; i_done := false |}.

Fixpoint skip_z (n : nat) (l : list Z) : list Z :=
  match n, l with S n', _ :: t => skip_z n' t | _, _ => l end.

Fixpoint run_session (fuel : nat) (envs : list (Z * env)) (ops : list Z) (st : store)
    (slots : list (Z * nat)) (insts : list inst) (trace : list Z) : option (list inst * list Z) :=
  match fuel with
  | O => Some (insts, trace)
  | S fuel' =>
    match ops with
    | 0 :: rest => run_session fuel' envs rest store_clear slots insts trace
    | 1 :: rest => run_session fuel' envs rest (store_push st) slots insts trace
    | 2 :: rest => run_session fuel' envs rest (store_pop st) slots insts trace
    | 3 :: m :: w :: rest =>
        match alloc_dummies st [(m, wrap16 w)] with
        | Some st' => run_session fuel' envs rest st' slots insts trace
        | None => None
        end
    | 4 :: k :: p :: rest =>
        let hm := fst (nth (Z.to_nat p) envs empty_env) in
        let i := {| i_pos := p; i_hash := hm; i_ix := O; i_state := PickHash; i_yielded := []; i_done := false |} in
        run_session fuel' envs rest st ((k, length insts) :: slots) (insts ++ [i]) trace
    | 5 :: k :: rest =>
        match lookup_slot k slots with
        | None => run_session fuel' envs rest st slots insts trace
        | Some ix =>
            let i := nth ix insts dummy_inst in
            let e := snd (nth (Z.to_nat (i_pos i)) envs empty_env) in
            let p := {| p_store := st; p_ix := i_ix i; p_hash := i_hash i; p_state := i_state i |} in
            match next e p with
            | None => None
            | Some (true, p') =>
                let y := current p' in
                let i' := {| i_pos := i_pos i; i_hash := i_hash i; i_ix := p_ix p'; i_state := p_state p';
                             i_yielded := y :: i_yielded i; i_done := false |} in
                run_session fuel' envs rest (p_store p') slots (set_inst insts ix i') (trace ++ [1; fst y; snd y])
            | Some (false, p') =>
                let i' := {| i_pos := i_pos i; i_hash := i_hash i; i_ix := p_ix p'; i_state := p_state p';
                             i_yielded := i_yielded i; i_done := true |} in
                run_session fuel' envs rest (p_store p') slots (set_inst insts ix i') (trace ++ [0; 0; 0])
            end
        end
    | 6 :: _ :: n :: rest =>
        let f := store_frame st in
        run_session fuel' envs (skip_z (2 * Z.to_nat n) rest) st slots insts
          (trace ++ Z.of_nat (length f) :: flatten_wmoves f)
    | _ => Some (insts, trace)
    end
  end.

Definition inst_block (i : inst) : list Z :=
  [i_pos i; if i_done i then 1 else 0; Z.of_nat (length (i_yielded i))] ++ flatten_wmoves (rev (i_yielded i)).

Definition run_c16s (input : list Z) : list Z :=
  match input with
  | nPos :: rest =>
    let (envs, r1) := take_envs (Z.to_nat nPos) rest in
    match r1 with
    | nOps :: ops =>
      match run_session (Z.to_nat nOps) envs ops store_new [] [] [] with
      | None => panic_out
      | Some (insts, trace) => Z.of_nat (length insts) :: flat_map inst_block insts ++ trace
      end
    | [] => []
    end
  | [] => []
  end.
