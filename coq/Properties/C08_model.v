(* C08 on the closed executable model of the whole search (Model/Search.v: Go, iterativeDeepen,
   alphaBeta, quiescence, picker, table, history, PV buffer).  The model is tied to the engine by the
   stream "search" on every run: whole searches (info lines, result, node counts, abort flag,
   generation, table and history contents) agree exactly.  Statements only; proofs in
   Proofs/SearchModel*.v. *)
From Coq Require Import NArith ZArith List Bool Lia.
From Chess3 Require Import Base.Word Model.BoardDef Model.Board Model.Search
  Proofs.SearchModelInv Proofs.SearchModelBudget Proofs.SearchModelDet Proofs.SearchModelReplay Proofs.SearchModelReplayId Proofs.BoardExamples.
Import ListNotations.
Open Scope Z_scope.

(* nodes_le_budget: through every run of alphaBeta (any fuel, state, board, window, depth, ply, node
   type) the node counter never decreases and never passes max(its initial value, the hard budget);
   the abort flag is sticky; the generation counter is untouched *)
Theorem C08_model_nodes_le_budget_alphaBeta : forall fuel o st b al be d ply nt v st' b',
  alphaBeta fuel o st b al be d ply nt = Ok (v, st', b') ->
  s_nodes st <= s_nodes st'
  /\ (o_nodes o <> -1 -> s_nodes st' <= Z.max (s_nodes st) (o_nodes o))
  /\ (s_aborted st = true -> s_aborted st' = true)
  /\ s_gen st' = s_gen st.
Proof. exact alphaBeta_budget. Qed.
Print Assumptions C08_model_nodes_le_budget_alphaBeta.

Theorem C08_model_nodes_le_budget_quiescence : forall fuel o st b al be ply v st' b',
  quiescence fuel o st b al be ply = Ok (v, st', b') ->
  s_nodes st <= s_nodes st'
  /\ (o_nodes o <> -1 -> s_nodes st' <= Z.max (s_nodes st) (o_nodes o))
  /\ (s_aborted st = true -> s_aborted st' = true)
  /\ s_gen st' = s_gen st.
Proof. exact quiescence_budget. Qed.
Print Assumptions C08_model_nodes_le_budget_quiescence.

(* the same for a whole Search.Go (refresh, iterative deepening with aspiration, fallback move);
   with a fresh counter (s_nodes st = 0) and a budget k >= 0 this is Counters.Nodes <= k *)
Theorem C08_model_nodes_le_budget : forall fuel o st b r st' b',
  go fuel o st b = Ok (r, st', b') ->
  s_nodes st <= s_nodes st'
  /\ (o_nodes o <> -1 -> s_nodes st' <= Z.max (s_nodes st) (o_nodes o))
  /\ s_gen st' = Z.land (s_gen st + 1) 255.
Proof. exact go_budget. Qed.
Print Assumptions C08_model_nodes_le_budget.

(* search_deterministic, the meaningful version.  The engine state record of the model has two
   fields without a Go counterpart (the debugging log s_trace and its switch s_tracing).  Two runs
   from states that agree on every OTHER field - table, history tables, move store, history stack, PV
   buffer, generation, abort flag, node counter - on the same board (with its history) under the same
   limits return the same result (score, move, ponder move, every reported line), the same board,
   and leave states that again agree on every other field.  So the result and the state left behind
   are a function of (stored state, position with history, limits) and of nothing else in the record;
   together with the correspondence (stream "search") this is the C08 clause for the engine. *)
Definition same_stored_state (s1 s2 : sstate) : Prop :=
  s_tt s1 = s_tt s2 /\ s_rk s1 = s_rk s2 /\ s_ms s1 = s_ms s2 /\ s_hs s1 = s_hs s2 /\ s_pv s1 = s_pv s2 /\
  s_gen s1 = s_gen s2 /\ s_aborted s1 = s_aborted s2 /\ s_nodes s1 = s_nodes s2.

Theorem C08_model_search_deterministic : forall fuel o s1 s2 b r1 s1' b1 r2 s2' b2,
  same_stored_state s1 s2 ->
  go fuel o s1 b = Ok (r1, s1', b1) -> go fuel o s2 b = Ok (r2, s2', b2) ->
  r1 = r2 /\ b1 = b2 /\ same_stored_state s1' s2'.
Proof.
  intros fuel o s1 s2 b r1 s1' b1 r2 s2' b2 Hs H1 H2.
  apply core_eq_fields in Hs. destruct Hs as (t & g & ->).
  destruct (go_det o fuel _ _ _ _ _ _ _ _ _ _ H1 H2) as (E1 & E2 & Hc).
  split; [exact E1|]. split; [exact E2|]. now apply core_eq_fields.
Qed.
Print Assumptions C08_model_search_deterministic.

Theorem C08_model_alphaBeta_deterministic : forall fuel o s1 s2 b al be d ply nt v1 s1' b1 v2 s2' b2,
  same_stored_state s1 s2 ->
  alphaBeta fuel o s1 b al be d ply nt = Ok (v1, s1', b1) -> alphaBeta fuel o s2 b al be d ply nt = Ok (v2, s2', b2) ->
  v1 = v2 /\ b1 = b2 /\ same_stored_state s1' s2'.
Proof.
  intros fuel o s1 s2 b al be d ply nt v1 s1' b1 v2 s2' b2 Hs H1 H2.
  apply core_eq_fields in Hs. destruct Hs as (t & g & ->).
  destruct (alphaBeta_det o fuel _ _ _ _ _ _ _ _ _ _ _ H1 H2) as (E1 & E2 & Hc). cbn [fst snd] in *.
  split; [exact E1|]. split; [exact E2|]. now apply core_eq_fields.
Qed.
Print Assumptions C08_model_alphaBeta_deterministic.

(* not proved: that the two runs also agree when one of them panics or runs out of fuel (the theorem
   above covers the runs that return, which are the ones the correspondence observes) *)
Definition C08_model_deterministic_outcome_statement : Prop :=
  forall fuel o s1 s2 b, same_stored_state s1 s2 ->
  match go fuel o s1 b, go fuel o s2 b with
  | Ok (r1, s1', b1), Ok (r2, s2', b2) => r1 = r2 /\ b1 = b2 /\ same_stored_state s1' s2'
  | Panic, Panic | OutOfFuel, OutOfFuel => True
  | _, _ => False
  end.

(* non-vacuity: the same search with the debugging log switched on (every node at ply <= 1 logged)
   and off gives the same result; the logs differ *)
Example C08_model_deterministic_example :
  match new_state 32000 with
  | Ok s0 => match go search_fuel (mkO 40 (-1) 64) s0 ex_start, go search_fuel (mkO 40 (-1) 64) (set_tracing s0 1) ex_start with
             | Ok (r1, s1, _), Ok (r2, s2, _) => r1 = r2 /\ s_tt s1 = s_tt s2 /\ s_trace s1 = [] /\ s_trace s2 <> []
             | _, _ => False end
  | _ => False end.
Proof. vm_compute. repeat split; discriminate. Qed.

(* soft / hard replay on the real algorithm (the C08 replay clause; Properties/C08.v proves it for the
   abstract decision layer, Properties/C08_skel.v the skeleton facts).  Any run of Go that returns NOT
   aborted with N nodes on the counter - in particular a run stopped by its soft node limit after an
   iteration - is replayed by the run under the hard budget N, no soft limit, same depth limit, from
   the same engine state on the same board: it returns (no panic, same fuel), with the same score,
   move and ponder move, the same reported lines followed by at most one abort line
   `info depth d nodes N`, the same board, and leaves the same table, history tables, generation and
   node count.  (The replay starts the next iteration and is cut at its first incrementNodes, before
   any store; only the PV buffer's length cell of ply 0 and the abort flag differ.) *)
Theorem C08_model_soft_hard_replay : forall fuel o1 st b r1 st1 b1,
  go fuel o1 st b = Ok (r1, st1, b1) -> s_aborted st1 = false -> s_nodes st1 <> -1 ->
  let N := s_nodes st1 in
  exists r2 st2, go fuel (mkO N (-1) (o_depth o1)) st b = Ok (r2, st2, b1)
    /\ r_score r2 = r_score r1 /\ r_move r2 = r_move r1 /\ r_ponder r2 = r_ponder r1
    /\ (r_reports r2 = r_reports r1 \/ exists d, r_reports r2 = r_reports r1 ++ [RAbort d N])
    /\ s_tt st2 = s_tt st1 /\ s_rk st2 = s_rk st1 /\ s_gen st2 = s_gen st1 /\ s_nodes st2 = N.
Proof.
  intros fuel o1 st b r1 st1 b1 H Hab Hn N.
  destruct (go_replay fuel o1 N st b r1 st1 b1 H Hab eq_refl Hn) as (r2 & st2 & E & Hs). exists r2, st2. split; [exact E|exact Hs].
Qed.
Print Assumptions C08_model_soft_hard_replay.

(* the step underneath: one alphaBeta call (any window, depth, ply, node type) that returns not
   aborted with at most N nodes is reproduced exactly - value, whole state, board - under any limits
   whose hard budget is N *)
Theorem C08_model_alphaBeta_replay : forall o1 o2 N, o_nodes o2 = N ->
  forall fuel st b al be d ply nt v st' b',
  alphaBeta fuel o1 st b al be d ply nt = Ok (v, st', b') -> s_aborted st' = false -> s_nodes st' <= N ->
  alphaBeta fuel o2 st b al be d ply nt = Ok (v, st', b').
Proof. intros o1 o2 N H fuel. exact (alphaBeta_A o1 o2 N H fuel). Qed.
Print Assumptions C08_model_alphaBeta_replay.

(* non-vacuity: a soft-limited search of the start position (soft limit 30 nodes) meets the hypotheses:
   it stops after an iteration, not aborted; its replay under the hard budget is cut with an abort line *)
Example C08_model_replay_example :
  match new_state 32000 with
  | Ok s0 => match go search_fuel (mkO (-1) 30 64) s0 ex_start with
             | Ok (r1, s1, _) =>
                 s_aborted s1 = false /\ 30 < s_nodes s1 /\
                 match go search_fuel (mkO (s_nodes s1) (-1) 64) s0 ex_start with
                 | Ok (r2, s2, _) => s_aborted s2 = true /\ r_move r2 = r_move r1 /\ s_nodes s2 = s_nodes s1
                                     /\ length (r_reports r2) = S (length (r_reports r1))
                 | _ => False end
             | _ => False end
  | _ => False end.
Proof. vm_compute. repeat split; reflexivity. Qed.

(* non-vacuity: a search of the start position under a hard budget of 25 nodes runs (no panic, fuel
   suffices), is cut at exactly 25 nodes, and returns a move *)
Example C08_model_budget_example :
  match new_state 32000 with
  | Ok s0 => match go search_fuel (mkO 25 (-1) 64) s0 ex_start with
             | Ok (r, s1, _) => s_nodes s1 = 25 /\ s_aborted s1 = true /\ r_move r <> 0 /\ s_gen s1 = 1
             | _ => False end
  | _ => False end.
Proof. vm_compute. repeat split; discriminate. Qed.
