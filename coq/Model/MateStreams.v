(* Correspondence entry point for the mate/stalemate model (stream "c09"). *)
From Coq Require Import NArith ZArith List Bool.
From Chess3 Require Import Base.Bits Model.Types Model.Att Model.BoardDef Model.Board Model.Movegen
     Model.Mate Gen.Zobrist.
Import ListNotations.
Open Scope Z_scope.

(* stream "c09": board-in -> [InCheck(stm); IsCheckmate; IsStalemate; number of playable moves]
   The engine calls IsCheckmate only when the side to move is in check and IsStalemate only when it is
   not (search.go, quiescence); outside its domain IsCheckmate indexes InBetween[kingSq][64] and
   panics.  The harness therefore calls each function only inside its domain and reports 2 ("not
   called") for the other one; so does this model. *)
Definition run_c09 (l : list Z) : list Z :=
  match decode_board l with
  | Some (b, _) =>
      let chk := in_check b (stm b) in
      [ if chk then 1 else 0;
        if chk then (if is_checkmate b then 1 else 0) else 2;
        if chk then 2 else (if is_stalemate b then 1 else 0);
        Z.of_nat (length (playable zob_real b)) ]
  | None => []
  end.

(* stream "c09ab": board-in ++ [squares; colour] -> [Attackers(squares, occ, colour); Block(squares, colour)]
   (the two exported helpers, observed separately so that the early returns of IsCheckmate do not hide
   a difference between the model and the code) *)
Definition run_c09ab (l : list Z) : list Z :=
  match decode_board l with
  | Some (b, sq :: c :: _) =>
      let c := color_of_Z c in
      [ Z.of_N (attackers b (Z.to_N sq) (occupancy b) c); Z.of_N (block b (Z.to_N sq) c) ]
  | _ => []
  end.

(* stream "c09s" (session): board-in ++ [n; op_1 .. op_n] on ONE board that is played on
     op < 65536   make op      op = 65536   make_null      op = 131072   undo the latest operation not yet undone
     op = 196608 + q   a question asked at the node the walk stands on:
                       q = 0  InCheck(side to move)      q = 1  InCheck(other side)
                       q = 2  IsCheckmate (2 = not called: not in check)   q = 3  IsStalemate (2 = not called: in check)
   output: per question  [q; P1..P6; C0; C1; stm; ep; castles; answer on the played board; answer on a fresh copy]
   (the model has no hidden state: both answers are the answer of Model/Mate.v on the board after the
   same operations; a panic of the implementation is reported as 9 and never matches) *)
From Chess3 Require Import Model.SeqStreams.

Definition op_query : Z := 196608.

Definition c09s_answer (b : board) (q : Z) : Z :=
  let chk := in_check b (stm b) in
  if q =? 0 then (if chk then 1 else 0)
  else if q =? 1 then (if in_check b (flip (stm b)) then 1 else 0)
  else if q =? 2 then (if chk then (if is_checkmate b then 1 else 0) else 2)
  else (if chk then 2 else (if is_stalemate b then 1 else 0)).

Definition c09s_rec (b : board) (q : Z) : list Z :=
  let a := c09s_answer b q in
  q :: map Z.of_N (tl (pcs b)) ++ map Z.of_N (cols b) ++
  [Z.of_N (cix (stm b)); Z.of_N (ep b); Z.of_N (castles b); a; a].

Fixpoint c09s_ops (ops : list Z) (b : board) (st : list frame) (acc : list Z) : list Z :=
  match ops with
  | [] => acc
  | o :: rest =>
      if op_query <=? o then c09s_ops rest b st (acc ++ c09s_rec b (o - op_query))
      else if o =? op_pop then
        match st with
        | f :: st' => c09s_ops rest (seq_undo b f) st' acc
        | [] => c09s_ops rest b st acc
        end
      else if o =? op_null then
        let '(b1, r) := make_null zob_real b in c09s_ops rest b1 ((None, r) :: st) acc
      else
        let m := Z.to_N o in
        let '(b1, r) := make zob_real b m in c09s_ops rest b1 ((Some m, r) :: st) acc
  end.

Definition run_c09s (l : list Z) : list Z :=
  match decode_board l with
  | Some (b, n :: ops) => c09s_ops (firstn (Z.to_nat n) ops) b [] []
  | _ => []
  end.
