(* The fast oracles of Spec/C01Judge.v compute the same as the plain ones. *)
From Coq Require Import NArith ZArith List Bool Lia.
From Chess3 Require Import Base.Bits Model.Types Spec.Geometry Model.BoardDef Spec.Chess Spec.Rep
  Spec.ChessJudge Spec.PerftSpec Spec.C01Judge Proofs.GenBase.
Import ListNotations.

Lemma filter_flat_map {A B} (f : B -> bool) (g : A -> list B) l :
  filter f (flat_map g l) = flat_map (fun x => filter f (g x)) l.
Proof.
  induction l as [|a l IH]; cbn [flat_map]; [reflexivity|]. rewrite filter_app, IH. reflexivity.
Qed.

Lemma filter_none {A} (f : A -> bool) l : (forall x, In x l -> f x = false) -> filter f l = [].
Proof.
  induction l as [|a l IH]; intros H; cbn [filter]; [reflexivity|].
  rewrite (H a (or_introl eq_refl)). apply IH. intros x Hx. apply H. right. exact Hx.
Qed.

Lemma flat_map_ext_in' {A B} (f g : A -> list B) l : (forall a, In a l -> f a = g a) -> flat_map f l = flat_map g l.
Proof.
  induction l as [|a l IH]; intros H; cbn [flat_map]; [reflexivity|].
  rewrite (H a (or_introl eq_refl)), IH; [reflexivity|]. intros x Hx. apply H. right. exact Hx.
Qed.

Lemma candidates_from : candidates = flat_map moves_from squares64.
Proof. reflexivity. Qed.

Lemma not_owned_illegal p from m : owned_by p from (turn p) = false -> mv_from m = from -> legal_spec p m = false.
Proof.
  intros H E. unfold legal_spec, pseudo_spec. rewrite E. unfold owned_by in H.
  destruct (who p from) as [[c' k]|]; [|reflexivity]. rewrite H. reflexivity.
Qed.

Lemma in_moves_from from m : (from < 64)%N -> In m (moves_from from) -> mv_from m = from.
Proof.
  intros Hf H. unfold moves_from in H. apply in_flat_map in H. destruct H as [to [Ht H]].
  apply in_squares64 in Ht. apply in_map_iff in H. destruct H as [pr [<- Hp]].
  apply mk_move_from; [exact Hf|exact Ht|]. cbn [In] in Hp. unfold Knight, Bishop, Rook, Queen in Hp. lia.
Qed.

Theorem legal_moves_fast_eq p : legal_moves_fast p = legal_moves p.
Proof.
  unfold legal_moves, legal_moves_fast. rewrite candidates_from, filter_flat_map.
  apply flat_map_ext_in'. intros from Hf. apply in_squares64 in Hf.
  destruct (owned_by p from (turn p)) eqn:E; [reflexivity|]. symmetry. apply filter_none.
  intros m Hm. apply (not_owned_illegal p from m E). apply in_moves_from; assumption.
Qed.

Theorem judge_c01x_eq l :
  judge_c01x l = match decode_board l with
                 | Some (b, _) => if negb (rep_ok b) then [0; 8]%Z else judge_c01 l
                 | None => judge_c01 l
                 end.
Proof.
  unfold judge_c01x, judge_c01. destruct (decode_board l) as [[b rest]|]; [|reflexivity].
  rewrite legal_moves_fast_eq. reflexivity.
Qed.

Theorem perft_fast_eq d : forall p, perft_fast d p = perft_count d p.
Proof.
  induction d as [|d IH]; intros p; [reflexivity|].
  destruct d as [|d']; [cbn [perft_fast perft_count]; rewrite legal_moves_fast_eq; reflexivity|].
  change (perft_fast (S (S d')) p) with
    (fold_left (fun acc m => (acc + perft_fast (S d') (succ_spec p m))%Z) (legal_moves_fast p) 0%Z).
  change (perft_count (S (S d')) p) with
    (fold_left (fun acc m => (acc + perft_count (S d') (succ_spec p m))%Z) (legal_moves p) 0%Z).
  rewrite legal_moves_fast_eq. generalize 0%Z. induction (legal_moves p) as [|m r IHr]; intros a; [reflexivity|].
  cbn [fold_left]. rewrite IH. apply IHr.
Qed.

Theorem judge_perftx_eq l : judge_perftx l = judge_perft l.
Proof.
  unfold judge_perftx, judge_perft. destruct (decode_board l) as [[b [|d [|n r]]]|]; try reflexivity.
  rewrite perft_fast_eq. reflexivity.
Qed.

(* ------------------------------------------------------------------------------------------ *)
(* the verdict of the oracle is the property: on a valid position the judge answers [1] exactly when
   the observed playable list has the same elements as [legal_moves] and no duplicates *)

Lemma subset_spec a b : subset a b = true <-> (forall x, In x a -> In x b).
Proof.
  unfold subset. rewrite forallb_forall. split; intros H x Hx.
  - apply H in Hx. apply existsb_exists in Hx. destruct Hx as [y [Hy E]]. apply N.eqb_eq in E. subst y. exact Hy.
  - apply existsb_exists. exists x. split; [apply H; exact Hx|apply N.eqb_refl].
Qed.

Lemma nodup_b_spec l : nodup_b l = true <-> NoDup l.
Proof.
  induction l as [|x r IH]; cbn [nodup_b].
  - split; [constructor|reflexivity].
  - rewrite andb_true_iff, negb_true_iff, IH. split.
    + intros [A B]. constructor; [|exact B]. intros Hin.
      assert (E : existsb (N.eqb x) r = true) by (apply existsb_exists; exists x; split; [exact Hin|apply N.eqb_refl]).
      congruence.
    + intros H. inversion H as [|? ? Hn Hr]. subst. split; [|exact Hr].
      destruct (existsb (N.eqb x) r) eqn:E; [|reflexivity]. apply existsb_exists in E.
      destruct E as [y [Hy E]]. apply N.eqb_eq in E. subst y. contradiction.
Qed.

Definition observed_playable (rest : list Z) : list N :=
  map Z.to_N (fst (take_counted (snd (take_counted (snd (take_counted rest)))))).

Theorem judge_c01_verdict l b rest : decode_board l = Some (b, rest) -> valid (abs b) = true ->
  (judge_c01 l = [1%Z] <->
   ((forall m, In m (observed_playable rest) <-> In m (legal_moves (abs b))) /\ NoDup (observed_playable rest))).
Proof.
  intros D V. unfold judge_c01, observed_playable. rewrite D, V. cbn [negb].
  destruct (take_counted rest) as [x1 r1]. cbn [fst snd]. destruct (take_counted r1) as [x2 r2]. cbn [fst snd].
  destruct (take_counted r2) as [pl r3]. cbn [fst snd].
  set (P := map Z.to_N pl). set (L := legal_moves (abs b)).
  rewrite <- nodup_b_spec.
  assert (S1 := subset_spec P L). assert (S2 := subset_spec L P).
  destruct (subset P L) eqn:E1; cbn [negb].
  - destruct (subset L P) eqn:E2; cbn [negb].
    + destruct (nodup_b P) eqn:E3; cbn [negb].
      * split; [intros _|reflexivity]. split; [|reflexivity]. intros m. split; [apply S1|apply S2]; reflexivity.
      * split; [discriminate|]. intros [_ H]. discriminate.
    + split; [discriminate|]. intros [H _]. assert (Q : false = true) by (apply S2; intros x Hx; apply H; exact Hx).
      discriminate.
  - split; [discriminate|]. intros [H _]. assert (Q : false = true) by (apply S1; intros x Hx; apply H; exact Hx).
    discriminate.
Qed.
