(* C11 round trip, part 2: the placement field.  Parsing the run-length text printed for the 64
   squares replays, square by square in the printer's order, the three array writes of the piece
   case ([place_sq]); what these writes add up to is the subject of Proofs/FenBoard.v. *)
From Coq Require Import NArith ZArith List Bool Lia PeanoNat.
From Chess3 Require Import Base.Bits Base.Word Model.Types Model.BoardDef Model.Board Model.Fen
  Proofs.FenFields.
Import ListNotations.

(* the colour the printer chooses for an occupied square *)
Definition col_at (b : board) (sq : N) : color :=
  if negb (band (colors b White) (bit sq) =? 0)%N then White else Black.

(* the three writes of the piece case, in closed form *)
Definition place_at (acc : board) (col : color) (p sq : N) : board :=
  set_sq2p (set_cols (set_pcs acc (updN (pcs acc) p (bor (pieces acc p) (bit sq))))
                     (updN (cols acc) (cix col) (bor (colors acc col) (bit sq))))
           (updN (sq2p acc) sq p).

Definition place_sq (b : board) (acc : board) (sq : N) : board :=
  if (piece_at b sq =? NoPiece)%N then acc else place_at acc (col_at b sq) (piece_at b sq) sq.

Lemma piece_char_facts acc col p sq : (1 <= p <= 6)%N -> (sq < 64)%N ->
  place acc (piece_char col p) sq = Ok (place_at acc col p sq) /\
  is_digit18 (piece_char col p) = false /\ (piece_char col p =? c_slash)%N = false /\
  is_piece_char (piece_char col p) = true.
Proof.
  intros Hp Hsq. apply N.ltb_lt in Hsq.
  assert (C : (p = 1 \/ p = 2 \/ p = 3 \/ p = 4 \/ p = 5 \/ p = 6)%N) by lia.
  destruct C as [-> | [-> | [-> | [-> | [-> | ->]]]]]; destruct col;
    (split; [unfold place, arr_set; rewrite Hsq; reflexivity|repeat split; reflexivity]).
Qed.

Lemma itoa_small z : (1 <= z <= 8)%Z -> itoa z = [(c_0 + Z.to_N z)%N] /\ is_digit18 (c_0 + Z.to_N z)%N = true.
Proof.
  intros H. assert (C : (z = 1 \/ z = 2 \/ z = 3 \/ z = 4 \/ z = 5 \/ z = 6 \/ z = 7 \/ z = 8)%Z) by lia.
  destruct C as [-> | [-> | [-> | [-> | [-> | [-> | [-> | ->]]]]]]]; split; reflexivity.
Qed.

(* ---- single steps of position() ---- *)

Section Steps.
Variable s : list N.
Let l := length s.

Lemma pos_digit fuel ix rank file acc c t : skipn ix s = c :: t -> is_digit18 c = true ->
  position_loop (S fuel) s l ix rank file acc =
  position_loop fuel s l (S ix) rank (wrap64 (file + Z.of_N (c - c_0))) acc.
Proof.
  intros Hs Hd. cbn [position_loop]. unfold l. rewrite (ltb_of_cursor _ _ _ _ Hs).
  apply skipn_cons_inv in Hs. destruct Hs as (-> & _ & _). rewrite Hd. reflexivity.
Qed.

Lemma pos_slash fuel ix rank file acc t : skipn ix s = c_slash :: t -> (1 <= rank <= 7)%Z ->
  position_loop (S fuel) s l ix rank file acc = position_loop fuel s l (S ix) (rank - 1) 0 acc.
Proof.
  intros Hs Hr. cbn [position_loop]. unfold l. rewrite (ltb_of_cursor _ _ _ _ Hs).
  apply skipn_cons_inv in Hs. destruct Hs as (-> & _ & _).
  change (is_digit18 c_slash) with false. change (c_slash =? c_slash)%N with true. cbv iota.
  rewrite wrap64_id by lia. destruct (Z.ltb_spec (rank - 1) 0); [lia|reflexivity].
Qed.

Lemma pos_space fuel ix rank file acc t : skipn ix s = c_space :: t ->
  position_loop (S fuel) s l ix rank file acc = Ok (ix, acc).
Proof.
  intros Hs. cbn [position_loop]. unfold l. rewrite (ltb_of_cursor _ _ _ _ Hs).
  apply skipn_cons_inv in Hs. destruct Hs as (-> & _ & _). reflexivity.
Qed.

Lemma pos_piece fuel ix (r : N) (f : nat) acc col p t : skipn ix s = piece_char col p :: t ->
  (1 <= p <= 6)%N -> (r <= 7)%N -> (f <= 7)%nat ->
  position_loop (S fuel) s l ix (Z.of_N r) (Z.of_nat f) acc =
  position_loop fuel s l (S ix) (Z.of_N r) (Z.of_nat (S f)) (place_at acc col p (r * 8 + N.of_nat f)).
Proof.
  intros Hs Hp Hr Hf. cbn [position_loop]. unfold l. rewrite (ltb_of_cursor _ _ _ _ Hs).
  apply skipn_cons_inv in Hs. destruct Hs as (-> & _ & _).
  destruct (piece_char_facts acc col p (r * 8 + N.of_nat f) Hp ltac:(lia)) as (P & D & S' & I).
  rewrite D, S', I.
  rewrite (wrap64_id (8 * Z.of_N r)) by lia. rewrite wrap64_id by lia.
  destruct (Z.ltb_spec (8 * Z.of_N r + Z.of_nat f) 0); [lia|].
  destruct (Z.ltb_spec 63 (8 * Z.of_N r + Z.of_nat f)); [lia|]. cbn [orb].
  replace (Z.to_N (8 * Z.of_N r + Z.of_nat f)) with (r * 8 + N.of_nat f)%N by lia.
  rewrite P. rewrite wrap64_id by lia. f_equal. lia.
Qed.

(* a pending run of empty squares is flushed as one digit *)
Lemma parse_flush fuel ix rank (target count : Z) acc rest :
  (0 <= count <= target)%Z -> (target <= 8)%Z ->
  skipn ix s = flush_count count ++ rest -> (l - ix < fuel)%nat ->
  exists fuel' ix', (l - ix' < fuel')%nat /\ skipn ix' s = rest /\
    position_loop fuel s l ix rank (target - count) acc = position_loop fuel' s l ix' rank target acc.
Proof.
  intros Hc Ht Hs Hf. unfold flush_count in Hs.
  destruct (Z.ltb_spec 0 count) as [Hpos|Hz].
  - destruct (itoa_small count ltac:(lia)) as (E & D). rewrite E in Hs. cbn [app] in Hs.
    destruct fuel as [|fuel]; [lia|].
    rewrite (pos_digit _ _ _ _ _ _ _ Hs D).
    apply skipn_cons_inv in Hs. destruct Hs as (_ & Hs & Hl).
    exists fuel, (S ix). repeat split; [unfold l in *; lia|exact Hs|].
    f_equal. rewrite wrap64_id; unfold c_0; lia.
  - exists fuel, ix. assert (count = 0)%Z by lia. subst count. rewrite Z.sub_0_r. auto.
Qed.

Definition codes_ok (b : board) : Prop := forall sq, (sq < 64)%N -> (piece_at b sq <= 6)%N.

Definition rank_run (r : N) (f0 n : nat) : list N := map (fun f => r * 8 + N.of_nat f)%N (seq f0 n).

Lemma parse_squares b (r : N) : (r <= 7)%N -> codes_ok b -> forall n f0 count acc fuel ix rest,
  (f0 + n = 8)%nat -> (0 <= count <= Z.of_nat f0)%Z ->
  skipn ix s = print_squares b (rank_run r f0 n) count ++ rest -> (l - ix < fuel)%nat ->
  exists fuel' ix', (l - ix' < fuel')%nat /\ skipn ix' s = rest /\
    position_loop fuel s l ix (Z.of_N r) (Z.of_nat f0 - count) acc =
    position_loop fuel' s l ix' (Z.of_N r) 8 (fold_left (place_sq b) (rank_run r f0 n) acc).
Proof.
  intros Hr Hcodes. induction n as [|n IH]; intros f0 count acc fuel ix rest Hn Hc Hs Hf.
  - cbn in Hs. cbn [rank_run seq map fold_left].
    assert (f0 = 8)%nat by lia. subst f0.
    destruct (parse_flush fuel ix (Z.of_N r) 8 count acc rest ltac:(lia) ltac:(lia) Hs Hf) as (fuel' & ix' & A & B & C).
    exists fuel', ix'. auto.
  - unfold rank_run in *. cbn [seq map print_squares fold_left] in *.
    set (sq := (r * 8 + N.of_nat f0)%N) in *.
    assert (Hsq : (sq < 64)%N) by (unfold sq; lia).
    destruct (N.eqb_spec (piece_at b sq) NoPiece) as [E|E].
    + assert (Hps : place_sq b acc sq = acc) by (unfold place_sq; apply N.eqb_eq in E; rewrite E; reflexivity).
      rewrite Hps. cbn [negb] in Hs.
      destruct (IH (S f0) (count + 1)%Z acc fuel ix rest ltac:(lia) ltac:(lia) Hs Hf) as (fuel' & ix' & A & B & C).
      exists fuel', ix'. repeat split; auto.
      rewrite <- C. f_equal. lia.
    + assert (Hps : place_sq b acc sq = place_at acc (col_at b sq) (piece_at b sq) sq)
        by (unfold place_sq; apply N.eqb_neq in E; rewrite E; reflexivity).
      rewrite Hps. cbn [negb] in Hs. rewrite <- app_assoc in Hs.
      destruct (parse_flush fuel ix (Z.of_N r) (Z.of_nat f0) count acc _ ltac:(lia) ltac:(lia) Hs Hf)
        as (fuel1 & ix1 & A1 & B1 & C1).
      rewrite C1. cbn [app] in B1. fold (col_at b sq) in B1.
      destruct fuel1 as [|fuel1]; [lia|].
      assert (Hp : (1 <= piece_at b sq <= 6)%N) by (pose proof (Hcodes sq Hsq); unfold NoPiece in E; lia).
      rewrite (pos_piece fuel1 ix1 r f0 acc (col_at b sq) (piece_at b sq) _ B1 Hp Hr ltac:(lia)).
      apply skipn_cons_inv in B1. destruct B1 as (_ & B1 & L1).
      destruct (IH (S f0) 0%Z (place_at acc (col_at b sq) (piece_at b sq) sq) fuel1 (S ix1) rest
                   ltac:(lia) ltac:(lia) B1 ltac:(unfold l in *; lia)) as (fuel' & ix' & A & B & C).
      exists fuel', ix'. repeat split; auto.
Qed.

(* ranks n, n-1, ..., 0 *)
Fixpoint desc (n : nat) : list N := N.of_nat n :: match n with O => [] | S m => desc m end.

Definition print_ranks (b : board) (rs : list N) : list N :=
  concat (map (fun r => print_squares b (rank_squares r) 0%Z ++ (if (r =? 0)%N then [] else [c_slash])) rs).

Definition all_squares (rs : list N) : list N := concat (map rank_squares rs).

Lemma rank_squares_run r : rank_squares r = rank_run r 0 8.
Proof. reflexivity. Qed.

Lemma parse_ranks b : codes_ok b -> forall n acc fuel ix t, (n <= 7)%nat ->
  skipn ix s = print_ranks b (desc n) ++ c_space :: t -> (l - ix < fuel)%nat ->
  exists ix', position_loop fuel s l ix (Z.of_nat n) 0 acc = Ok (ix', fold_left (place_sq b) (all_squares (desc n)) acc)
              /\ skipn ix' s = c_space :: t.
Proof.
  intros Hcodes. induction n as [|n IH]; intros acc fuel ix t Hn Hs Hf.
  - unfold print_ranks, all_squares in *. cbn [desc map concat] in *.
    change (0 =? 0)%N with true in Hs. cbv iota in Hs. rewrite !app_nil_r in *. 
    rewrite rank_squares_run in *.
    destruct (parse_squares b 0%N ltac:(lia) Hcodes 8 0 0%Z acc fuel ix _ eq_refl ltac:(lia) Hs Hf)
      as (fuel' & ix' & A & B & C).
    change (Z.of_nat 0 - 0)%Z with 0%Z in C. change (Z.of_N 0) with (Z.of_nat 0) in C. rewrite C.
    destruct fuel' as [|fuel']; [lia|]. rewrite (pos_space _ _ _ _ _ _ B). exists ix'. auto.
  - unfold print_ranks, all_squares in *. cbn [desc map concat] in *.
    fold (print_ranks b (desc n)) in *. fold (all_squares (desc n)).
    replace (N.of_nat (S n) =? 0)%N with false in Hs by (symmetry; apply N.eqb_neq; lia).
    rewrite <- !app_assoc in Hs. cbn [app] in Hs. rewrite fold_left_app.
    rewrite rank_squares_run in *.
    destruct (parse_squares b (N.of_nat (S n)) ltac:(lia) Hcodes 8 0 0%Z acc fuel ix _ eq_refl ltac:(lia) Hs Hf)
      as (fuel' & ix' & A & B & C).
    change (Z.of_nat 0 - 0)%Z with 0%Z in C. rewrite nat_N_Z in C. rewrite C.
    destruct fuel' as [|fuel']; [lia|].
    assert (Hrk : (1 <= Z.of_nat (S n) <= 7)%Z) by lia.
    rewrite (pos_slash _ _ _ _ _ _ B Hrk).
    apply skipn_cons_inv in B. destruct B as (_ & B & L).
    replace (Z.of_nat (S n) - 1)%Z with (Z.of_nat n) by lia.
    apply IH; [lia|exact B|unfold l in *; lia].
Qed.

Lemma print_placement_ranks b : print_placement b = print_ranks b (desc 7).
Proof. reflexivity. Qed.

End Steps.
