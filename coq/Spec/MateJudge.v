(* Spec-level oracle for property C09 (stream "c09"): it looks only at what the implementation
   answered and at Spec/Chess.v, never at the engine model.

   input = board-in ++ [InCheck; IsCheckmate (0/1, 2 = not called); IsStalemate (0/1, 2 = not called);
                        number of playable moves reported by the harness]
   [1]      the position is outside the property's domain (not valid, or an en-passant target is
            recorded although no en-passant capture is legal), or the answers are right
   [0; c]   otherwise:  c = 1  in check, IsCheckmate answered true but a legal move exists
                        c = 2  in check, IsCheckmate answered false but there is no legal move
                        c = 3  not in check, IsStalemate answered true but a legal move exists
                        c = 4  not in check, IsStalemate answered false but there is no legal move
                        c = 5  InCheck disagrees with the rules (or the function of the domain was not called)
                        c = 6  the harness' playable-move count is zero / non-zero against the rules
                        c = 9  undecodable input *)
From Coq Require Import NArith ZArith List Bool.
From Chess3 Require Import Base.Bits Model.Types Spec.Geometry Model.BoardDef Spec.Chess.
Import ListNotations.
Open Scope Z_scope.

(* legal_moves p = []  (computed with early exit; only moves that start on a square holding a man of
   the side to move are tried: pseudo_spec rejects every other encoding at once) *)
Definition candidates_of (p : pos) : list N :=
  flat_map (fun from => flat_map (fun to =>
    map (fun pr => mk_move from to pr) [0; Knight; Bishop; Rook; Queen])%N squares64)
    (filter (fun s => owned_by p s (turn p)) squares64).
Definition no_legal_move (p : pos) : bool := negb (existsb (legal_spec p) (candidates_of p)).

Definition judge_c09 (l : list Z) : list Z :=
  match decode_board l with
  | Some (b, chk :: mate :: stale :: cnt :: _) =>
      let p := abs b in
      if negb (valid p && normal_ep p) then [1] else
      let none := no_legal_move p in
      let c := in_check_spec p (turn p) in
      if negb (chk =? (if c then 1 else 0)) then [0; 5]
      else if negb (Bool.eqb (cnt =? 0) none) then [0; 6]
      else if c then
        if mate =? 1 then (if none then [1] else [0; 1])
        else if mate =? 0 then (if none then [0; 2] else [1])
        else [0; 5]
      else
        if stale =? 1 then (if none then [1] else [0; 3])
        else if stale =? 0 then (if none then [0; 4] else [1])
        else [0; 5]
  | _ => [0; 9]
  end.

(* judge for the session stream "c09s": input = board-in ++ [n; ops..] ++ records, a record being
   [q; P1..P6; C0; C1; stm; ep; castles; answer on the played board; answer on a fresh copy]
   (the position of every question is taken from what the implementation reported - the snapshot the
   fresh copy was restored from -, never from an engine model).  For positions in the property's
   domain both answers must be what the rules say:
     [1]            all questions answered correctly
     [0; c; k]      question number k (from 0) is wrong; c = 10 + x for the played board, 20 + x for the
                    fresh copy, x = 1 InCheck(side to move)   2 InCheck(other side)
                    3 IsCheckmate true with a legal move   4 IsCheckmate false without   5 IsCheckmate domain / panic
                    6 IsStalemate true with a legal move   7 IsStalemate false without   8 IsStalemate domain / panic
     [0; 9; k]      malformed record *)
Definition c09s_clause (p : pos) (q a : Z) : Z :=
  let c := in_check_spec p (turn p) in
  if q =? 0 then (if a =? (if c then 1 else 0) then 0 else 1)
  else if q =? 1 then (if a =? (if in_check_spec p (flip (turn p)) then 1 else 0) then 0 else 2)
  else if q =? 2 then
    (if a =? 2 then (if c then 5 else 0)
     else if negb c then 5
     else if a =? 1 then (if no_legal_move p then 0 else 3)
     else if a =? 0 then (if no_legal_move p then 4 else 0) else 5)
  else
    (if a =? 2 then (if c then 0 else 8)
     else if c then 8
     else if a =? 1 then (if no_legal_move p then 0 else 6)
     else if a =? 0 then (if no_legal_move p then 7 else 0) else 8).

Fixpoint c09s_records (fuel : nat) (l : list Z) (k : Z) : list Z :=
  match fuel with
  | O => [1]
  | S fuel' =>
      match l with
      | [] => [1]
      | q :: p1 :: p2 :: p3 :: p4 :: p5 :: p6 :: c0 :: c1 :: st :: e :: ca :: live :: fresh :: rest =>
          match decode_board [p1; p2; p3; p4; p5; p6; c0; c1; st; e; ca; 0; 1; 1; 1] with
          | Some (b, _) =>
              let p := abs b in
              if negb (valid p && normal_ep p) then c09s_records fuel' rest (k + 1) else
              let x := c09s_clause p q live in
              if negb (x =? 0) then [0; 10 + x; k] else
              let y := c09s_clause p q fresh in
              if negb (y =? 0) then [0; 20 + y; k] else c09s_records fuel' rest (k + 1)
          | None => [0; 9; k]
          end
      | _ => [0; 9; k]
      end
  end.

Definition judge_c09s (l : list Z) : list Z :=
  match decode_board l with
  | Some (_, n :: rest) => let recs := skipn (Z.to_nat n) rest in c09s_records (length recs) recs 0
  | _ => [0; 9; 0]
  end.
