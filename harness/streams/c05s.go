package streams

import (
	"fmt"
	"sort"
	"strings"

	"github.com/paulsonkoly/chess-3/board"
	. "github.com/paulsonkoly/chess-3/chess"
	"github.com/paulsonkoly/chess-3/move"

	"verifharness/hx"
	"verifharness/posgen"
)

// c05s: property C05 asked on ONE long-lived board object (a session).
//
//	input:  board-in ++ [n op_1 .. op_n]        ops as in stream mkseq, plus a flag bit:
//	          op < 0x10000    MakeMove(op)
//	          op = 0x10000    MakeNullMove()
//	          op = 0x20000    undo the most recent operation that is not yet undone
//	          op | 0x40000    the same operation, but NO question is asked after it
//	output: a list of records, one per question
//	          REC = [step] ++ board-out-nohist ++ [#acc1 acc1.. #gen gen.. #acc2 acc2..]
//	        step 0 is the board as handed in, step k the board after op k, steps n+1.. the boards
//	        while the operations still on the stack are undone at the end. A question is the property
//	        verbatim, asked twice in a row on the same object: the encodings 0..32767 accepted by
//	        IsPseudoLegal (acc1), the output of GenNoisy+GenNotNoisy sorted (gen), the accepted
//	        encodings once more (acc2).
//
// The one-shot stream c05 builds a fresh board for every position; state that a board carries from one
// question to the next across MakeMove / UndoMove / MakeNullMove / UndoNullMove (caches filled by a
// question, invalidated by some mutators only) is visible only here.
// Model: coq/Model/C05Sess.v (run_c05s); judge: coq/Spec/C05SessJudge.v (judge_c05s).
func init() {
	hx.Register(&hx.Stream{Name: "c05s", Gen: genC05s, Run: runC05s, Shrink: shrinkC05s, Describe: describeC05s})
}

const opQuiet = 0x40000

func acceptedSet(b *board.Board) []uint64 {
	var acc []uint64
	for m := 0; m < 32768; m++ {
		if b.IsPseudoLegal(hx.U2M(uint64(m))) {
			acc = append(acc, uint64(m))
		}
	}
	return acc
}

func c05sQuestion(out *hx.Nums, b *board.Board, step int) {
	out.Int(step).BoardOutNoHist(b)
	acc := acceptedSet(b)
	out.Int(len(acc)).U(acc...)
	gen := sortedPseudo(b)
	out.Int(len(gen)).U(gen...)
	acc = acceptedSet(b)
	out.Int(len(acc)).U(acc...)
}

func runC05s(a hx.Args) string {
	b, i := a.Board(0)
	n := a.Int(i)
	out := &hx.Nums{}
	c05sQuestion(out, b, 0)
	var stack []seqFrame
	undo := func() {
		f := stack[len(stack)-1]
		stack = stack[:len(stack)-1]
		if f.null {
			b.UndoNullMove(f.r)
		} else {
			b.UndoMove(f.m, f.r)
		}
	}
	for k := 0; k < n; k++ {
		op := a.U64(i + 1 + k)
		quiet := op&opQuiet != 0
		op &^= opQuiet
		switch {
		case op == opPop:
			if len(stack) > 0 {
				undo()
			}
		case op == opNull:
			stack = append(stack, seqFrame{null: true, r: b.MakeNullMove()})
		default:
			m := hx.U2M(uint64(op))
			stack = append(stack, seqFrame{m: m, r: b.MakeMove(m)})
		}
		if !quiet {
			c05sQuestion(out, b, k+1)
		}
	}
	for j := 1; len(stack) > 0; j++ {
		undo()
		c05sQuestion(out, b, n+j)
	}
	return out.String()
}

// c05sRoots: both sides (or at least the side to move and, after a null move, the other side) have a
// castling right with an empty path, in quiet and in busy positions; some with one wing blocked or
// attacked, so that the answers differ between the wings and between the sides.
var c05sRoots = []string{
	"r3k2r/8/8/8/8/8/8/R3K2R w KQkq - 0 1",
	"r3k2r/8/8/8/8/8/8/R3K2R b KQkq - 0 1",
	"r3k2r/pppq1ppp/2npbn2/2b1p3/2B1P3/2NPBN2/PPPQ1PPP/R3K2R b KQkq - 4 8",
	"r3k2r/pppq1ppp/2npbn2/2b1p3/2B1P3/2NPBN2/PPPQ1PPP/R3K2R w KQkq - 4 8",
	"r3k2r/p1ppqpb1/bn2pnp1/3PN3/1p2P3/2N2Q1p/PPPBBPPP/R3K2R w KQkq - 0 1",
	"r3k2r/p1ppqpb1/bn2pnp1/3PN3/1p2P3/2N2Q1p/PPPBBPPP/R3K2R b KQkq - 0 1",
	"r3k2r/8/8/8/8/8/8/R3K2R w Kq - 0 1",
	"r3k2r/8/8/8/8/8/8/R3K2R b Qk - 0 1",
	"r3k2r/8/8/8/8/8/8/R3K2R w Kk - 0 1",
	"r3k2r/8/8/8/8/8/8/R3K2R w Qq - 0 1",
	"rn2k2r/8/8/8/8/8/8/R3K1NR w KQkq - 0 1",
	"r3k1nr/8/8/8/8/8/8/RN2K2R b KQkq - 0 1",
	"r3k2r/8/8/8/8/8/6b1/R3K2R w KQkq - 0 1",
	"r3k2r/6B1/8/8/8/8/8/R3K2R b KQkq - 0 1",
	"r3k2r/8/8/2b5/2B5/8/8/R3K2R w KQkq - 0 1",
	"r3k2r/8/5N2/8/8/5n2/8/R3K2R w KQkq - 0 1",
	"r3k2r/pppppppp/8/8/8/8/PPPPPPPP/R3K2R w KQkq - 0 1",
	"r3k2r/pppppppp/8/8/8/8/PPPPPPPP/R3K2R b KQkq - 0 1",
	"r3k2r/1pp2pp1/8/p6p/P6P/8/1PP2PP1/R3K2R w KQkq - 0 1",
	"4k2r/8/8/8/8/8/8/R3K3 w Qk - 0 1",
	"r3k3/8/8/8/8/8/8/4K2R b Kq - 0 1",
	"r3k2r/8/8/8/8/8/8/4K3 w kq - 0 1",
	"4k3/8/8/8/8/8/8/R3K2R b KQ - 0 1",
	"rnbqk2r/pppp1ppp/5n2/2b1p3/2B1P3/5N2/PPPP1PPP/RNBQK2R w KQkq - 4 4",
	"rnbqk2r/pppp1ppp/5n2/2b1p3/2B1P3/5N2/PPPP1PPP/RNBQK2R b KQkq - 4 4",
	"r3kbnr/ppp1pppp/2nq4/3p1b2/3P1B2/2NQ4/PPP1PPPP/R3KBNR w KQkq - 6 5",
	StartPosFEN,
}

func hasCastling(b *board.Board, ms []move.Move) bool {
	for _, m := range ms {
		if b.SquaresToPiece[m.From()] == King && Abs(m.From()-m.To()) == 2 {
			return true
		}
	}
	return false
}

// c05sWalk walks the way the search does (see genMkseq), biased towards null moves made and taken back
// where a castling move is generated for the side to move, towards backing up right after a null move,
// and with a share of operations after which no question is asked.
func c05sWalk(rng *hx.Rng, b *board.Board) (ops []uint64, tags map[string]bool, deepest int) {
	tags = map[string]bool{}
	var stack []seqFrame
	maxDepth := 1 + rng.Intn(10)
	maxOps := 2 + rng.Intn(22)
	pop := func() {
		f := stack[len(stack)-1]
		stack = stack[:len(stack)-1]
		if f.null {
			b.UndoNullMove(f.r)
		} else {
			b.UndoMove(f.m, f.r)
		}
	}
	quietP := 0.0
	if rng.Chance(0.5) {
		quietP = 0.25
	}
	add := func(op uint64) {
		if rng.Chance(quietP) {
			op |= opQuiet
			tags["quiet-op"] = true
		}
		ops = append(ops, op)
	}
	for len(ops) < maxOps {
		ms := posgen.Pseudo(b)
		castle := hasCastling(b, ms)
		if castle {
			tags["castling-generated"] = true
		}
		lastNull := len(stack) > 0 && stack[len(stack)-1].null
		pNull, pPop := 10, 18
		if castle {
			pNull = 40
		}
		if lastNull {
			pPop = 45
		}
		x := rng.Intn(100)
		switch {
		case x < pPop && len(stack) > 0:
			if lastNull {
				tags["undo-null"] = true
			}
			pop()
			add(opPop)
		case x < pPop+pNull && len(stack) < maxDepth && !b.InCheck(b.STM):
			stack = append(stack, seqFrame{null: true, r: b.MakeNullMove()})
			add(opNull)
			tags["null"] = true
			if castle {
				tags["null-where-castling-generated"] = true
			}
		case len(stack) < maxDepth:
			if len(ms) == 0 {
				maxOps = 0
				break
			}
			m := ms[rng.Intn(len(ms))]
			if castle && rng.Chance(0.15) {
				for _, c := range ms {
					if b.SquaresToPiece[c.From()] == King && Abs(c.From()-c.To()) == 2 {
						m = c
					}
				}
				tags["castling-played"] = true
			}
			me := b.STM
			r := b.MakeMove(m)
			add(hx.M2U(m))
			if b.InCheck(me) {
				b.UndoMove(m, r)
				add(opPop)
				tags["illegal-made-undone"] = true
			} else {
				stack = append(stack, seqFrame{m: m, r: r})
			}
		default:
			if len(stack) == 0 {
				maxOps = 0
				break
			}
			pop()
			add(opPop)
		}
		if len(stack) > deepest {
			deepest = len(stack)
		}
	}
	for len(stack) > 0 {
		pop()
	}
	return ops, tags, deepest
}

func c05sOpString(op uint64) string {
	s := opString(op &^ opQuiet)
	if op&opQuiet != 0 {
		s += "(no-question)"
	}
	return s
}

func genC05s(rng *hx.Rng, n int, tier string, emit func(hx.Input)) {
	cnt := 0
	one := func(b *board.Board, kind string) {
		if cnt >= n {
			return
		}
		in := (&hx.Nums{}).BoardIn(b)
		fen := b.FEN()
		ops, tags, deepest := c05sWalk(rng, b)
		if len(ops) == 0 {
			return
		}
		in.Int(len(ops)).U(ops...)
		var sb strings.Builder
		sb.WriteString(kind + " fen " + fen + " ops")
		for _, o := range ops {
			sb.WriteString(" " + c05sOpString(o))
		}
		tl := append(posgen.Tags(b), kind)
		for t := range tags {
			tl = append(tl, t)
		}
		sort.Strings(tl)
		if deepest <= 3 {
			tl = append(tl, "depth<=3")
		} else {
			tl = append(tl, "depth>3")
		}
		emit(hx.Input{In: in.String(), Desc: sb.String(), Tags: tl, NonTrivial: tags["null"], Key: sb.String()})
		cnt++
	}
	// every root once, then 40 % roots again (other walks), 35 % random castling placements, the rest
	// play-outs / sparse positions (preferably with castling rights left)
	for _, r := range c05sRoots {
		if b, err := board.FromFEN(r); err == nil && posgen.Valid(b) {
			one(b, "root")
		}
	}
	for cnt < n {
		switch x := rng.Intn(100); {
		case x < 40:
			if b, err := board.FromFEN(c05sRoots[rng.Intn(len(c05sRoots))]); err == nil {
				one(b, "root")
			}
		case x < 75:
			if p := castleish(rng); p != nil {
				one(p.B, "G6")
			}
		default:
			k := 0
			posgen.Stream(rng, 12, func(p posgen.Pos) {
				if k < 2 && (p.B.Castles != 0 || rng.Chance(0.3)) {
					k++
					one(p.B, p.Kind)
				}
			})
		}
	}
}

// ---------------------------------------------------------------------------------------------
// shrinking: the same walk with operations removed, kept when it is a walk the generator could have
// produced (every move pseudo-legal where it is made, an illegal one undone at once, null moves only
// when not in check, no undo on an empty stack)

func c05sWalkOK(b *board.Board, ops []uint64) bool {
	plain := make([]uint64, len(ops))
	for k, op := range ops {
		plain[k] = op &^ opQuiet
	}
	return mkseqWalkOK(b, plain)
}

func shrinkC05s(in string) []string {
	toks := hx.Toks(in)
	a, err := hx.ParseArgs(in)
	if err != nil {
		return nil
	}
	i := boardInLen(a, 0)
	if i < 0 || i >= a.Len() {
		return nil
	}
	n := a.Int(i)
	if n < 0 || i+1+n != a.Len() {
		return nil
	}
	head, opToks := toks[:i], toks[i+1:]
	ops := make([]uint64, n)
	for k := range ops {
		ops[k] = a.U64(i + 1 + k)
	}
	var out []string
	try := func(keep []bool) {
		var cand []uint64
		var ct []string
		for k, kp := range keep {
			if kp {
				cand = append(cand, ops[k])
				ct = append(ct, opToks[k])
			}
		}
		if len(cand) == n {
			return
		}
		b, _ := a.Board(0)
		if c05sWalkOK(b, cand) {
			out = append(out, hx.JoinToks(head, []string{hexInt(len(cand))}, ct))
		}
	}
	all := func() []bool {
		k := make([]bool, n)
		for j := range k {
			k[j] = true
		}
		return k
	}
	if nh := a.Int(13); nh > 1 {
		h := append(append([]string{}, toks[:13]...), "1", toks[13+nh])
		out = append(out, hx.JoinToks(h, toks[i:]))
	}
	for _, c := range hx.Cuts(n, 0) {
		keep := all()
		for j := c.Lo; j < c.Hi; j++ {
			keep[j] = false
		}
		try(keep)
	}
	// completed sub-walks (a make with everything up to its matching undo)
	var open []int
	for k, op := range ops {
		if op&^opQuiet != opPop {
			open = append(open, k)
			continue
		}
		if len(open) == 0 {
			continue
		}
		s := open[len(open)-1]
		open = open[:len(open)-1]
		keep := all()
		for j := s; j <= k; j++ {
			keep[j] = false
		}
		try(keep)
	}
	return out
}

func describeC05s(a hx.Args) string {
	i := boardInLen(a, 0)
	if i < 0 || i >= a.Len() {
		return ""
	}
	b, _ := a.Board(0)
	n := a.Int(i)
	var sb strings.Builder
	fmt.Fprintf(&sb, "fen %s ops", b.FEN())
	for k := 0; k < n && i+1+k < a.Len(); k++ {
		sb.WriteString(" " + c05sOpString(a.U64(i+1+k)))
	}
	return sb.String()
}
