(* Run-level strengthening of Proofs/TTProps.v: the history carries, for every store since the last
   clear, whether it was accepted or rejected by the keep-deeper rule. A record is then explained by
   the most recent ACCEPTED store to its key, and its move is the latest non-null move among the
   accepted stores to that key (or null). *)
From Coq Require Import ZArith Lia Bool List.
Import ListNotations.
From Chess3 Require Import Base.Word Gen.TTConsts Model.TT Spec.TTSpec Proofs.TTBits Proofs.TTRefine Proofs.TTProps.
Open Scope Z_scope.

Definition fhist := list (sop * bool).     (* newest first; true = accepted *)

(* no accepted store to key (i, s) in this stretch of the history carries a move *)
Definition null_moves (nb : Z) (mid : fhist) (i s : Z) : Prop :=
  forall o f, In (o, f) mid -> okey nb o i s -> f = true -> o_move o = 0.

(* no accepted store to key (i, s) in this stretch of the history *)
Definition none_accepted (nb : Z) (mid : fhist) (i s : Z) : Prop :=
  forall o f, In (o, f) mid -> okey nb o i s -> f = false.

Definition explains_full (nb : Z) (hist : fhist) (i s : Z) (r : arec) : Prop :=
  exists newer o older, hist = newer ++ (o, true) :: older /\ okey nb o i s /\
    none_accepted nb newer i s /\
    a_depth r = o_depth o /\ a_type r = o_type o /\ a_score r = to_tt (o_value o) (o_ply o) /\
    a_gen r = o_gen o /\
    (forall o' f, In (o', f) newer -> okey nb o' i s -> keep_deeper (Some r) o' = true) /\
    ((o_move o <> 0 /\ a_move r = o_move o) \/
     (o_move o = 0 /\ a_move r = 0) \/
     (o_move o = 0 /\ a_move r <> 0 /\
      exists mid o' rest, older = mid ++ (o', true) :: rest /\ okey nb o' i s /\
        o_move o' = a_move r /\ null_moves nb mid i s)).

Definition provf (nb : Z) (hist : fhist) (A : amap) : Prop :=
  forall i s r, s <> 0 -> A i s = Some r -> explains_full nb hist i s r.

Lemma provf_cleared nb A : cleared A -> provf nb [] A.
Proof. intros Hc i s r Hs HA. rewrite (Hc i s Hs) in HA. discriminate. Qed.

Lemma provf_store nb hist A o A' : store_spec nb A o A' -> provf nb hist A ->
  provf nb ((o, negb (keep_deeper (A (bucket_of nb (o_hash o)) (sig_of (o_hash o))) o)) :: hist) A'.
Proof.
  intros Hspec Hprov i s r Hs HA'. unfold store_spec in Hspec. cbv zeta in Hspec.
  set (ix := bucket_of nb (o_hash o)) in *. set (sg := sig_of (o_hash o)) in *.
  assert (Hlift : forall r0 fl, explains_full nb hist i s r0 ->
            (okey nb o i s -> fl = false /\ keep_deeper (Some r0) o = true) ->
            explains_full nb ((o, fl) :: hist) i s r0).
  { intros r0 fl (newer & o0 & older & Hh & Hk & Hna & Hd & Ht & Hsc & Hg & Hnew & Hmv) Hrej.
    exists ((o, fl) :: newer), o0, older. rewrite Hh. split; [reflexivity|]. split; [exact Hk|].
    split.
    { intros o' f [Heq|Hin] Hk'; [injection Heq as <- <-; apply Hrej; exact Hk' | eapply Hna; eassumption]. }
    repeat (split; [assumption|]). split; [|exact Hmv].
    intros o' f [Heq|Hin] Hk'; [injection Heq as <- <-; apply Hrej; exact Hk' | eapply Hnew; eassumption]. }
  destruct (keep_deeper (A ix sg) o) eqn:KD; cbn [negb].
  - rewrite Hspec in HA'. apply Hlift; [apply Hprov; assumption|].
    intros [Hk1 Hk2]. fold ix in Hk1. fold sg in Hk2. subst i s. rewrite HA' in KD. split; [reflexivity | exact KD].
  - destruct Hspec as [Hbind [victim Hframe]].
    destruct (Z.eq_dec i ix) as [Ei|Ei]; [destruct (Z.eq_dec s sg) as [Es|Es]|].
    + subst i s. rewrite Hbind in HA'. injection HA' as <-.
      exists [], o, hist. split; [reflexivity|]. split; [split; reflexivity|].
      split; [intros o' f []|].
      unfold new_rec. cbn [a_depth a_type a_score a_gen a_move].
      repeat (split; [reflexivity|]). split; [intros o' f []|].
      destruct (o_move o =? 0) eqn:Em; [|left; apply Z.eqb_neq in Em; split; [exact Em | reflexivity]].
      apply Z.eqb_eq in Em. right.
      destruct (A ix sg) as [r0|] eqn:HA; [|left; split; [exact Em | reflexivity]].
      destruct (Z.eq_dec (a_move r0) 0) as [Hz|Hnz]; [left; split; assumption|].
      right. split; [exact Em|]. split; [exact Hnz|].
      destruct (Hprov ix sg r0 Hs HA) as (newer & o0 & older & Hh & Hk & Hna & _ & _ & _ & _ & _ & Hmv).
      destruct Hmv as [[Hm0 Hmeq] | [[_ Hz] | (Hm0 & _ & mid & o' & rest & Hold & Hk' & Hm' & Hnull)]].
      * exists newer, o0, older. split; [exact Hh|]. split; [exact Hk|]. split; [symmetry; exact Hmeq|].
        intros o'' f Hin Hk'' Hf. rewrite (Hna o'' f Hin Hk'') in Hf. discriminate.
      * contradiction.
      * exists (newer ++ (o0, true) :: mid), o', rest. split; [rewrite Hh, Hold, <- app_assoc; reflexivity|].
        split; [exact Hk'|]. split; [exact Hm'|].
        intros o'' f Hin Hk'' Hf. apply in_app_or in Hin. destruct Hin as [Hin|[Heq|Hin]].
        -- rewrite (Hna o'' f Hin Hk'') in Hf. discriminate.
        -- injection Heq as <- <-. exact Hm0.
        -- eapply Hnull; eassumption.
    + rewrite (Hframe i s Hs (or_intror Es)) in HA'.
      destruct ((i =? ix) && opt_is victim s); [discriminate|].
      apply Hlift; [apply Hprov; assumption|]. intros [_ Hk2]. exfalso. apply Es. symmetry. exact Hk2.
    + rewrite (Hframe i s Hs (or_introl Ei)) in HA'.
      destruct ((i =? ix) && opt_is victim s); [discriminate|].
      apply Hlift; [apply Hprov; assumption|]. intros [Hk1 _]. exfalso. apply Ei. symmetry. exact Hk1.
Qed.

Lemma provf_run s ops s' : arun s ops s' -> forall hist, provf (fst s) hist (snd s) ->
  exists hist', provf (fst s') hist' (snd s') /\ map fst hist' = fold_left hist_step ops (map fst hist).
Proof.
  induction 1 as [s|s op s1 ops s2 Hstep Hrun IH]; intros hist Hprov; cbn [fold_left].
  - exists hist. split; [exact Hprov | reflexivity].
  - destruct Hstep as [nb A o A' Hspec | nb A A' Hcl | nb A size A' Hcl]; cbn [fst snd] in *.
    + destruct (IH _ (provf_store nb hist A o A' Hspec Hprov)) as (hist' & Hp' & Hm').
      exists hist'. split; [exact Hp' | exact Hm'].
    + destruct (IH [] (provf_cleared _ _ Hcl)) as (hist' & Hp' & Hm'). exists hist'. split; [exact Hp' | exact Hm'].
    + destruct (IH [] (provf_cleared _ _ Hcl)) as (hist' & Hp' & Hm'). exists hist'. split; [exact Hp' | exact Hm'].
Qed.

Theorem run_explained_full : forall size ops,
  size_ok size = true -> size <= 2 ^ 36 -> forallb aop_ok ops = true ->
  exists t0 t fh, tt_new size = Some t0 /\ tt_run t0 ops = Some t /\
    map fst fh = stores_since_clear ops /\
    forall h ply, hash_ok h -> ply_ok ply -> sig_of h <> 0 ->
      probe_obs t h ply = miss \/
      exists r, probe_obs t h ply = 1 :: shown r ply /\
                explains_full (tlen t) fh (key_ix t h) (sig_of h) r.
Proof.
  intros size ops Hs Hbig Hops.
  destruct (new_refines size Hs Hbig) as (t0 & Hnew & Hwf0 & Hsz0 & _ & Hcl0).
  destruct (run_refines ops t0 Hwf0 Hsz0 Hops) as (t & Hrun & Hwf & Hsz & Harun).
  destruct (provf_run _ _ _ Harun [] (provf_cleared _ _ Hcl0)) as (fh & Hprov & Hmap). cbn [fst snd st map] in *.
  exists t0, t, fh. repeat (split; [assumption|]).
  intros h ply Hh Hp Hsig.
  rewrite (probe_refines t h ply Hwf Hsz Hh Hp). fold (key_ix t h).
  destruct (abs t (key_ix t h) (sig_of h)) as [r|] eqn:HA; [right | left; reflexivity].
  exists r. split; [reflexivity|]. apply Hprov; assumption.
Qed.
