package streams

import (
	"github.com/paulsonkoly/chess-3/move"
	"github.com/paulsonkoly/chess-3/movegen"

	"verifharness/hx"
	"verifharness/posgen"
)

// gen: board-in -> generated noisy moves, generated quiet moves, playable moves (exact order).
// ipl: board-in -> all of the 32768 encodings accepted by IsPseudoLegal.
func init() {
	hx.Register(&hx.Stream{Name: "gen", Gen: genPositions, Run: runGen})
	hx.Register(&hx.Stream{Name: "ipl", Gen: genPositions, Run: runIpl})
}

func runGen(a hx.Args) string {
	b, _ := a.Board(0)
	out := &hx.Nums{}
	ms := move.NewStore()
	ms.Push()
	movegen.GenNoisy(ms, b)
	out.Int(len(ms.Frame()))
	for _, m := range ms.Frame() {
		out.U(uint64(m.Move))
	}
	ms.Pop()
	ms.Push()
	movegen.GenNotNoisy(ms, b)
	out.Int(len(ms.Frame()))
	for _, m := range ms.Frame() {
		out.U(uint64(m.Move))
	}
	ms.Pop()
	legal := posgen.Legal(b)
	out.Int(len(legal))
	for _, m := range legal {
		out.U(uint64(m))
	}
	return out.String()
}

func runIpl(a hx.Args) string {
	b, _ := a.Board(0)
	out := &hx.Nums{}
	for m := 0; m < 32768; m++ {
		if b.IsPseudoLegal(move.Move(m)) {
			out.U(uint64(m))
		}
	}
	return out.String()
}

func genPositions(rng *hx.Rng, n int, tier string, emit func(hx.Input)) {
	posgen.Stream(rng, n, func(p posgen.Pos) {
		emit(hx.Input{In: (&hx.Nums{}).BoardIn(p.B).String(), Desc: p.Desc(),
			Tags: append(posgen.Tags(p.B), p.Kind), NonTrivial: true, Key: p.B.FEN()})
	})
}
