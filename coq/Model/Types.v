(* Basic chess types shared by all models: colours, piece codes, squares, move encoding.
   Piece kinds are Go's byte codes (NoPiece = 0 ... King = 6) kept as N, because the three promotion
   bits of a move can hold 0..7 and the code under test sees all eight values. *)
From Coq Require Import NArith ZArith List Bool.
From Chess3 Require Import Base.Bits.
Import ListNotations.
Open Scope N_scope.

Inductive color := White | Black.
Definition flip (c : color) : color := match c with White => Black | Black => White end.
Definition cix (c : color) : N := match c with White => 0 | Black => 1 end.
Definition color_of_N (n : N) : color := if n =? 0 then White else Black.
Definition color_eqb (a b : color) : bool :=
  match a, b with White, White | Black, Black => true | _, _ => false end.

Definition NoPiece : N := 0.
Definition Pawn : N := 1.
Definition Knight : N := 2.
Definition Bishop : N := 3.
Definition Rook : N := 4.
Definition Queen : N := 5.
Definition King : N := 6.

(* squares *)
Definition A1 : N := 0.  Definition B1 : N := 1.  Definition C1 : N := 2.  Definition D1 : N := 3.
Definition E1 : N := 4.  Definition F1 : N := 5.  Definition G1 : N := 6.  Definition H1 : N := 7.
Definition A8 : N := 56. Definition B8 : N := 57. Definition C8 : N := 58. Definition D8 : N := 59.
Definition E8 : N := 60. Definition F8 : N := 61. Definition G8 : N := 62. Definition H8 : N := 63.
Definition sq_file (s : N) : N := N.land s 7.
Definition sq_rank (s : N) : N := N.land (N.shiftr s 3) 7.

(* castling rights bits: 1 << (2*colour + side), Short = 0, Long = 1 *)
Definition ShortWhite : N := 1.
Definition LongWhite : N := 2.
Definition ShortBlack : N := 4.
Definition LongBlack : N := 8.
Definition castle_bit (c : color) (long : bool) : N := N.shiftl 1 (2 * cix c + (if long then 1 else 0)).

(* move.Move: uint16, to = bits 0-5, from = bits 6-11, promo = bits 12-14 *)
Definition mv_to (m : N) : N := N.land m 63.
Definition mv_from (m : N) : N := N.land (N.shiftr m 6) 63.
Definition mv_promo (m : N) : N := N.land (N.shiftr m 12) 7.
Definition mk_move (from to promo : N) : N :=
  N.lor (N.lor (N.shiftl (N.land from 63) 6) (N.land to 63)) (N.shiftl (N.land promo 7) 12).

(* list helpers used by the array-like fields of the models *)
Definition nthN {A} (l : list A) (i : N) (d : A) : A := nth (N.to_nat i) l d.
Fixpoint upd {A} (l : list A) (i : nat) (x : A) : list A :=
  match l, i with
  | [], _ => []
  | _ :: t, O => x :: t
  | h :: t, S k => h :: upd t k x
  end.
Definition updN {A} (l : list A) (i : N) (x : A) : list A := upd l (N.to_nat i) x.
