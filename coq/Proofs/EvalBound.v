(* Property C19 (a): no int16 overflow in the integer evaluation - bounds on every accumulator of the
   non-wrapping evaluation [eval_U], in terms of the numbers of men of each kind.

   Every statement `acc[color] += v` of Eval adds a coefficient of a generated table (or a bounded
   multiple of one).  [tot s c l] (the value of accumulator s[c] after the statements l) is therefore
   bounded by a sum of (range of a table row) x (number of statements of that kind), and the number of
   statements of a kind is the number of pieces / pawns of the colour.  The bounds are expressions in
   the coefficient set C (symbolic here; evaluated for the shipped tables in Proofs/EvalNoWrap.v).

   lmin/lmax range over a table row AND 0, so that a statement that is executed conditionally, or for
   the other slot / colour, is covered. *)
From Coq Require Import NArith ZArith List Bool Lia Permutation.
From Chess3 Require Import Base.Bits Base.Word Model.Types Model.Att Model.BoardDef Gen.Coeffs
  Model.Eval Model.EvalU Proofs.EvalMorph.
Import ListNotations.
Open Scope Z_scope.

(* ------------------------------------------------------------------------------------------ *)
(* totals over the integers *)

Definition tot (s : slot) (c : color) (l : list (bump Z)) : Z := total ops_U s c l.

Definition hit (s : slot) (c : color) (e : bump Z) : bool :=
  slot_eqb s (fst (fst e)) && color_eqb c (snd (fst e)).

Lemma fold_shift s c (l : list (bump Z)) : forall a,
  fold_left (fun acc (e : bump Z) => if hit s c e then acc + snd e else acc) l a =
  a + fold_left (fun acc (e : bump Z) => if hit s c e then acc + snd e else acc) l 0.
Proof.
  induction l as [| e r IH]; intros a; [cbn; lia|].
  cbn [fold_left]. rewrite IH. rewrite (IH (if hit s c e then 0 + snd e else 0)).
  destruct (hit s c e); lia.
Qed.

Lemma tot_unfold s c l :
  tot s c l = fold_left (fun acc (e : bump Z) => if hit s c e then acc + snd e else acc) l 0.
Proof. reflexivity. Qed.

Lemma tot_nil s c : tot s c [] = 0.
Proof. reflexivity. Qed.

Lemma tot_cons s c e l : tot s c (e :: l) = (if hit s c e then snd e else 0) + tot s c l.
Proof.
  rewrite !tot_unfold. cbn [fold_left]. rewrite fold_shift. destruct (hit s c e); lia.
Qed.

Lemma tot_app s c l l' : tot s c (l ++ l') = tot s c l + tot s c l'.
Proof.
  induction l as [| e r IH]; [rewrite tot_nil; reflexivity|].
  cbn [app]. rewrite !tot_cons, IH. lia.
Qed.

Lemma tot_flat_map {A} s c (f : A -> list (bump Z)) (xs : list A) lo hi :
  (forall x, lo <= tot s c (f x) <= hi) ->
  Z.of_nat (length xs) * lo <= tot s c (flat_map f xs) <= Z.of_nat (length xs) * hi.
Proof.
  intros H. induction xs as [| x r IH]; [rewrite tot_nil; cbn; lia|].
  cbn [flat_map length]. rewrite tot_app. specialize (H x). lia.
Qed.

(* slots *)
Definition ismain (s : slot) : bool := match s with MG | EG => true | _ => false end.
Definition phn (s : slot) : N := match s with MG | KA0 => 0%N | _ => 1%N end.
Definition mv (s : slot) (x : Z) : Z := if ismain s then x else 0.
Definition kv (s : slot) (x : Z) : Z := if ismain s then 0 else x.

Lemma tot_mgeg s c c' f :
  tot s c (mgeg c' f) = if color_eqb c c' then mv s (f (phn s)) else 0.
Proof. destruct s, c, c'; reflexivity. Qed.

Lemma tot_kab s c c' f :
  tot s c (kab c' f) = if color_eqb c c' then kv s (f (phn s)) else 0.
Proof. destruct s, c, c'; reflexivity. Qed.

(* ------------------------------------------------------------------------------------------ *)
(* ranges of table rows (0 included) *)

Definition lmin (l : list Z) : Z := fold_right Z.min 0 l.
Definition lmax (l : list Z) : Z := fold_right Z.max 0 l.

Lemma lmin_cons x l : lmin (x :: l) = Z.min x (lmin l).
Proof. reflexivity. Qed.
Lemma lmax_cons x l : lmax (x :: l) = Z.max x (lmax l).
Proof. reflexivity. Qed.
Lemma lmin_le0 l : lmin l <= 0.
Proof. induction l as [| x r IH]; [unfold lmin; cbn; lia|]. rewrite lmin_cons. lia. Qed.
Lemma lmax_ge0 l : 0 <= lmax l.
Proof. induction l as [| x r IH]; [unfold lmax; cbn; lia|]. rewrite lmax_cons. lia. Qed.

Lemma nth_rng l : forall n, lmin l <= nth n l 0 <= lmax l.
Proof.
  induction l as [| x r IH]; intros [| n]; cbn [nth]; rewrite ?lmin_cons, ?lmax_cons.
  - unfold lmin, lmax; cbn; lia.
  - unfold lmin, lmax; cbn; lia.
  - pose proof (lmin_le0 r). pose proof (lmax_ge0 r). lia.
  - specialize (IH n). lia.
Qed.

Definition row (ll : list (list Z)) (i : N) : list Z := nthN ll i [].

Lemma co1_rng l i : lmin l <= co1 ops_U l i <= lmax l.
Proof. unfold co1, nthN. change (zero ops_U) with 0. apply nth_rng. Qed.

Lemma co2_rng ll i j : lmin (row ll i) <= co2 ops_U ll i j <= lmax (row ll i).
Proof. unfold co2, row, nthN. change (zero ops_U) with 0. apply nth_rng. Qed.

Lemma mv_mono s x y : x <= y -> mv s x <= mv s y.
Proof. unfold mv. destruct (ismain s); lia. Qed.
Lemma kv_mono s x y : x <= y -> kv s x <= kv s y.
Proof. unfold kv. destruct (ismain s); lia. Qed.
Lemma mv_le0 s x : x <= 0 -> mv s x <= 0.
Proof. unfold mv. destruct (ismain s); lia. Qed.
Lemma mv_ge0 s x : 0 <= x -> 0 <= mv s x.
Proof. unfold mv. destruct (ismain s); lia. Qed.
Lemma kv_le0 s x : x <= 0 -> kv s x <= 0.
Proof. unfold kv. destruct (ismain s); lia. Qed.
Lemma kv_ge0 s x : 0 <= x -> 0 <= kv s x.
Proof. unfold kv. destruct (ismain s); lia. Qed.

(* ------------------------------------------------------------------------------------------ *)
(* range of the statements of one colour c' as seen by accumulator s[c] *)

Definition rng (s : slot) (c c' : color) (l : list (bump Z)) (lo hi : Z) : Prop :=
  if color_eqb c c' then lo <= tot s c l <= hi else tot s c l = 0.

Lemma rng_nil s c c' : rng s c c' [] 0 0.
Proof. unfold rng. rewrite tot_nil. destruct (color_eqb c c'); lia. Qed.

Lemma rng_app s c c' l l' lo hi lo' hi' :
  rng s c c' l lo hi -> rng s c c' l' lo' hi' -> rng s c c' (l ++ l') (lo + lo') (hi + hi').
Proof. unfold rng. rewrite tot_app. destruct (color_eqb c c'); lia. Qed.

Lemma rng_weaken s c c' l lo hi lo' hi' :
  rng s c c' l lo hi -> lo' <= lo -> hi <= hi' -> rng s c c' l lo' hi'.
Proof. unfold rng. destruct (color_eqb c c'); lia. Qed.

Lemma rng_if s c c' (t : bool) l lo hi :
  rng s c c' l lo hi -> lo <= 0 <= hi -> rng s c c' (if t then l else []) lo hi.
Proof. intros H H0. destruct t; [exact H|]. unfold rng. rewrite tot_nil. destruct (color_eqb c c'); lia. Qed.

Lemma rng_flat_map {A} s c c' (f : A -> list (bump Z)) (xs : list A) lo hi :
  (forall x, rng s c c' (f x) lo hi) ->
  rng s c c' (flat_map f xs) (Z.of_nat (length xs) * lo) (Z.of_nat (length xs) * hi).
Proof.
  intros H. unfold rng in *. destruct (color_eqb c c').
  - apply tot_flat_map. exact H.
  - induction xs as [| x r IH]; [apply tot_nil|]. cbn [flat_map]. rewrite tot_app, H, IH. reflexivity.
Qed.

Lemma rng_mgeg s c c' f lo hi : lo <= f (phn s) <= hi -> rng s c c' (mgeg c' f) (mv s lo) (mv s hi).
Proof.
  intros H. unfold rng. rewrite tot_mgeg. destruct (color_eqb c c'); [|reflexivity].
  split; apply mv_mono; lia.
Qed.

Lemma rng_kab s c c' f lo hi : lo <= f (phn s) <= hi -> rng s c c' (kab c' f) (kv s lo) (kv s hi).
Proof.
  intros H. unfold rng. rewrite tot_kab. destruct (color_eqb c c'); [|reflexivity].
  split; apply kv_mono; lia.
Qed.

(* the two colours of a `for color` loop: exactly one of them is c *)
Lemma rng_both s c (f : color -> list (bump Z)) (lo hi : color -> Z) :
  (forall c', rng s c c' (f c') (lo c') (hi c')) ->
  lo c <= tot s c (flat_map f [White; Black]) <= hi c.
Proof.
  intros H. cbn [flat_map]. rewrite app_nil_r, tot_app.
  pose proof (H White) as HW. pose proof (H Black) as HB. unfold rng in HW, HB.
  destruct c; cbn [color_eqb] in HW, HB; lia.
Qed.

Lemma rng_pair s c lW lB (lo hi : color -> Z) :
  rng s c White lW (lo White) (hi White) -> rng s c Black lB (lo Black) (hi Black) ->
  lo c <= tot s c (lW ++ lB) <= hi c.
Proof. intros HW HB. rewrite tot_app. unfold rng in HW, HB. destruct c; cbn [color_eqb] in HW, HB; lia. Qed.

Lemma rng_mgeg2 s c c' x y lo hi :
  (s = MG -> lo <= x <= hi) -> (s = EG -> lo <= y <= hi) ->
  rng s c c' [(MG, c', x); (EG, c', y)] (mv s lo) (mv s hi).
Proof.
  intros H1 H2. unfold rng. rewrite !tot_cons, tot_nil. unfold hit, mv. cbn [fst snd].
  destruct s, c, c'; cbn [slot_eqb color_eqb andb ismain]; try lia.
  all: try (specialize (H1 eq_refl); lia). all: specialize (H2 eq_refl); lia.
Qed.

(* plain (colour-blind) bounds for statements that are executed at most once *)
Lemma tot_mgeg_plain s c c' f lo hi : lo <= 0 <= hi -> lo <= f (phn s) <= hi ->
  mv s lo <= tot s c (mgeg c' f) <= mv s hi.
Proof. intros H0 H. rewrite tot_mgeg. unfold mv. destruct (color_eqb c c'), (ismain s); lia. Qed.

Lemma tot_kab_plain s c c' f lo hi : lo <= 0 <= hi -> lo <= f (phn s) <= hi ->
  kv s lo <= tot s c (kab c' f) <= kv s hi.
Proof. intros H0 H. rewrite tot_kab. unfold kv. destruct (color_eqb c c'), (ismain s); lia. Qed.

Ltac simplU := cbv beta; unfold mul, of_int; cbn [s_mul s_of_int ops_U].

Lemma mulU a b : mul ops_U a b = a * b.
Proof. reflexivity. Qed.
Lemma of_intU n : of_int ops_U n = n.
Proof. reflexivity. Qed.

(* coefficient times a count *)
Lemma scaled_rng r a k n : lmin r <= a <= lmax r -> 0 <= k <= n -> n * lmin r <= a * k <= n * lmax r.
Proof. intros Ha Hk. pose proof (lmin_le0 r). pose proof (lmax_ge0 r). nia. Qed.

Lemma single_rng x : lmin [x] <= x <= lmax [x].
Proof. rewrite lmin_cons, lmax_cons. unfold lmin, lmax. cbn [fold_right]. lia. Qed.

Lemma count_rng lo hi k n : lo <= 0 <= hi -> 0 <= k <= n -> n * lo <= k * lo /\ k * hi <= n * hi.
Proof. intros. nia. Qed.

(* ------------------------------------------------------------------------------------------ *)
(* counting *)

Lemma cnt_len x : cnt x = Z.of_nat (length (bits_of x)).
Proof. unfold cnt. rewrite popcount_bits_of. apply nat_N_Z. Qed.

Lemma cnt_nonneg x : 0 <= cnt x.
Proof. unfold cnt. lia. Qed.

Lemma cnt_incl x y : (forall i, N.testbit x i = true -> N.testbit y i = true) -> cnt x <= cnt y.
Proof.
  rewrite !cnt_len. intros H. apply Nat2Z.inj_le. apply NoDup_incl_length; [apply bits_of_NoDup|].
  intros i Hi. apply bits_of_spec, H, bits_of_spec, Hi.
Qed.

Lemma cnt_band_l x y : cnt (band x y) <= cnt x.
Proof. apply cnt_incl. intros i. rewrite band_testbit. intros H. apply andb_prop in H. tauto. Qed.
Lemma cnt_band_r x y : cnt (band x y) <= cnt y.
Proof. apply cnt_incl. intros i. rewrite band_testbit. intros H. apply andb_prop in H. tauto. Qed.
Lemma cnt_bandn x y : cnt (bandn x y) <= cnt x.
Proof. apply cnt_incl. intros i. rewrite bandn_testbit. intros H. apply andb_prop in H. tauto. Qed.

Lemma cnt_le64 x : (x < two64)%N -> cnt x <= 64.
Proof.
  intros Hx. rewrite cnt_len. change 64 with (Z.of_nat (length squares64)). apply Nat2Z.inj_le.
  apply NoDup_incl_length; [apply bits_of_NoDup|]. intros i Hi.
  pose proof (bits_of_lt x i Hx Hi) as Hlt. unfold squares64. apply in_map_iff.
  exists (N.to_nat i). split; [apply N2Nat.id|]. apply in_seq. lia.
Qed.

Lemma piece_loop_snd {B} pieces (body : N -> N * list B) :
  snd (piece_loop pieces body) = flat_map (fun sq => snd (body sq)) (bits_of pieces).
Proof.
  unfold piece_loop.
  assert (G : forall l a acc,
    snd (fold_left (fun st sq => let r := body sq in (bor (fst st) (fst r), snd st ++ snd r)) l (a, acc)) =
    acc ++ flat_map (fun sq => snd (body sq)) l).
  { induction l as [| sq r IH]; intros a acc; [cbn; rewrite app_nil_r; reflexivity|].
    cbn [fold_left flat_map]. cbv zeta. cbn [fst snd]. rewrite IH, app_assoc. reflexivity. }
  exact (G (bits_of pieces) 0%N []).
Qed.

Lemma sel_both {A} (f : color -> A) c : sel (both f) c = f c.
Proof. destruct c; reflexivity. Qed.

(* ------------------------------------------------------------------------------------------ *)
(* the terms of Eval *)

Section Terms.
Variable C : CoeffSet Z.
Variable s : slot.

(* [m] is lmin or lmax *)
Definition psq_row (pt : N) : list Z := row (PSqT C) (2 * (pt - 1) + phn s).
Definition psq (m : list Z -> Z) (pt : N) : Z := mv s (m (psq_row pt)).
Definition kapr (m : list Z -> Z) : Z := kv s (m (row (KingAttackPieces C) (phn s))).
Definition uQ m : Z := kapr m + psq m Queen.
Definition uR m : Z := kapr m + ((mv s (m (row (MobilityRook C) (phn s))) + mv s (m (ConnectedRooks C))) + psq m Rook).
Definition uB m : Z := kapr m + (mv s (m (row (MobilityBishop C) (phn s))) + psq m Bishop).
Definition uN m : Z := kapr m + (mv s (m (row (MobilityKnight C) (phn s))) + (mv s (m (row (KnightOutpost C) (phn s))) + psq m Knight)).
Definition uP m : Z := psq m Pawn.
Definition uPass m : Z := mv s (m (ProtectedPasser C)) + mv s (m (row (PasserRank C) (phn s))).
Definition kdist m : Z := mv s (8 * m [co1 ops_U (PasserKingDist C) (phn s); - co1 ops_U (PasserKingDist C) (phn s)]).
Definition bTempo m : Z := mv s (m (TempoBonus C)).
Definition bPair m : Z := mv s (m (BishopPair C)).
Definition bSafety m : Z := 4 * kv s (64 * m (row (SafeChecks C) (phn s))) + kv s (3 * m [co1 ops_U (KingShelter C) (phn s)]).
Definition bSig m : Z := mv s (m sigm).
Definition pv (pt : N) : Z := mv s (co2 ops_U (PieceValues C) (phn s) pt).

Variable b : board.
Variable c : color.

Definition nn (c' : color) (pt : N) : Z := cnt (band (pieces b pt) (colors b c')).

Lemma add_psqt_rng c' pt sq :
  rng s c c' (add_psqt ops_U C c' pt sq) (psq lmin pt) (psq lmax pt).
Proof.
  unfold add_psqt, psq, psq_row. cbv zeta. apply rng_mgeg2; intros ->; cbn [phn]; rewrite ?N.add_0_r; apply co2_rng.
Qed.

Lemma add_attack_pieces_rng c' pt a k :
  rng s c c' (add_attack_pieces ops_U C c' pt a k) (kapr lmin) (kapr lmax).
Proof.
  unfold add_attack_pieces, kapr. apply rng_if.
  - apply rng_kab. apply co2_rng.
  - split; [apply kv_le0, lmin_le0 | apply kv_ge0, lmax_ge0].
Qed.

Lemma queen_body c' sq a k :
  rng s c c' (add_attack_pieces ops_U C c' Queen a k ++ add_psqt ops_U C c' Queen sq) (uQ lmin) (uQ lmax).
Proof. apply rng_app; [apply add_attack_pieces_rng | apply add_psqt_rng]. Qed.

Lemma add_rook_mobility_rng c' sq a :
  rng s c c' (add_rook_mobility ops_U C b c' sq a)
      (mv s (lmin (row (MobilityRook C) (phn s))) + mv s (lmin (ConnectedRooks C)))
      (mv s (lmax (row (MobilityRook C) (phn s))) + mv s (lmax (ConnectedRooks C))).
Proof.
  unfold add_rook_mobility. cbv zeta. apply rng_app.
  - apply rng_mgeg. apply co2_rng.
  - apply rng_if; [apply rng_mgeg, co1_rng|].
    split; [apply mv_le0, lmin_le0 | apply mv_ge0, lmax_ge0].
Qed.

Lemma rook_body c' sq a k :
  rng s c c' (add_attack_pieces ops_U C c' Rook a k ++ add_rook_mobility ops_U C b c' sq a ++ add_psqt ops_U C c' Rook sq)
      (uR lmin) (uR lmax).
Proof.
  unfold uR.
  apply rng_app; [apply add_attack_pieces_rng|]. apply rng_app; [apply add_rook_mobility_rng | apply add_psqt_rng].
Qed.

Lemma bishop_body c' sq a k :
  rng s c c' (add_attack_pieces ops_U C c' Bishop a k ++ add_bishop_mobility ops_U C b c' a ++ add_psqt ops_U C c' Bishop sq)
      (uB lmin) (uB lmax).
Proof.
  unfold uB.
  apply rng_app; [apply add_attack_pieces_rng|]. apply rng_app; [|apply add_psqt_rng].
  unfold add_bishop_mobility. cbv zeta. apply rng_mgeg, co2_rng.
Qed.

Lemma knight_body c' sq a k pc h :
  rng s c c' (add_attack_pieces ops_U C c' Knight a k ++ add_knight_mobility ops_U C b c' a pc ++
              add_knight_outposts ops_U C c' sq h ++ add_psqt ops_U C c' Knight sq)
      (uN lmin) (uN lmax).
Proof.
  unfold uN.
  apply rng_app; [apply add_attack_pieces_rng|]. apply rng_app; [|apply rng_app; [|apply add_psqt_rng]].
  - unfold add_knight_mobility. cbv zeta. apply rng_mgeg, co2_rng.
  - unfold add_knight_outposts. apply rng_if.
    + cbv zeta. apply rng_mgeg, co2_rng.
    + split; [apply mv_le0, lmin_le0 | apply mv_ge0, lmax_ge0].
Qed.

Definition bPieces (m : list Z -> Z) (c' : color) : Z :=
  nn c' Queen * uQ m + (nn c' Rook * uR m + (nn c' Bishop * uB m + (nn c' Knight * uN m + (nn c' Pawn * uP m + psq m King)))).

Lemma piece_terms_rng pw c' :
  rng s c c' (snd (piece_terms ops_U C b pw c')) (bPieces lmin c') (bPieces lmax c').
Proof.
  unfold piece_terms. cbv zeta. cbn [snd]. rewrite !piece_loop_snd. unfold bPieces, nn. rewrite !cnt_len.
  repeat apply rng_app.
  - apply rng_flat_map. intros sq. cbv zeta. cbn [snd]. apply queen_body.
  - apply rng_flat_map. intros sq. cbv zeta. cbn [snd]. apply rook_body.
  - apply rng_flat_map. intros sq. cbv zeta. cbn [snd]. apply bishop_body.
  - apply rng_flat_map. intros sq. cbv zeta. cbn [snd]. apply knight_body.
  - apply rng_flat_map. intros sq. cbn [snd]. apply add_psqt_rng.
  - apply add_psqt_rng.
Qed.

(* pawn structure *)
Lemma passers_le c' : cnt (sel (pw_passers (calc_pw_pre b)) c') <= nn c' Pawn.
Proof.
  unfold calc_pw_pre. cbv zeta. cbn [pw_passers]. rewrite sel_both. unfold front_line. rewrite sel_both.
  unfold nn, pawns_of. eapply Z.le_trans; [apply cnt_band_l|]. apply cnt_band_r.
Qed.
Lemma doubled_le c' : cnt (sel (pw_doubled (calc_pw_pre b)) c') <= nn c' Pawn.
Proof.
  unfold calc_pw_pre. cbv zeta. cbn [pw_doubled]. rewrite !sel_both. unfold nn, pawns_of. apply cnt_bandn.
Qed.
Lemma isolated_le c' : cnt (sel (pw_isolated (calc_pw_pre b)) c') <= nn c' Pawn.
Proof.
  unfold calc_pw_pre. cbv zeta. cbn [pw_isolated]. rewrite !sel_both. unfold nn, pawns_of. apply cnt_bandn.
Qed.

Lemma chebishev_rng a k : (a <= 64)%N -> (k <= 64)%N -> 0 <= chebishev a k <= 8.
Proof.
  intros Ha Hk. unfold chebishev. cbv zeta.
  rewrite !N2Z.inj_mod, !N2Z.inj_div. change (Z.of_N 8) with 8.
  assert (Hza : 0 <= Z.of_N a <= 64) by lia. assert (Hzk : 0 <= Z.of_N k <= 64) by lia.
  set (za := Z.of_N a) in *. set (zk := Z.of_N k) in *. clearbody za zk.
  pose proof (Z.mod_pos_bound za 8 ltac:(lia)). pose proof (Z.mod_pos_bound zk 8 ltac:(lia)).
  assert (0 <= za / 8 <= 8) by (split; [apply Z.div_pos; lia | apply Z.div_le_upper_bound; lia]).
  assert (0 <= zk / 8 <= 8) by (split; [apply Z.div_pos; lia | apply Z.div_le_upper_bound; lia]).
  lia.
Qed.

Hypothesis Hcol : forall c', (colors b c' < two64)%N.

Lemma lsb_le64 x : (x < two64)%N -> (lsb x <= 64)%N.
Proof.
  intros Hx. destruct (N.eq_dec x 0) as [-> | Hn]; [cbn; lia|]. pose proof (lsb_lt x Hn Hx). lia.
Qed.

Lemma king_sq_le c' : (sel (pw_king_sq (calc_pw_pre b)) c' <= 64)%N.
Proof.
  unfold calc_pw_pre. cbv zeta. cbn [pw_king_sq]. rewrite sel_both. cbv beta. rewrite sel_both. apply lsb_le64.
  apply band_w64p_l. exact (Hcol c').
Qed.

Lemma kd_rng a kd : -8 <= kd <= 8 -> 8 * lmin [a; - a] <= a * kd <= 8 * lmax [a; - a].
Proof.
  intros H. rewrite !lmin_cons, !lmax_cons. unfold lmin, lmax. cbn [fold_right]. nia.
Qed.

Definition bPass (m : list Z -> Z) (c' : color) : Z := kdist m + nn c' Pawn * uPass m.
Definition bDbl (m : list Z -> Z) (c' : color) : Z := mv s (nn c' Pawn * m [co1 ops_U (DoubledPawns C) (phn s)]).
Definition bIso (m : list Z -> Z) (c' : color) : Z := mv s (nn c' Pawn * m [co1 ops_U (IsolatedPawns C) (phn s)]).

Lemma uPass_sign : uPass lmin <= 0 <= uPass lmax.
Proof.
  unfold uPass. pose proof (mv_le0 s _ (lmin_le0 (ProtectedPasser C))). pose proof (mv_ge0 s _ (lmax_ge0 (ProtectedPasser C))).
  pose proof (mv_le0 s _ (lmin_le0 (row (PasserRank C) (phn s)))). pose proof (mv_ge0 s _ (lmax_ge0 (row (PasserRank C) (phn s)))). lia.
Qed.

Lemma add_passers_bound :
  bPass lmin c <= tot s c (add_passers ops_U C b (calc_pw_pre b)) <= bPass lmax c.
Proof.
  unfold add_passers. apply (rng_both s c _ (bPass lmin) (bPass lmax)). intros c'. unfold bPass. apply rng_app.
  - (* king distance of a sole passer *)
    set (pw := calc_pw_pre b).
    assert (H0 : kdist lmin <= 0 <= kdist lmax).
    { unfold kdist. split; [apply mv_le0 | apply mv_ge0].
      - pose proof (lmin_le0 [co1 ops_U (PasserKingDist C) (phn s); - co1 ops_U (PasserKingDist C) (phn s)]). lia.
      - pose proof (lmax_ge0 [co1 ops_U (PasserKingDist C) (phn s); - co1 ops_U (PasserKingDist C) (phn s)]). lia. }
    apply rng_if; [|exact H0]. cbv zeta. apply rng_if; [|exact H0].
    unfold kdist. apply rng_mgeg. simplU. apply kd_rng.
    set (qSq := match c' with White => (lsb (sel (pw_passers pw) c') mod 8 + 56)%N | Black => (lsb (sel (pw_passers pw) c') mod 8)%N end).
    assert (Hq : (qSq <= 64)%N).
    { unfold qSq. pose proof (N.mod_lt (lsb (sel (pw_passers pw) c')) 8 ltac:(discriminate)). destruct c'; lia. }
    pose proof (chebishev_rng qSq _ Hq (king_sq_le (flip c'))). pose proof (chebishev_rng qSq _ Hq (king_sq_le c')).
    fold pw in H, H1. lia.
  - (* one or two statements per passer *)
    eapply rng_weaken.
    + apply rng_flat_map. intros sq. cbv zeta. apply rng_app.
      * apply rng_if; [apply rng_mgeg, co1_rng|]. split; [apply mv_le0, lmin_le0 | apply mv_ge0, lmax_ge0].
      * apply rng_mgeg, co2_rng.
    + rewrite <- cnt_len. pose proof (passers_le c'). pose proof (cnt_nonneg (sel (pw_passers (calc_pw_pre b)) c')).
      pose proof uPass_sign. unfold uPass in *. nia.
    + rewrite <- cnt_len. pose proof (passers_le c'). pose proof (cnt_nonneg (sel (pw_passers (calc_pw_pre b)) c')).
      pose proof uPass_sign. unfold uPass in *. nia.
Qed.

Lemma add_doubled_bound :
  bDbl lmin c <= tot s c (add_doubled ops_U C (calc_pw_pre b)) <= bDbl lmax c.
Proof.
  unfold add_doubled. apply (rng_both s c _ (bDbl lmin) (bDbl lmax)). intros c'. unfold bDbl.
  apply rng_mgeg. simplU. apply scaled_rng; [apply single_rng|].
  split; [apply cnt_nonneg | apply doubled_le].
Qed.

Lemma add_isolated_bound :
  bIso lmin c <= tot s c (add_isolated ops_U C (calc_pw_pre b)) <= bIso lmax c.
Proof.
  unfold add_isolated. apply (rng_both s c _ (bIso lmin) (bIso lmax)). intros c'. unfold bIso.
  apply rng_mgeg. simplU. apply scaled_rng; [apply single_rng|].
  split; [apply cnt_nonneg | apply isolated_le].
Qed.

Lemma add_tempo_bound : bTempo lmin <= tot s c (add_tempo ops_U C b) <= bTempo lmax.
Proof.
  unfold add_tempo, bTempo. apply tot_mgeg_plain; [|apply co1_rng].
  split; [apply lmin_le0 | apply lmax_ge0].
Qed.

Lemma add_bishop_pair_bound : bPair lmin <= tot s c (add_bishop_pair ops_U C b) <= bPair lmax.
Proof.
  unfold add_bishop_pair. apply (rng_both s c _ (fun _ => bPair lmin) (fun _ => bPair lmax)). intros c'. cbv zeta.
  unfold bPair. apply rng_if.
  - apply rng_mgeg2; intros _; apply co1_rng.
  - split; [apply mv_le0, lmin_le0 | apply mv_ge0, lmax_ge0].
Qed.

Lemma add_safe_checks_bound c' pt sc : (sc < two64)%N ->
  kv s (64 * lmin (row (SafeChecks C) (phn s))) <= tot s c (add_safe_checks ops_U C c' pt sc)
  <= kv s (64 * lmax (row (SafeChecks C) (phn s))).
Proof.
  intros Hsc. unfold add_safe_checks. apply tot_kab_plain.
  - pose proof (lmin_le0 (row (SafeChecks C) (phn s))). pose proof (lmax_ge0 (row (SafeChecks C) (phn s))). lia.
  - simplU. apply scaled_rng; [apply co2_rng|]. split; [apply cnt_nonneg | apply cnt_le64, Hsc].
Qed.

Lemma safety_terms_bound pw att c' :
  bSafety lmin <= tot s c (safety_terms ops_U C b pw att c') <= bSafety lmax.
Proof.
  unfold safety_terms. cbv zeta. rewrite !tot_app. unfold bSafety.
  assert (W : forall x y, (band x (bnot y) < two64)%N) by (intros x y; apply band_w64p_r, bnot_w64p).
  pose proof (add_safe_checks_bound c' Queen _ (W (band (band (at_queen (sel att c')) (bor (sel (pw_rays_b pw) (flip c')) (sel (pw_rays_r pw) (flip c')))) (bnot (cover_of (sel att (flip c'))))) (colors b c'))) as H1.
  pose proof (add_safe_checks_bound c' Rook _ (W (band (band (at_rook (sel att c')) (sel (pw_rays_r pw) (flip c'))) (bnot (cover_of (sel att (flip c'))))) (colors b c'))) as H2.
  pose proof (add_safe_checks_bound c' Bishop _ (W (band (band (at_bishop (sel att c')) (sel (pw_rays_b pw) (flip c'))) (bnot (cover_of (sel att (flip c'))))) (colors b c'))) as H3.
  pose proof (add_safe_checks_bound c' Knight _ (W (band (band (at_knight (sel att c')) (knight_moves (sel (pw_king_sq pw) (flip c')))) (bnot (cover_of (sel att (flip c'))))) (colors b c'))) as H4.
  assert (H5 : kv s (3 * lmin [co1 ops_U (KingShelter C) (phn s)]) <=
               tot s c (kab (flip c') (fun ph => mul ops_U (co1 ops_U (KingShelter C) ph)
                  (of_int ops_U (Z.max (3 - cnt (band (band (sel (pw_king_nb pw) c') (colors b c')) (pieces b Pawn))) 0)))) <=
               kv s (3 * lmax [co1 ops_U (KingShelter C) (phn s)])).
  { apply tot_kab_plain.
    - pose proof (lmin_le0 [co1 ops_U (KingShelter C) (phn s)]). pose proof (lmax_ge0 [co1 ops_U (KingShelter C) (phn s)]). lia.
    - simplU. apply scaled_rng; [apply single_rng|].
      pose proof (cnt_nonneg (band (band (sel (pw_king_nb pw) c') (colors b c')) (pieces b Pawn))). lia. }
  lia.
Qed.

(* everything before addKingAttacks *)
Definition bPre (m : list Z -> Z) : Z :=
  bTempo m + bPair m + bPass m c + bDbl m c + bIso m c + bPieces m c + 2 * bSafety m.

Lemma pre_terms_bound : bPre lmin <= tot s c (pre_terms ops_U C b) <= bPre lmax.
Proof.
  unfold pre_terms. cbv zeta. rewrite !tot_app.
  pose proof add_tempo_bound. pose proof add_bishop_pair_bound. pose proof add_passers_bound.
  pose proof add_doubled_bound. pose proof add_isolated_bound.
  set (pw := calc_pw_pre b) in *.
  pose proof (piece_terms_rng pw White) as PW. pose proof (piece_terms_rng pw Black) as PB.
  match goal with |- context [safety_terms ops_U C b pw ?att White] =>
    pose proof (safety_terms_bound pw att White); pose proof (safety_terms_bound pw att Black) end.
  unfold bPre. unfold rng in PW, PB. destruct c; cbn [color_eqb] in PW, PB; lia.
Qed.

(* piece values: exact *)
Definition bPV : Z :=
  nn c Pawn * pv Pawn + nn c Knight * pv Knight + nn c Bishop * pv Bishop + nn c Rook * pv Rook + nn c Queen * pv Queen.

Lemma pv_one pt :
  tot s c [(MG, White, mul ops_U (of_int ops_U (nn White pt)) (co2 ops_U (PieceValues C) 0 pt));
           (EG, White, mul ops_U (of_int ops_U (nn White pt)) (co2 ops_U (PieceValues C) 1 pt));
           (MG, Black, mul ops_U (of_int ops_U (nn Black pt)) (co2 ops_U (PieceValues C) 0 pt));
           (EG, Black, mul ops_U (of_int ops_U (nn Black pt)) (co2 ops_U (PieceValues C) 1 pt))] = nn c pt * pv pt.
Proof.
  rewrite !tot_cons, tot_nil. simplU. unfold hit, pv, mv. cbn [fst snd].
  destruct s, c; cbn [slot_eqb color_eqb andb ismain phn]; lia.
Qed.

Lemma add_piece_values_tot : tot s c (add_piece_values ops_U C b) = bPV.
Proof.
  unfold add_piece_values, piece_types. cbn [flat_map]. rewrite !tot_app, tot_nil.
  fold (nn White Pawn) (nn Black Pawn) (nn White Knight) (nn Black Knight) (nn White Bishop) (nn Black Bishop)
       (nn White Rook) (nn Black Rook) (nn White Queen) (nn Black Queen).
  rewrite !pv_one. unfold bPV. lia.
Qed.

Lemma sigmoid_rng k : lmin sigm <= sigmoid_U k <= lmax sigm.
Proof. unfold sigmoid_U. apply nth_rng. Qed.

Lemma king_attacks_bound l : bSig lmin <= tot s c (add_king_attacks ops_U l) <= bSig lmax.
Proof.
  unfold add_king_attacks, bSig, mv. rewrite !tot_cons, tot_nil. unfold hit. cbn [fst snd s_sigmoid ops_U].
  pose proof (lmin_le0 sigm). pose proof (lmax_ge0 sigm).
  pose proof (sigmoid_rng (total ops_U KA0 White l)). pose proof (sigmoid_rng (total ops_U KA0 Black l)).
  pose proof (sigmoid_rng (total ops_U KA1 White l)). pose proof (sigmoid_rng (total ops_U KA1 Black l)).
  destruct s, c; cbn [slot_eqb color_eqb andb ismain]; lia.
Qed.

(* the accumulators consumed by taperedScore *)
Definition bAll (m : list Z -> Z) : Z := bPV + bPre m + bSig m.

Lemma all_terms_bound : bAll lmin <= tot s c (all_terms ops_U C b) <= bAll lmax.
Proof.
  unfold all_terms. rewrite main_terms_pre, !tot_app, add_piece_values_tot.
  pose proof pre_terms_bound. pose proof (king_attacks_bound (pre_terms ops_U C b)). unfold bAll. lia.
Qed.

Lemma rng_plain c' l lo hi : rng s c c' l lo hi -> lo <= 0 <= hi -> lo <= tot s c l <= hi.
Proof. unfold rng. destruct (color_eqb c c'); lia. Qed.

Lemma corner_le x j : (nthN (nthN KBCorners (N.land x 1) []) j 0 <= 64)%N.
Proof.
  assert (H : N.land x 1 = 0%N \/ N.land x 1 = 1%N).
  { pose proof (N.land_ones x 1) as E. change (N.ones 1) with 1%N in E. change (2 ^ 1)%N with 2%N in E.
    rewrite E. pose proof (N.mod_lt x 2 ltac:(discriminate)). lia. }
  unfold nthN. destruct H as [-> | ->]; destruct (N.to_nat j) as [| [| [| n]]]; cbv; intros E; discriminate E.
Qed.

(* the accumulators consumed by endgameScore (KNBvK) *)
Definition bKnbvk (m : list Z -> Z) : Z :=
  bPV + (psq m King + (psq m King + (psq m Knight + (psq m Bishop + mv s (m [1470]))))).

Lemma knbvk_bound : bKnbvk lmin <= tot s c (add_piece_values ops_U C b ++ knbvk_terms ops_U C b) <= bKnbvk lmax.
Proof.
  rewrite tot_app, add_piece_values_tot. unfold knbvk_terms. cbv zeta. rewrite !tot_app.
  assert (S : forall pt, psq lmin pt <= 0 <= psq lmax pt).
  { intros pt. unfold psq. split; [apply mv_le0, lmin_le0 | apply mv_ge0, lmax_ge0]. }
  set (victim := if nz (band (pieces b Bishop) (colors b White)) then Black else White).
  match goal with |- context [tot s c (add_psqt ops_U C victim King ?q)] =>
    pose proof (rng_plain _ _ _ _ (add_psqt_rng victim King q) (S King)) as P1 end.
  match goal with |- context [tot s c (add_psqt ops_U C (flip victim) King ?q)] =>
    pose proof (rng_plain _ _ _ _ (add_psqt_rng (flip victim) King q) (S King)) as P2 end.
  match goal with |- context [tot s c (add_psqt ops_U C (flip victim) Knight ?q)] =>
    pose proof (rng_plain _ _ _ _ (add_psqt_rng (flip victim) Knight q) (S Knight)) as P3 end.
  match goal with |- context [tot s c (add_psqt ops_U C (flip victim) Bishop ?q)] =>
    pose proof (rng_plain _ _ _ _ (add_psqt_rng (flip victim) Bishop q) (S Bishop)) as P4 end.
  rewrite tot_cons, tot_nil. simplU. cbn [snd].
  set (vk := lsb (band (pieces b King) (colors b victim))) in *.
  assert (Hvk : (vk <= 64)%N) by (apply lsb_le64, band_w64p_r, Hcol).
  match goal with |- context [Z.min (chebishev vk ?k1) (chebishev vk ?k2)] =>
    pose proof (chebishev_rng vk k1 Hvk (corner_le _ _)) as D1;
    pose proof (chebishev_rng vk k2 Hvk (corner_le _ _)) as D2;
    set (cd := Z.min (chebishev vk k1) (chebishev vk k2)) in * end.
  assert (Hc8 : 0 <= cd <= 8) by (unfold cd; lia).
  assert (Hsq : 0 <= (7 - cd) * (7 - cd) <= 49) by (split; [apply Z.square_nonneg | nia]).
  assert (Hcd : 0 <= (7 - cd) * (7 - cd) * 30 <= 1470) by lia.
  assert (Hm : lmin [1470] = 0 /\ lmax [1470] = 1470) by (split; reflexivity).
  destruct Hm as [Hm1 Hm2]. unfold bKnbvk. rewrite Hm1, Hm2. unfold mv.
  destruct (hit s c (EG, flip victim, (7 - cd) * (7 - cd) * 30)) eqn:Eh.
  - assert (ismain s = true) as -> by (unfold hit in Eh; cbn [fst snd] in Eh; destruct s; cbn in Eh |- *; congruence). lia.
  - destruct (ismain s); lia.
Qed.

End Terms.
