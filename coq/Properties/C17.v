(* C17 - static evaluation is colour-symmetric and depends only on piece placement, side to move and
   the halfmove clock.

   eval_Z c b is the executable model (Model/Eval.v) of eval.Eval(b, &c) at the engine's int16 score
   type, for an ARBITRARY coefficient set c (the tuned tables of eval/coeffs.go are one value of it:
   Gen.Coeffs.Coefficients); stream c17 ties it to the Go code on every run.  mirror, flipV,
   same_eval_inputs and eval_dom are defined in Spec/EvalSym.v.

   eval_dom b (the hypothesis of the mirror theorems) is a fragment of "representation-consistent
   and valid": all bitboards are 64-bit words, each side has exactly one king, every knight and
   bishop belongs to a colour.  Nothing else of `valid` is needed.  All terms of the evaluation are
   covered (material, piece-square tables, tempo, bishop pair, passers incl. king distance /
   protection / rank, doubled and isolated pawns, mobility, connected rooks, knight outposts,
   king-attack pieces, safe checks, shelter, sigmoid, insufficient material, KNBvK, phase taper and
   the (100 - fifty) scaling). *)
From Coq Require Import NArith ZArith List Bool.
From Chess3 Require Import Base.Bits Model.Types Model.BoardDef Gen.Coeffs Model.Eval Spec.EvalSym
  Proofs.EvalAlg Proofs.EvalFlip Proofs.EvalMirror.
Import ListNotations.

(* ---- independence: nothing but placement, side to move and halfmove clock is read ---- *)

Theorem C17_indep : forall (c : CoeffSet Z) (b b' : board),
  same_eval_inputs b b' -> eval_Z c b = eval_Z c b'.
Proof. exact eval_Z_indep. Qed.
Print Assumptions C17_indep.

(* stronger: of the three placement encodings only the bitboards matter, and this holds at every
   score structure (also the tuner's) *)
Theorem C17_indep_any_score : forall (T : Type) (O : score_ops T) (c : CoeffSet T) (b b' : board),
  pcs b = pcs b' -> cols b = cols b' -> stm b = stm b' -> fifty b = fifty b' ->
  eval_gen O c b = eval_gen O c b'.
Proof. exact @eval_gen_indep. Qed.
Print Assumptions C17_indep_any_score.

(* ---- colour symmetry ---- *)

Definition C17_mirror_statement : Prop := forall (c : CoeffSet Z) (b : board),
  eval_dom b -> eval_Z c (mirror b) = eval_Z c b.

Theorem C17_mirror : C17_mirror_statement.
Proof. exact eval_Z_mirror. Qed.
Print Assumptions C17_mirror.

(* at every score structure whose addition is right-commutative *)
Theorem C17_mirror_any_score : forall (T : Type) (O : score_ops T) (c : CoeffSet T) (b : board),
  eval_dom b ->
  (forall x y z, s_add O (s_add O x y) z = s_add O (s_add O x z) y) ->
  eval_gen O c (mirror b) = eval_gen O c b.
Proof. exact @eval_gen_mirror_b. Qed.
Print Assumptions C17_mirror_any_score.

(* both halves at once: any board that carries the mirrored placement, side to move and clock -
   whatever its castling rights, en-passant square, fullmove number and hash history - evaluates
   like the original *)
Theorem C17_mirror_indep : forall (c : CoeffSet Z) (b b' : board),
  eval_dom b -> same_eval_inputs (mirror b) b' -> eval_Z c b' = eval_Z c b.
Proof.
  intros c b b' Hd (_ & Hp & Hc & Hs & Hf). apply eval_Z_mirror_any; auto.
Qed.
Print Assumptions C17_mirror_indep.

(* the domain of the mirror theorems is closed under mirroring (so they can be chained) *)
Theorem C17_dom_mirror : forall b : board, eval_dom b -> eval_dom (mirror b).
Proof. exact eval_dom_mirror. Qed.
Print Assumptions C17_dom_mirror.

(* ---- the hypotheses are satisfiable on non-trivial positions ---- *)

Definition ex_of (ps : list N) (w bl : N) (s : color) (fi : Z) : board :=
  mkBoard (sq2p_of_sets ps) (0%N :: ps) [w; bl] [12345%N] 7 s 0%N 15%N fi.

(* r1bqk2r/pp2bppp/2n1pn2/2pp4/3P1B2/2P1PN2/PP1N1PPP/R2QKB1R w KQkq - 2 7 *)
Definition ex_middlegame : board :=
  ex_of [63912463574557440; 39582420699136; 292733976315953184; 9295429630892703873;
         576460752303423496; 1152921504606846992]%N 674556857%N 11381497909439627264%N White 2.
(* 8/8/8/4k3/8/2K5/1B6/6N1 w - - 10 60 : knight + bishop ending *)
Definition ex_knb : board := ex_of [0; 64; 512; 0; 0; 68719738880]%N 262720%N 68719476736%N White 10.
(* 8/1p3k2/8/P7/8/5K2/6P1/8 b - - 3 40 : passed pawns, king distances *)
Definition ex_pawns : board :=
  ex_of [562954248404992; 0; 0; 0; 0; 9007199256838144]%N 4297080832%N 9570149208162304%N Black 3.

Example C17_dom_middlegame : eval_dom ex_middlegame.
Proof. apply eval_domb_sound. vm_compute. reflexivity. Qed.
Example C17_dom_knb : eval_dom ex_knb /\ knbvk ex_knb = true.
Proof. split; [apply eval_domb_sound|]; vm_compute; reflexivity. Qed.
Example C17_dom_pawns : eval_dom ex_pawns.
Proof. apply eval_domb_sound. vm_compute. reflexivity. Qed.

(* the values are not trivially zero and the mirror is a different board *)
Example C17_values :
  eval_Z Coefficients ex_middlegame <> 0%Z /\ eval_Z Coefficients (mirror ex_middlegame) = eval_Z Coefficients ex_middlegame /\
  eval_Z Coefficients ex_knb <> 0%Z /\ eval_Z Coefficients (mirror ex_knb) = eval_Z Coefficients ex_knb /\
  eval_Z Coefficients ex_pawns <> 0%Z /\ eval_Z Coefficients (mirror ex_pawns) = eval_Z Coefficients ex_pawns /\
  pcs (mirror ex_middlegame) <> pcs ex_middlegame.
Proof. vm_compute. repeat split; discriminate. Qed.

(* a variant that differs in every non-positional attribute meets the hypothesis of C17_indep *)
Example C17_indep_ex :
  let b' := set_castles (set_ep (set_full (set_hashes ex_middlegame [1; 2; 3]%N) 99) 20%N) 0%N in
  same_eval_inputs ex_middlegame b' /\ castles b' <> castles ex_middlegame /\ hashes b' <> hashes ex_middlegame.
Proof. cbv zeta. repeat split; discriminate. Qed.
