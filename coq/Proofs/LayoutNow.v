(* The reverse-token layout board.go has NOW (Gen/TokLayout.v, regenerated on every run) is sound, and
   the C03 round trips for the engine's own make / undo / make_null / undo_null follow.  Kept apart
   from the layout-generic development so that only C03 depends on the generated layout being sound. *)
From Coq Require Import NArith ZArith List Bool.
From Chess3 Require Import Base.Bits Model.Types Model.BoardDef Model.Board Spec.Rep Spec.Applicable
  Proofs.BoardInv Proofs.UndoMove Proofs.Statements.
Import ListNotations.
Open Scope N_scope.

(* the layout board.go has now (regenerated into Gen/TokLayout.v on every run) is sound: masks are
   runs of ones at their shifts, wide enough, inside the token's word, pairwise disjoint *)
Lemma generated_layout_ok : layout_ok gen_layout = true.
Proof. vm_compute. reflexivity. Qed.

(* the engine as it is now *)
Lemma C03_move_now_l : forall z b m, Rep b -> applicable b m = true ->
  let '(b', t) := make z b m in undo z b' m t = b.
Proof. intros z b m. exact (C03_move_l gen_layout z b m generated_layout_ok). Qed.

Lemma C03_null_now_l : forall z b, Rep b ->
  let '(b', t) := make_null z b in undo_null b' t = b.
Proof. intros z b. exact (C03_null_l gen_layout z b generated_layout_ok). Qed.

