(* C13: the acceptance test of the trace validation is sound: an observation it accepts is the
   output of a complete run of the transition system (so the theorems about all runs apply to it). *)
From Coq Require Import Bool List Arith Lia FMapPositive.
Import ListNotations.
From Chess3 Require Import Model.Uci Spec.UciLog Proofs.UciTerm Proofs.UciInv Proofs.UciMain.

Definition wrote (s : state) (l : label) : list item :=
  match l with
  | LWrite => match out s with x :: _ => [x] | [] => [] end
  | _ => []
  end.

Lemma guard_written w s l : guard (set_written w s) l = guard s l.
Proof. destruct s, l; reflexivity. Qed.

Lemma terminal_written w s : terminal (set_written w s) = terminal s.
Proof. destruct s; reflexivity. Qed.

Lemma wrote_written w s l : wrote (set_written w s) l = wrote s l.
Proof. destruct s, l; reflexivity. Qed.

Lemma step_strip s l : set_written [] (step s l) = set_written [] (step (set_written [] s) l).
Proof.
  destruct s as [scr sg sb r h dp c cg f pg i t pc psn fn o oc wd w].
  destruct l; simpl; unfold after_deliver; dmgoalS; reflexivity.
Qed.

Lemma step_wrote s l : written (step s l) = written s ++ wrote s l.
Proof.
  destruct s as [scr sg sb r h dp c cg f pg i t pc psn fn o oc wd w].
  destruct l; simpl; unfold after_deliver; dmgoalS; rewrite ?app_nil_r; reflexivity.
Qed.

Lemma item_eqb_eq a b : item_eqb a b = true -> a = b.
Proof. destruct a, b; simpl; try discriminate; try reflexivity; intros E; apply Nat.eqb_eq in E; subst; reflexivity. Qed.

Section Sound.
Variable total : nat.
Variable seen : list nat.

Lemma psucc_spec p l p' : psucc total seen p l = Some p' ->
  set_written [] (ps p') = set_written [] (step (ps p) l)
  /\ forall W, collapse_opts (lastopt p') W = obs p' ->
               collapse_opts (lastopt p) (wrote (ps p) l ++ W) = obs p.
Proof.
  destruct p as [s ob nr lo]. unfold psucc. simpl.
  destruct l; try (intros E; inversion E; subst; simpl; split; [reflexivity|intros W H; exact H]).
  - (* LRead *) destruct (nth nr seen 0 <=? total - length ob); [|discriminate].
    intros E; inversion E; subst; simpl; split; [reflexivity|intros W H; exact H].
  - (* LWrite *) destruct (out s) as [|x q] eqn:Eo; [discriminate|].
    destruct (is_opt x && lo) eqn:Eopt.
    + intros E; inversion E; subst; simpl. split; [destruct s; reflexivity|].
      intros W H. unfold wrote. rewrite Eo. simpl. rewrite Eopt. exact H.
    + destruct ob as [|y r]; [discriminate|]. destruct (item_eqb x y) eqn:Ei; [|discriminate].
      apply item_eqb_eq in Ei. subst y.
      intros E; inversion E; subst; simpl. split; [destruct s; reflexivity|].
      intros W H. unfold wrote. rewrite Eo. simpl. rewrite Eopt. rewrite H. reflexivity.
Qed.

Lemma try_sound f p : forall ls m m', try_list total seen f p ls m = (true, m') ->
  exists l p' m1 m2, In l ls /\ psucc total seen p l = Some p' /\ f p' m1 = (true, m2).
Proof.
  induction ls as [|l ls IH]; intros m m'; simpl; [discriminate|].
  destruct (psucc total seen p l) as [p'|] eqn:Ep.
  - destruct (f p' m) as [r m1] eqn:Ef. destruct r.
    + intros _. exists l, p', m, m1. split; [left; reflexivity|]. split; assumption.
    + intros E. destruct (IH _ _ E) as [l0 [p0 [ma [mb [Hin [Hp Hf]]]]]].
      exists l0, p0, ma, mb. split; [right; exact Hin|]. split; assumption.
  - intros E. destruct (IH _ _ E) as [l0 [p0 [ma [mb [Hin [Hp Hf]]]]]].
    exists l0, p0, ma, mb. split; [right; exact Hin|]. split; assumption.
Qed.

Lemma dfs_sound : forall n p m m', dfs total seen n p m = (true, m') ->
  forall s, set_written [] s = set_written [] (ps p) ->
  exists ls s', steps s ls s' /\ terminal s' = true
                /\ exists W, written s' = written s ++ W /\ collapse_opts (lastopt p) W = obs p.
Proof.
  induction n as [|n IH]; intros p m m'; simpl; [discriminate|].
  destruct (pterminal p) eqn:T.
  - intros _ s E. exists [], s. split; [constructor|]. unfold pterminal in T. apply andb_prop in T as [T1 T2].
    split.
    + rewrite <- (terminal_written [] s), E, terminal_written. exact T1.
    + exists []. rewrite app_nil_r. split; [reflexivity|]. destruct (obs p); [reflexivity|discriminate].
  - destruct (PositiveMap.find (key p) m); [discriminate|].
    destruct (try_list total seen (dfs total seen n) p (enabled (ps p)) m) as [r m1] eqn:Et.
    destruct r; [|discriminate]. intros _ s E.
    destruct (try_sound _ _ _ _ _ Et) as [l [p' [ma [mb [Hin [Hp Hf]]]]]].
    apply enabled_iff in Hin. destruct (psucc_spec _ _ _ Hp) as [P1 P2].
    assert (G : guard s l = true).
    { rewrite <- (guard_written [] s), E, guard_written. exact Hin. }
    assert (E' : set_written [] (step s l) = set_written [] (ps p')).
    { rewrite step_strip, E, <- step_strip. symmetry. exact P1. }
    destruct (IH _ _ _ Hf _ E') as [ls [s' [Hs [Ht [W [Hw Hc]]]]]].
    exists (l :: ls), s'. split; [constructor; assumption|]. split; [exact Ht|].
    exists (wrote s l ++ W). split.
    + rewrite Hw, step_wrote, app_assoc. reflexivity.
    + rewrite <- (wrote_written [] s), E, wrote_written. apply P2. exact Hc.
Qed.
End Sound.

(* an accepted observation is what a complete run of the model writes (option lines collapsed) *)
Theorem accepts_sound sc ob seen : accepts sc ob seen = true ->
  exists ls s, steps (init sc) ls s /\ terminal s = true /\ collapse_opts false (written s) = ob.
Proof.
  unfold accepts. intros A.
  destruct (dfs (length ob) seen (S (mu (init sc)))
              {| ps := init sc; obs := ob; nread := 0; lastopt := false |} (PositiveMap.empty unit))
    as [r m'] eqn:E.
  simpl in A. subst r.
  destruct (dfs_sound _ _ _ _ _ _ E (init sc) eq_refl) as [ls [s' [Hs [Ht [W [Hw Hc]]]]]].
  exists ls, s'. split; [exact Hs|]. split; [exact Ht|]. simpl in Hw. rewrite Hw. exact Hc.
Qed.

(* hence, for a conforming script, whatever the acceptance test lets through is the collapsed
   stdout of a run that has answered every request *)
Theorem accepted_is_answered sc ob seen : conforming sc = true -> accepts sc ob seen = true ->
  exists log, collapse_opts false log = ob /\ all_answered sc log
              /\ bests log = seq 1 (count_cmd is_go sc)
              /\ forall a i b, log = a ++ IInfo i :: b -> In (IBest i) b /\ ~ In (IBest i) a.
Proof.
  intros C A. destruct (accepts_sound _ _ _ A) as [ls [s [Hs [Ht Hc]]]].
  exists (written s). split; [exact Hc|].
  apply final_answers; [exact C|exists ls; exact Hs|exact Ht].
Qed.
