package streams

import (
	"fmt"
	"math/bits"
	"strings"

	"github.com/paulsonkoly/chess-3/attacks"
	"github.com/paulsonkoly/chess-3/board"
	. "github.com/paulsonkoly/chess-3/chess"
	"github.com/paulsonkoly/chess-3/eval"

	"verifharness/hx"
	"verifharness/posgen"
)

// c17: [n] ++ n board-in records -> the n evaluations eval.Eval(b, &eval.Coefficients), in order.
//
//	board 0      a "previous evaluation": some other position whose hash history is that of board 1
//	board 1      the position
//	board 2      its mirror image (ranks flipped, colours and side to move swapped, castling rights
//	             and en-passant target mirrored)
//	board 3..    variants of board 1 that differ ONLY in castling rights / en-passant state /
//	             fullmove number / hash history; the last one is an exact copy
//
// The implementation side evaluates board 0 on a fresh Board object and every later board on the SAME
// object (overwritten in place), so state that survives between evaluations - in the board or in
// the eval package - shows.  The model (Model/Eval.v run_c17) evaluates every record it is given;
// the judge (Spec/EvalSym.v judge_c17) re-checks the shape of the case and demands
// eval(2) = eval(1) and eval(k) = eval(1) for k >= 3.  Board 0 is not judged.
func init() {
	hx.Register(&hx.Stream{Name: "c17", Gen: genC17, Run: runC17})
}

func runC17(a hx.Args) string {
	n := a.Int(0)
	i := 1
	out := &hx.Nums{}
	var obj *board.Board
	for k := 0; k < n; k++ {
		var b *board.Board
		b, i = a.Board(i)
		if obj == nil {
			obj = b
		} else {
			*obj = *b // reuse the object
		}
		out.Int(int(eval.Eval(obj, &eval.Coefficients)))
	}
	return out.String()
}

// mirrorSnap returns the colour-flipped mirror image of s (hash history left empty).
func mirrorSnap(s board.VerifSnap) board.VerifSnap {
	var m board.VerifSnap
	for sq := 0; sq < 64; sq++ {
		m.SquaresToPiece[sq^56] = s.SquaresToPiece[sq]
	}
	for p := range s.Pieces {
		m.Pieces[p] = BitBoard(bits.ReverseBytes64(uint64(s.Pieces[p])))
	}
	m.Colors[White] = BitBoard(bits.ReverseBytes64(uint64(s.Colors[Black])))
	m.Colors[Black] = BitBoard(bits.ReverseBytes64(uint64(s.Colors[White])))
	m.STM = s.STM.Flip()
	if s.EnPassant != 0 {
		m.EnPassant = s.EnPassant ^ 56
	}
	m.Castles = (s.Castles >> 2) | ((s.Castles & 3) << 2)
	m.FiftyCnt = s.FiftyCnt
	m.FullMoves = s.FullMoves
	return m
}

func withHash(s board.VerifSnap) *board.Board {
	b := board.VerifRestore(s)
	s.Hashes = []board.Hash{b.VerifCalcHash()}
	return board.VerifRestore(s)
}

// maxRights is the largest set of castling rights consistent with the placement.
func maxRights(s *board.VerifSnap) Castles {
	has := func(c Color, p Piece, sq Square) bool {
		return s.SquaresToPiece[sq] == p && s.Colors[c]&(1<<sq) != 0
	}
	var r Castles
	if has(White, King, E1) && has(White, Rook, H1) {
		r |= ShortWhite
	}
	if has(White, King, E1) && has(White, Rook, A1) {
		r |= LongWhite
	}
	if has(Black, King, E8) && has(Black, Rook, H8) {
		r |= ShortBlack
	}
	if has(Black, King, E8) && has(Black, Rook, A8) {
		r |= LongBlack
	}
	return r
}

// epCandidates lists the en-passant targets that keep the position valid.
func epCandidates(s board.VerifSnap) []Square {
	var res []Square
	for f := Square(0); f < 8; f++ {
		ep := f + 40 // sixth rank, White to move
		if s.STM == Black {
			ep = f + 16
		}
		if ep == s.EnPassant {
			continue
		}
		t := s
		t.EnPassant = ep
		if posgen.Valid(board.VerifRestore(t)) {
			res = append(res, ep)
		}
	}
	return res
}

type c17Case struct {
	in    string
	desc  string
	tags  []string
	key   string
	nontr bool
}

// buildC17 assembles one case from the position p and a decoy position.
func buildC17(rng *hx.Rng, p *board.Board, decoy *board.Board, kind, desc string) c17Case {
	s := p.VerifSnapshot()
	if len(s.Hashes) == 0 {
		s.Hashes = []board.Hash{p.VerifCalcHash()}
	}
	var boards []board.VerifSnap
	// board 0: the decoy with the position's hash history
	d := decoy.VerifSnapshot()
	d.Hashes = append([]board.Hash(nil), s.Hashes...)
	boards = append(boards, d)
	boards = append(boards, s)
	m := withHash(mirrorSnap(s)).VerifSnapshot()
	boards = append(boards, m)

	variant := func(f func(v *board.VerifSnap)) {
		v := s
		v.Hashes = append([]board.Hash(nil), s.Hashes...)
		f(&v)
		boards = append(boards, v)
	}
	mr := maxRights(&s)
	variant(func(v *board.VerifSnap) { v.Hashes = append([]board.Hash(nil), m.Hashes...) }) // the mirror's hash
	variant(func(v *board.VerifSnap) { v.Castles = 0 })
	variant(func(v *board.VerifSnap) { v.Castles = mr })
	variant(func(v *board.VerifSnap) { v.Castles = mr & Castles(rng.Intn(16)) })
	variant(func(v *board.VerifSnap) { v.EnPassant = 0 })
	eps := epCandidates(s)
	variant(func(v *board.VerifSnap) {
		if len(eps) > 0 {
			v.EnPassant = eps[rng.Intn(len(eps))]
		} else {
			v.EnPassant = 0
		}
	})
	variant(func(v *board.VerifSnap) { v.FullMoves = s.FullMoves + 1 + rng.Intn(300) })
	variant(func(v *board.VerifSnap) { v.FullMoves = 1 })
	variant(func(v *board.VerifSnap) { // junk history
		k := 1 + rng.Intn(6)
		v.Hashes = nil
		for j := 0; j < k; j++ {
			v.Hashes = append(v.Hashes, board.Hash(rng.U64()))
		}
	})
	variant(func(v *board.VerifSnap) { // history with repetitions of the current hash
		h := s.Hashes[len(s.Hashes)-1]
		v.Hashes = []board.Hash{h, board.Hash(rng.U64()), h, board.Hash(rng.U64()), h}
	})
	variant(func(v *board.VerifSnap) { // everything at once
		v.Castles = mr & Castles(rng.Intn(16))
		v.EnPassant = 0
		v.FullMoves = rng.Intn(500)
		v.Hashes = []board.Hash{board.Hash(rng.U64())}
	})
	variant(func(v *board.VerifSnap) {}) // exact copy, evaluated last on the reused object

	nums := (&hx.Nums{}).Int(len(boards))
	for k := range boards {
		nums.BoardIn(board.VerifRestore(boards[k]))
	}
	tags := append(posgen.Tags(p), kind)
	nontr := true
	switch {
	case (p.Colors[White] | p.Colors[Black]).Count() == 2:
		tags = append(tags, "bare-kings")
		nontr = false
	case eval.VerifInsufficientMat(p):
		tags = append(tags, "insufficient-material")
	case eval.KNBvK(p):
		tags = append(tags, "KNBvK")
	}
	if len(eps) > 0 {
		tags = append(tags, "ep-variant-possible")
	}
	if mr != 0 {
		tags = append(tags, "castling-variant-possible")
	}
	if p.FiftyCnt > 0 {
		tags = append(tags, "fifty>0")
	}
	mb := board.VerifRestore(m)
	return c17Case{in: nums.String(),
		desc:  fmt.Sprintf("%s | position fen %s | mirror fen %s | previous evaluation on fen %s", desc, p.FEN(), mb.FEN(), decoy.FEN()),
		tags:  tags,
		key:   p.FEN(),
		nontr: nontr}
}

// material placements for the special endings: random squares for the listed pieces
// (upper case White), rejection-filtered by posgen.Valid
func placeMaterial(rng *hx.Rng, mat string) *board.Board {
	for try := 0; try < 50; try++ {
		var sq [64]byte
		ok := true
		for _, c := range []byte(mat) {
			placed := false
			for t := 0; t < 30 && !placed; t++ {
				s := rng.Intn(64)
				if sq[s] != 0 || ((c == 'p' || c == 'P') && (s < 8 || s >= 56)) {
					continue
				}
				// bias kings towards edges and corners now and then (corner distance term)
				if (c == 'k' || c == 'K') && rng.Chance(0.3) {
					s = []int{0, 7, 56, 63, 1, 8, 62, 55, 6, 15, 57, 48}[rng.Intn(12)]
					if sq[s] != 0 {
						continue
					}
				}
				sq[s] = c
				placed = true
			}
			ok = ok && placed
		}
		if !ok {
			continue
		}
		var sb strings.Builder
		for r := 7; r >= 0; r-- {
			e := 0
			for f := 0; f < 8; f++ {
				c := sq[r*8+f]
				if c == 0 {
					e++
					continue
				}
				if e > 0 {
					sb.WriteByte(byte('0' + e))
					e = 0
				}
				sb.WriteByte(c)
			}
			if e > 0 {
				sb.WriteByte(byte('0' + e))
			}
			if r > 0 {
				sb.WriteByte('/')
			}
		}
		fen := fmt.Sprintf("%s %c - - %d %d", sb.String(), "wb"[rng.Intn(2)], rng.Intn(100), 1+rng.Intn(80))
		b, err := board.FromFEN(fen)
		if err != nil || !posgen.Valid(b) {
			continue
		}
		return b
	}
	return nil
}

var c17Materials = []string{
	// bare kings, insufficient material and its neighbours
	"Kk", "KkN", "Kkn", "KkB", "Kkb", "KkNN", "Kknn", "KkNn", "KkBb", "KkBn", "KkNb", "KkNNn", "KkBNn", "KkBbn",
	"KkBB", "Kkbb", "KkNNN", "KkBBb", "KkBNb", "KkNNNN",
	// knight + bishop mate, both colours
	"KkNB", "Kknb", "KkNB", "Kknb", "KkNB", "Kknb", "KkNB", "Kknb", "KkNB", "Kknb", "KkNB", "Kknb",
	// sole passer / king distance terms, promoted material
	"KkP", "Kkp", "KkPp", "KkRP", "Kkrp", "KkQQ", "Kkqqq", "KkRRR", "KkQp", "KkNNNP", "KkBBBp", "KkRrPp", "KkNBPp", "KkQRBNqrbn",
	"KkPPPppp", "KkRRrrPPpp", "KkNnPPPpp", "KkBbPPppp",
	// knights among pawns (outposts, holes), rooks (connected rooks, file/rank mobility)
	"KkNNnnPPPPpppp", "KkNnBbPPPPPppppp", "KkNNNnnnPPpp", "KkRRrrNnPPPppp", "KkQqRrBbNnPPPPpppp",
}

// ------------------------------------------------------------------------------------------------
// Structured families. The activation measurement (Model/EvalAct.v, lib/props.py _c17_activation)
// showed that play-outs and random placements hardly ever switch on some terms (end-game king-attack
// sigmoid: 0 of 3000; knight outposts: < 1 %); these generators build the configurations those
// terms need.  Every family is built with White as the acting side and then colour-flipped with
// probability 1/2, so that both colours get the same share.

type sqArr [64]byte

func (a *sqArr) occ() BitBoard {
	var o BitBoard
	for s, c := range a {
		if c != 0 {
			o |= 1 << uint(s)
		}
	}
	return o
}

// flipped returns the colour-flipped mirror image of the placement.
func (a *sqArr) flipped() sqArr {
	var m sqArr
	for s, c := range a {
		switch {
		case c >= 'a' && c <= 'z':
			m[s^56] = c - 32
		case c >= 'A' && c <= 'Z':
			m[s^56] = c + 32
		}
	}
	return m
}

func (a *sqArr) fen(stm Color, fifty, full int) string {
	var sb strings.Builder
	for r := 7; r >= 0; r-- {
		e := 0
		for f := 0; f < 8; f++ {
			c := a[r*8+f]
			if c == 0 {
				e++
				continue
			}
			if e > 0 {
				sb.WriteByte(byte('0' + e))
				e = 0
			}
			sb.WriteByte(c)
		}
		if e > 0 {
			sb.WriteByte(byte('0' + e))
		}
		if r > 0 {
			sb.WriteByte('/')
		}
	}
	return fmt.Sprintf("%s %c - - %d %d", sb.String(), "wb"[stm], fifty, full)
}

// put places c on a random empty square accepted by ok (nil = any), pawns never on ranks 1/8.
func (a *sqArr) put(rng *hx.Rng, c byte, ok func(s int) bool) bool {
	for t := 0; t < 60; t++ {
		s := rng.Intn(64)
		if a[s] != 0 || ((c == 'p' || c == 'P') && (s < 8 || s >= 56)) {
			continue
		}
		if ok != nil && !ok(s) {
			continue
		}
		a[s] = c
		return true
	}
	return false
}

// finish adds a few random extras, flips colours with probability 1/2 and validates.
func (a *sqArr) finish(rng *hx.Rng, extras int, extraKinds string) *board.Board {
	for k := 0; k < extras; k++ {
		a.put(rng, extraKinds[rng.Intn(len(extraKinds))], nil)
	}
	pl := *a
	if rng.Bool() {
		pl = a.flipped()
	}
	b, err := board.FromFEN(pl.fen(Color(rng.Intn(2)), rng.Intn(60), 1+rng.Intn(80)))
	if err != nil || !posgen.Valid(b) {
		return nil
	}
	return b
}

// kingZone: a sheltered black king, 1-4 white attackers of chosen kinds aimed at the king zone
// or at safe checking squares, few other pieces (so that the end-game weight is large).
//
//	mode 0  mixed attackers (bishops, knights, rooks, queens) touching the zone
//	mode 1  "quiet" end-game attack: 2-3 bishops raking the zone and knights with checking squares
//	        that do NOT touch the zone, full shelter (what the end-game king-attack score needs to
//	        become positive with the shipped weights)
//	mode 2  damaged shelter, heavy pieces
func kingZone(rng *hx.Rng) *board.Board {
	var a sqArr
	mode := []int{0, 1, 1, 2}[rng.Intn(4)]
	kf := rng.Intn(8)
	kr := 7
	if rng.Chance(0.15) {
		kr = 6
	}
	if mode == 1 { // a full three-pawn shelter needs a king off the edge files
		kf, kr = 1+rng.Intn(6), 7
	}
	ks := kr*8 + kf
	a[ks] = 'k'
	zone := attacks.KingMoves(Square(ks)) | 1<<uint(ks)
	checks := attacks.KnightMoves(Square(ks))
	// shelter pawns in front of the king
	pShelter := 0.9
	switch mode {
	case 1:
		pShelter = 0.97
	case 2:
		pShelter = 0.45
	}
	for df := -1; df <= 1; df++ {
		f := kf + df
		if f < 0 || f > 7 {
			continue
		}
		s := (kr-1)*8 + f
		if rng.Chance(pShelter) {
			a[s] = 'p'
		} else if rng.Chance(0.5) && s-8 >= 8 {
			a[s-8] = 'p' // advanced pawn: outside the king's neighbourhood
		}
	}
	// the attacking king, far away
	if !a.put(rng, 'K', func(s int) bool { return s/8 <= 2 && attacks.KingMoves(Square(s))&zone == 0 }) {
		return nil
	}
	touches := func(kind byte, s int) bool {
		occ := a.occ()
		switch kind {
		case 'B':
			return attacks.BishopMoves(Square(s), occ)&zone != 0
		case 'R':
			return attacks.RookMoves(Square(s), occ)&zone != 0
		case 'Q':
			return (attacks.BishopMoves(Square(s), occ)|attacks.RookMoves(Square(s), occ))&zone != 0
		default:
			return attacks.KnightMoves(Square(s))&zone != 0
		}
	}
	var kinds []byte
	switch mode {
	case 0:
		n := 1 + rng.Intn(4)
		for k := 0; k < n; k++ {
			kinds = append(kinds, "BBBNNNRQ"[rng.Intn(8)])
		}
	case 1:
		kinds = []byte{'B', 'B'}
		if rng.Chance(0.5) {
			kinds = append(kinds, 'B')
		}
		for k := rng.Intn(3); k > 0; k-- {
			kinds = append(kinds, 'N')
		}
		if len(kinds) == 2 {
			kinds = append(kinds, 'N')
		}
	default:
		n := 1 + rng.Intn(3)
		for k := 0; k < n; k++ {
			kinds = append(kinds, "RRQQBN"[rng.Intn(6)])
		}
	}
	for _, kind := range kinds {
		kind := kind
		a.put(rng, kind, func(s int) bool {
			if mode == 1 && kind == 'N' {
				// a checking square in reach, the zone untouched
				return attacks.KnightMoves(Square(s))&checks&^a.occ() != 0 && !touches('N', s)
			}
			if kind == 'N' && rng.Chance(0.4) {
				return attacks.KnightMoves(Square(s))&checks&^a.occ() != 0
			}
			return touches(kind, s) || rng.Chance(0.1)
		})
	}
	extras := rng.Intn(4)
	if mode == 1 {
		extras = rng.Intn(2)
	}
	return a.finish(rng, extras, "PPppnbrNR")
}

// outpost: a white knight on a square of Black's half that no black pawn can ever cover,
// supported by a white pawn; also near misses (unsupported, or coverable).
func outpost(rng *hx.Rng) *board.Board {
	var a sqArr
	f, r := rng.Intn(8), 3+rng.Intn(4) // ranks 4..7
	if r == 3 && (f != 3 && f != 4) {
		r = 4
	}
	s := r*8 + f
	a[s] = 'N'
	if rng.Chance(0.85) { // supporting pawn
		df := 1 - 2*rng.Intn(2)
		if f+df < 0 || f+df > 7 {
			df = -df
		}
		if s-8+df >= 8 {
			a[s-8+df] = 'P'
		}
	}
	for k := rng.Intn(5); k > 0; k-- { // black pawns: mostly unable to cover the square
		near := rng.Chance(0.15)
		a.put(rng, 'p', func(t int) bool {
			adj := t%8 == f-1 || t%8 == f+1
			canCover := adj && t/8 > r
			return canCover == near
		})
	}
	for k := rng.Intn(4); k > 0; k-- {
		a.put(rng, 'P', nil)
	}
	if !a.put(rng, 'K', nil) || !a.put(rng, 'k', nil) {
		return nil
	}
	return a.finish(rng, rng.Intn(4), "nNbBrRqp")
}

// rookLines: two white rooks on one line with nothing between them (connected rooks), with
// varying horizontal / vertical freedom.
func rookLines(rng *hx.Rng) *board.Board {
	var a sqArr
	s := rng.Intn(64)
	var t int
	if rng.Bool() {
		t = s/8*8 + rng.Intn(8)
	} else {
		t = rng.Intn(8)*8 + s%8
	}
	if t == s {
		return nil
	}
	a[s], a[t] = 'R', 'R'
	between := func(u int) bool {
		if s/8 == t/8 && u/8 == s/8 {
			return (u-s)*(u-t) < 0
		}
		if s%8 == t%8 && u%8 == s%8 {
			return (u-s)*(u-t) < 0
		}
		return false
	}
	free := func(u int) bool { return !between(u) || rng.Chance(0.1) }
	if !a.put(rng, 'K', free) || !a.put(rng, 'k', free) {
		return nil
	}
	for k := rng.Intn(7); k > 0; k-- {
		a.put(rng, "PPpprnbq"[rng.Intn(8)], free)
	}
	return a.finish(rng, 0, "p")
}

func genC17(rng *hx.Rng, n int, tier string, emit func(hx.Input)) {
	cnt := 0
	decoy, _ := board.FromFEN(StartPosFEN)
	out := func(c c17Case) {
		emit(hx.Input{In: c.in, Desc: c.desc, Tags: c.tags, NonTrivial: c.nontr, Key: c.key})
		cnt++
	}
	for cnt < n {
		// special material: about a quarter of the cases
		for k := 0; k < 14 && cnt < n; k++ {
			mat := c17Materials[rng.Intn(len(c17Materials))]
			if b := placeMaterial(rng, mat); b != nil {
				c := buildC17(rng, b, decoy, "material:"+mat, "material "+mat)
				decoy = board.VerifRestore(b.VerifSnapshot())
				out(c)
			}
		}
		// structured families: king zone, outposts, rook lines
		for k := 0; k < 20 && cnt < n; k++ {
			var b *board.Board
			kind := "kingzone"
			switch {
			case k < 14:
				b = kingZone(rng)
			case k < 18:
				b, kind = outpost(rng), "outpost"
			default:
				b, kind = rookLines(rng), "rooklines"
			}
			if b != nil {
				c := buildC17(rng, b, decoy, "family:"+kind, "family "+kind)
				decoy = board.VerifRestore(b.VerifSnapshot())
				out(c)
			}
		}
		posgen.Stream(rng, 48, func(p posgen.Pos) {
			if cnt >= n {
				return
			}
			c := buildC17(rng, p.B, decoy, p.Kind, p.Desc())
			decoy = board.VerifRestore(p.B.VerifSnapshot())
			out(c)
		})
	}
}
