package hx

import (
	. "github.com/paulsonkoly/chess-3/chess"
	"github.com/paulsonkoly/chess-3/move"
)

// The models and judges speak ONE move encoding: to-square in bits 0..5, from-square in bits 6..11,
// promotion piece in bits 12..14 (bit 15: "some bit outside the three fields is set"). The engine's own
// packing of move.Move is an implementation detail (property C05 quantifies over "any from square, any to
// square, any value of the three promotion bits", not over a bit layout): every move that crosses the
// wire between harness and model goes through M2U / U2M, which use only the public constructors and
// accessors of package move. With the layout the repository has today both are the identity.

var moveFieldBits = move.From(63) | move.To(63) | move.Promo(7)

// M2U is the wire form of an engine move.
func M2U(m move.Move) uint64 {
	u := uint64(m.To()) | uint64(m.From())<<6 | uint64(m.Promo())<<12
	if m&^moveFieldBits != 0 {
		u |= 1 << 15
	}
	return u
}

// U2M is the engine move of a wire number (bits above 15 are dropped as the conversion to move.Move does).
func U2M(u uint64) move.Move {
	m := move.To(Square(u&63)) | move.From(Square((u>>6)&63)) | move.Promo(Piece((u>>12)&7))
	if u&(1<<15) != 0 {
		m |= ^moveFieldBits
	}
	return m
}
