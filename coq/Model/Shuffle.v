(* Model of tools/tuner/epd/chunker.go:173-222 (shuffleIndex / feistel / roundFunc) on Go uint64,
   represented as N with every wrap-around written out. Definitions only.

   The round function is a parameter of [feistel_gen] / [shuffle_index_gen]; the code's own
   instance is [feistel] / [shuffle_index] with [round_func]. The literals (number of rounds, key
   increment, shifts, multiplier) come from Gen/TunerConsts.v.

   Go's [for { ... }] in shuffleIndex has no bound; the model runs it on a binary fuel of 2^bits
   steps ([Base.Loop.loop_pos]) and answers [None] if that were ever exhausted (Proofs/
   ShuffleProofs.v: it never is). *)
From Coq Require Import NArith ZArith List.
From Chess3 Require Import Base.Loop Gen.TunerConsts.
Import ListNotations.
Open Scope N_scope.

Definition ones64 : N := 18446744073709551615.
Definition w64 (x : N) : N := N.land x ones64.                       (* truncation to uint64 *)
Definition shl64 (x k : N) : N := if 64 <=? k then 0 else w64 (N.shiftl x k).   (* x << k *)
Definition shr64 (x k : N) : N := if 64 <=? k then 0 else N.shiftr x k.         (* x >> k, x < 2^64 *)
Definition sub1_64 (x : N) : N := w64 (x + ones64).                  (* x - 1 on uint64 *)

(* func roundFunc(x, k uint64) uint64 *)
Definition round_func (x k : N) : N :=
  let z := w64 (x + k) in
  let z := N.lxor z (shr64 z RoundShift1) in
  let z := w64 (z * RoundMul) in
  N.lxor z (shr64 z RoundShift2).

Section Generic.
Variable F : N -> N -> N.            (* the round function *)

(* for i := range rounds { k := seed + uint64(i)*gold; f := F(right, k) & leftMask;
                            left, right = right, left^f } *)
Fixpoint feistel_rounds (cnt : nat) (i seed leftMask left right : N) : N * N :=
  match cnt with
  | O => (left, right)
  | S c =>
      let k := w64 (seed + w64 (i * FeistelGold)) in
      let f := N.land (F right k) leftMask in
      feistel_rounds c (i + 1) seed leftMask right (N.lxor left f)
  end.

(* func feistel(x, seed uint64, bits int) uint64 *)
Definition feistel_gen (x seed bits : N) : N :=
  let half := N.div2 bits in
  let leftMask := sub1_64 (shl64 1 half) in
  let rightMask := sub1_64 (shl64 1 (bits - half)) in
  let left0 := N.land x leftMask in
  let right0 := N.land (shr64 x half) rightMask in
  let '(left', right') := feistel_rounds (N.to_nat FeistelRounds) 0 seed leftMask left0 right0 in
  N.lor (shl64 (N.land right' rightMask) half) (N.land left' leftMask).

(* one turn of the rejection loop: y := feistel(x); if y < n return y; x = y & mask *)
Definition walk_step (n seed bits mask x : N) : N + N :=
  let y := feistel_gen x seed bits in
  if y <? n then inr y else inl (N.land y mask).

Definition walk_fuel (bits : N) : positive := match N.pow 2 bits with Npos p => p | N0 => 1%positive end.

(* func shuffleIndex(x, n, seed uint64) uint64 *)
Definition shuffle_index_gen (x n seed : N) : option N :=
  if n <=? 1 then Some 0 else
  let bitsNeeded := N.size (n - 1) in                 (* bits.Len64(n - 1) *)
  let size := shl64 1 bitsNeeded in
  let mask := sub1_64 size in
  match loop_pos (walk_step n seed bitsNeeded mask) (walk_fuel bitsNeeded) x with
  | inr y => Some y
  | inl _ => None
  end.
End Generic.

Definition feistel := feistel_gen round_func.
Definition shuffle_index := shuffle_index_gen round_func.

(* ------------------------------------------------------------------------------------------ *)
(* correspondence entry point, see harness/streams/c20.go *)

Definition n_range (n : N) : list N := map N.of_nat (seq 0 (N.to_nat n)).
Definition out_opt (o : option N) : Z := match o with Some y => Z.of_N y | None => (-2)%Z end.

Definition run_c20_shuffle (input : list Z) : list Z :=
  match input with
  | mode :: p :: seed :: xs =>
      let p := Z.to_N p in
      let seed := Z.to_N seed in
      let xs := map Z.to_N xs in
      match mode with
      | 0%Z => map (fun i => out_opt (shuffle_index i p seed)) (n_range p)
      | 1%Z => map (fun x => out_opt (shuffle_index x p seed)) xs
      | 2%Z => map (fun x => Z.of_N (feistel x seed p)) xs
      | 3%Z => map (fun x => Z.of_N (feistel x seed p)) (n_range (2 ^ p))
      | 4%Z => map (fun x => Z.of_N (round_func x seed)) xs
      | _ => nil
      end
  | _ => nil
  end.
