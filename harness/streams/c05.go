package streams

import (
	"sort"
	"strconv"
	"strings"

	"github.com/paulsonkoly/chess-3/board"
	. "github.com/paulsonkoly/chess-3/chess"
	"github.com/paulsonkoly/chess-3/move"
	"github.com/paulsonkoly/chess-3/uci"

	"verifharness/hx"
	"verifharness/posgen"
)

// c05: board-in -> [#accepted; accepted...; #generated; generated...]
//
//	accepted  = every encoding 0..32767 for which Board.IsPseudoLegal answers true, ascending
//	generated = the output of GenNoisy followed by GenNotNoisy, sorted ascending (duplicates kept)
//
// This is the property verbatim: the judge (Coq, judge_c05) demands accepted = generated as sets
// on every valid position.
//
// c05u: board-in ++ [len; bytes...] -> [ok; move; #generated; generated...]
//
//	parseUCIMove on an arbitrary byte string (the GUI gate); ok = 1 iff no error was returned.
func init() {
	hx.Register(&hx.Stream{Name: "c05", Gen: genC05, Run: runC05})
	hx.Register(&hx.Stream{Name: "c05u", Gen: genC05u, Run: runC05u})
}

func sortedPseudo(b *board.Board) []uint64 {
	var gen []uint64
	for _, m := range posgen.Pseudo(b) {
		gen = append(gen, hx.M2U(m))
	}
	sort.Slice(gen, func(i, j int) bool { return gen[i] < gen[j] })
	return gen
}

func runC05(a hx.Args) string {
	b, _ := a.Board(0)
	out := &hx.Nums{}
	var acc []uint64
	for m := 0; m < 32768; m++ {
		if b.IsPseudoLegal(hx.U2M(uint64(m))) {
			acc = append(acc, uint64(m))
		}
	}
	out.Int(len(acc)).U(acc...)
	gen := sortedPseudo(b)
	out.Int(len(gen)).U(gen...)
	return out.String()
}

// c05Roots are positions aimed at the branches of IsPseudoLegal: castling with every kind of
// obstacle, en-passant flags, pawns on the 2nd and 7th ranks of both sides (blocked and free),
// and the positions of the repaired promotion-bits defect (start position: e2e3 with promo = Q;
// a pawn on a7 in front of an empty a8: promo = pawn / king / 7).
var c05Roots = []string{
	StartPosFEN,
	"4k3/P7/8/8/8/8/8/4K3 w - - 0 1",
	"1n2k3/P7/8/8/8/8/8/4K3 w - - 0 1",
	"4k3/8/8/8/8/8/p7/1N2K3 b - - 0 1",
	"rnbqkbnr/pppppppp/8/8/8/8/PPPPPPPP/RNBQKBNR b KQkq - 0 1",
	"r3k2r/8/8/8/8/8/8/R3K2R w KQkq - 0 1",
	"r3k2r/8/8/8/8/8/8/R3K2R b KQkq - 0 1",
	"r3k2r/8/8/8/8/8/8/RN2K2R w KQkq - 0 1",
	"rn2k2r/8/8/8/8/8/8/R3K2R b KQkq - 0 1",
	"r3k2r/8/8/8/8/8/8/R2BK2R w KQkq - 0 1",
	"r3k2r/8/8/8/8/8/8/R1B1K2R w KQkq - 0 1",
	"r3k2r/8/8/8/8/8/8/R3KB1R w KQkq - 0 1",
	"r3k2r/8/8/8/8/8/8/R3K1NR w KQkq - 0 1",
	"r3k1nr/8/8/8/8/8/8/R3K2R b KQkq - 0 1",
	"r3k2r/8/8/8/8/8/8/R3K2R w Kq - 0 1",
	"r3k2r/8/8/8/8/8/8/R3K2R w Qk - 0 1",
	"r3k2r/8/8/8/8/8/8/R3K2R w - - 0 1",
	"1r2k2r/8/8/8/8/8/8/R3K2R w KQk - 0 1",
	"2r1k2r/8/8/8/8/8/8/R3K2R w KQk - 0 1",
	"3rk2r/8/8/8/8/8/8/R3K2R w KQk - 0 1",
	"r3kr2/8/8/8/8/8/8/R3K2R w KQq - 0 1",
	"r3k1r1/8/8/8/8/8/8/R3K2R w KQq - 0 1",
	"r3k2r/8/8/8/8/8/8/1R2K2R b KQkq - 0 1",
	"r3k2r/8/8/8/8/8/8/2R1K2R b Kkq - 0 1",
	"r3k2r/8/8/8/8/8/8/R3K1R1 b Qkq - 0 1",
	"r3k2r/8/8/8/8/5n2/8/R3K2R w KQkq - 0 1",
	"r3k2r/8/8/8/8/8/3p4/R3K2R w KQkq - 0 1",
	"r3k2r/8/8/8/8/8/1p6/R3K2R w KQkq - 0 1",
	"r3k2r/8/8/8/8/8/p7/R3K2R w KQkq - 0 1",
	"r3k2r/8/8/8/8/8/7p/R3K2R w KQkq - 0 1",
	"r3k2r/8/8/8/8/8/8/R3K2R w KQkq - 0 1",
	"4k3/8/8/8/8/8/8/4K2R w K - 0 1",
	"4k3/8/8/8/8/8/8/R3K3 w Q - 0 1",
	"4k2r/8/8/8/8/8/8/4K3 b k - 0 1",
	"r3k3/8/8/8/8/8/8/4K3 b q - 0 1",
	"4k3/8/8/8/8/8/8/4K2R w - - 0 1",
	"rnbqkbnr/ppp1pppp/8/8/3pP3/8/PPPP1PPP/RNBQKBNR b KQkq e3 0 3",
	"rnbqkbnr/ppp1p1pp/8/3pPp2/8/8/PPPP1PPP/RNBQKBNR w KQkq f6 0 3",
	"rnbqkbnr/ppp1p1pp/8/3pPp2/8/8/PPPP1PPP/RNBQKBNR w KQkq d6 0 3",
	"4k3/8/8/pP6/8/8/8/4K3 w - a6 0 2",
	"4k3/8/8/6Pp/8/8/8/4K3 w - h6 0 2",
	"4k3/8/8/8/Pp6/8/8/4K3 b - a3 0 2",
	"4k3/8/8/8/6pP/8/8/4K3 b - h3 0 2",
	"4k3/8/8/8/1pPp4/8/8/4K3 b - c3 0 2",
	"4k3/8/8/P1pP4/8/8/8/4K3 w - c6 0 2",
	"4k3/2P5/8/1PpP4/8/8/8/4K3 w - c6 0 2",
	"n1n5/PPPk4/8/8/8/8/4Kppp/5N1N b - - 0 1",
	"n1n5/PPPk4/8/8/8/8/4Kppp/5N1N w - - 0 1",
	"8/PPP4k/8/8/8/8/4Kppp/8 w - - 0 1",
	"8/PPP4k/8/8/8/8/4Kppp/8 b - - 0 1",
	"4k3/8/8/8/8/N1n1B1b1/PPPPPPPP/4K3 w - - 0 1",
	"4k3/pppppppp/N1n1B1b1/8/8/8/8/4K3 b - - 0 1",
	"4k3/8/8/8/N1n1B1b1/8/PPPPPPPP/4K3 w - - 0 1",
	"4k3/pppppppp/8/N1n1B1b1/8/8/8/4K3 b - - 0 1",
	"4k3/8/8/8/8/8/8/4K2N w - - 0 1",
	"Q7/Q7/Q7/Q7/Q7/Q6k/Q7/QK6 w - - 0 1",
	"7k/8/8/3q4/4Q3/8/8/K7 w - - 0 1",
	"7k/8/8/3r4/4R3/8/8/K7 b - - 0 1",
	"7k/8/8/3b4/4B3/8/8/K7 w - - 0 1",
}

func emitC05(emit func(hx.Input), p posgen.Pos, kind string) {
	tags := append(posgen.Tags(p.B), kind)
	s := p.B.VerifSnapshot()
	me := s.STM
	my7, my2 := SeventhRank.FromPerspectiveOf(me), SecondRank.FromPerspectiveOf(me)
	if s.Pieces[Pawn]&s.Colors[me]&RankBB(my7) != 0 {
		tags = append(tags, "mover-pawn-on-7th")
	}
	if s.Pieces[Pawn]&s.Colors[me]&RankBB(my2) != 0 {
		tags = append(tags, "mover-pawn-on-2nd")
	}
	mine := Castles(3) << (2 * uint(me))
	if s.Castles&mine != 0 {
		tags = append(tags, "mover-castling-right")
	}
	emit(hx.Input{In: (&hx.Nums{}).BoardIn(p.B).String(), Desc: kind + " fen " + p.B.FEN(),
		Tags: tags, NonTrivial: true, Key: p.B.FEN()})
}

// castleish builds a random position with kings (and some rooks) at home, a random consistent set
// of castling rights, random obstacles on the first/eighth ranks and random attackers, pawns on the
// second / seventh ranks with random blockers, sometimes an en-passant flag.
func castleish(rng *hx.Rng) *posgen.Pos {
	var sq [64]byte
	sq[E1], sq[E8] = 'K', 'k'
	castles := ""
	for _, x := range []struct {
		sq Square
		pc byte
		fl string
	}{{H1, 'R', "K"}, {A1, 'R', "Q"}, {H8, 'r', "k"}, {A8, 'r', "q"}} {
		if rng.Chance(0.8) {
			sq[x.sq] = x.pc
			if rng.Chance(0.85) {
				castles += x.fl
			}
		}
	}
	if castles == "" {
		castles = "-"
	}
	put := func(s int, c byte) {
		if s >= 0 && s < 64 && sq[s] == 0 && !((c == 'p' || c == 'P') && (s < 8 || s >= 56)) {
			sq[s] = c
		}
	}
	pcs := "nbrqNBRQ"
	// obstacles between king and rook
	for _, s := range []int{1, 2, 3, 5, 6, 57, 58, 59, 61, 62} {
		if rng.Chance(0.12) {
			put(s, pcs[rng.Intn(len(pcs))])
		}
	}
	// attackers / other pieces anywhere
	for i, n := 0, rng.Intn(6); i < n; i++ {
		put(rng.Intn(64), pcs[rng.Intn(len(pcs))])
	}
	// pawns on 2nd / 7th ranks of both sides, sometimes elsewhere, blockers in front
	for f := 0; f < 8; f++ {
		for _, x := range []struct {
			r  int
			pc byte
		}{{1, 'P'}, {6, 'P'}, {6, 'p'}, {1, 'p'}} {
			if rng.Chance(0.22) {
				put(x.r*8+f, x.pc)
				d := 8
				if x.pc == 'p' {
					d = -8
				}
				if rng.Chance(0.3) {
					put(x.r*8+f+d*(1+rng.Intn(2)), pcs[rng.Intn(len(pcs))])
				}
			}
		}
		if rng.Chance(0.15) {
			put((2+rng.Intn(4))*8+f, "pP"[rng.Intn(2)])
		}
	}
	stm := Color(rng.Intn(2))
	// the OTHER king next to the mover's castling path (g2 h2 / a2 b2 c2, g7 h7 / a7 b7 c7): the only attacker
	// of a crossing square is then a king (seeded change C05-G tested the enemy king against one square of the
	// path only); it gives up its own castling rights
	if rng.Chance(0.25) {
		var cands []int
		var home int
		var drop string
		if stm == White {
			cands, home, drop = []int{14, 15, 8, 9, 10, 22, 23}, int(E8), "kq"
		} else {
			cands, home, drop = []int{54, 55, 48, 49, 50, 46, 47}, int(E1), "KQ"
		}
		t := cands[rng.Intn(len(cands))]
		kc := sq[home]
		sq[home] = 0
		sq[t] = kc
		castles = strings.Map(func(r rune) rune {
			if strings.ContainsRune(drop, r) {
				return -1
			}
			return r
		}, castles)
		if castles == "" {
			castles = "-"
		}
	}
	ep := "-"
	if rng.Chance(0.35) {
		f := rng.Intn(8)
		var pawnSq, epSq, origin int
		var pc byte
		if stm == White {
			pawnSq, epSq, origin, pc = 32+f, 40+f, 48+f, 'p'
		} else {
			pawnSq, epSq, origin, pc = 24+f, 16+f, 8+f, 'P'
		}
		if sq[epSq] == 0 && sq[origin] == 0 && (sq[pawnSq] == 0 || sq[pawnSq] == pc) {
			sq[pawnSq] = pc
			if rng.Chance(0.8) {
				g := f + 1 - 2*rng.Intn(2)
				if g >= 0 && g < 8 && sq[pawnSq-f+g] == 0 {
					sq[pawnSq-f+g] = pc ^ 32
				}
			}
			ep = string([]byte{byte('a' + f), byte('1' + epSq/8)})
			// the neighbourhood of the en-passant square: pawns of the side to move on the two adjacent files on
			// every rank from two behind to one beyond the target (beside the pushed pawn, beside the target
			// itself, beyond it), and further enemy pawns on the en-passant file (doubled behind / in front):
			// the encodings IsPseudoLegal must reject here are sideways, double-diagonal and backward "captures"
			dir := 8
			if stm == Black {
				dir = -8
			}
			for _, g := range []int{f - 1, f + 1} {
				if g < 0 || g > 7 {
					continue
				}
				for k := -2; k <= 1; k++ {
					if rng.Chance(0.3) {
						put(epSq-f+g+k*dir, pc^32)
					}
				}
			}
			for k := -3; k <= 1; k++ {
				if rng.Chance(0.2) {
					put(epSq+k*dir, pc)
				}
			}
		}
	}
	fen := fenC05(sq, stm, castles, ep, 1+rng.Intn(60))
	b, err := board.FromFEN(fen)
	if err != nil || !posgen.Valid(b) {
		return nil
	}
	return &posgen.Pos{B: b, Root: fen, Kind: "G6"}
}

func c05Positions(rng *hx.Rng, n int, visit func(posgen.Pos, string)) {
	cnt := 0
	for _, r := range c05Roots {
		if cnt >= n {
			return
		}
		b, err := board.FromFEN(r)
		if err != nil {
			continue
		}
		visit(posgen.Pos{B: b, Root: r, Kind: "root"}, "root")
		cnt++
	}
	special := (n - cnt) * 35 / 100
	for k := 0; k < special; {
		if p := castleish(rng); p != nil {
			visit(*p, "G6")
			k++
			cnt++
		}
	}
	if cnt < n {
		posgen.Stream(rng, n-cnt, func(p posgen.Pos) { visit(p, p.Kind) })
	}
}

func genC05(rng *hx.Rng, n int, tier string, emit func(hx.Input)) {
	c05Positions(rng, n, func(p posgen.Pos, kind string) { emitC05(emit, p, kind) })
}

// ------------------------------------------------------------------------------------------------

func runC05u(a hx.Args) string {
	b, i := a.Board(0)
	n := a.Int(i)
	s := string(a.Bytes(i+1, i+1+n))
	m, err := uci.VerifParseUCIMove(b, s)
	out := &hx.Nums{}
	if err != nil {
		out.U(0, 0)
	} else {
		out.U(1, hx.M2U(m))
	}
	gen := sortedPseudo(b)
	out.Int(len(gen)).U(gen...)
	return out.String()
}

func uciText(m move.Move) string {
	s := []byte{byte('a' + m.From()%8), byte('1' + m.From()/8), byte('a' + m.To()%8), byte('1' + m.To()/8)}
	switch m.Promo() {
	case NoPiece:
	case Knight:
		s = append(s, 'n')
	case Bishop:
		s = append(s, 'b')
	case Rook:
		s = append(s, 'r')
	case Queen:
		s = append(s, 'q')
	case Pawn:
		s = append(s, 'p')
	case King:
		s = append(s, 'k')
	default:
		s = append(s, '7')
	}
	return string(s)
}

func genC05u(rng *hx.Rng, n int, tier string, emit func(hx.Input)) {
	perPos := 8
	npos := n/perPos + 1
	cnt := 0
	c05Positions(rng, npos, func(p posgen.Pos, kind string) {
		if cnt >= n {
			return
		}
		fen := p.B.FEN()
		gen := posgen.Pseudo(p.B)
		one := func(s string, tag string) {
			if cnt >= n {
				return
			}
			cnt++
			in := (&hx.Nums{}).BoardIn(p.B).Int(len(s)).Bytes([]byte(s))
			emit(hx.Input{In: in.String(), Desc: "uci move " + strings.ToValidUTF8(strconvQuote(s), "?") + " on fen " + fen,
				Tags: []string{tag, kind}, NonTrivial: true, Key: fen + "|" + s})
		}
		for k := 0; k < perPos; k++ {
			switch x := rng.Intn(100); {
			case x < 25 && len(gen) > 0:
				one(uciText(gen[rng.Intn(len(gen))]), "generated-move")
			case x < 35 && len(gen) > 0:
				// a generated move with a promotion suffix added / removed / exchanged
				m := gen[rng.Intn(len(gen))]
				t := uciText(m)[:4]
				suf := []string{"", "q", "r", "b", "n", "k", "p", "Q", " ", "7"}[rng.Intn(10)]
				one(t+suf, "promo-suffix-variant")
			case x < 60:
				// a random well-formed from/to (often not a move)
				m := move.From(Square(rng.Intn(64))) | move.To(Square(rng.Intn(64)))
				if rng.Chance(0.3) {
					m |= move.Promo(Piece(1 + rng.Intn(7)))
				}
				one(uciText(m), "random-squares")
			case x < 75 && len(gen) > 0:
				// one byte of a generated move replaced (letters beyond h, digits 0/9, upper case, wrap-around bytes)
				t := []byte(uciText(gen[rng.Intn(len(gen))]))
				alphabet := []byte("abcdefghijABCH0123456789`{ \x00\xff\x80qrnbk-")
				t[rng.Intn(len(t))] = alphabet[rng.Intn(len(alphabet))]
				one(string(t), "one-byte-mutation")
			case x < 85:
				// arbitrary bytes of length 0..7
				l := rng.Intn(8)
				t := make([]byte, l)
				for j := range t {
					t[j] = byte(rng.Intn(256))
				}
				one(string(t), "random-bytes")
			default:
				t := []string{"0000", "e1g1", "e1c1", "e8g8", "e8c8", "e1h1", "e1a1", "O-O", "o-o-o", "e2e4", "e7e5", "e7e8", "e7e8q",
					"a7a8k", "e2e3q", "i1a3", "a9a1", "e2e4 ", "e2 e4", "", "e2", "e2e4qq"}
				one(t[rng.Intn(len(t))], "fixed-string")
			}
		}
	})
}

func strconvQuote(s string) string {
	var sb strings.Builder
	sb.WriteByte('"')
	for i := 0; i < len(s); i++ {
		c := s[i]
		if c >= 32 && c < 127 && c != '"' && c != '\\' {
			sb.WriteByte(c)
		} else {
			sb.WriteString("\\x" + string("0123456789abcdef"[c>>4]) + string("0123456789abcdef"[c&15]))
		}
	}
	sb.WriteByte('"')
	return sb.String()
}

// fenC05 prints a FEN (halfmove clock 0) for a placement given as piece letters per square.
func fenC05(sq [64]byte, stm Color, castles string, ep string, full int) string {
	var sb strings.Builder
	for r := 7; r >= 0; r-- {
		empty := 0
		for f := 0; f < 8; f++ {
			c := sq[r*8+f]
			if c == 0 {
				empty++
				continue
			}
			if empty > 0 {
				sb.WriteByte(byte('0' + empty))
				empty = 0
			}
			sb.WriteByte(c)
		}
		if empty > 0 {
			sb.WriteByte(byte('0' + empty))
		}
		if r > 0 {
			sb.WriteByte('/')
		}
	}
	sb.WriteString(" " + string("wb"[stm]) + " " + castles + " " + ep + " 0 " + strconv.Itoa(full))
	return sb.String()
}
