(* Correspondence entry points of property C18.

   stream "c18": board-in ++ [move; k; v_1 .. v_k; n; t_1 .. t_n]  ->  [a_1 .. a_n], a_i = heur.SEE(b, move, t_i) as 0/1
   ([-1; -1; -1] when the call panics: promotion bits 7 index outside PieceValues).
   k = 0: the table of the source (Gen/SeeConsts.v) is in force.  k = 7 (configuration mode): the harness
   has set the exported variable heur.PieceValues to v_1 .. v_7 for the call; model and judge use the
   same table (Model/SeeT.v, Spec/SeeSpecT.v: the parametric copies; Proofs/SeeTable.v ties their
   instance at the generated table to the definitions the theorems are about).

   [run_c18] is the exact model (Model/See.v).  [judge_c18] is the specification-level oracle
   (Spec/SeeSpec.v, independent of the model): it receives input ++ observed answers and accepts iff
   every answer is explained by SOME choice among equally valued least attackers
   (a_i = 1 needs t_i <= some achievable balance, a_i = 0 needs t_i > some achievable balance) and the
   answers are monotone in the threshold.  Thresholds outside the stated domain |t| <= 20000 (where
   the int16 arithmetic may wrap) are not judged. *)
From Coq Require Import NArith ZArith List Bool.
From Chess3 Require Import Base.Bits Base.Word Model.Types Model.BoardDef Model.Board Gen.SeeConsts Model.See Model.SeeT
  Spec.SeeSpec Spec.SeeSpecT.
Import ListNotations.
Open Scope Z_scope.

Definition zb18 (b : bool) : Z := if b then 1 else 0.

(* [k; v_1 .. v_k] ++ rest  ->  (table, rest) *)
Definition take_table (l : list Z) : option (list Z * list Z) :=
  match l with
  | k :: rest =>
      if k =? 0 then Some (PieceValues, rest)
      else if k =? PieceValuesLen then Some (firstn (Z.to_nat k) rest, skipn (Z.to_nat k) rest)
      else None
  | [] => None
  end.

Definition run_c18 (l : list Z) : list Z :=
  match decode_board l with
  | Some (b, m :: rest) =>
      match take_table rest with
      | Some (tbl, n :: ts) =>
          let m := Z.to_N m in
          if see_panics m then [-1; -1; -1]
          else map (fun t => zb18 (see_t tbl b m t)) (firstn (Z.to_nat n) ts)
      | _ => []
      end
  | _ => []
  end.

Definition threshold_bound : Z := 20000.
Definition in_domain (t : Z) : bool := (- threshold_bound <=? t) && (t <=? threshold_bound).

(* the hypotheses of theorem C18 as a boolean (Proofs/SeeGeom.v move_okb_ok): origin occupied, the
   engine's en-passant test agrees with "a pawn moves diagonally onto an empty square", promotion bits
   only on a pawn and only Knight..Queen *)
Definition move_okb (b : board) (m : N) : bool :=
  N.testbit (occupancy b) (mv_from m)
  && Bool.eqb (is_en_passant b m) (ep_capture b m)
  && ((mv_promo m =? NoPiece)%N ||
      ((piece_at b (mv_from m) =? Pawn)%N && (Knight <=? mv_promo m)%N && (mv_promo m <=? Queen)%N)).

(* the move has the shape of a playable move: a piece of the side to move goes to a square not held
   by its own side *)
Definition move_shape_ok (b : board) (m : N) : bool :=
  let from := mv_from m in let to := mv_to m in
  negb (piece_at b from =? NoPiece)%N && N.testbit (colors b (stm b)) from
  && negb (N.testbit (colors b (stm b)) to) && negb (from =? to)%N.

Fixpoint zip {A B} (l : list A) (r : list B) : list (A * B) :=
  match l, r with a :: l', b :: r' => (a, b) :: zip l' r' | _, _ => [] end.

Definition judge_c18 (io : list Z) : list Z :=
  match decode_board io with
  | Some (b, m :: rest0) =>
    match take_table rest0 with
    | Some (tbl, n :: rest) =>
      let m := Z.to_N m in
      let k := Z.to_nat n in
      let ts := firstn k rest in
      let ans := skipn k rest in
      if negb (Nat.eqb (length ans) k) then [0; 98]            (* a panic or a short answer *)
      else if negb (move_shape_ok b m) then [0; 90]            (* the generator left the domain *)
      else if negb (wf_boardb b) then [0; 91]                  (* hypothesis wf_board of theorem C18 *)
      else if negb (move_okb b m) then [0; 92]                 (* hypothesis move_ok of theorem C18 *)
      else if (piece_at b (victim_square b m) =? King)%N then [0; 93]   (* a king is never captured *)
      else if negb (forallb (fun v => (0 <=? v) && (v <=? 12000)) tbl) then [0; 94]   (* table outside the no-wrap domain *)
      else
        let bals := all_balances_t tbl b m in
        let obs := filter (fun ta => in_domain (fst ta)) (zip ts ans) in
        let explained (ta : Z * Z) :=
          let '(t, a) := ta in
          if a =? 1 then existsb (fun v => t <=? v) bals
          else if a =? 0 then existsb (fun v => v <? t) bals
          else false in
        match filter (fun ta => negb (explained ta)) obs with
        | (t, a) :: _ => [0; 1; t; a]                           (* unexplained answer a at threshold t *)
        | [] =>
            match filter (fun ab => (fst (snd ab) <=? fst (fst ab)) && (snd (fst ab) =? 1) && negb (snd (snd ab) =? 1))
                         (list_prod obs obs) with
            | ((t, _), (t', _)) :: _ => [0; 2; t; t']           (* true at t, false at t' <= t *)
            | [] => [1]
            end
        end
    | _ => [0; 99]
    end
  | _ => [0; 99]
  end.
