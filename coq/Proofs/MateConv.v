(* C09, towards the converse direction (the tests answer true -> no legal move exists).
   Part 1: IsAttacked is sound with respect to the rules (what it sees is a real attack), and when
   the king-step loop finds no square, no king move (step or castling) is legal. *)
From Coq Require Import NArith ZArith List Bool Lia.
From Chess3 Require Import Base.Bits Model.Types Spec.Geometry Model.Att Model.BoardDef Model.Board
     Model.Movegen Model.Mate Spec.Chess Spec.Rep Proofs.MateGeom Proofs.MateAbs Proofs.MateKing
     Proofs.MateMove Proofs.MateCapture Proofs.MateBlockGeom Proofs.MateBlock Proofs.MateStale.
Import ListNotations.
Open Scope N_scope.

(* what IsAttacked sees is a man of that colour that attacks the square by the rules, in every
   occupancy that agrees with the one used off the two ends *)
Lemma is_attacked_sound b c q occX : Rep b -> q < 64 -> is_attacked b c occX (bit q) = true ->
  exists u ku, u < 64 /\ u <> q /\ who (abs b) u = Some (c, ku) /\
    forall occ2, (forall x, x <> u -> x <> q -> N.testbit occ2 x = N.testbit occX x) ->
                 mem (attacks_from c ku u occ2) q = true.
Proof.
  intros HR Hq H. rewrite is_attacked_single in H by exact Hq. cbv zeta in H.
  assert (Hlt : forall u, N.testbit (colors b c) u = true -> u < 64).
  { intros u Hu. destruct (N.lt_ge_cases u 64) as [L|L]; [exact L|]. rewrite (colors_high b HR _ u L) in Hu. discriminate. }
  apply orb_true_iff in H. destruct H as [H|H].
  - apply band_bit_nonzero in H. apply pcm_member in H. destruct H as [u [Hu H]].
    unfold band in Hu. rewrite N.land_spec in Hu. apply andb_prop in Hu. destruct Hu as [Hp Hc].
    pose proof (Hlt u Hc) as L. rewrite pcm_bit in H by assumption.
    exists u, Pawn. split; [exact L|]. split; [destruct (pawn_attacks_range c u q L H) as [_ E]; exact (fun X => E (eq_sym X))|].
    split; [apply (who_abs_intro b HR); try assumption; unfold Pawn; lia|]. intros occ2 _. exact H.
  - repeat (apply orb_true_iff in H; destruct H as [H|H]); apply band3_some in H; destruct H as [u [H1 [H2 H3]]];
      pose proof (Hlt u H3) as L.
    + exists u, King. split; [exact L|]. unfold king_moves in H1.
      split; [destruct (king_step_range q u Hq H1) as (_ & E & _); exact E|].
      split; [apply (who_abs_intro b HR); try assumption; unfold King; lia|]. intros occ2 _.
      unfold mem. change (attacks_from c King u occ2) with (king_attacks u). rewrite king_sym by assumption. exact H1.
    + exists u, Knight. split; [exact L|]. unfold knight_moves in H1.
      split; [destruct (knight_range q u Hq H1) as (_ & E); exact E|].
      split; [apply (who_abs_intro b HR); try assumption; unfold Knight; lia|]. intros occ2 _.
      unfold mem. change (attacks_from c Knight u occ2) with (knight_attacks u). rewrite knight_sym by assumption. exact H1.
    + unfold bishop_moves in H1. destruct (bishop_range q occX u Hq H1) as [_ Huq].
      assert (Hatt : forall occ2, (forall x, x <> u -> x <> q -> N.testbit occ2 x = N.testbit occX x) ->
                     N.testbit (bishop_attacks u occ2) q = true).
      { intros occ2 Hext. apply bishop_sym; try assumption. rewrite <- H1. apply (bishop_ext q u occ2 occX Hq L).
        intros x X1 X2. apply Hext; assumption. }
      unfold bor in H2. rewrite N.lor_spec in H2. apply orb_true_iff in H2. destruct H2 as [H2|H2].
      * exists u, Queen. split; [exact L|]. split; [exact Huq|].
        split; [apply (who_abs_intro b HR); try assumption; unfold Queen; lia|]. intros occ2 Hext.
        unfold mem. change (attacks_from c Queen u occ2) with (N.lor (rook_attacks u occ2) (bishop_attacks u occ2)).
        rewrite N.lor_spec, (Hatt occ2 Hext). apply orb_true_r.
      * exists u, Bishop. split; [exact L|]. split; [exact Huq|].
        split; [apply (who_abs_intro b HR); try assumption; unfold Bishop; lia|]. intros occ2 Hext. exact (Hatt occ2 Hext).
    + unfold rook_moves in H1. destruct (rook_range q occX u Hq H1) as [_ Huq].
      assert (Hatt : forall occ2, (forall x, x <> u -> x <> q -> N.testbit occ2 x = N.testbit occX x) ->
                     N.testbit (rook_attacks u occ2) q = true).
      { intros occ2 Hext. apply rook_sym; try assumption. rewrite <- H1. apply (rook_ext q u occ2 occX Hq L).
        intros x X1 X2. apply Hext; assumption. }
      unfold bor in H2. rewrite N.lor_spec in H2. apply orb_true_iff in H2. destruct H2 as [H2|H2].
      * exists u, Rook. split; [exact L|]. split; [exact Huq|].
        split; [apply (who_abs_intro b HR); try assumption; unfold Rook; lia|]. intros occ2 Hext. exact (Hatt occ2 Hext).
      * exists u, Queen. split; [exact L|]. split; [exact Huq|].
        split; [apply (who_abs_intro b HR); try assumption; unfold Queen; lia|]. intros occ2 Hext.
        unfold mem. change (attacks_from c Queen u occ2) with (N.lor (rook_attacks u occ2) (bishop_attacks u occ2)).
        rewrite N.lor_spec, (Hatt occ2 Hext). reflexivity.
Qed.

(* in check as the engine sees it = in check by the rules *)
Lemma in_check_spec_of_model b : Rep b -> valid (abs b) = true -> in_check b (stm b) = true ->
  in_check_spec (abs b) (stm b) = true.
Proof.
  intros HR HV H. destruct (king_is_bit b HR HV (stm b)) as [k0 [Hk0 [Hking [Hholds Hwho]]]].
  unfold in_check in H.
  replace (band (colors b (stm b)) (pieces b King)) with (bit k0) in H by (rewrite <- Hking; apply N.land_comm).
  destruct (is_attacked_sound b (flip (stm b)) k0 (occupancy b) HR Hk0 H) as (u & ku & Hu & Huk & Hw & Hatt).
  unfold in_check_spec.
  assert (Hks : king_sq (abs b) (stm b) = k0).
  { unfold king_sq. rewrite (filter_single _ squares64 k0); [reflexivity|apply squares64_NoDup|apply squares64_spec; exact Hk0|].
    intros s Hs. apply squares64_spec in Hs. rewrite (Hholds s Hs). apply N.eqb_eq. }
  rewrite Hks. unfold attacked_by. apply existsb_exists. exists u. split; [apply squares64_spec; exact Hu|].
  rewrite Hw, color_eqb_refl. cbn [andb]. apply Hatt. intros x _ _. rewrite (occ_of_abs b HR). reflexivity.
Qed.

(* ------------------------------------------------------------------------------------------ *)
(* no king move is legal when the king-step loop finds nothing (and the king is in check) *)

Lemma existsb_false_in {A} (f : A -> bool) l x : existsb f l = false -> In x l -> f x = false.
Proof.
  intros H Hx. destruct (f x) eqn:E; [|reflexivity]. assert (existsb f l = true); [|congruence].
  apply existsb_exists. exists x. tauto.
Qed.

Section KingConv.
Variable b : board.
Hypothesis HR : Rep b.
Hypothesis HV : valid (abs b) = true.
Let me := stm b.
Let own := colors b me.
Let occ := bor (colors b White) (colors b Black).
Variable k0 : N.
Hypothesis Hk0 : k0 < 64.
Hypothesis Hkbit : band (pieces b King) own = bit k0.
Hypothesis Hholds : forall s, s < 64 -> holds (abs b) s me King = (s =? k0).
Hypothesis Hwho : who (abs b) k0 = Some (me, King).
Hypothesis Hno : king_can_step b k0 (bit k0) occ own = false.

Lemma king_sq_abs : king_sq (abs b) me = k0.
Proof.
  unfold king_sq. rewrite (filter_single _ squares64 k0); [reflexivity|apply squares64_NoDup|apply squares64_spec; exact Hk0|].
  intros s Hs. apply squares64_spec in Hs. rewrite (Hholds s Hs). apply N.eqb_eq.
Qed.

(* castling is not possible (supplied by the caller: in check, or a square next to the king attacked) *)
Hypothesis Hnc : forall long, castle_ok (abs b) long = false.

Theorem king_move_illegal to pr : to < 64 -> In pr [0; Knight; Bishop; Rook; Queen] ->
  legal_spec (abs b) (mk_move k0 to pr) = false.
Proof.
  intros Hto Hpr. destruct (mk_move_fields_pr k0 to pr Hk0 Hto Hpr) as (Ef & Et & Ep).
  set (m := mk_move k0 to pr) in *.
  unfold legal_spec. destruct (pseudo_spec (abs b) m) eqn:Hps; [|reflexivity]. cbn [andb].
  apply negb_false_iff.
  (* what the pseudo-legal king move looks like *)
  unfold pseudo_spec in Hps. rewrite Ef, Et, Ep in Hps. cbv zeta in Hps. rewrite Hwho in Hps.
  change (turn (abs b)) with me in Hps. rewrite color_eqb_refl in Hps.
  change (King =? Pawn) with false in Hps. change (King =? King) with true in Hps. cbv iota in Hps.
  rewrite !Hnc in Hps. rewrite !andb_false_r, !orb_false_r in Hps.
  apply andb_prop in Hps. destruct Hps as [Hnown Hps]. apply andb_prop in Hps. destruct Hps as [Hpr0 Hstep].
  cbn [andb] in Hnown. apply negb_true_iff in Hnown. rewrite (owned_abs b HR to me Hto) in Hnown.
  apply N.eqb_eq in Hpr0. unfold mem in Hstep.
  destruct (king_step_range k0 to Hk0 Hstep) as (_ & Hne & Hn2 & Hn2').
  (* the loop looked at this square *)
  assert (Hatt : is_attacked b (flip me) (bandn occ (bit k0)) (bit to) = true).
  { unfold king_can_step in Hno.
    assert (Hin : In to (bits_of (band (king_moves k0) (bnot own)))).
    { apply bits_of_spec. unfold band. rewrite N.land_spec, bnot_testbit. unfold king_moves. rewrite Hstep.
      fold own in Hnown. rewrite Hnown. rewrite (proj2 (N.ltb_lt to 64) Hto). reflexivity. }
    pose proof (existsb_false_in _ _ to Hno Hin) as F. apply negb_false_iff in F. exact F. }
  destruct (is_attacked_sound b (flip me) to _ HR Hto Hatt) as (u & ku & Hu & Huto & Hwu & Hua).
  (* the placement after the move *)
  assert (Hplace : place_after (abs b) m = put (put (at_ (abs b)) k0 None) to (Some (me, King))).
  { unfold place_after. rewrite Ef, Et, Ep. cbv zeta. rewrite Hwho. change (turn (abs b)) with me.
    rewrite Hpr0. change (0 =? 0) with true. cbv iota.
    assert (is_ep_capture (abs b) m = false) as ->.
    { unfold is_ep_capture. rewrite Ef. unfold holds. rewrite Hwho. change (Pawn =? King) with false.
      rewrite andb_false_r. reflexivity. }
    assert (is_castling (abs b) m = false) as ->.
    { unfold is_castling. rewrite Ef, Et.
      destruct (N.eqb_spec to (k0 + 2)); [contradiction|]. destruct (N.eqb_spec (to + 2) k0); [contradiction|].
      rewrite andb_false_r. reflexivity. }
    reflexivity. }
  set (p' := with_placement (abs b) (place_after (abs b) m)).
  assert (Hwho' : forall s, who p' s = if to =? s then Some (me, King) else if k0 =? s then None else who (abs b) s).
  { intros s. unfold p', who, with_placement. cbn [at_]. rewrite Hplace. unfold put.
    rewrite nthN_updN by (unfold updN; rewrite upd_length, (at_length b); lia).
    destruct (to =? s); [reflexivity|].
    rewrite nthN_updN by (rewrite (at_length b); lia). reflexivity. }
  assert (Hksq : king_sq p' me = to).
  { unfold king_sq. rewrite (filter_single _ squares64 to); [reflexivity|apply squares64_NoDup|apply squares64_spec; exact Hto|].
    intros s Hs. apply squares64_spec in Hs. unfold holds. rewrite Hwho'.
    destruct (N.eqb_spec to s) as [->|E1].
    - rewrite color_eqb_refl, N.eqb_refl. tauto.
    - destruct (N.eqb_spec k0 s) as [->|E2]; [split; [discriminate|intros ->; congruence]|].
      pose proof (Hholds s Hs) as Hh. unfold holds in Hh. rewrite Hh.
      destruct (N.eqb_spec s k0) as [->|]; [congruence|]. split; [discriminate|intros ->; congruence]. }
  unfold in_check_spec. change (turn (abs b)) with me. fold p'. rewrite Hksq.
  unfold attacked_by. apply existsb_exists. exists u. split; [apply squares64_spec; exact Hu|].
  rewrite Hwho'. destruct (N.eqb_spec to u) as [E|_]; [congruence|].
  destruct (N.eqb_spec k0 u) as [E|_].
  { subst u. rewrite Hwho in Hwu. injection Hwu as Hc _. destruct me; discriminate. }
  rewrite Hwu, color_eqb_refl. cbn [andb]. apply Hua.
  intros x Hxu Hxto. rewrite occ_of_testbit. unfold bandn. rewrite N.ldiff_spec, bit_testbit.
  change occ with (occupancy b).
  destruct (N.ltb_spec x 64) as [L|L].
  - unfold empty. rewrite Hwho'. destruct (N.eqb_spec to x) as [->|_]; [congruence|].
    destruct (N.eqb_spec k0 x) as [->|_]; [cbn [negb]; rewrite !andb_false_r; reflexivity|].
    pose proof (empty_abs b HR x L) as He. unfold empty in He. rewrite He, negb_involutive, andb_true_r. reflexivity.
  - rewrite (occupancy_testbit b), (colors_high b HR), (colors_high b HR) by exact L. reflexivity.
Qed.

End KingConv.

(* in check: no castling *)
Lemma no_castling_in_check b : Rep b -> valid (abs b) = true -> in_check b (stm b) = true ->
  forall long, castle_ok (abs b) long = false.
Proof.
  intros HR HV Hchk long. destruct (king_is_bit b HR HV (stm b)) as [k0 [Hk0 [Hkbit [Hholds Hwho]]]].
  pose proof (in_check_spec_of_model b HR HV Hchk) as H. unfold in_check_spec in H.
  rewrite (king_sq_abs b k0 Hk0 Hholds) in H.
  unfold castle_ok. change (turn (abs b)) with (stm b).
  destruct (holds (abs b) (king_home (stm b)) (stm b) King) eqn:Eh; [|rewrite !andb_false_r; reflexivity].
  assert (Ekh : king_home (stm b) = k0).
  { assert (L : king_home (stm b) < 64) by (unfold king_home, sqfr, home_rank; destruct (stm b); cbn; lia).
    rewrite (Hholds _ L) in Eh. apply N.eqb_eq in Eh. exact Eh. }
  rewrite Ekh. destruct long; cbn [forallb]; rewrite H; cbn [negb andb]; rewrite !andb_false_r; reflexivity.
Qed.
