(* Correspondence entry points of property C02 (streams over list Z). *)
From Coq Require Import NArith ZArith List Bool.
From Chess3 Require Import Base.Bits Model.Types Model.BoardDef Model.Board Model.ApplyMoves Gen.Zobrist.
Import ListNotations.
Open Scope Z_scope.

(* stream "c02": board-in ++ [move] -> board-out (no history) after MakeMove ++ fields of FEN() *)
Definition run_c02 (l : list Z) : list Z :=
  match decode_board l with
  | Some (b, m :: _) =>
      let b' := fst (make zob_real b (Z.to_N m)) in
      encode_board_nohist b' ++ fen_view b'
  | _ => []
  end.

(* [ntok; len_1; bytes_1...; len_2; ...] -> tokens, rest *)
Fixpoint take_tokens (n : nat) (l : list Z) : list (list N) * list Z :=
  match n with
  | O => ([], l)
  | S k => match l with
           | [] => ([], [])
           | len :: r => let '(ts, rest) := take_tokens k (skipn (Z.to_nat len) r) in
                         (map Z.to_N (firstn (Z.to_nat len) r) :: ts, rest)
           end
  end.
Definition decode_tokens (l : list Z) : list (list N) * list Z :=
  match l with
  | [] => ([], [])
  | n :: r => take_tokens (Z.to_nat n) r
  end.

(* stream "c02uci": [mode] ++ board-in ++ tokens -> fields of the FEN printed after
   `position ... moves tokens` (the board given is the one the position command sets up) *)
Definition run_c02uci (l : list Z) : list Z :=
  match l with
  | _mode :: l' =>
      match decode_board l' with
      | Some (b, rest) => fen_view (apply_moves zob_real b (fst (decode_tokens rest)))
      | None => []
      end
  | [] => []
  end.
