(* C09, converse direction, part 4 (positions without an en-passant target): what a possible move of a
   man other than the king looks like; every man that can capture on a square is in Attackers of that
   square; every man that can move onto an empty square of a set is in Block of the set. *)
From Coq Require Import NArith ZArith List Bool Lia.
From Chess3 Require Import Base.Bits Model.Types Spec.Geometry Model.Att Model.BoardDef Model.Board
     Model.Movegen Model.Mate Spec.Chess Spec.Rep Proofs.MateGeom Proofs.MateAbs Proofs.MateKing
     Proofs.MateMove Proofs.MateCapture Proofs.MateBlockGeom Proofs.MateBlock Proofs.MateStale
     Proofs.MatePinGeom Proofs.MatePin Proofs.MateConv Proofs.MateConvMove Proofs.MateConv2.
Import ListNotations.
Open Scope N_scope.

Lemma pseudo_nonking_noep b d t kd pr : Rep b -> d < 64 -> t < 64 -> In pr [0; Knight; Bishop; Rook; Queen] ->
  epsq (abs b) = None -> who (abs b) d = Some (stm b, kd) -> kd <> King ->
  pseudo_spec (abs b) (mk_move d t pr) = true ->
  N.testbit (colors b (stm b)) t = false /\
  ( (kd <> Pawn /\ mem (attacks_from (stm b) kd d (occupancy b)) t = true)
    \/ (kd = Pawn /\
        ( (t = fwd (stm b) d /\ rank_n d <> last_rank (stm b) /\ N.testbit (occupancy b) t = false)
          \/ (rank_n d = second_rank (stm b) /\ t = fwd (stm b) (fwd (stm b) d) /\
              empty (abs b) (fwd (stm b) d) = true /\ N.testbit (occupancy b) t = false)
          \/ (N.testbit (pawn_attacks (stm b) d) t = true /\ N.testbit (colors b (flip (stm b))) t = true))) ).
Proof.
  intros HR Hd Ht Hpr Hep Hw Hk Hps. destruct (mk_move_fields_pr d t pr Hd Ht Hpr) as (Ef & Et & Ep).
  unfold pseudo_spec in Hps. rewrite Ef, Et, Ep in Hps. cbv zeta in Hps. rewrite Hw in Hps.
  change (turn (abs b)) with (stm b) in Hps. rewrite color_eqb_refl, (owned_abs b HR t _ Ht), Hep in Hps.
  cbn [andb] in Hps. apply andb_prop in Hps. destruct Hps as [Hnown Hps]. apply negb_true_iff in Hnown.
  split; [exact Hnown|].
  destruct (N.eqb_spec kd Pawn) as [->|Hnp].
  - right. split; [reflexivity|]. apply andb_prop in Hps. destruct Hps as [_ Hps].
    rewrite orb_false_r in Hps.
    apply orb_true_iff in Hps. destruct Hps as [Hps|Hps]; [apply orb_true_iff in Hps; destruct Hps as [Hps|Hps]|].
    + left. repeat (apply andb_prop in Hps; destruct Hps as [Hps ?]).
      apply N.eqb_eq in Hps. match goal with H : negb (_ =? _) = true |- _ => apply negb_true_iff, N.eqb_neq in H end.
      match goal with H : empty _ _ = true |- _ => rewrite (empty_abs b HR t Ht) in H; apply negb_true_iff in H end. tauto.
    + right. left. repeat (apply andb_prop in Hps; destruct Hps as [Hps ?]).
      apply N.eqb_eq in Hps. match goal with H : (t =? _) = true |- _ => apply N.eqb_eq in H end.
      match goal with H : empty _ t = true |- _ => rewrite (empty_abs b HR t Ht) in H; apply negb_true_iff in H end. tauto.
    + right. right. apply andb_prop in Hps. destruct Hps as [H1 H2]. rewrite (owned_abs b HR t _ Ht) in H2. tauto.
  - left. split; [exact Hnp|]. destruct (N.eqb_spec kd King); [contradiction|].
    apply andb_prop in Hps. destruct Hps as [_ Hps]. rewrite (occ_of_abs b HR) in Hps. exact Hps.
Qed.

(* ------------------------------------------------------------------------------------------ *)
(* membership in set-wise pawn pushes *)

Lemma pspm_intro x c s i : N.testbit x s = true -> N.testbit (pawn_single_push_moves (bit s) c) i = true ->
  N.testbit (pawn_single_push_moves x c) i = true.
Proof.
  intros Hs H. assert (E : x = N.lor x (bit s)).
  { apply N.bits_inj. intro j. rewrite N.lor_spec, bit_testbit. destruct (N.eqb_spec s j) as [<-|]; [rewrite Hs; reflexivity|apply eq_sym, orb_false_r]. }
  rewrite E, pspm_lor, N.lor_spec, H. apply orb_true_r.
Qed.

Definition push_conv_check (c : color) (d : N) : bool :=
  (rank_n d =? last_rank c) || ((fwd c d <? 64) && N.testbit (pawn_single_push_moves (bit (fwd c d)) (flip c)) d).
Lemma push_conv c d : d < 64 -> rank_n d <> last_rank c ->
  fwd c d < 64 /\ N.testbit (pawn_single_push_moves (bit (fwd c d)) (flip c)) d = true.
Proof.
  intros Hd Hr. assert (C : push_conv_check c d = true).
  { clear Hr. revert d Hd. destruct c; [apply (forall_sq (push_conv_check White))|apply (forall_sq (push_conv_check Black))]; vm_compute; reflexivity. }
  unfold push_conv_check in C. destruct (N.eqb_spec (rank_n d) (last_rank c)); [contradiction|]. cbn [orb] in C.
  apply andb_prop in C. destruct C as [C1 C2]. apply N.ltb_lt in C1. tauto.
Qed.

Definition rank2_check (c : color) (d : N) : bool :=
  negb (rank_n d =? second_rank c) ||
  (negb (rank_n d =? last_rank c) && negb (rank_n (fwd c d) =? last_rank c) && N.testbit (rank_from c FourthRank) (fwd c (fwd c d))).
Lemma rank2_fact c d : d < 64 -> rank_n d = second_rank c ->
  rank_n d <> last_rank c /\ rank_n (fwd c d) <> last_rank c /\ N.testbit (rank_from c FourthRank) (fwd c (fwd c d)) = true.
Proof.
  intros Hd Hr. assert (C : rank2_check c d = true).
  { clear Hr. revert d Hd. destruct c; [apply (forall_sq (rank2_check White))|apply (forall_sq (rank2_check Black))]; vm_compute; reflexivity. }
  unfold rank2_check in C. rewrite Hr, N.eqb_refl in C. cbn [negb orb] in C.
  apply andb_prop in C. destruct C as [C C3]. apply andb_prop in C. destruct C as [C1 C2].
  apply negb_true_iff, N.eqb_neq in C1, C2. split; [rewrite Hr; exact C1|]. tauto.
Qed.

(* ------------------------------------------------------------------------------------------ *)
(* completeness of Block *)

Lemma block_complete b squares d t kd pr : Rep b -> d < 64 -> t < 64 -> In pr [0; Knight; Bishop; Rook; Queen] ->
  epsq (abs b) = None -> who (abs b) d = Some (stm b, kd) -> kd <> King ->
  pseudo_spec (abs b) (mk_move d t pr) = true ->
  N.testbit squares t = true -> N.testbit (occupancy b) t = false ->
  (forall x, N.testbit squares x = true -> x < 64) ->
  N.testbit (block b squares (stm b)) d = true.
Proof.
  intros HR Hd Ht Hpr Hep Hw Hk Hps Hsq Hemp Hsqlt.
  destruct (pseudo_nonking_noep b d t kd pr HR Hd Ht Hpr Hep Hw Hk Hps) as [_ Hc].
  destruct (who_abs_inv b HR d _ kd Hd Hw) as (Hkr & Hpc & Hown & _).
  rewrite block_unfold. unfold bor at 1. rewrite N.lor_spec, fold_bor_testbit, N.bits_0. cbn [orb].
  destruct Hc as [[Hnp Hm]|[-> Hc]].
  - (* a piece *)
    apply orb_true_iff. left. apply existsb_exists. exists t. split; [apply bits_of_spec; exact Hsq|].
    unfold block_pieces_at, band, bor, diag_sliders, line_sliders, bor. cbv zeta.
    rewrite !N.land_spec, !N.lor_spec, !N.land_spec, !N.lor_spec, Hown, andb_true_r. unfold mem in Hm.
    assert (kd = 2 \/ kd = 3 \/ kd = 4 \/ kd = 5) as [->|[->|[->| ->]]] by (unfold Pawn, King in *; lia).
    + change (attacks_from (stm b) 2 d (occupancy b)) with (knight_attacks d) in Hm. rewrite knight_sym in Hm by assumption.
      unfold knight_moves. change Knight with 2. rewrite Hm, Hpc. bool_blast.
    + change (attacks_from (stm b) 3 d (occupancy b)) with (bishop_attacks d (occupancy b)) in Hm. apply bishop_sym in Hm; try assumption.
      unfold bishop_moves. change Bishop with 3. change (N.lor (colors b White) (colors b Black)) with (occupancy b).
      rewrite Hm, Hpc. bool_blast.
    + change (attacks_from (stm b) 4 d (occupancy b)) with (rook_attacks d (occupancy b)) in Hm. apply rook_sym in Hm; try assumption.
      unfold rook_moves. change Rook with 4. change (N.lor (colors b White) (colors b Black)) with (occupancy b).
      rewrite Hm, Hpc. bool_blast.
    + assert (Hq : N.testbit (N.lor (rook_attacks d (occupancy b)) (bishop_attacks d (occupancy b))) t = true) by exact Hm.
      rewrite N.lor_spec in Hq. change Queen with 5. change (N.lor (colors b White) (colors b Black)) with (occupancy b).
      apply orb_true_iff in Hq. destruct Hq as [Hq|Hq].
      * apply rook_sym in Hq; try assumption. unfold rook_moves. rewrite Hq, Hpc. bool_blast.
      * apply bishop_sym in Hq; try assumption. unfold bishop_moves. rewrite Hq, Hpc. bool_blast.
  - (* a pawn *)
    apply orb_true_iff. right. unfold band at 1 2. rewrite !N.land_spec. change Pawn with 1 in *. rewrite Hpc, Hown, !andb_true_r.
    unfold bor. rewrite N.lor_spec.
    assert (HnoNP : N.testbit (bnot (band (bor (colors b White) (colors b Black)) (bnot (band (pieces b 1) (colors b (stm b)))))) d = true).
    { rewrite bnot_testbit. unfold band. rewrite !N.land_spec, bnot_testbit, N.land_spec, Hpc, Hown.
      rewrite (proj2 (N.ltb_lt d 64) Hd). cbn. rewrite andb_false_r. reflexivity. }
    destruct Hc as [(Et & Hr & _)|[(Hr & Et & Hmid & _)|(_ & Hopp)]].
    + (* single push *)
      apply orb_true_iff. left. unfold block_single. cbv zeta. unfold band at 1. rewrite N.land_spec.
      change Pawn with 1. rewrite HnoNP, andb_true_r.
      destruct (push_conv (stm b) d Hd Hr) as [_ Hp]. rewrite <- Et in Hp. apply (pspm_intro _ _ t d Hsq Hp).
    + (* double push *)
      apply orb_true_iff. right. unfold block_double. cbv zeta. unfold bandn at 1. rewrite N.ldiff_spec.
      destruct (rank2_fact (stm b) d Hd Hr) as (Hr1 & Hr2 & Hr4).
      destruct (push_conv (stm b) d Hd Hr1) as [Lmid Hp1].
      destruct (push_conv (stm b) (fwd (stm b) d) Lmid Hr2) as [_ Hp2]. rewrite <- Et in Hp2, Hr4.
      assert (HoccNP : N.testbit (band (bor (colors b White) (colors b Black)) (bnot (band (pieces b Pawn) (colors b (stm b))))) d = false).
      { change Pawn with 1. rewrite bnot_testbit in HnoNP. apply andb_prop in HnoNP. destruct HnoNP as [_ H]. apply negb_true_iff in H. exact H. }
      rewrite HoccNP. cbn [negb]. rewrite andb_true_r.
      apply (pspm_intro _ _ (fwd (stm b) d) d); [|exact Hp1].
      unfold bandn. rewrite N.ldiff_spec.
      rewrite (empty_abs b HR _ Lmid) in Hmid. apply negb_true_iff in Hmid.
      change (N.lor (colors b White) (colors b Black)) with (occupancy b). unfold bor. change (N.lor (colors b White) (colors b Black)) with (occupancy b).
      rewrite Hmid. cbn [negb]. rewrite andb_true_r.
      apply (pspm_intro _ _ t _); [|exact Hp2]. unfold band. rewrite N.land_spec, Hr4, Hsq. reflexivity.
    + (* a capture needs an enemy man on t *)
      rewrite (occupancy_of_color b _ t Hopp) in Hemp. discriminate.
Qed.
