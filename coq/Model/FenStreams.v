(* Correspondence entry points of C11 (streams over list Z); see harness/streams/c11.go. *)
From Coq Require Import NArith ZArith List Bool.
From Chess3 Require Import Base.Bits Model.Types Model.BoardDef Model.Board Model.Fen Gen.Zobrist.
Import ListNotations.
Open Scope Z_scope.

Definition panic_out : list Z := [-1; -1; -1].
Definition diverge_out : list Z := [-2].

Definition ferr_code (e : ferr) : Z :=
  match e with
  | EPremature => 1 | EInvalidPos => 2 | EInvalidChar => 3 | EStm => 4 | ECastle => 5
  | ESquare => 6 | EDigit => 7 | EFiftyRange => 8 | EFullRange => 9
  end.

Definition bytes_of (l : list Z) : list N := map Z.to_N l.
Definition zs_of (l : list N) : list Z := map Z.of_N l.
Definition zbool (b : bool) : Z := if b then 1 else 0.

(* c11rt: board-in -> tlen text.. gate cls [board-out t2flag]
   text = b.FEN(); gate = b.InvalidPieceCount(); cls = class of FromFEN(text);
   when accepted: the parsed board and whether printing it gives the same text again *)
Definition run_c11rt (l : list Z) : list Z :=
  match decode_board l with
  | Some (b, _) =>
    let text := print_fen b in
    let head := Z.of_nat (length text) :: zs_of text ++ [zbool (invalid_piece_count b)] in
    match from_fen zob_real text with
    | Ok b' => head ++ [0] ++ encode_board b' ++ [zbool (list_eqb (print_fen b') text)]
    | Err e => head ++ [ferr_code e]
    | Panic => panic_out
    | Diverge => diverge_out
    end
  | None => []
  end.

(* c11str: flag n s_1..s_n t_1..t_5 -> cls [board-out tlen text..] epdcls [res2 board-out-nohist]
   FromFEN(s), the text FEN() prints for the accepted board, and epd.Parse(s ++ t);
   flag = 1 marks a canonical FEN written by an independent printer (used by the judge only) *)
Definition run_c11str (l : list Z) : list Z :=
  match l with
  | _ :: n :: r =>
    let s := bytes_of (firstn (Z.to_nat n) r) in
    let line := bytes_of r in
    let fen_part :=
      match from_fen zob_real s with
      | Ok b => let text := print_fen b in
                Some (0 :: encode_board b ++ Z.of_nat (length text) :: zs_of text)
      | Err e => Some [ferr_code e]
      | _ => None
      end in
    let epd_part :=
      match epd_parse line with
      | EpdOk b res2 => Some (0 :: Z.of_N res2 :: encode_board_nohist b)
      | EpdInvalid => Some [1]
      | EpdPanic => None
      end in
    match fen_part, epd_part with
    | Some a, Some b => a ++ b
    | _, _ => match parse_fen s with Diverge => diverge_out | _ => panic_out end
    end
  | _ => []
  end.

(* c11uci: flag n (tokensA 257 tokensB; tokens separated by 256)
           -> codeA codeB board-out(after A) board-out(after A then B) tlen text..
   a fresh driver (StartPos) receives `position A` and then `position B`; text is what `fen` prints *)
Fixpoint split_on (sepv : Z) (l : list Z) (cur : list Z) : list (list Z) :=
  match l with
  | [] => [rev cur]
  | x :: r => if x =? sepv then rev cur :: split_on sepv r [] else split_on sepv r (x :: cur)
  end.

Definition tokens_of (l : list Z) : list (list N) :=
  match l with
  | [] => []
  | _ => map bytes_of (split_on 256 l [])
  end.

Definition run_c11uci (l : list Z) : list Z :=
  match l with
  | _ :: n :: r =>
    match split_on 257 (firstn (Z.to_nat n) r) [] with
    | [ta; tb] =>
      match from_fen zob_real startpos_fen with
      | Ok d0 =>
        match handle_position zob_real d0 (tokens_of ta) with
        | Ok (d1, codeA) =>
          match handle_position zob_real d1 (tokens_of tb) with
          | Ok (d2, codeB) =>
            let text := print_fen d2 in
            [Z.of_N codeA; Z.of_N codeB] ++ encode_board d1 ++ encode_board d2 ++
            Z.of_nat (length text) :: zs_of text
          | Diverge => diverge_out
          | _ => panic_out
          end
        | Diverge => diverge_out
        | _ => panic_out
        end
      | _ => panic_out
      end
    | _ => []
    end
  | _ => []
  end.

(* c11reuse: mode k (flag_i n_i bytes_i)*k
             -> per string: cls [board-out tlen text..] fcls [board-out]
   ONE Go Board value receives the k texts one after the other through board.ParseFEN (mode 0),
   ParseFEN followed by ResetHash (mode 1) or epd.Parse of text ++ "; 1.0" (mode 2: the tuner reads a
   whole file into one Board); the second half of every record is the same call on a FRESH Board.
   ParseFEN starts with *b = Board{}, so the result is a function of the text alone: the model
   evaluates [parse_fen] on every text independently, and reused and fresh halves are the same. *)
Fixpoint reuse_items (k : nat) (l : list Z) : list (list N) :=
  match k, l with
  | S k', _ :: n :: r => bytes_of (firstn (Z.to_nat n) r) :: reuse_items k' (skipn (Z.to_nat n) r)
  | _, _ => []
  end.

Definition reuse_one (mode : Z) (s : list N) : option (list Z) :=
  let res : option (option board) :=
    if mode =? 2 then
      match epd_parse (s ++ epd_suffix 2) with
      | EpdOk b _ => Some (Some b) | EpdInvalid => Some None | EpdPanic => None
      end
    else
      match parse_fen s with
      | Ok b => Some (Some (if mode =? 1 then reset_hash zob_real b else b))
      | Err _ => Some None
      | _ => None
      end in
  match res with
  | None => None
  | Some None =>
      let code := if mode =? 2 then 1 else match parse_fen s with Err e => ferr_code e | _ => 0 end in
      Some [code; code]
  | Some (Some b) =>
      let text := print_fen b in
      Some ([0] ++ encode_board b ++ Z.of_nat (length text) :: zs_of text ++ [0] ++ encode_board b)
  end.

Definition run_c11reuse (l : list Z) : list Z :=
  match l with
  | mode :: k :: r =>
    let fix go (items : list (list N)) : option (list Z) :=
      match items with
      | [] => Some []
      | s :: t => match reuse_one mode s, go t with
                  | Some a, Some b => Some (a ++ b)
                  | _, _ => None
                  end
      end in
    match go (reuse_items (Z.to_nat k) r) with Some o => o | None => panic_out end
  | _ => []
  end.
