(* C05, closed form - "for every valid position ... or reached by playing legal moves": the
   pseudo-legality test accepts exactly the generated moves in every position reached from a valid
   position by a line of legal moves.  Statements only; proofs in Proofs/ComposeReach.v, Proofs/IplC05.v.
   ([Rep] of the reached board needs 64-bit Zobrist entries; the answer of IsPseudoLegal and the
   generated moves do not depend on the table.) *)
From Coq Require Import NArith ZArith List.
From Chess3 Require Import Base.Bits Model.Types Model.BoardDef Model.Board Model.Movegen Gen.Zobrist
  Spec.Chess Spec.Rep Spec.Play Proofs.IplC05 Proofs.ComposeReach.
From Chess3 Require Proofs.UndoMove Proofs.BoardExamples.
Import ListNotations.
Open Scope N_scope.

Theorem C05_reach : forall z b0 ms, UndoMove.zob_w64 z ->
  Rep b0 -> valid (abs b0) = true -> legal_line z b0 ms ->
  let b := run z b0 ms in
  Rep b /\ valid (abs b) = true /\
  forall m, m < 32768 -> (is_pseudo_legal b m = true <-> In m (gen_all b)).
Proof.
  intros z b0 ms Hz HR HV HL. cbv zeta.
  destruct (run_inv_Rep z Hz ms b0 HR HV HL) as (R & V & _).
  split; [exact R|]. split; [exact V|]. apply C05_closed; assumption.
Qed.
Print Assumptions C05_reach.

Example C05_reach_nonvacuous :
  Rep BoardExamples.ex_start /\ valid (abs BoardExamples.ex_start) = true /\ UndoMove.zob_w64 zob_real /\
  legal_line zob_real BoardExamples.ex_start [BoardExamples.e2e4; BoardExamples.e7e5; BoardExamples.g1f3] /\
  length (gen_all (run zob_real BoardExamples.ex_start [BoardExamples.e2e4; BoardExamples.e7e5; BoardExamples.g1f3])) = 29%nat.
Proof.
  split; [vm_compute; reflexivity|]. split; [vm_compute; reflexivity|]. split; [exact BoardExamples.zob_real_w64|].
  split; [vm_compute; repeat split; reflexivity|vm_compute; reflexivity].
Qed.
