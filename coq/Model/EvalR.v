(* Property C19 (a): the tuner's instance of the generic evaluation, T = float64, modelled over the
   REAL numbers (the IEEE-754 rounding of float64 is not modelled - named assumption float64_real_gap
   in the evidence).  Definitions only; not extracted.

   Go (eval/eval.go, the branches taken when T is not Score):
     sigmoidal:     T(600.0 / (1.0 + math.Exp(-0.2*(float64(n)-50.0))))
     taperedScore:  v := mgScore*T(mgPhase) + egScore*T(egPhase);  v *= 100 - T(fifty);  return v / MaxPhase / 100
   tools/tuner/tuning/vector.go:
     EngineCoeffs:  every shipped int16 coefficient converted with float64(src.Int())
     EngineRep.Eval: score := eval.Eval(b, e); if b.STM == Black { score = -score }                    *)
From Coq Require Import ZArith Reals.
From Chess3 Require Import Model.Types Model.BoardDef Gen.Coeffs Model.Eval.
Open Scope R_scope.

Definition sigmoid_R (x : R) : R := 600 / (1 + exp (- (2 / 10) * (x - 50))).

Definition taper_R (mg eg : R) (mgPhase egPhase fifty : Z) : R :=
  (mg * IZR mgPhase + eg * IZR egPhase) * (100 - IZR fifty) / IZR MaxPhase / 100.

Definition ops_R : score_ops R := mkOps R Rplus Rminus Rmult IZR sigmoid_R taper_R.

Definition eval_R (c : CoeffSet R) (b : board) : R := eval_gen ops_R c b.

(* EngineCoeffs() *)
Definition coeffs_R : CoeffSet R := coeff_map IZR Coefficients.

(* EngineRep.Eval's sign convention *)
Definition white_rel_R (b : board) (x : R) : R := match stm b with White => x | Black => - x end.
