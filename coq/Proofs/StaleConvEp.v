(* C09, converse direction of IsStalemate when an en-passant target is recorded: with the engine's
   normal form a legal en-passant capture exists; the last loop of IsStalemate tests exactly the
   occupancy after that capture, so it finds the capturing pawn unpinned and IsStalemate answers false. *)
From Coq Require Import NArith ZArith List Bool Lia.
From Chess3 Require Import Base.Bits Model.Types Spec.Geometry Model.Att Model.BoardDef Model.Board
     Model.Movegen Model.Mate Spec.Chess Spec.Rep Proofs.MateGeom Proofs.MateAbs Proofs.MateKing
     Proofs.MateMove Proofs.MateCapture Proofs.MateBlockGeom Proofs.MateBlock Proofs.MateStale
     Proofs.MatePinGeom Proofs.MatePin Proofs.MateConv Proofs.MateConvMove Proofs.MateConv2 Proofs.MateConv3
     Proofs.MateConv4 Proofs.MateConvEp.
Import ListNotations.
Open Scope N_scope.

Lemma slider_hits_without b k nocc opp c : (forall u, N.testbit opp u = true -> u < 64) ->
  N.testbit (diag_sliders b) c = false -> N.testbit (line_sliders b) c = false ->
  slider_hits b k nocc opp = true -> slider_hits b k nocc (band opp (bnot (bit c))) = true.
Proof.
  intros Hlt Hd Hl H. unfold slider_hits in *. apply orb_true_iff in H. apply orb_true_iff.
  destruct H as [H|H]; apply band3_some in H; destruct H as [u [H1 [H2 H3]]]; [left|right];
    apply (band3_nonzero _ _ _ u H1 H2); unfold band; rewrite N.land_spec, H3, bnot_testbit, bit_testbit;
    rewrite (proj2 (N.ltb_lt u 64) (Hlt u H3)); (destruct (N.eqb_spec c u) as [->|]; [congruence|reflexivity]).
Qed.

Theorem stale_converse_ep b : Rep b -> valid (abs b) = true -> normal_ep (abs b) = true -> ep b <> 0 ->
  in_check b (stm b) = false -> is_stalemate b = true -> False.
Proof.
  intros HR HV HN Hne Hchk Hst. set (me := stm b). set (them := flip me). set (e := ep b).
  destruct (king_is_bit b HR HV me) as [k0 [Hk0 [Hkbit [Hholds Hwho]]]].
  assert (Hep : epsq (abs b) = Some e).
  { unfold abs. cbn [epsq]. destruct (N.eqb_spec (ep b) 0); [contradiction|reflexivity]. }
  destruct (rep_unpack b HR) as (_ & _ & _ & _ & _ & _ & He). fold e in He.
  destruct (normal_ep_pawn_move _ e Hep HN) as (d0 & Hd0 & Hpawn0 & Hl). change (turn (abs b)) with me in Hpawn0.
  destruct (mk_move_fields d0 e Hd0 He) as (Ef & Et & Ep0).
  pose proof Hl as Hl2. unfold legal_spec in Hl2. apply andb_prop in Hl2. destruct Hl2 as [Hps Hsafe].
  apply negb_true_iff in Hsafe. change (turn (abs b)) with me in Hsafe.
  destruct (pseudo_mover _ _ Hps) as [kd [Hwd _]]. rewrite Ef in Hwd. change (turn (abs b)) with me in Hwd.
  assert (kd = Pawn) as ->.
  { unfold holds in Hpawn0. rewrite Hwd in Hpawn0. apply andb_prop in Hpawn0. destruct Hpawn0 as [_ H]. apply N.eqb_eq in H. congruence. }
  assert (Hiep : is_ep_capture (abs b) (mk_move d0 e 0) = true).
  { unfold is_ep_capture. rewrite Ef, Et, Hep. change (turn (abs b)) with me. rewrite Hpawn0, N.eqb_refl. reflexivity. }
  destruct (ep_ok_facts _ e (valid_ep_ok _ HV) Hep) as [Hrk Hpw]. change (turn (abs b)) with me in Hrk, Hpw. fold them in Hpw.
  assert (Hrko : ep_rank_ok me e = true) by (unfold ep_rank_ok; apply N.eqb_eq; exact Hrk).
  assert (Hatt : N.testbit (pawn_attacks me d0) e = true).
  { unfold pseudo_spec in Hps. rewrite Ef, Et, Ep0 in Hps. cbv zeta in Hps. rewrite Hwd in Hps.
    change (turn (abs b)) with me in Hps. change (Pawn =? Pawn) with true in Hps. cbv iota in Hps.
    apply andb_prop in Hps. destruct Hps as [_ Hps]. apply andb_prop in Hps. destruct Hps as [_ Hps].
    apply orb_true_iff in Hps. destruct Hps as [Hps|Hps]; [apply orb_true_iff in Hps; destruct Hps as [Hps|Hps]|].
    - exfalso. apply andb_prop in Hps. destruct Hps as [Hps _]. apply andb_prop in Hps. destruct Hps as [E1 E2].
      apply N.eqb_eq in E1. apply negb_true_iff, N.eqb_neq in E2.
      assert (L : fwd me d0 < 64) by (rewrite <- E1; exact He).
      pose proof (not_ep_push1 b d0 0 HR HV Hd0 L (or_introl eq_refl) Hwd E2) as F. fold me in F. rewrite <- E1 in F. congruence.
    - exfalso. apply andb_prop in Hps. destruct Hps as [Hps _]. apply andb_prop in Hps. destruct Hps as [Hps _].
      apply andb_prop in Hps. destruct Hps as [E1 E2]. apply N.eqb_eq in E1, E2.
      assert (L : fwd me (fwd me d0) < 64) by (rewrite <- E2; exact He).
      pose proof (not_ep_push2 b d0 HR HV Hd0 L E1) as F. fold me in F. rewrite <- E2 in F. congruence.
    - apply andb_prop in Hps. destruct Hps as [Hps _]. exact Hps. }
  destruct (ep_sq me d0 e Hd0 He Hrko Hatt) as (Ecsq & Lcsq & Lorigin & Epush). fold them in Ecsq, Lcsq, Epush.
  set (csq := fwd them e) in *.
  destruct (ep_facts b HV e Hep) as (_ & Hee & Hoe & Hpawn & _). fold me in Hee, Hoe, Hpawn. fold them in Hpawn. fold csq in Hpawn.
  destruct (king_there b k0 Hk0 Hholds) as [kk Hwk]. fold me in Hwk.
  assert (Hcsq_d : csq <> d0).
  { intros E. unfold holds in Hpawn. rewrite E, Hwd in Hpawn. unfold them in Hpawn. rewrite color_eqb_flip in Hpawn. discriminate. }
  assert (Hcsq_k : csq <> k0).
  { intros E. unfold holds in Hpawn. rewrite E, Hwk in Hpawn. unfold them in Hpawn. rewrite color_eqb_flip in Hpawn. discriminate. }
  assert (Hcsq_e : csq <> e).
  { intros E. unfold holds in Hpawn. unfold empty in Hee. rewrite E in Hpawn. destruct (who (abs b) e); discriminate. }
  assert (Hd0e : d0 <> e) by (intros E; unfold empty in Hee; rewrite <- E, Hwd in Hee; discriminate).
  assert (Hek : e <> k0) by (intros E; unfold empty in Hee; rewrite E, Hwk in Hee; discriminate).
  assert (Hcsq3 : is_ep_capture (abs b) (mk_move d0 e 0) = true ->
            sqfr (file_n e) (rank_n d0) <> e /\ sqfr (file_n e) (rank_n d0) <> d0 /\ sqfr (file_n e) (rank_n d0) <> k0)
    by (intros _; rewrite Ecsq; tauto).
  assert (Hpk : Pawn <> King) by (unfold Pawn, King; lia).
  (* the captured pawn is a pawn: not a slider *)
  assert (Hcsq_pawn : who (abs b) csq = Some (them, Pawn)).
  { unfold holds in Hpawn. destruct (who (abs b) csq) as [[c' k]|]; [|discriminate].
    apply andb_prop in Hpawn. destruct Hpawn as [A B]. apply color_eqb_eq in A. apply N.eqb_eq in B. subst. reflexivity. }
  destruct (who_abs_inv b HR csq them Pawn Lcsq Hcsq_pawn) as (_ & Hcp & Hcc & Hcpa).
  destruct (sq_facts b HR csq Lcsq) as (_ & Hsq & _ & _). rewrite Hcpa in Hsq.
  assert (Hnd : N.testbit (diag_sliders b) csq = false).
  { unfold diag_sliders, bor. rewrite N.lor_spec, (Hsq Bishop), (Hsq Queen) by (unfold Bishop, Queen; lia). reflexivity. }
  assert (Hnl : N.testbit (line_sliders b) csq = false).
  { unfold line_sliders, bor. rewrite N.lor_spec, (Hsq Rook), (Hsq Queen) by (unfold Rook, Queen; lia). reflexivity. }
  (* what IsStalemate = true says about the last loop *)
  assert (Hocc : bor (colors b me) (colors b (flip me)) = occupancy b).
  { unfold occupancy. unfold me. destruct (stm b); cbn [flip]; [reflexivity|apply N.lor_comm]. }
  pose proof Hst as HM. unfold is_stalemate in HM. cbv zeta in HM. fold me in HM. rewrite Hocc, Hkbit, (lsb_bit k0 Hk0) in HM.
  destruct (stale_free_pawn _ _ _ _); [discriminate|]. destruct (stale_queen _ _ _); [discriminate|].
  destruct (stale_bishop _ _ _ _ _); [discriminate|]. destruct (stale_rook _ _ _ _ _); [discriminate|].
  destruct (stale_knight _ _ _ _ _ _); [discriminate|]. destruct (king_can_step _ _ _ _ _); [discriminate|].
  destruct (stale_pinned_pawn _ _ _ _ _ _); [discriminate|].
  destruct (stale_ep b k0 (occupancy b) (colors b me) (colors b (flip me))) eqn:F8; [discriminate|]. clear HM.
  unfold stale_ep in F8. fold e in F8. destruct (N.eqb_spec e 0) as [E0|_]; [unfold e in E0; contradiction|].
  cbv zeta in F8. fold me in F8. fold them in F8. rewrite Epush in F8.
  assert (Hin : In d0 (bits_of (band (band (pawn_capture_moves (bit e) them) (pieces b Pawn)) (colors b me)))).
  { destruct (who_abs_inv b HR d0 me Pawn Hd0 Hwd) as (_ & Hp0 & Hc0 & _).
    apply bits_of_spec. unfold band. rewrite !N.land_spec, Hp0, Hc0, !andb_true_r.
    unfold them. rewrite (pawn_sym me e d0 He Hd0). exact Hatt. }
  pose proof (existsb_false_in _ _ d0 F8 Hin) as F. cbv beta in F. apply negb_false_iff in F.
  set (nocc := bor (band (band (occupancy b) (bnot (bit d0))) (bnot (bit csq))) (bit e)) in *.
  assert (Hs : slider_hits b k0 nocc (colors b them) = true) by (unfold slider_hits; rewrite orb_comm; exact F).
  assert (Hopplt : forall u, N.testbit (colors b them) u = true -> u < 64).
  { intros u Hu. destruct (N.lt_ge_cases u 64) as [L|L]; [exact L|]. rewrite (colors_high b HR _ u L) in Hu. discriminate. }
  apply (slider_hits_without b k0 nocc _ csq Hopplt Hnd Hnl) in Hs.
  refine (Bool.diff_true_false (eq_trans (eq_sym (nk_pinned b HR k0 Hk0 Hholds d0 e Pawn 0 Hd0 He Hwd Hpk (or_introl eq_refl) Hd0e Hek Hcsq3 nocc _ Hs _ _)) Hsafe)).
  - intros u Hu. unfold band in Hu. rewrite N.land_spec, bnot_testbit, bit_testbit in Hu.
    apply andb_prop in Hu. destruct Hu as [Hu1 Hu2]. apply andb_prop in Hu2. destruct Hu2 as [_ Hu2].
    apply negb_true_iff, N.eqb_neq in Hu2. split; [exact Hu1|]. split.
    + intros X. subst u. pose proof (Hopplt e Hu1) as L. rewrite (empty_abs b HR e L) in Hee.
      rewrite (occupancy_of_color b them e Hu1) in Hee. discriminate.
    + intros _. rewrite Ecsq. congruence.
  - intros x Hx. rewrite occ_of_testbit in Hx. apply andb_prop in Hx. destruct Hx as [Lx Hx]. apply negb_true_iff in Hx.
    unfold empty in Hx. rewrite (nk_who b k0 Hk0 d0 e Pawn 0 Hd0 He Hwd Hpk (or_introl eq_refl) Hd0e Hek Hcsq3 x), Hiep, Ecsq in Hx.
    cbn [andb] in Hx. unfold nocc, bor, band. rewrite N.lor_spec, !N.land_spec, !bnot_testbit, !bit_testbit, Lx.
    destruct (N.eqb_spec csq x) as [|Hcx]; [discriminate|]. destruct (N.eqb_spec e x) as [|Hex]; [apply orb_true_r|].
    destruct (N.eqb_spec d0 x) as [|Hdx]; [discriminate|].
    apply N.ltb_lt in Lx. pose proof (empty_abs b HR x Lx) as Em. unfold empty in Em. rewrite Hx in Em.
    symmetry in Em. apply negb_false_iff in Em. rewrite Em. reflexivity.
Qed.
