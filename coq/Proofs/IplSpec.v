(* C05, engine half: Board.IsPseudoLegal decides exactly the rules' "possible move" (pseudo_spec) on
   every board satisfying the representation invariant whose abstraction is a valid position, for
   EVERY encoding (the statement needs no bound on m: both sides only look at the decoded fields);
   and the composition with the generator half. *)
From Coq Require Import NArith ZArith List Bool Lia.
From Chess3 Require Import Base.Bits Model.Types Spec.Geometry Model.Att Model.BoardDef Model.Board
  Model.Movegen Model.C05Streams Spec.Chess Spec.Rep Proofs.GenBase Proofs.IplBase Proofs.IplPieces Proofs.IplKing.
Import ListNotations.
Open Scope N_scope.

Theorem ipl_eq_spec b m : Rep b -> valid (abs b) = true -> is_pseudo_legal b m = pseudo_spec (abs b) m.
Proof.
  intros HR HV. rewrite ipl_frame, spec_frame. change (turn (abs b)) with (stm b).
  pose proof (mv_from_lt m) as Hf. pose proof (mv_to_lt m) as Ht.
  rewrite (owned_by_abs b HR _ _ Hf), (owned_by_abs b HR _ _ Ht), (kind_at_abs b _ Hf).
  destruct (N.testbit (colors b (stm b)) (mv_from m)) eqn:Hown; [|reflexivity].
  destruct (N.testbit (colors b (stm b)) (mv_to m)); [reflexivity|]. cbn [negb andb].
  pose proof (rep_piece_le b HR _ Hf) as Hle. pose proof (own_piece_nonzero b HR _ _ Hown) as Hnz.
  assert (C : piece_at b (mv_from m) = Pawn \/ piece_at b (mv_from m) = Knight \/ piece_at b (mv_from m) = Bishop \/
              piece_at b (mv_from m) = Rook \/ piece_at b (mv_from m) = Queen \/ piece_at b (mv_from m) = King)
    by (unfold Pawn, Knight, Bishop, Rook, Queen, King; lia).
  destruct C as [E|[E|[E|[E|[E|E]]]]]; rewrite E.
  - apply pawn_case; assumption.
  - apply knight_case; assumption.
  - apply bishop_case; assumption.
  - apply rook_case; assumption.
  - apply queen_case; assumption.
  - apply king_case; assumption.
Qed.

Theorem ipl_iff_spec b m : Rep b -> valid (abs b) = true -> m < 32768 ->
  (is_pseudo_legal b m = true <-> pseudo_spec (abs b) m = true).
Proof. intros HR HV _. rewrite (ipl_eq_spec b m HR HV). tauto. Qed.

(* ------------------------------------------------------------------------------------------ *)
(* composition with the generator half *)

Definition gen_iff_spec_statement : Prop :=
  forall b m, Rep b -> valid (abs b) = true -> m < 32768 -> (In m (gen_all b) <-> pseudo_spec (abs b) m = true).

Definition C05_statement : Prop :=
  forall b, Rep b -> valid (abs b) = true -> forall m, m < 32768 ->
    (is_pseudo_legal b m = true <-> In m (gen_all b)).

(* the model of uci.parseUCIMove returns only encodings below 2^15 that passed the gate *)
Lemma uci_gate_ok b from to promo m : promo < 8 -> uci_gate b from to promo = Some m ->
  m < 32768 /\ is_pseudo_legal b m = true.
Proof.
  intros Hp. unfold uci_gate.
  destruct (N.ltb_spec from 64) as [Hf|]; [|discriminate]. destruct (N.ltb_spec to 64) as [Ht|]; [|discriminate].
  cbn [andb].
  assert (E : N.lor (N.lor (N.shiftl from 6) to) (N.shiftl promo 12) = mk_move from to promo).
  { unfold mk_move. change 63 with (N.ones 6). change 7 with (N.ones 3). rewrite !N.land_ones.
    rewrite !N.mod_small by assumption. reflexivity. }
  rewrite E. destruct (is_pseudo_legal b (mk_move from to promo)) eqn:I; [|discriminate].
  intros H. injection H as <-. split; [apply mk_move_lt; assumption|exact I].
Qed.

Lemma parse_uci_ok b s m : parse_uci_move b s = Some m -> m < 32768 /\ is_pseudo_legal b m = true.
Proof.
  unfold parse_uci_move.
  destruct s as [|c0 [|c1 [|c2 [|c3 [|c4 [|]]]]]]; try discriminate.
  - apply uci_gate_ok. reflexivity.
  - unfold uci_promo.
    destruct (c4 =? 113); [apply uci_gate_ok; reflexivity|].
    destruct (c4 =? 114); [apply uci_gate_ok; reflexivity|].
    destruct (c4 =? 98); [apply uci_gate_ok; reflexivity|].
    destruct (c4 =? 110); [apply uci_gate_ok; reflexivity|discriminate].
Qed.

Section FromGen.
  Hypothesis gen_iff_spec : gen_iff_spec_statement.

  Theorem C05_from_gen : C05_statement.
  Proof.
    intros b HR HV m Hm. rewrite (ipl_iff_spec b m HR HV Hm). symmetry. apply gen_iff_spec; assumption.
  Qed.

  (* a move remembered for another position (any 15-bit word) is played only if it is a generated move of this one *)
  Corollary hash_move_gate b m : Rep b -> valid (abs b) = true -> m < 32768 ->
    is_pseudo_legal b m = true -> In m (gen_all b).
  Proof. intros HR HV Hm H. apply (C05_from_gen b HR HV m Hm). exact H. Qed.

  (* a move string from the GUI is turned into a move only if that move is generated in the current position *)
  Corollary uci_move_gate b s m : Rep b -> valid (abs b) = true ->
    parse_uci_move b s = Some m -> In m (gen_all b).
  Proof.
    intros HR HV H. apply parse_uci_ok in H. destruct H as [Hm H]. apply (C05_from_gen b HR HV m Hm). exact H.
  Qed.
End FromGen.
