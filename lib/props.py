"""Per-property configuration and the generic run of one property check."""
import json, os, re, time
import vcheck as V


class StreamCfg:
    def __init__(self, name, quick, thorough, judge=None, rule="", model=True, race=False, accept=None):
        self.name, self.quick, self.thorough, self.judge, self.rule = name, quick, thorough, judge, rule
        self.model = model      # False: implementation-only stream judged by `judge`
        self.race = race        # run the stream with the -race build of the harness (build/bin/h-race)
        # accept: extracted acceptance checker `input ++ observed output -> [1] | [0; reason]` for streams
        # whose implementation output is not a function of the input (the model admits a set of outcomes);
        # a rejected observation is a broken correspondence
        self.accept = accept


class Prop:
    def __init__(self, pid, title, coq, streams, allowed_axioms=(), trusted=(), assumptions=(),
                 extra=None, classify=None, design_ref=""):
        self.pid, self.title, self.coq, self.streams = pid, title, coq, streams
        self.allowed_axioms = set(allowed_axioms)
        self.trusted, self.assumptions = list(trusted), list(assumptions)
        self.extra = extra          # callable(prop, res) for property specific steps
        self.classify = classify    # callable(witness dict) -> known-finding id or None
        self.design_ref = design_ref


COMMON_TRUSTED = [
    "Coq 8.16.1 kernel (coqc, full .vo build; vm_compute for finite sweeps; no native_compute)",
    "translator /verif/harness/cmd/gen (Go compiler evaluating the repo's own constants through the verif hooks) -> coq/Gen/*.v, regenerated on this run",
    "extraction: Require ExtrOcamlBasic only (its Extract Inductive bool/option/unit/prod/list/sumbool/sumor and Extract Inlined Constant andb/orb/negb/fst/snd...); N, Z, positive, nat stay inductive; generic OCaml driver Extract/driver.ml (hex <-> positive, no arithmetic)",
    "correspondence harness /verif/harness (Go, built from /repo's working tree with -tags verif) and the line diff in lib/vcheck.py",
]

# properties with a Properties/Cxx_effects.v file (statements about Gen/Effects.v)
EFFECTS_TRUSTED = ("effect analysis harness/cmd/gen/effects.go (syntactic, over-approximated call graph; function values and "
                   "reflection not followed; unsafe not modelled)")

PROPS = {}


def reg(p):
    PROPS[p.pid] = p


# ------------------------------------------------------------------------------------------------
# generic run

def coq_list(prop):
    return list(prop.coq) if isinstance(prop.coq, (list, tuple)) else [prop.coq]


def check_obligations(prop, res):
    """Re-check the property's theorems (one or more Properties files) against the regenerated
    Gen files."""
    res.theorems, res.assumptions, res.assumption_blocks = [], [], 0
    ok_all = True
    logs = []
    for rel in coq_list(prop):
        names = V.theorem_names(rel)
        res.obligations += len(names)
        res.theorems += names
        ok, out = V.coq_make([rel[:-2] + ".vo"])
        logs.append(out)
        if not ok:
            loc = V.locate_failure(out) or {"file": rel, "statement": None, "error": out[-800:]}
            res.broken.append({"kind": "obligation", "name": f"{loc.get('file')}:{loc.get('statement')}", "detail": loc})
            V.log(f"proof obligation broken: {loc.get('file')} {loc.get('statement')}")
            ok_all = False
            continue
        ok, out = V.coqc_file(rel)
        if not ok:
            loc = V.locate_failure(out) or {"file": rel, "statement": None, "error": out[-800:]}
            res.broken.append({"kind": "obligation", "name": f"{loc.get('file')}:{loc.get('statement')}", "detail": loc})
            ok_all = False
            continue
        blocks = V.parse_assumptions(out)
        axioms = sorted(set(a for b in blocks for a in b))
        res.assumptions = sorted(set(res.assumptions) | set(axioms))
        res.assumption_blocks += len(blocks)
        unexpected = [a for a in axioms if a not in prop.allowed_axioms]
        if unexpected:
            res.broken.append({"kind": "obligation", "name": f"Print Assumptions allow-list ({rel})",
                               "detail": {"unexpected_axioms": unexpected}})
            ok_all = False
            continue
        res.discharged += len(names)
    with open(os.path.join(V.BUILD, "logs", f"{prop.pid}-make.log"), "w") as f:
        f.write("\n".join(logs))
    return ok_all


coq_files_of = coq_list


def run_stream(prop, res, sc, workdir):
    n = sc.quick if res.tier == "quick" else sc.thorough
    k = getattr(res, "escalate", 1.0)
    if res.tier == "quick" and k > 1.0:
        # change-directed depth (lib/srcpins.py): a source file relevant to this property differs from the
        # pinned tree, so the stream sees k times the cases (never beyond the thorough count)
        n = max(n, min(int(n * k), max(sc.thorough, n)))
    prefix = os.path.join(workdir, sc.name)
    info = {"stream": sc.name, "requested": n}
    t0 = time.time()
    # corpus (minimised earlier failures) first
    corpus = os.path.join(V.VERIF, "corpus", sc.name + ".in")
    rc, out = V.run_h(["gen", sc.name, str(n), res.tier, prefix], race=sc.race)
    if rc != 0:
        res.broken.append({"kind": "correspondence", "name": f"stream {sc.name}: harness failed",
                           "detail": {"log": out[-2000:]}})
        return info
    if os.path.exists(corpus):
        cin = V.read_lines(corpus)
        cin = [l for l in cin if l.strip() and not l.startswith("#")]
        rc, cout = V.run_h(["run", sc.name], inp="\n".join(cin) + "\n", race=sc.race)
        couts = cout.split("\n")[:len(cin)]
        # prepend
        cdesc = ["corpus"] * len(cin)
        cdesc_path = os.path.join(V.VERIF, "corpus", sc.name + ".desc")   # optional: one description per corpus case
        if os.path.exists(cdesc_path):
            dl = [l for l in V.read_lines(cdesc_path) if l.strip() and not l.startswith("#")]
            if len(dl) == len(cin):
                cdesc = ["corpus " + l for l in dl]

        cin, cdesc, last = [], [], ""
        for l in V.read_lines(corpus):
            if l.startswith("#"):
                last = l[1:].strip()      # a comment line describes the case that follows it
            elif l.strip():
                cin.append(l)
                cdesc.append("corpus: " + last if last else "corpus")
                last = ""
        rc, cout = V.run_h(["run", sc.name], inp="\n".join(cin) + "\n")
        couts = cout.split("\n")[:len(cin)]
        # prepend
        for suf, extra in ((".in", cin), (".impl", couts), (".desc", cdesc)):
            body = open(prefix + suf).read()
            with open(prefix + suf, "w") as f:
                f.write("\n".join(extra) + "\n" + body)
        info["corpus"] = len(cin)
    stats = json.load(open(prefix + ".stats.json"))
    if stats.get("generator_panic"):
        res.broken.append({"kind": "correspondence",
                           "name": f"stream {sc.name}: the implementation panicked while the generator was driving it",
                           "detail": {"panic": stats["generator_panic"][:500], "cases_written": stats.get("cases")}})
        V.log(f"stream {sc.name}: generator stopped by a panic inside the implementation: {stats['generator_panic'][:200]}")
    info["harness_s"] = round(time.time() - t0, 2)
    ins, impl, desc = (V.read_lines(prefix + s) for s in (".in", ".impl", ".desc"))
    res.evaluations += len(ins)
    res.distinct += stats.get("distinct_nontrivial", 0)
    for k, v in stats.get("tags", {}).items():
        res.tags[f"{sc.name}:{k}"] = v
    if ins:
        for j in (0, len(ins) // 2, len(ins) - 1):
            res.samples.append({"stream": sc.name, "input": desc[j] if j < len(desc) else ins[j], "impl": impl[j][:200]})
    info.update(cases=len(ins), distinct_nontrivial=stats.get("distinct_nontrivial", 0))
    mism = []
    if sc.model:
        t1 = time.time()
        rc, err = V.run_model_sharded(sc.name, prefix + ".in", prefix + ".model")
        info["model_s"] = round(time.time() - t1, 2)
        if rc != 0:
            res.broken.append({"kind": "correspondence", "name": f"stream {sc.name}: modelrun failed",
                               "detail": {"log": err[-2000:]}})
            return info
        n_cmp, mism = V.compare(prefix)
        info["compared"] = n_cmp
        info["mismatches"] = len(mism)
        if mism:
            res.broken.append({"kind": "correspondence", "name": f"stream {sc.name}: model and implementation disagree",
                               "detail": {"count": len(mism), "first": mism[:3]}})
            V.log(f"correspondence {sc.name}: {len(mism)} mismatches, first: {mism[0]['desc']} impl={mism[0]['impl'][:120]} model={mism[0]['model'][:120]}")
    if sc.accept:
        t1 = time.time()
        rej = V.judge(sc.accept, ins, impl, workdir, sc.name + ".accept")
        info["accept_s"] = round(time.time() - t1, 2)
        info["accepted"] = len(ins) - len(rej)
        info["rejected"] = len(rej)
        if rej:
            first = [{"index": i, "desc": desc[i] if i < len(desc) else "", "in": ins[i], "impl": impl[i], "verdict": v}
                     for i, v in rej[:3]]
            res.broken.append({"kind": "correspondence",
                               "name": f"stream {sc.name}: observed behaviour is not admitted by the model ({sc.accept})",
                               "detail": {"count": len(rej), "first": first}})
            V.log(f"correspondence {sc.name}: {len(rej)} observations rejected by {sc.accept}, first: {first[0]['desc'][:300]} impl={first[0]['impl'][:160]} verdict={first[0]['verdict']}")
    info["_mism"] = mism
    info["_prefix"] = prefix
    return info


# ------------------------------------------------------------------------------------------------
# witness shrinking
#
# A witness (input on which the judge rejects what the implementation did) of an operation-sequence
# stream can be a walk of 90 operations. Streams whose Go side has a Shrink function (hx.Stream.Shrink,
# harness/streams/shrink.go; `h shrink <stream>` prints the smaller candidate inputs of an input,
# smallest change first) get their witnesses reduced by a bounded greedy loop: re-run the
# implementation on the candidates (same binary, same race setting as the run), judge the new
# observations, adopt the smallest candidate on which the judge still fails with the SAME first
# clause number, start over from it. Shrinking happens only after a witness was found and never
# changes whether a violation is reported; it only makes the replay file smaller. The original
# input stays in the replay file (original_input / original_desc).

SHRINK_MAX_RUNS = 200      # implementation runs per witness
SHRINK_MAX_S = 30.0        # seconds per witness
SHRINK_BATCH = 16          # candidates handed to one `h run` / `modelrun` invocation


def _verdict_class(verdict):
    """`0 clause ...` -> clause; anything else that is not `1` (empty line, crash) -> the text."""
    t = verdict.split()
    return t[1] if len(t) >= 2 and t[0] == "0" else " ".join(t)


def _input_size(line):
    return (len(line.split()), len(line))


def shrink_witness(prop, sc, w, info=None):
    """Greedy, bounded delta debugging of the witness w (dict as written to the replay file).
    Returns w itself (no Shrink for the stream, or nothing smaller fails) or a new dict holding the
    shrunk input with its own observation and verdict plus original_input / original_desc."""
    if os.environ.get("VERIF_NO_SHRINK") == "1" or not sc.judge:
        return w
    t0 = time.time()
    wd = os.path.join(V.BUILD, "run", "shrink", f"{prop.pid}-{sc.name}")
    os.makedirs(wd, exist_ok=True)
    cls = _verdict_class(w["verdict"])
    cur = dict(w)
    runs, steps, rounds, why, spent = 0, [], 0, "no smaller input fails", 0.0
    tried = {" ".join(w["input"].split())}

    def left():
        return SHRINK_MAX_S - (time.time() - t0)

    try:
        while True:
            if runs >= SHRINK_MAX_RUNS or left() <= 0:
                why = "budget"
                break
            rc, out = V.run_h(["shrink", sc.name, str(SHRINK_MAX_RUNS - runs)], inp=cur["input"] + "\n",
                              race=sc.race, cwd=wd, timeout=max(5, left()))
            if rc != 0:
                why = "h shrink failed"
                break
            cands = [l for l in out.split("\n") if l.strip() and l.strip() != "--"]
            cands = [c for c in cands if " ".join(c.split()) not in tried]
            if not cands:
                break
            rounds += 1
            adopted = None
            # the list is smallest-change-first: walk it from the aggressive end, one batch at a time
            while cands and adopted is None and runs < SHRINK_MAX_RUNS and left() > 0:
                # batch size: one candidate at first, then what the time left allows at the measured cost per
                # candidate (a candidate of a slow stream, e.g. a c13 script that hangs, takes seconds)
                nb = 1 if runs == 0 else max(1, min(SHRINK_BATCH, int(left() / max(4 * spent / runs, 1e-6))))
                nb = min(nb, SHRINK_MAX_RUNS - runs)
                batch = cands[-nb:]
                del cands[-nb:]
                tb = time.time()
                tried.update(" ".join(c.split()) for c in batch)
                rc, out = V.run_h(["run", sc.name], inp="\n".join(batch) + "\n", race=sc.race, cwd=wd,
                                  timeout=max(2, left()))   # the time budget is hard: a batch that overruns it is abandoned
                runs += len(batch)
                spent += time.time() - tb
                impls = out.split("\n")
                if rc != 0 or len(impls) < len(batch):
                    why = "implementation run failed on a candidate batch"
                    cands = []
                    break
                impls = impls[:len(batch)]
                bad = dict(V.judge(sc.judge, batch, impls, wd, "cand"))
                ok = []
                for i, c in enumerate(batch):
                    if i not in bad or _verdict_class(bad[i]) != cls:
                        continue
                    cw = {"stream": sc.name, "input": c, "desc": "", "impl_output": impls[i], "verdict": bad[i],
                          "replay_hint": f"echo '{c}' | build/bin/h run {sc.name}", "_shrink_dir": wd}
                    # a candidate of a recorded known-finding class is not a witness of a violation
                    if prop.classify and prop.classify(cw):
                        continue
                    ok.append(cw)
                if ok:
                    adopted = min(ok, key=lambda x: _input_size(x["input"]))
            if adopted is None:
                if why == "no smaller input fails" and (runs >= SHRINK_MAX_RUNS or left() <= 0):
                    why = "budget"
                break
            steps.append({"tokens": len(adopted["input"].split()), "runs": runs, "verdict": adopted["verdict"]})
            cur = adopted
    except Exception as e:           # a shrinker must never turn a found witness into a crash of the check
        why = f"stopped: {type(e).__name__}: {e}"[:300]
    if cur is w or not steps:
        return w
    # confirmation: the shrunk input has to fail once more, same clause (a no-op for a deterministic
    # stream; an observation that depends on timing - c13 - must not replace the witness of the run by
    # an input that failed by luck)
    try:
        rc, out = V.run_h(["run", sc.name], inp=cur["input"] + "\n", race=sc.race, cwd=wd, timeout=30)
        again = dict(V.judge(sc.judge, [cur["input"]], [out.split("\n")[0]], wd, "confirm"))
        confirmed = rc == 0 and 0 in again and _verdict_class(again[0]) == cls
    except Exception:
        confirmed = False
    if not confirmed:
        V.log(f"witness of {sc.name}: the shrunk input did not fail again; keeping the input the run found")
        return w
    cur.pop("_shrink_dir", None)
    rc, out = V.run_h(["desc", sc.name], inp=cur["input"] + "\n", race=sc.race, cwd=wd, timeout=60)
    d = out.split("\n")[0].strip() if rc == 0 else ""
    cur["desc"] = d or ("shrunk from: " + w.get("desc", ""))
    cur["original_input"] = w["input"]
    cur["original_desc"] = w.get("desc", "")
    cur["original_verdict"] = w["verdict"]
    for k in w:                      # whatever a classifier attached to the original (e.g. worker_stderr)
        if k not in cur and not k.startswith("_"):
            cur["original_" + k] = w[k]
    cur["shrink_steps"] = len(steps)
    cur["shrink"] = {"tokens_before": len(w["input"].split()), "tokens_after": len(cur["input"].split()),
                     "bytes_before": len(w["input"]), "bytes_after": len(cur["input"]),
                     "implementation_runs": runs, "rounds": rounds, "seconds": round(time.time() - t0, 2),
                     "stopped_because": why, "steps": steps}
    V.log(f"witness of {sc.name} shrunk from {len(w['input'].split())} to {len(cur['input'].split())} tokens "
          f"({len(steps)} steps, {runs} implementation runs, {round(time.time() - t0, 1)} s)")
    return cur


def witness_search(prop, res, infos):
    """Run the property judges over everything the streams observed on the implementation."""
    found = 0
    for sc, info in infos:
        if not sc.judge or "_prefix" not in info:
            continue
        prefix = info["_prefix"]
        ins, impl, desc = (V.read_lines(prefix + s) for s in (".in", ".impl", ".desc"))
        bad = V.judge(sc.judge, ins, impl, os.path.dirname(prefix), sc.name)
        info["judged"] = len(ins)
        info["judge_failures"] = len(bad)
        seen = set()
        first = []                 # the first witness of each verdict class, in order
        for idx, verdict in bad:
            w = {"stream": sc.name, "input": ins[idx], "desc": desc[idx] if idx < len(desc) else "",
                 "impl_output": impl[idx], "verdict": verdict,
                 "replay_hint": f"echo '{ins[idx]}' | build/bin/h run {sc.name}"}
            kid = prop.classify(w) if prop.classify else None
            if kid:
                if kid not in seen:
                    seen.add(kid)
                    res.known.append((kid, w))
                continue
            cls = verdict
            if cls in seen:
                continue
            seen.add(cls)
            found += 1
            first.append(w)
            if found >= 5:
                break
        # shrinking re-runs the implementation, so it comes after every observation of the run was
        # classified; it replaces the content of a witness, never the decision to report it
        for w in first:
            w = shrink_witness(prop, sc, w, info)
            if res.broken:
                # the run also lost proof obligations / correspondences: name them beside the failing input
                w = dict(w, no_longer_checks=[b["name"] for b in res.broken])
            res.add_violation("witness", w, True)
    return found


def write_evidence(prop, res, infos, checker_cmd):
    cov = {
        "obligations": max(res.obligations, 1),
        "discharged": res.discharged,
        "checker_cmd": checker_cmd,
        "trusted_base": COMMON_TRUSTED + prop.trusted + [
            "axioms reported by Print Assumptions on this run: " + (", ".join(res.assumptions) if res.assumptions else "none (Closed under the global context)")],
        "theorems": getattr(res, "theorems", []),
        "evaluations": res.evaluations,
        "distinct_nontrivial": res.distinct,
        "rule": "; ".join(f"{sc.name}: {sc.rule}" for sc, _ in infos if sc.rule),
        "samples": res.samples[:12] or [{"note": "no correspondence stream ran"}],
        "input_distribution": res.tags,
        "streams": [{k: v for k, v in info.items() if not k.startswith("_")} for _, info in infos],
        "broken": [b["name"] for b in res.broken],
        "known_findings_reported": [k for k, _ in res.known],
        "notes": res.notes,
    }
    if cov["discharged"] < 1:
        # schema: a proof-level file with discharged = 0 is not valid; fall back to the generic keys
        cov["discharged_count"] = cov.pop("discharged")
    ev = {
        "property_id": prop.pid,
        "tier": res.tier,
        "seed": res.seed,
        "level": "proof",
        "coverage": cov,
        "assumptions": prop.assumptions,
        "wall_s": round(time.time() - res.t0, 2),
        "violations": len(res.violations),
    }
    # evidence/ describes runs against /repo itself; a run against another tree (VERIF_REPO, used for
    # trying seeded changes in a scratch worktree) leaves it alone
    evdir = os.path.join(V.VERIF, "evidence") if os.path.realpath(V.REPO) == "/repo" else os.path.join(V.BUILD, "evidence-other-tree")
    os.makedirs(evdir, exist_ok=True)
    with open(os.path.join(evdir, f"{prop.pid}.json"), "w") as f:
        json.dump(ev, f, indent=1)


def run(prop, res):
    workdir = os.path.join(V.BUILD, "run", f"{prop.pid}-{res.tier}")
    os.makedirs(workdir, exist_ok=True)
    os.makedirs(os.path.join(V.BUILD, "logs"), exist_ok=True)
    rels = coq_list(prop)
    checker_cmd = (f"make -C coq -j16 {' '.join(r[:-2] + '.vo' for r in rels)} && "
                   + " && ".join(f"coqc -Q coq Chess3 coq/{r}" for r in rels) +
                   "  (Print Assumptions under every theorem; hygiene grep over coq/**/*.v)")
    import srcpins
    res.escalate, res.changed = srcpins.escalation(prop.pid, V.REPO) if res.tier == "quick" else (1.0, [])
    if res.escalate > 1.0:
        V.log(f"source differs from the pinned tree in {', '.join(res.changed[:6])}: stream case counts x{res.escalate:g}")
        res.notes.append(f"change-directed depth: {', '.join(res.changed[:12])} differ(s) from lib/source_pins.json; "
                         f"quick-tier case counts of every stream multiplied by {res.escalate:g}")
    proofs_ok = check_obligations(prop, res)
    bad = V.hygiene()
    if bad:
        res.broken.append({"kind": "obligation", "name": "hygiene (Admitted/Axiom/...)", "detail": {"hits": bad[:20]}})
    infos = []
    model_ok = True
    try:
        V.build_modelrun()
    except V.BuildError as e:
        model_ok = False
        loc = V.locate_failure(e.log) or {}
        res.broken.append({"kind": "correspondence", "name": f"executable model does not build ({e.stage})",
                           "detail": {"log": e.log[-1500:], **loc}})
    for sc in prop.streams:
        if sc.model and not model_ok:
            # still run the implementation side so that the witness search has observations
            sc2 = StreamCfg(sc.name, sc.quick, sc.thorough, sc.judge, sc.rule, model=False, race=sc.race)  # no accept: needs the model
            infos.append((sc, run_stream(prop, res, sc2, workdir)))
        else:
            infos.append((sc, run_stream(prop, res, sc, workdir)))
    if prop.extra:
        prop.extra(prop, res, workdir)
    if res.tier == "thorough" and os.environ.get("VERIF_COQCHK", "1") == "1" and proofs_ok:
        import subprocess as _sp
        try:
            rc, out = V.sh(["coqchk", "-silent", "-o", "-Q", ".", "Chess3"] +
                           ["Chess3." + rel[:-2].replace("/", ".") for rel in coq_list(prop)],
                           cwd=V.COQ, timeout=int(os.environ.get("VERIF_COQCHK_TIMEOUT", "5400")))
        except _sp.TimeoutExpired:
            # the independent re-check is an addition to the coqc build, not part of the decision: a run that
            # does not finish in time (the real-number libraries behind C19 take very long) is recorded, not failed
            rc, out = 0, "coqchk did not finish within the time limit; the coqc build and Print Assumptions stand"
        with open(os.path.join(V.BUILD, "logs", f"{prop.pid}-coqchk.log"), "w") as f:
            f.write(out)
        res.notes.append("coqchk -silent -o: " + ("ok" if rc == 0 else "FAILED") + "; " +
                         " ".join(out.strip().split("\n")[-12:])[:1500])
        if rc != 0:
            res.broken.append({"kind": "obligation", "name": "coqchk", "detail": {"log": out[-1500:]}})
    # witness search: after any break, and always in the thorough tier (and always when cheap)
    if model_ok and (res.broken or res.tier == "thorough" or True):
        witness_search(prop, res, infos)
    rc = 0
    for kid, w in res.known:
        print(f"KNOWN-FINDING: property={prop.pid} {kid} {w.get('desc', '')[:200]}")
    if res.broken and not res.violations:
        res.add_violation("unchecked", {"no_longer_checks": res.broken,
                                        "note": "a proof obligation or a correspondence broke and the witness search found no input on which the property fails"}, False)
    for path, found in res.violations:
        rc = 1
        print(f"VIOLATION property={prop.pid} replay={path}" + ("" if found else " no-failing-input-found"))
    write_evidence(prop, res, infos, checker_cmd)
    V.log(f"{prop.pid} {res.tier}: obligations {res.discharged}/{res.obligations}, cases {res.evaluations}, "
          f"violations {len(res.violations)}, {round(time.time() - res.t0, 1)} s")
    return rc


def replay(prop, res, path):
    body = json.load(open(path))
    if body.get("kind") == "witness":
        stream = body["stream"]
        sc = [s for s in prop.streams if s.name == stream][0]
        rc, out = V.run_h(["run", stream], inp=body["input"] + "\n", race=sc.race)
        impl = out.strip().split("\n")[0]
        print("input :", body.get("desc") or body["input"])
        if "original_input" in body:
            print(f"        (shrunk in {body.get('shrink_steps', '?')} steps from {len(body['original_input'].split())} to "
                  f"{len(body['input'].split())} numbers; the input the run found is kept as original_input / original_desc)")
        print("impl  :", impl)
        try:
            V.build_modelrun()
            wd = os.path.join(V.BUILD, "run", "replay")
            os.makedirs(wd, exist_ok=True)
            bad = V.judge(sc.judge, [body["input"]], [impl], wd, "replay") if sc.judge else []
        except V.BuildError as e:
            print("model does not build:", e.stage)
            return 1
        if bad:
            print(f"VIOLATION property={prop.pid} replay={path}")
            return 1
        print("property holds on this input now")
        return 0
    # unchecked obligation/correspondence: re-run the quick check
    return run(prop, res)


# ------------------------------------------------------------------------------------------------
# the properties

reg(Prop("C14", "Time budget granted to a search never exceeds the clock", ["Properties/C14.v", "Properties/C14_effects.v"],
         [StreamCfg("c14", 20000, 400000, judge="judge_c14",
                    rule="dense grid remaining in -2..257 x 15 increments x colour x 8 move times plus random "
                         "(small, 10^12-range, wild 64-bit) clock states; non-trivial = mover has a clock or a move time; "
                         "distinct by input tuple"),
          StreamCfg("c14arm", 6000, 150000, judge="judge_c14arm",
                    rule="sessions setoption Ponder / position / go ... against the real uci.Driver inside a testing/synctest bubble "
                         "(virtual time) with a search stand-in that has made 0..4 moves in place on the driver's board while it waits: "
                         "mover's clock around the margin / 1 s..2 h / up to 9*10^12 ms / absent / negative, increment 0 / small / dominating, "
                         "opponent's clock 10..10^4 times larger or smaller, move time in a fifth, 6 root positions (3 per colour), "
                         "go ponder with and without the Ponder option, ponderhit 0 ms..1000 s after the start, 0..50 lines of isready or "
                         "debug on/off at intervals from 1 ms to 4 hard limits (persistent traffic until the stop in a quarter), the GUI's "
                         "stop below / at / just above the expected deadline, up to and beyond the remaining time; every session is run twice "
                         "with only the opponent's remaining time and increment changed; non-trivial = a deadline gets armed; distinct by input tuple")],
         trusted=["hook uci/export_verif.go (VerifSoftLimit/VerifHardLimit/VerifTimedMode call the unexported methods; VerifParseUCIMove for the moves of the search stand-in)",
                  "arming of the deadline (which clock and colour the time.Timer is computed from, when it starts, that traffic during the search does not restart it) is OBSERVED on the real uci.Driver under virtual time: Go's testing/synctest bubble (fake clock, timers fire exactly) and the stand-in for search.Search are trusted",
                  "runtime, not verified: the real wall clock and the Go scheduler (how late after the deadline the timer goroutine runs and the real search notices the closed stop channel); see C13 for the protocol side"],
         assumptions=["remaining time 1..9*10^12 ms, increment 0..2^60 ms (superset of the stated 10^12 / 10^9 domain)",
                      "time.Duration(h)*time.Millisecond is int64 multiplication by 10^6",
                      "c14arm: instants up to 8*10^12 virtual ms after the start of the search (a bubble's clock starts at 2000-01-01 in int64 ns); the search leaves the driver's board in the root position whenever it is not running (C03)"],
         design_ref="5/C14"))

_BOARD_TRUSTED = [
    "hook board/export_verif.go (VerifSnapshot/VerifRestore deep copies, VerifCalcHash = calculateHash, VerifZobrist tables -> Gen/Zobrist.v)",
    "attack primitives of the model are the geometric definitions of Spec/Geometry.v (tied to the engine's magic tables by C12); they only enter make through CanEnPassant",
]
_MKSEQ_RULE = ("random walks shaped like the search's tree walk (make / null move / undo-latest, stack depth <= 40, <= 92 operations; 1.2 % long lines nesting 126..394 outstanding makes, i.e. across the 128 / 256 / 384 entry marks of the hash-history buffer, "
               "pseudo-legal-but-illegal moves made and undone at once) from G1 play-out, G2 sparse and G4 mutated positions; "
               "distinct by start position and operation list")

_C10TWO_RULE = ("two or three games alive at once (boards from board.StartPos(), from FromFEN, or of several uci.Drivers), played "
                "interleaved with different move lists; every board observed after every ply of every game (shared with C10)")
reg(Prop("C03", "Undoing a move restores the position exactly", ["Properties/C03.v", "Properties/C03_closed.v"],
         [StreamCfg("mk", 12000, 300000,
                    rule="G1/G2/G4 positions x generated (pseudo-legal, legal or not) moves and the null move; snapshot after make, "
                         "token, snapshot after undo; distinct by position and move"),
          StreamCfg("mkseq", 2500, 60000, judge="judge_c03", rule=_MKSEQ_RULE),
          StreamCfg("c10two", 63, 4000, judge="judge_c03two", rule=_C10TWO_RULE)],
         trusted=_BOARD_TRUSTED,
         assumptions=["Rep b (the three placement encodings agree, words < 2^64, ep < 64, castles < 16, non-empty hash history, clock in int16 range)",
                      "applicable b m (explicit executable predicate, implied by IsPseudoLegal / membership in the generated moves on valid positions)"],
         design_ref="5/C03"))

reg(Prop("C04", "Incremental hash and redundant board representations never drift", ["Properties/C04.v", "Properties/C04_closed.v", "Properties/C04_effects.v"],
         [StreamCfg("mkseq", 2500, 60000, judge="judge_c04", rule=_MKSEQ_RULE),
          StreamCfg("mktp", 1500, 40000, judge="judge_c04tp",
                    rule="transposition pairs a b c d / c b a d and a b c d / a d c b of legal moves from G1/G2/G4 positions, both orders legal; "
                         "non-trivial = both orders reach the same key (placement, side to move, rights, en-passant state)"),
          StreamCfg("mk", 6000, 100000,
                    rule="single make/undo with the recomputed hash after make (shared with C03)"),
          StreamCfg("c10two", 63, 4000, judge="judge_c04two", rule=_C10TWO_RULE)],
         trusted=_BOARD_TRUSTED,
         assumptions=["Rep b0 and hd (hashes b0) = calc_hash b0 at the start (established by ResetHash: C04_reset)",
                      "arbitrary Zobrist tables (Section variable); the engine's tables are regenerated into Gen/Zobrist.v for the correspondence"],
         design_ref="5/C04"))
reg(Prop("C15", "Transposition table returns only what was stored for that key", ["Properties/C15.v", "Properties/C15_effects.v"],
         [StreamCfg("c15", 4000, 150000, judge="judge_c15",
                    rule="operation sequences (store / probe / clear / resize+clear / resize) of length 5..400 on tables of "
                         "1..100, ~1000 and 32768 buckets over a pool of 6..12 keys drawn to collide (one bucket with more "
                         "signatures than lanes, same bucket+signature under another hash, same signature in another bucket, "
                         "signature 0), depths/plies 0..63, all bound types, generations incl. 254->255->0, scores around "
                         "+-(Inf+-64), +-Inv and ordinary; 6% malformed (out-of-range depth/ply/type/score, invalid sizes); "
                         "every mutating op is followed by a probe of all pool keys; non-trivial = at least 3 stores"),
          StreamCfg("c15multi", 2500, 80000, judge="judge_c15multi",
                    rule="1..4 table slots: tables created by New at the start, at random times, or after one table outgrew "
                         "its buffer (New(s); Resize(bigger); New(<=s); New(s)), 1..48 buckets, operations interleaved across the "
                         "live tables over one pool of colliding keys; 20% of the steps are groups of 2..4 LookUp calls whose "
                         "results (pointers) are kept and whose accessors are read only afterwards, first to last or last to "
                         "first (hits and misses, same and other buckets, same and other tables); the model runs independent "
                         "tables and answers a held probe with the table's content at the call; the judge projects the run on "
                         "every slot and judges each against its own abstract map; non-trivial = at least 3 stores and two live "
                         "tables or a held group"),
          StreamCfg("c15big", 9, 90, judge="judge_c15big", model=False,
                    rule="judge only: big tables (8, 16, 24 MB and odd bucket counts around them: primes, 2^k+-1, +-7) with "
                         "GOMAXPROCS part of the input (host value, 2..64); one key aimed (checked through VerifBucketIx) at each of "
                         "the first 3 and last 66 buckets and at chunk boundaries for 2..64 workers; scripts: store all; Clear; "
                         "probe all; stores; Resize(other big size)+Clear; probe all; store all; Clear; probe all - and the "
                         "shrink/regrow family: store all; Resize(smaller); Clear; no store; Resize(up, inside the old "
                         "allocation); Clear; probe all"),
          StreamCfg("m64", 200000, 10000000, judge="judge_m64",
                    rule="match64 through the VerifMatch64 hook: lanes drawn equal to the key, one bit off, key+1 (borrow "
                         "neighbour), key^0x8000, boundary patterns, random; 0..4 matching lanes")],
         trusted=["hook transp/export_verif.go (VerifMatch64, VerifConsts)",
                  "modelled, not verified: the unsafe re-slicing / aligned allocation of transp.Resize (list prefix / fresh zeroes)"],
         assumptions=["stores inside the property's domain: depth 0..63, ply 0..63, bound type 0..2, |score| <= 32000 (int16 no-wrap), table of 1..2^31 buckets",
                      "keys whose 16 signature bits are zero are excluded from the no-phantom and frame clauses (read-your-write is proved for them too)"],
         design_ref="5/C15"))
reg(Prop("C16", "Move picker yields every pseudo-legal move exactly once, hash move first", ["Properties/C16.v", "Properties/C16_closed.v"],
         [StreamCfg("c16p", 2500, 60000, judge="judge_c16p",
                    rule="random legal play-outs (0..59 plies) from the start position and the 126 roots of debug/standard.epd; "
                         "hash move in {none, generated moves (all of them on the first roots), random 15 bit encodings, own piece to a "
                         "random square, generated moves with bogus promotion bits (F1)}; MoveRanker pre-driven by 0..44 random FailHigh "
                         "calls (depths up to 127: cells at +-1024); history stack 0..3 entries; lower store frame of 0..2048 moves "
                         "(incl. the overflow boundary); in 60% of the cases the weight of every yielded entry is overwritten between the Next calls as the "
                         "search does (search scores, -Inf, or the sentinel / threshold / extreme values); non-trivial = the position has moves; "
                         "every third position has 0, 1 or 2 quiet pseudo-legal moves (constructed: king walled in at a corner/edge by own blocked men and "
                         "enemy men, remaining quiet moves blocked at their targets; plus posgen.Themed / posgen.EPOnly filtered by quiet count; 5 hand-made "
                         "ones), with and without pending SEE-losing captures and good captures (tags quiet=N, bad-captures-pending); in 75% of the cases the "
                         "move store is a USED one: all 2048 slots pre-filled with stale moves and adversarial stale weights (-HashMove sentinel, "
                         "-HashMove+1, HashMove, capture band edges, random) through Alloc + Clear; distinct by (fen, hash move, drive, base, stale seed)"),
          StreamCfg("c16h", 800, 20000, judge="judge_c16h",
                    rule="sequences of MoveRanker.FailHigh calls on real positions (search-like depths, saturation with depth 30..127, "
                         "40..120 same-sign small updates, any int8 depth / int16 weight), direct History/CaptHist/Continuation.Add "
                         "sequences with arbitrary int16 bonuses, then RankQuiet of every quiet move; every touched cell read back "
                         "through LookUp; 3% malformed history-stack entries (Go panic = model panic)"),
          StreamCfg("c16s", 600, 20000, judge="judge_c16s",
                    rule="store sessions: ONE move.Store shared by several pickers (2..4 positions per case: play-outs, roots, "
                         "few-quiet positions; generated / random / no hash move; driven rankers) and by plain Alloc/Push/Pop users, "
                         "driven by a script of legal API calls built from the usage patterns framed search-like nodes (New, Push, "
                         "Next.., Pop, children between two Next calls of the parent), unframed root (Clear, New, Next.. as picker_test.go) "
                         "with framed children, pickers of a line created ahead and run nested later, New on a used store followed by "
                         "Clear, frames of plain allocations between picker frames, Pop without a frame, cut-offs, probes of Frame(); "
                         "the model runs the same script on Model/Picker.v's store (a picker = (ix, hash, state) + the store as it is "
                         "when Next is called); judge: drained pickers yield their position's moves exactly once, hash first, cut-off "
                         "pickers only own moves without repeats, probed frames no picker worked in hold what the script allocated, no panic")],
         trusted=["hook heur/export_verif_c16.go (MoveRanker.VerifTables returns the four unexported store pointers; cells are read "
                  "with the public LookUp methods)",
                  "the picker model is abstract over the position: IsPseudoLegal's answer, the generated noisy/quiet lists and the "
                  "exchange evaluation inside RankNoisy are inputs (their correctness is C05/C01/C18); the correspondence feeds the "
                  "values the implementation produced"],
         assumptions=["hypotheses of C16_picker: IsPseudoLegal(hash move) <-> hash move among the generated moves (C05), generated moves "
                      "pairwise distinct (C01/C05), base + 1 + generated moves <= StoreSize (store_ok, DESIGN O2)",
                      "hash move encodings are the 2^15 values of the property's domain (bit 15 clear)"],
         design_ref="5/C16"))

def _c11_classify(w):
    """F6: FromFEN rejects a printed halfmove clock above 100 (recorded input class: stream c11rt,
    verdict `0 1 <clock>` = print->parse rejected, clock > 100). Anything else is a violation."""
    if w.get("stream") != "c11rt":
        return None
    v = w.get("verdict", "").split()
    if len(v) == 3 and v[0] == "0" and v[1] == "1":
        try:
            clock = int(v[2], 16)
        except ValueError:
            return None
        if clock > 100 and any(k.get("property") == "C11" and k.get("id") == "clock-range" for k in V.known_findings()[0]):
            return "id=clock-range"
    return None


reg(Prop("C11", "FEN parsing and printing are inverse and robust", ["Properties/C11.v", "Properties/C11_effects.v"],
         [StreamCfg("c11rt", 4000, 100000, judge="judge_c11rt",
                    rule="positions of G1/G2/G4 (posgen) and hand-made maximal promoted material, clock overwritten with 0..150 "
                         "and boundary values, fullmove number with boundary values up to 2^63-1; FEN() then FromFEN, all fields "
                         "compared through the snapshot hook; distinct by FEN text"),
          StreamCfg("c11str", 12000, 600000, judge="judge_c11str",
                    rule="byte strings: every prefix of canonical FENs, byte replace/flip/delete/insert, missing/duplicated/swapped "
                         "fields, separators, malformed ranks, overflowing numbers, non-ASCII, random bytes; FromFEN under recover "
                         "and epd.Parse on the string + 5 byte suffix; distinct by input"),
          StreamCfg("c11uci", 3000, 60000, judge="judge_c11uci",
                    rule="two `position` commands on a fresh in-process uci.Driver followed by `fen`: accepted, parser-rejected, "
                         "gate-rejected (piece counts), startpos, too few arguments; non-trivial = second command is a fen/startpos command"),
          StreamCfg("c11seq", 1200, 40000, judge="judge_c11seq",
                    rule="sequences of 3..5 `position` commands on ONE in-process uci.Driver (re-run on every prefix), each command "
                         "also alone on a fresh driver: accepted fen/startpos with and without moves, parser- and gate-rejected FENs, "
                         "the same rejected FEN repeated with an extended move list whose extra moves are legal in the current "
                         "position, the same accepted FEN with extended/other lists, move lists stopping at a bad move; "
                         "non-trivial = a rejected FEN is repeated with an extended list"),
          StreamCfg("c11reuse", 2500, 80000, judge="judge_c11reuse",
                    rule="ONE board.Board value receives 2..4 texts in a row through board.ParseFEN (with and without "
                         "ResetHash) or epd.Parse (the tuner's reading loop), each text also parsed into a fresh Board: "
                         "canonical FENs differing in every field (en-passant set then `-`, rights, placement, clocks), "
                         "mutated and failing texts in between; non-trivial = a text without en-passant square follows one with")],
         trusted=["hooks board/export_verif.go (VerifSnapshot/VerifRestore/VerifFullMoves), uci/export_verif.go (VerifBoard)",
                  "strings.Fields / strings.Join / bufio.Scanner of the UCI input path are outside the model (the stream hands the "
                  "tokens to both sides and checks that strings.Fields returns them unchanged)",
                  "fmt %d / %c and strconv.Itoa are modelled by itoa / square_string (tied by the c11rt stream)"],
         assumptions=["round trip: halfmove clock 0..100 (F6: the parser's range, pinned by the test-suite), fullmove number 1..2^63-1",
                      "wf: the three encodings of the placement agree (no chess validity needed)"],
         classify=_c11_classify, design_ref="5/C11"))

def c12_refine(w):
    """Witness refinement for C12 (never classifies as known): the judge names the first failing
    lookup of a batched slider case; rewrite the witness into that single lookup so that the replay
    is one concrete (piece, square, occupancy)."""
    kinds = ["bishop", "rook", "king", "knight", "pawn-capture", "pawn-push", "between"]
    try:
        v = w["verdict"].split()
        kind = int(w["input"].split()[0], 16)
        if len(v) == 6 and v[0] == "0" and kind in (0, 1):
            sq, occ, obs, exp = v[2], v[3], v[4], v[5]
            w["batch_input"] = w["input"][:400]
            w["input"] = f"{kind:x} {sq} {occ}"
            w["impl_output"] = obs
            w["desc"] = f"{kinds[kind]} sq={int(sq, 16)} occ=0x{occ} observed=0x{obs} geometric=0x{exp}"
            w["replay_hint"] = f"echo '{w['input']}' | build/bin/h run c12"
        elif len(v) == 6 and v[0] == "0" and kind < len(kinds):
            w["desc"] = f"{w.get('desc', '')} observed=0x{v[4]} geometric=0x{v[5]}"
    except (ValueError, IndexError, KeyError):
        pass
    return None


def _c12_configs(prop, res, workdir):
    """The attack tables are filled once at process start; a fill that depends on the scheduler
    configuration (GOMAXPROCS, number of CPUs) would be invisible to a single process. Re-run the
    implementation side of stream c12 in fresh processes under other GOMAXPROCS values and require the
    same answers as the run the model and the judge have seen."""
    prefix = os.path.join(workdir, "c12")
    if not os.path.exists(prefix + ".in"):
        return
    ins, impl, desc = (V.read_lines(prefix + s) for s in (".in", ".impl", ".desc"))
    if res.tier == "quick":
        idx = list(range(0, len(ins), max(1, len(ins) // 1500)))   # a spread sample incl. every kind
    else:
        idx = list(range(len(ins)))
    sample = "\n".join(ins[i] for i in idx) + "\n"
    cpus = os.cpu_count() or 1
    tried = []
    for g in sorted(set([1, 2, 3, 5, 6, 7, 12, max(1, cpus - 1), cpus + 1])):
        env = dict(V.ENV, GOMAXPROCS=str(g))
        rc, out = V.sh([os.path.join(V.BIN, "h"), "run", "c12"], cwd=V.BUILD, inp=sample, env=env, timeout=1800)
        got = out.split("\n")
        tried.append(g)
        for k, i in enumerate(idx):
            if k >= len(got) or got[k].split() != impl[i].split():
                w = {"stream": "c12", "input": ins[i], "desc": f"GOMAXPROCS={g}: " + (desc[i] if i < len(desc) else ""),
                     "impl_output": got[k] if k < len(got) else "", "impl_output_default_config": impl[i],
                     "verdict": "0 20 (answer depends on GOMAXPROCS)",
                     "replay_hint": f"echo '{ins[i][:200]}...' | GOMAXPROCS={g} build/bin/h run c12"}
                res.add_violation("witness", w, True)
                res.notes.append(f"c12: answers under GOMAXPROCS={g} differ from the default configuration")
                return
        res.evaluations += len(idx)
    res.notes.append(f"c12 implementation side repeated in fresh processes under GOMAXPROCS {tried} (host has {cpus} CPUs): "
                     f"{len(idx)} cases each, identical answers")
    # cold start, concurrent first use: the first lookups of a fresh process come from 12 goroutines started
    # 0 / 20 / 150 / 400 microseconds apart (tables built lazily, or flagged ready too early, hand a late
    # worker a half-built table); every worker must give the answers of the default run
    cold_idx = idx[::max(1, len(idx) // 160)]
    cold = "\n".join(ins[i] for i in cold_idx) + "\n"
    tried_cold = []
    for stagger in (0, 20, 150, 400):
        for rep in range(2):
            env = dict(V.ENV, VERIF_C12_COLD=f"12 {stagger}", GOMAXPROCS=str(max(4, min(cpus, 16))))
            rc, out = V.sh([os.path.join(V.BIN, "h"), "list"], cwd=V.BUILD, inp=cold, env=env, timeout=600)
            got = out.split("\n")
            for wk in range(12):
                for k, i in enumerate(cold_idx):
                    j = wk * len(cold_idx) + k
                    if j >= len(got) or got[j].split() != impl[i].split():
                        w = {"stream": "c12", "input": ins[i],
                             "desc": f"fresh process, 12 goroutines started {stagger} us apart, worker {wk}: " + (desc[i] if i < len(desc) else ""),
                             "impl_output": got[j] if j < len(got) else "", "impl_output_default_config": impl[i],
                             "verdict": "0 21 (answer of a first lookup made while other goroutines make theirs)",
                             "replay_hint": f"echo '{ins[i][:200]}...' | VERIF_C12_COLD='12 {stagger}' build/bin/h list"}
                        res.add_violation("witness", w, True)
                        res.notes.append(f"c12: cold concurrent first use (stagger {stagger} us) gives other answers")
                        return
            res.evaluations += 12 * len(cold_idx)
        tried_cold.append(stagger)
    res.notes.append(f"c12 cold start: first lookups of a fresh process from 12 goroutines staggered by {tried_cold} us "
                     f"(twice each): {len(cold_idx)} cases per worker, identical answers")



reg(Prop("C12", "Attack tables equal ray-walking geometry for every square and occupancy", ["Properties/C12.v", "Properties/C12_effects.v"],
         [StreamCfg("c12", 13000, 1000000, judge="judge_c12",
                    rule="both tiers: EVERY subset of every relevant-occupancy mask of every square (107 648 lookups, own "
                         "carry-rippler from the empty set) through attacks.BishopMoves/RookMoves, in batches of up to 512 lookups "
                         "per case (a case is one line); full-board occupancies (all ones, complement of the mask, random "
                         "uniform/sparse/dense): 64 per square and slider in the quick tier, n/128 in the thorough tier; every "
                         "king/knight cell; pawn captures/pushes for every single square and colour plus special and random pawn "
                         "sets (256 / 20 000 per kind and colour); every InBetween cell (4096); distinct by input line")],
         trusted=["hook attacks/export_verif.go (VerifGetTables copies the constant tables; VerifBishopCell/VerifRookCell "
                  "are used only to read the array lengths 512/4096)",
                  "the init-time fill loop, the reference walkers and initInBetween are hand-modelled (Model/Attacks.v) and tied "
                  "to the code by the correspondence stream (exhaustive over mask subsets in the thorough tier); the constants "
                  "are translated"],
         assumptions=["squares are 0..63 (anything else is an index out of range in Go)",
                      "pawn sets are 64-bit bitboards (b < 2^64); slider occupancies are arbitrary"],
         classify=c12_refine, extra=_c12_configs,
         design_ref="5/C12"))

# ------------------------------------------------------------------------------------------------
# Layer A of C06 / C07 / C08: the control skeleton of search.go (translator harness/cmd/gen/skel.go
# -> Gen/SearchSkel.v, verified checkers Model/SkelCheck.v, soundness Proofs/Skel*.v). No stream:
# the tie to /repo is the translator, re-run on every check.

def also_check(*rels):
    """Prop.extra hook: re-check further Properties files (e.g. the Layer A file next to a Layer B
    file of the same property), adding their theorems to the obligations of the run."""
    def extra(prop, res, workdir):
        for rel in rels:
            names = V.theorem_names(rel)
            res.obligations += len(names)
            res.theorems = list(getattr(res, "theorems", [])) + names
            ok, out = V.coq_make([rel[:-2] + ".vo"])
            if ok:
                ok, out = V.coqc_file(rel)
            if not ok:
                loc = V.locate_failure(out) or {"file": rel, "statement": None, "error": out[-800:]}
                res.broken.append({"kind": "obligation", "name": f"{loc.get('file')}:{loc.get('statement')}", "detail": loc})
                V.log(f"proof obligation broken: {loc.get('file')} {loc.get('statement')}")
                continue
            blocks = V.parse_assumptions(out)
            axioms = sorted(set(a for b in blocks for a in b))
            res.assumptions = sorted(set(res.assumptions) | set(axioms))
            unexpected = [a for a in axioms if a not in prop.allowed_axioms]
            if unexpected:
                res.broken.append({"kind": "obligation", "name": "Print Assumptions allow-list (" + rel + ")",
                                   "detail": {"unexpected_axioms": unexpected}})
                continue
            res.discharged += len(names)
    return extra


SKEL_TRUSTED = [
    "translator harness/cmd/gen/skel.go (go/ast walk of search/search.go + search/state.go): its table of recognised "
    "calls (effect atoms vs reads: Board.InCheck/Threefold/Hash/CaptureSq/IsCheckmate/IsStalemate, eval.Eval, "
    "Table.LookUp/HashFull, MoveRanker.RankNoisy/RankQuiet, Store.Frame, Stack.Top, pv.active, picker.Move/YieldedMoves "
    "are reads; packages fmt/strings/time/os/params/heur/move/transp do not reach tracked state); methods called on and "
    "writes through local values (move-store slices, *move.Weighted, table entries read-only) do not change tracked "
    "state; functional options only configure the request; every other call or assignment touching b, s.tt, s.ranker, "
    "s.ms, s.hstack, s.pv, s.aborted, s.gen, opts.Counters.Nodes, opts.PonderHit fails closed",
    "pointer aliasing is not tracked: a move expression (m, m.Move, pseudo.Move) is taken to denote the same move at "
    "MakeMove and UndoMove when none of its identifiers is assigned in between; recognised conditions (IfC) are "
    "comparisons of integer/boolean local variables whose address is not taken",
    "hand-written models of Search.abort (sticky flag, poll of opts.Stop) and Search.incrementNodes, pinned to the "
    "source text of the two functions (C08_abort_source / C08_incrementNodes_source)",
    "semantics of Go control flow as modelled in Model/Skel.v (if/for/range/switch/select/break/continue/forward goto/"
    "return/defer; panics such as stack overflow of s.hstack or the move store are outside: hypothesis store_ok of DESIGN 5/C06)",
]

reg(Prop("C06skel", "Layer A of C06: board, move store and history stack untouched by a search, for every abort point",
         "Properties/C06_skel.v", [], trusted=SKEL_TRUSTED,
         assumptions=["C03 (undo after make is the identity) as the explicit hypotheses undo_make_id / undo_null_id of the theorems",
                      "partial by design: Layer B (decision logic, returned move) is a separate development"],
         design_ref="5/C06 Layer A"))
reg(Prop("C07skel", "Layer A of C07: every pv.insert reads the line of the child just searched under that move",
         "Properties/C07_skel.v", [], trusted=SKEL_TRUSTED,
         assumptions=["partial by design: legality of the lines is Layer B + C01"],
         design_ref="5/C07"))
reg(Prop("C08skel", "Layer A of C08: node budget never exceeded; abort checked before persistent stores",
         "Properties/C08_skel.v", [], trusted=SKEL_TRUSTED,
         assumptions=["stores that may run with the abort flag set: only alphaBeta's final insert (null-move path), see Properties/C08_skel.v",
                      "node counter arithmetic is not wrapped at 2^63"],
         design_ref="5/C08"))

reg(Prop("C18", "Exchange evaluation matches the capture-sequence minimax it approximates", ["Properties/C18.v", "Properties/C18_effects.v"],
         [StreamCfg("c18", 100000, 1500000, judge="judge_c18",
                    rule="cases (not positions) 40 % posgen G1/G2/G4, 30 % battery generator (B0 stacked sliders/pawns on the rays "
                         "aimed at one square, knights and kings around it; Bep en passant, often with a rook/queen on the file "
                         "beyond the captured pawn; Bpr promotion), 30 % same-kind generator Bsk (promoted material: per side 1-2 "
                         "groups of 2-3 attackers of ONE kind - bishops on one colour complex, queens, rooks, knights, both pawns "
                         "(target often on the b-/g-file so that one is a rook pawn) - attacking the target directly, often from "
                         "the rim, each possibly with an own/enemy bishop/queen/rook directly behind it; random directions give "
                         "both orders of square numbering) x every legal move (Bsk: every move onto the target, 12 % of the others) "
                         "x piece-value table in force (75 % the table of the source; 25 % configuration mode: the exported heur.PieceValues is set for the call to one of 7 fixed alternative tables or a random monotone table pawn < knight <= bishop < rook < queen < king inside the no-wrap domain, restored afterwards; the table is part of the input, model and judge use it) "
                         "x thresholds {v-1, v, v+1} around every partial balance of the capture sequence (in the table in force), a +-queen ladder, 0 and "
                         "(10 %) the int16 extremes; one case = (position, move); tags samekind>=2[+xray[-behind-lowest|-behind-higher|"
                         "-behind-inner-with-rim-sibling]]:K count the cases in which a side attacks the target with >= 2 pieces of kind "
                         "K, one of them with an x-ray piece behind it (the lowest-square one / another one / a non-rim one while a "
                         "sibling stands on the rim); every pawn move onto the 3rd/6th rank and every eighth other case is ALSO evaluated after board.ParseFEN of the same position into a re-used board that held an en-passant square (tag also-on-reused-board; a deviating answer is the one reported); "
                         "non-trivial = at least one recapture is possible; distinct by FEN + move + table")],
         trusted=["the theorems are about the table of the source (Gen/SeeConsts.v); other tables in force are covered by the "
                  "correspondence and the judge on the table-parametric copies Model/SeeT.v / Spec/SeeSpecT.v, whose instance at the "
                  "generated table is proved equal to the model/specification of the theorems (C18_table_instance)",
                  "attack primitives of the model are the geometric definitions (Spec/Geometry.v via Model/Att.v); the "
                  "engine's magic tables are tied to them by C12 and, here, by the c18 stream running the real tables",
                  "judge_c18 (Spec/SeeSpec.v all_balances) enumerates every choice among equally valued least attackers"],
         assumptions=["threshold within -20000..20000 (outside, the int16 Score arithmetic of see.go may wrap); "
                      "thresholds outside are compared with the model but not judged",
                      "hypotheses of C18/C18_seq: wf_board (redundant board encodings agree), move_ok (origin occupied, engine's "
                      "en-passant test = pawn moving diagonally onto an empty square, promotion bits only on a pawn and only "
                      "Knight..Queen), captured piece not a king; implied by valid position + legal move and re-checked by the "
                      "judge (wf_boardb, move_okb) on every generated case",
                      "the king may capture only when the other side has no attacker under the occupancy before the king moves, "
                      "and its capture ends the sequence (x-rays through the king's own square are not considered, as in the code)"],
         design_ref="5/C18"))
# ------------------------------------------------------------------------------------------------
# C06 / C07 / C08: decision layer of the search (Layer B), PV buffer, differential streams.
# Layer A (generated control skeleton of search.go) adds further Properties files to the lists.

SEARCH_TRUSTED = [
    "hooks search/export_verif.go (VerifAborted, VerifGen, VerifNewPV/Insert/SetNull/Line, VerifPVSize), "
    "board/export_verif.go (VerifSnapshot), uci/export_verif.go (VerifParseUCIMove), transp/export_verif.go (VerifLen, VerifBucket)",
    "Layer B models one root call s.alphaBeta(...) + s.abort(opts) as one answer of an abstract oracle (Section variable); "
    "hypotheses about the answers are stated in each theorem; what alphaBeta itself does is Layer A (skeleton) and the differential streams",
    "legal move lists, final-root flags and PV replays on the harness side come from Go movegen + MakeMove/InCheck + Threefold/FiftyCnt (C01/C02/C10 cover those)",
]

SEARCH_MODEL_RULE = "whole searches on a real search.Search vs the closed executable model coq/Model/Search.v (alphaBeta, quiescence, picker, table, history tables, PV buffer, iterative deepening composed from the component models): every info line (depth, score, nodes, hashfull, variation), score/move/ponder, Counters.Nodes, abort flag, generation, board snapshot equality, and after each case every non-empty table bucket and every non-zero history/capture/continuation cell; roots = the 40 fixed C06 roots (in check, single reply, promotion, en passant, clocks 97..101, repetitions through histories, mate, stalemate), hard budgets 0..12 (thorough 0..120) on 9 roots, odd int8 depth limits, random depth limits 1..4 (5), random hard budgets, soft-then-hard replays, short games, abort-then-search, two roots on one engine, all three limits; tables 32000 B / 32 KB / 64 KB / 1 MB; standard.epd roots and random walks; node cap 3000 (8000) per request; distinct by case"
SEARCH_MODEL_TRUSTED = [
    "closed search model coq/Model/Search.v: the stop channel, pondering and time limits are not modelled (node and depth limits only); "
    "Go panics (move store exhausted, history stack overflow, index out of range) are the model outcome Panic; recursion on explicit fuel",
    "the engine's private fields tt and ranker are reached by the stream 'search' through reflect/unsafe (no hook exists); cells are read "
    "through transp.VerifBucket and heur.VerifTables + the public LookUp methods",
]

_C10REUSE_RULE = ("ONE uci.Driver given 2..5 position commands in a row (start-position lists that are transposed / replaced / "
                  "extended / unrelated variants of one another, `position fen X [moves ..]` for other roots in between, ucinewgame "
                  "for some); after each command the driver's board must be the position THAT command describes (all six FEN fields "
                  "from Spec/Chess.succ_spec); shared with C10")
reg(Prop("C06", "Search returns a legal move unless the game is over; board left untouched",
         ["Properties/C06.v", "Properties/C06_skel.v", "Properties/C06_model.v", "Properties/C06_closed.v", "Properties/C06_model2.v", "Properties/C06_bounds.v", "Properties/C06_effects.v"],
         [StreamCfg("c06", 20000, 150000, judge="judge_c06", model=False,
                    rule="40 fixed roots (in check, single reply, promotion, en passant, clocks 97..101, 2nd/3rd/4th occurrence "
                         "through histories, mate, stalemate, 16 queens) x {every hard node budget k in 0..300 (quick) / 0..2000+ "
                         "(thorough; as many as the case budget allows, up to 20000); depth limits -128..127; soft limits; stop before start / between iterations / by a watcher; "
                         "tables 32 KB and 1 MB}, plus standard.epd roots and random walks with warmed tables; "
                         "non-trivial = depth limit >= 1; distinct by request"),
          StreamCfg("c06uci", 300, 3000, judge="judge_c06uci", model=False,
                    rule="UCI driver with the real search: go depth <text> [nodes N] for 64 listed texts (0, negatives, 127, 128, 255, "
                         "256, 2^31, 2^63, overflow, garbage) and random integers on random fixed roots; distinct by root x text"),
          StreamCfg("c06arg", 4000, 100000,
                    rule="UCI driver with a recording search: go depth <text> for listed texts, every integer in -700..700, "
                         "neighbourhoods of +-2^7..2^62, random int64, digit strings up to 30 digits, garbage; model = uci_go_depth"),
          StreamCfg("search", 160, 2000, judge="judge_search", rule=SEARCH_MODEL_RULE),
          StreamCfg("c10reuse", 63, 4000, judge="judge_c06reuse", rule=_C10REUSE_RULE)],
         trusted=SEARCH_TRUSTED + SKEL_TRUSTED + SEARCH_MODEL_TRUSTED,
         assumptions=["C06_null_only_final and C06_move carry explicit hypotheses about the root call's answer (in-window answer: "
                      "its line starts with a playable root move; an empty line at depth >= 1 only on a final root); "
                      "store_ok (DESIGN O2: the 2048-slot move store is not overrun) is not proved, only hunted",
                      "pondering (PonderHit) is outside the model",
                      "closed search model (Properties/C06_model.v): board_restored is proved for alphaBeta / quiescence / Go of the "
                      "executable model for every class of positions closed under the moves played; on C03's invariant it rests on two "
                      "named hypotheses (gen_applicable = C03's open statement about generated moves; invariant_kept = ep_inv / castle_inv "
                      "survive make / make_null)",
                      "closed search model, legality (Properties/C06_model2.v): returned move null or playable is PROVED for representable "
                      "valid roots, tables holding only 15-bit move encodings (necessary: IsPseudoLegal ignores bit 15; kept by the search) "
                      "and a well-formed PV buffer; null-only-if-final is proved as a classification with two named anomalies "
                      "(ply-1 value above Inf; beta > 32053) and 'mate/stalemate score' in place of 'no playable move'; the outcome "
                      "OutOfFuel is not excluded (statements C06_model_no_out_of_fuel_statement, _quiescence_depth_, _gen_count_)"],
         design_ref="5/C06"))

reg(Prop("C07", "Reported variations are legal lines and agree with the move played",
         ["Properties/C07.v", "Properties/C07_skel.v", "Properties/C07_model.v", "Properties/C07_model2.v"],
         [StreamCfg("c07", 8000, 60000, judge="judge_c07", model=False,
                    rule="the C06 request sweep; every info line parsed and every variation replayed move by move on the Go board; "
                         "non-trivial = non-final root"),
          StreamCfg("c07uci", 300, 3000, judge="judge_c07", model=False,
                    rule="UCI transcripts (Ponder on; fresh and warmed 1 MB table): info lines and the bestmove/ponder line"),
          StreamCfg("c07id", 3000, 30000,
                    rule="Layer B (Model/IterDeepen.v iterative_deepen) replayed against real transcripts: predicts move, ponder, "
                         "number of lines, abort flag, score from the printed lines and the first legal move"),
          StreamCfg("c07pv", 500, 20000,
                    rule="random setNull/insert sequences (random plies, search-like walks, deep plies 50..62, out-of-range plies) on "
                         "the real PV buffer through VerifNewPV vs Model/Pv.v; all 64 lines compared"),
          StreamCfg("c07score", 65536, 65536,
                    rule="chess.Score.String for all 65536 int16 scores vs Model/Pv.v score_string"),
          StreamCfg("search", 160, 2000, judge="judge_search", rule=SEARCH_MODEL_RULE)],
         trusted=SEARCH_TRUSTED + SKEL_TRUSTED + SEARCH_MODEL_TRUSTED,
         assumptions=["legality of the reported line is proved for the buffer mechanics (line(ply) = m :: line(ply+1)) and observed on "
                      "the real search (c07/c07uci); the induction over the real search tree is Layer A",
                      "no claim about the move returned when no non-empty variation was reported (abort before the first completed depth >= 1)",
                      "closed search model (Properties/C07_model.v): the model's iterative deepening is proved to be Layer B instantiated "
                      "with the model's alphaBeta (under board restoration); legality of every reported line on the closed model is a "
                      "statement (C07_model_lines_legal_statement), checked per run by judge_search",
                      "closed search model, legality (Properties/C07_model2.v): every reported line legal, best = head of the last non-empty "
                      "line, ponder move legal after it are PROVED for representable valid roots, 15-bit table moves, well-formed PV buffer "
                      "(runs with outcome Ok)"],
         design_ref="5/C07"))

reg(Prop("C08", "Search is reproducible and never overspends its node budget",
         ["Properties/C08.v", "Properties/C08_skel.v", "Properties/C08_model.v"],
         [StreamCfg("c08", 150, 1000, judge="judge_c08", model=False,
                    rule="games of 4..17 plies (thorough 10..90) on two fresh engines run concurrently under busy goroutines with soft "
                         "node limits (some with depth limits / hard caps), compared on move, score, ponder, nodes and every printed "
                         "line modulo time; replay with hard budgets on a third engine; table, history tables and generation "
                         "counter compared bucket by bucket; identical follow-up searches compared"),
          StreamCfg("c08budget", 5000, 60000, judge="judge_c08budget", model=False,
                    rule="the C06 request sweep (every hard budget k): Counters.Nodes <= k"),
          StreamCfg("c08par", 45, 600, judge="judge_c08par", model=False,
                    rule="4..(3+2*NumCPU) fresh engines (own Search, own Board) released together serve the same request WITHOUT "
                         "WithCounters - hard budget 8k..38k nodes / soft limit with hard cap (datagen style) / soft only, 1-2 plies, "
                         "x4 in the thorough tier - and must reproduce a solo run (itself run twice): move, score, ponder, nodes "
                         "and every printed line modulo time; node counts read from the info lines must not pass the budget"),
          StreamCfg("c08clear", 36, 400, judge="judge_c08clear", model=False,
                    rule="an engine serves k tiny searches (depth 1 or 1..50 nodes on varying roots), k in {0,1,2,255,256,257,511,512,513} "
                         "(the generation counter is a byte) and random k <= 600, is cleared by Search.Clear or by ucinewgame through "
                         "a UCI driver, and must then equal a fresh engine: digest of every table bucket, history / capture / "
                         "continuation cell and the generation counter, and the answer to a follow-up request of a few thousand nodes"),
          StreamCfg("search", 240, 6000, judge="judge_search", rule=SEARCH_MODEL_RULE)],
         trusted=SEARCH_TRUSTED + SKEL_TRUSTED + SEARCH_MODEL_TRUSTED + [
             "determinism with respect to scheduling and wall clock is OBSERVED (two engines in parallel goroutines under CPU load), not proved: "
             "the Go runtime is outside the model; that one Search instance is used by one goroutine only is a reading of the source",
             "the engine's private fields tt and ranker are read by the harness through reflect/unsafe for the state comparison (no hook needed)"],
         assumptions=["time limits excluded (soft/hard node and depth limits only)",
                      "C08_soft_hard is proved for the decision layer under the stated oracle hypotheses (a call within the budget answers as "
                      "without one; every root call counts at least one node); that alphaBeta satisfies them is Layer A + observation",
                      "closed search model (Properties/C08_model.v): nodes_le_budget, search_deterministic (independence of the record's "
                      "debugging fields) and the soft/hard replay are proved of the executable model of the whole search without hypotheses; "
                      "determinism covers runs that return (outcome Panic / OutOfFuel agreement is a statement only)"],
         design_ref="5/C08"))

# ------------------------------------------------------------------------------------------------
# C10

def _c10_classify(w):
    """Only the recorded class: the judge's clause 2 (root FEN carries an en-passant square without a
    legal en-passant capture, the miscounted ply has the ROOT's key, and the reported count is the true
    count with the root left out), and only while KNOWN_FINDINGS.txt lists it."""
    if w.get("verdict", "").split()[:2] != ["0", "2"]:
        return None
    known, _ = V.known_findings()
    for k in known:
        if k.get("property") == "C10" and k.get("id") == "fen-ep-flag":
            return "id=fen-ep-flag"
    return None


def _c10_extra(prop, res, workdir):
    """Evidence notes: hash collisions measured by the generator (two different position keys with
    one Zobrist hash), and what the judge clauses mean."""
    try:
        stats = json.load(open(os.path.join(workdir, "c10.stats.json")))
    except OSError:
        return
    tags = stats.get("tags", {})
    res.notes.append(
        f"hash collisions (two different position keys, one Zobrist hash) measured over all positions of this run: "
        f"{tags.get('HASH-COLLISION', 0)} histories affected, {tags.get('no-hash-collision', 0)} histories free of them "
        "(a collision is not a violation by itself; it is the named hypothesis no_collision of C10_true)")
    res.notes.append(
        "trusted links of C10_true (explicit premises, Spec/RepLinks.v): step_link (C03/C04 + C02 in one statement: one MakeMove "
        "with a legal move on a board that represents position p up to the two clocks keeps Rep, leaves calculateHash of the "
        "new board as newest history entry, and the new board represents succ_spec p m - the en-passant square recorded iff a "
        "capture is legal), valid_link (valid_step), no_collision (64-bit hashing cannot be injective), normal_ep of the root "
        "(finding fen-ep-flag, C10_fen_ep_refuted)")
    res.notes.append(
        "finding fen-ep-flag also contradicts the transposition corollary of C04 when one of the two move orders is "
        "empty: root (hash with en-passant file) vs. a shuffle returning to the same position (hash without)")


reg(Prop("C10", "Repetition count equals true recurrences of the position in the game", ["Properties/C10.v", "Properties/C10_closed.v", "Properties/C10_effects.v"],
         [StreamCfg("c10", int(os.environ.get("VERIF_C10_N", "63")), 8000, judge="judge_c10",
                    rule="game histories of up to 400 plies (scripted knight/king/rook oscillations incl. castling rights "
                         "lost inside a cycle and en-passant rights that arise and lapse, capturable and pinned; random "
                         "play-outs with a 20-50 % undo bias; random prefixes followed by cycles of 4, 6 and 8 plies "
                         "interleaved with irreversible moves; roots carrying an en-passant square), each observed after "
                         "EVERY ply through MakeMove and through consecutive UCI position commands, plus a FEN reload in "
                         "the middle; non-trivial = some position of the history occurs at least twice; distinct by input"),
          StreamCfg("c10two", int(os.environ.get("VERIF_C10_N", "63")), 4000, judge="judge_c10two",
                    rule="two or three games ALIVE AT ONCE, played interleaved (round-robin, one after the other, random bursts) "
                         "with different repetition-rich move lists of 2..145 plies: boards from board.StartPos(), from FromFEN "
                         "(control, also other roots) or the boards of several uci.Drivers; after every ply of every game "
                         "Threefold, Hash()==calculateHash() and the history length of EVERY board; final snapshots incl. the "
                         "whole hash history; everything undone; ResetHash on a used board followed by a new start board; "
                         "non-trivial = the games differ and some position recurs"),
          StreamCfg("c10reuse", int(os.environ.get("VERIF_C10_N", "63")), 4000, judge="judge_c10reuse",
                    rule="ONE uci.Driver given 2..4 `position startpos moves` commands in a row where the next list is not a "
                         "continuation of the previous one: at least as long with the SAME move at the previous list's last "
                         "index (two moves of one side transposed, or one move replaced, rest replayed), unrelated, shorter, "
                         "honest continuations; ucinewgame / position fen <startpos> in between for some; and `position fen X [moves ..]` "
                         "for other valid roots X between start-position lists, with the patterns A; fen X; A+tail - A; fen X moves ..; A - "
                         "fen X moves B; startpos moves B+tail - A; ucinewgame; fen X; A+tail; after each command all "
                         "attributes of the driver's board (FEN fields), Threefold, history length, Hash()==calculateHash(); "
                         "non-trivial = a transposed/replaced list follows a startpos list without reset")],
         trusted=["hooks uci/export_verif.go (VerifBoard, VerifParseUCIMove) and board/export_verif.go (snapshot/restore)",
                  "in-process uci.Driver fed through a pipe and synchronised with isready/readyok; search replaced by a stub",
                  "named premises of C10_true: step_link (C03/C04 + C02), valid_link (valid_step), no_collision, "
                  "normal_ep of the root (see notes)"],
         assumptions=["no_collision: different position keys of one history have different Zobrist hashes (measured every run)",
                      "the root does not carry an en-passant square without a legal en-passant capture (known finding fen-ep-flag)"],
         extra=_c10_extra, classify=_c10_classify, design_ref="5/C10"))

reg(Prop("C20", "Each training position is processed exactly once per tuning epoch", "Properties/C20.v",
         [StreamCfg("c20_shuffle", 1200, 30000, judge="judge_c20_shuffle",
                    rule="shuffleIndex for every index of every n <= 160 (thorough 1100) under small, negative and random "
                         "64-bit epochs; the whole Feistel permutation for 0..9 bits; n = 2^k, 2^k+-1 for k <= 63 and random n of "
                         "every magnitude with sampled and adjacent indices; feistel for widths 0..64; roundFunc; "
                         "non-trivial = n > 1; distinct by input tuple"),
          StreamCfg("c20_file", 900, 12000, judge="judge_c20_file",
                    rule="files of 0..240 lines (lengths 1..160, near-4096 share), blank lines at start/middle/end, last line "
                         "with/without newline, binary and tiny alphabets (duplicate lines), written to disk and read through "
                         "NewChunker/Open/Read: one window [start,end), the tuner's Batches/Chunks schedule, or fixed-size "
                         "windows; refill buffer sizes from max-line-length upward when the hook epd/export_verif_c20.go is "
                         "present (else backingBytes); about a fifth of the files with six or more lines are read as a "
                         "multi-chunk SESSION (2..4 windows that partition the index range, several chunks open at once, reads "
                         "interleaved line by line, EOF/Close in either order, Close without EOF and re-open, Rewind, Read after "
                         "EOF, second Close; kinds finish-then-two-at-once / round-robin / abandon-rewind / random) or through "
                         "ONE tuning.Batches value hoisted out of a loop over 2..3 epochs; every case starts from emptied "
                         "sync.Pools (two collections) on one P, so that a failing input fails again in the replay; "
                         "non-trivial = at least two non-blank lines; distinct by input"),
          StreamCfg("c20_batch", 3000, 60000, judge="judge_c20_batch",
                    rule="Batches(n) for boundary and random n < 60 batches; Chunks of batch-shaped, chunk-multiple+-1 and "
                         "arbitrary (also empty/inverted/over-long) ranges; 30 % RE-USE cases: 1..3 iter.Seq values (Batches / "
                         "Chunks of different arguments) obtained first, then 2..5 traversals: the same value again, after a "
                         "break at a random item, another (or the same) value ranged to its end inside the loop body, values "
                         "interleaved; and one Batches value ranged 2..3 times with Chunks(batch) inside (hoisted schedule) - "
                         "every traversal has to yield the whole partition again; non-trivial = non-empty range"),
          StreamCfg("c20_huge", 2, 12, judge="judge_c20_huge", model=False,
                    rule="files of 9 and 17 MiB (thorough: up to 40 MiB, i.e. beyond the 32 MiB read buffer) generated from a "
                         "seed, with a non-blank line starting exactly on every multiple of 1 MiB (so on 4 / 8 / 16 / 32 MiB), "
                         "lines ending exactly there and blank lines next to them, read through the tuner's Batches/Chunks "
                         "schedule; the harness compares the multisets of delivered and expected lines, the judge reads the "
                         "counters; implementation judged by the specification only"),
          StreamCfg("c20_big", 2, 8, judge="judge_c20_file", model=False,
                    rule="files of more than NumLinesInBatch (and more than one chunk of) short lines read through the "
                         "tuner's own Batches/Chunks schedule; implementation judged by the specification only")],
         trusted=["hooks tools/tuner/epd/export_verif.go (VerifShuffleIndex/VerifFeistel/VerifRoundFunc/VerifBackingBytes) and, "
                  "optional, epd/export_verif_c20.go (VerifSetBacking: smaller refill buffer)",
                  "translator piece harness/cmd/gen/tunerconsts.go reads the literals inside feistel/roundFunc from the source "
                  "text (go/parser) and the batch constants through the compiler",
                  "modelled, not verified: os.File.ReadAt, bufio.Reader.ReadSlice (4096-byte reader: ErrBufferFull / io.EOF "
                  "behaviour as documented), slices.SortFunc (any correct sort: keys are distinct), iter.Seq plumbing",
                  "Chunk.Read returns a slice aliasing the refill buffer; the theorems are about the bytes at the time of the "
                  "return (client.go consumes the line before the next Read)"],
         assumptions=["file in the documented format for the exactly-once statement: every line newline-terminated and shorter "
                      "than the 4096-byte line reader (NewChunker fails otherwise; an unterminated last line is dropped - stated "
                      "and proved as such)",
                      "refill buffer at least as long as the longest line (backingBytes = 32 MiB in production)",
                      "1 <= line count < 2^63 (Go int), positive batch constants"],
         design_ref="5/C20"))

def _c17_activation(prop, res, workdir):
    """Term activation of the c17 inputs: run the extracted measurement (Model/EvalAct.v run_c17act) over
    the generated cases and record, per evaluation term x phase x colour, in how many cases the term
    contributed.  Goes into input_distribution as `c17:term:<group>-<mg|eg>:<white|black>`; groups that
    are active in fewer than 1 % of the cases are listed in the notes."""
    prefix = os.path.join(workdir, "c17")
    if not os.path.exists(prefix + ".in") or not os.path.exists(os.path.join(V.BIN, "modelrun")):
        return
    m = re.search(r"\(\* mark_names: ([^*]*)\*\)", open(os.path.join(V.COQ, "Gen", "Coeffs.v")).read())
    if not m:
        res.notes.append("c17 activation: no mark_names line in Gen/Coeffs.v")
        return
    groups = m.group(1).split()
    names = [f"{g}-{ph}:{c}" for g in groups for ph, c in (("mg", "white"), ("mg", "black"), ("eg", "white"), ("eg", "black"),
                                                          ("mg", "colours-differ"), ("eg", "colours-differ"))]
    names += ["kingattack-sigmoid-mg:white", "kingattack-sigmoid-mg:black", "kingattack-sigmoid-eg:white",
              "kingattack-sigmoid-eg:black", "insufficient-material", "KNBvK-victim:white", "KNBvK-victim:black"]
    t0 = time.time()
    rc, err = V.run_model_sharded("c17act", prefix + ".in", prefix + ".act")
    if rc != 0:
        res.notes.append("c17 activation: modelrun failed: " + err[-300:])
        return
    counts, n = [0] * len(names), 0
    for line in V.read_lines(prefix + ".act"):
        toks = line.split()
        if len(toks) != len(names):
            continue
        n += 1
        for i, t in enumerate(toks):
            if t != "0":
                counts[i] += 1
    for nm, c in zip(names, counts):
        res.tags[f"c17:term:{nm}"] = c
    # the corner-distance pseudo group exists only for the attacker's end-game accumulator in KNBvK
    # (kings: always exactly one per side, so the two colours never differ in count)
    expected_zero = {"CornerDist-mg:white", "CornerDist-mg:black", "CornerDist-mg:colours-differ",
                     "PSqT.5-mg:colours-differ", "PSqT.5-eg:colours-differ"}
    low = [f"{nm}={c}" for nm, c in zip(names, counts)
           if nm not in expected_zero and not nm.startswith(("PieceValues", "insufficient")) and c * 100 < n]
    res.notes.append(f"c17 term activation measured on {n} cases in {round(time.time() - t0, 1)} s; "
                     + ("every term x phase x colour active in >= 1 % of the cases" if not low
                        else "active in < 1 % of the cases: " + ", ".join(low)))
    if low:
        V.log("c17 activation gaps: " + ", ".join(low))


reg(Prop("C17", "Static evaluation is colour-symmetric and depends only on the position", ["Properties/C17.v", "Properties/C17_effects.v"],
         [StreamCfg("c17", 5000, 100000, judge="judge_c17",
                    rule="positions from G1 play-outs / G2 sparse placements incl. promoted material / G4 mutations, "
                         "random placements of 57 special materials (bare kings, insufficient material and its neighbours, "
                         "KNBvK both colours, sole passers, promoted material) and structured families built for one colour and "
                         "colour-flipped with probability 1/2: king zone (sheltered king, 1-4 attackers of chosen kinds aimed at the "
                         "zone or at safe checking squares, few other pieces; a quiet bishops+knights mode that makes the END-GAME "
                         "king-attack score positive), supported knight outposts, connected rooks; every case = previous evaluation + "
                         "position + mirror image + 12 variants differing only in castling rights / ep / fullmove number / hash history, "
                         "all evaluated on one reused board object; non-trivial = more than the two kings on the board; distinct by FEN. "
                         "Term activation (which evaluation term contributed for which colour to which phase accumulator, and whether the "
                         "sigmoid of each king-attack score is non-zero) is MEASURED on every run with the extracted model "
                         "(Model/EvalAct.v) and reported as c17:term:* in input_distribution; terms active in < 1 % of the cases are "
                         "listed in the notes"),
          StreamCfg("c17s", 1500, 30000, judge="judge_c17s",
                    rule="SESSIONS on ONE long-lived board object (restored once, then only MakeMove / UndoMove / null moves / "
                         "ResetFifty), evaluated at chosen points only: shuffles A B A^-1 B^-1 x 1..10 that return to the same "
                         "placement and hash with a later clock and nobody evaluating in between, ResetFifty behind the "
                         "evaluation's back, make-evaluate-undo-evaluate, null moves, the same position twice; every answer is "
                         "compared with the model after the same operations and (judge) with eval.Eval of a FRESH board of the "
                         "same position; start positions G1/G2/G4 plus material-rich placements; non-trivial = contains a "
                         "shuffle or a clock reset; distinct by start FEN + operations"),
          StreamCfg("c17c", 30, 300, judge="judge_c17c",
                    rule="CONCURRENT use: 8..16 goroutines, each with its own board objects (2..4 boards each), released "
                         "together, 150..300 rounds of plain eval.Eval(b, &eval.Coefficients); every answer compared by the "
                         "harness with the sequential answer of the same call (also compared with the model). This is an "
                         "OBSERVATION of runtime behaviour on the normal build (no race detector): a data race inside eval.Eval "
                         "shows as wrong values with high but not certain probability")],
         trusted=["hooks eval/export_verif.go (VerifSigm, VerifSideOfBoard, VerifInsufficientMat), board/export_verif.go (snapshot/restore)",
                  "sliding and leaper attacks are the geometric definitions of Spec/Geometry.v (tied to the engine's magic tables by C12 and, end to end, by this stream)"],
         assumptions=["board words < 2^64, exactly one king per side, knights and bishops belong to a colour (fragment of the representation invariant; part of `valid`)"],
         extra=_c17_activation, design_ref="5/C17"))

reg(Prop("C05", "Pseudo-legality test accepts exactly the moves the generator emits", ["Properties/C05.v", "Properties/C05_closed.v", "Properties/C05_effects.v"],
         [StreamCfg("c05", 1000, 50000, judge="judge_c05",
                    rule="per position ALL 32768 encodings through Board.IsPseudoLegal and the output of GenNoisy+GenNotNoisy "
                         "(model: Model/Movegen.v; judge: accepted set = generated set on valid positions); 59 hand roots "
                         "(castling with every obstacle/attack/right state, en-passant flags, pawns on 2nd/7th ranks, the "
                         "positions of the repaired promotion-bits defect), 35 % random castling/pawn-rank/ep placements (G6), "
                         "the rest G1 play-outs / G2 sparse / G4 mutations; non-trivial = every position; distinct by FEN"),
          StreamCfg("c05u", 2400, 100000, judge="judge_c05u",
                    rule="uci.parseUCIMove on byte strings: texts of generated moves, promotion-suffix variants, random "
                         "squares, one-byte mutations (letters beyond h, digits 0/9, upper case, bytes that wrap in uint8), "
                         "random bytes of length 0..7, fixed strings; judge: a returned move is a generated move, the text of "
                         "a generated move is accepted; distinct by (FEN, string)"),
          StreamCfg("c05s", 320, 12000, judge="judge_c05s",
                    rule="SESSION: one long-lived board object per case; a search-like walk of MakeMove / UndoMove / MakeNullMove / "
                         "UndoNullMove (<= 24 operations, op format of mkseq plus a no-question flag) and after every operation, "
                         "and at every step of the final unwinding, the property verbatim TWICE in a row on that same object: all "
                         "32768 encodings through IsPseudoLegal, GenNoisy+GenNotNoisy, all 32768 encodings again (model: "
                         "fast_accepted on the model board after the same operations; judge: on every valid reported board accepted "
                         "= generated = accepted again). 27 roots with castling rights (both sides able to castle, one wing blocked / "
                         "attacked, partial rights), 35 % random castling placements, the rest play-outs; null moves biased to nodes "
                         "where a castling move is generated and undone right away; state carried by the board across questions "
                         "(caches) is visible only here; non-trivial = walk contains a null move; distinct by (FEN, walk)"),
          StreamCfg("c11seq", 800, 40000, judge="judge_c11seq",
                    rule="SESSION at the GUI gate (stream shared with C11): sequences of 3..5 `position` commands on ONE in-process "
                         "uci.Driver, each command also alone on a fresh driver; a move list that stops at a refused move, the same "
                         "command repeated / extended afterwards: the board after every command must be the one a fresh driver sets "
                         "up, i.e. only moves that passed parseUCIMove's IsPseudoLegal gate in the current position were played")],
         trusted=["hook board/export_verif.go (VerifSnapshot/VerifRestore: positions are handed to the engine as boards)",
                  "hook uci/export_verif.go (VerifParseUCIMove calls the unexported parseUCIMove)",
                  "Model/Att.v uses the geometric slider/leaper definitions; that the engine's magic tables compute them is property C12"],
         assumptions=["position valid in the sense of Spec/Chess.v `valid` (one king per side, no pawns on ranks 1/8, material reachable by "
                      "promotion, side not to move not in check, castling rights only with king and rook at home, en-passant "
                      "target behind a pawn that could just have double-pushed)",
                      "move encodings below 2^15 (bit 15 of the storage word is clear in every move the engine creates)"],
         design_ref="5/C05"))


def _c13_attach(w):
    """Not a classifier of known findings (always None): copies what the worker process printed when it
    died on this case (panic text / race report, written by harness/streams/c13.go to
    build/c13-crash-N.log: description, input, blank line, stderr) into the witness, so that it lands
    in the replay file. (A candidate of the witness shrinking is run from its own directory, named in
    w["_shrink_dir"]; its crash log is looked up there.)"""
    import glob
    for fn in sorted(glob.glob(os.path.join(w.get("_shrink_dir") or V.BUILD, "c13-crash-*.log"))):
        try:
            parts = open(fn, errors="replace").read().split("\n", 3)
        except OSError:
            continue
        if len(parts) >= 4 and parts[1].split() == w.get("input", "").split():
            w["worker_stderr"] = parts[3][:6000]
            break
    return None


reg(Prop("C13", "UCI driver answers every request exactly once under any command timing", "Properties/C13.v",
         [StreamCfg("c13", 2000, 30000, judge="judge_c13", accept="accepts_c13", model=False, race=True,
                    rule="grammar-generated conforming scripts (uci, isready, ucinewgame, setoption, position, go "
                         "infinite/depth/nodes/movetime/clock[+inc] with and without ponder, stop, ponderhit, debug, quit, EOF) "
                         "x delay vectors (random, and the line after the first go swept over 0, d-1, d, d+1 against the "
                         "search duration d; 35% back-to-back scripts: searches that end at once, next line sent the moment "
                         "bestmove is seen; 10% congested-output scripts: slow consumer of stdout + bursts of mock info lines "
                         "of 20..1200 bytes + isready bursts; 15% of the grammar scripts with a slow consumer, 30% of their "
                         "mock searches with long info lines; 4 per 1000 (thorough 10) ponder-left-alone scripts: Ponder on, "
                         "near-final root (pawnless KvK/KRvKR/KBNvK/KQvK with halfmove clock 88..100, repetition, mate, "
                         "stalemate), go ponder with the real search, 100..400 ms of silence, then ponderhit/stop/isready/"
                         "quit/EOF; 5 per 1000 ponder-node-limit scripts: go ponder nodes N with the real search on an "
                         "ordinary root, then stop/quit/EOF) "
                         "x blocking mock search or real search (25% of the grammar scripts), real uci.Driver over OS pipes "
                         "in a -race worker process; non-trivial = a command or end of input races with a search; distinct by "
                         "(script, delays)")],
         trusted=["no hook: uci.WithSearch / WithInput / WithOutput are the driver's public options",
                  "runtime behaviour that the transition system cannot exhibit is only OBSERVED during trace validation, "
                  "not proved: data races (Go race detector, worker built with -race, GORACE=halt_on_error), torn writes at "
                  "the OS level (every stdout line must match the grammar of its kind), goroutine leaks "
                  "(runtime.NumGoroutine back to the baseline after Run returns), panics (worker exit status)",
                  "modelled, not verified: Go channel / select / sync.WaitGroup / time.Timer semantics as transcribed in "
                  "Model/Uci.v (lines are atomic: one pooled buffer per Write); the search is abstract (any number of info "
                  "lines up to a bound, may end on its own, ends once stop is closed)",
                  "the GUI consumes stdout (the Writer step is always enabled) and obeys the protocol (Model/Uci.v conf)"],
         assumptions=["conforming scripts: uci/go/position/ucinewgame/setoption only after the bestmove of the previous go; "
                      "a search that does not end on its own and has no armed timer gets stop (or ponderhit where that arms "
                      "the timer / releases the mock) before the GUI waits for its bestmove; quit only as the last line",
                      "the search terminates once stop is closed and prints finitely many info lines"],
         classify=_c13_attach, design_ref="5/C13"))


# ------------------------------------------------------------------------------------------------
# C19

def c19_extra(prop, res, workdir):
    """Evidence note: the largest |float - white_relative(int)| the run observed (stream c19env)."""
    import struct
    prefix = os.path.join(workdir, "c19env")
    if not os.path.exists(prefix + ".impl"):
        return
    mx, arg, n = -1.0, "", 0
    desc = V.read_lines(prefix + ".desc")
    for i, line in enumerate(V.read_lines(prefix + ".impl")):
        t = line.split()
        if len(t) != 10 or t[0].startswith("-"):
            continue
        try:
            stm, iv = int(t[0], 16), int(t[4], 16)
            fl = struct.unpack(">d", bytes.fromhex(t[7].zfill(16)))[0]
        except ValueError:
            continue
        d = abs(fl - (iv if stm == 0 else -iv))
        n += 1
        if d > mx:
            mx, arg = d, desc[i] if i < len(desc) else ""
    res.notes.append(f"c19env: max observed |EngineRep.Eval - white_relative(Eval[Score])| = {mx:.6f} cp over {n} positions "
                     f"(envelope 2.25; proved bound for the real-number model 2.0) at: {arg[:300]}")


# exactly what Print Assumptions prints under the theorems of Properties/C19.v that use the real numbers
# (Coq.Reals: the three classical axioms of the Dedekind reals; Interval tactic: primitive floats and 63-bit
# integers with their specification axioms).  None is declared by this development; the theorems of part (b)
# and C19_envelope_partial_int16 are closed under the global context.
C19_AXIOMS = [
    "ClassicalDedekindReals.sig_forall_dec", "ClassicalDedekindReals.sig_not_dec", "Classical_Prop.classic",
    "FloatAxioms.Prim2SF_SF2Prim", "FloatAxioms.Prim2SF_valid", "FloatAxioms.SF2Prim_Prim2SF",
    "FloatAxioms.abs_spec", "FloatAxioms.add_spec", "FloatAxioms.classify_spec",
    "FloatAxioms.compare_spec", "FloatAxioms.div_spec", "FloatAxioms.eqb_spec",
    "FloatAxioms.frshiftexp_spec", "FloatAxioms.ldshiftexp_spec", "FloatAxioms.ltb_spec",
    "FloatAxioms.mul_spec", "FloatAxioms.next_down_spec", "FloatAxioms.next_up_spec",
    "FloatAxioms.normfr_mantissa_spec", "FloatAxioms.of_uint63_spec", "FloatAxioms.opp_spec",
    "FloatAxioms.sqrt_spec", "FloatAxioms.sub_spec", "FunctionalExtensionality.functional_extensionality_dep",
    "PrimFloat.abs", "PrimFloat.add", "PrimFloat.classify",
    "PrimFloat.compare", "PrimFloat.div", "PrimFloat.eqb",
    "PrimFloat.float", "PrimFloat.frshiftexp", "PrimFloat.ldshiftexp",
    "PrimFloat.ltb", "PrimFloat.mul", "PrimFloat.next_down",
    "PrimFloat.next_up", "PrimFloat.normfr_mantissa", "PrimFloat.of_uint63",
    "PrimFloat.opp", "PrimFloat.sqrt", "PrimFloat.sub",
    "PrimInt63.add", "PrimInt63.eqb", "PrimInt63.int",
    "PrimInt63.land", "PrimInt63.leb", "PrimInt63.lor",
    "PrimInt63.lsl", "PrimInt63.lsr", "PrimInt63.ltb",
    "PrimInt63.sub", "Uint63.add_spec", "Uint63.eqb_correct",
    "Uint63.eqb_refl", "Uint63.land_spec", "Uint63.leb_spec",
    "Uint63.lor_spec", "Uint63.lsl_spec", "Uint63.lsr_spec",
    "Uint63.ltb_spec", "Uint63.of_to_Z", "Uint63.sub_spec",
]

reg(Prop("C19", "The tuner optimises the same evaluation the engine plays with", "Properties/C19.v",
         [StreamCfg("c19env", 3000, 120000, judge="judge_c19env", model=False,
                    rule="positions G1 (play-outs) / G2 (sparse, promoted material) / G4 (mutations) plus hand-made "
                         "bare-king, insufficient-material, KNBvK and heavy-material positions, a third of them with the "
                         "halfmove clock overridden to 1..150; each evaluated by Eval[Score] on three loadings (restored with "
                         "hash history, without hash, board.ParseFEN) and by Eval[float64]/EngineRep.Eval with EngineCoeffs() on "
                         "the no-hash board, the ParseFEN board (this one on a coefficient object with the life of the tuner's own: zero value, "
                         "evaluated, SetVector(shipped), one parameter nudged and restored through TunedParams with an evaluation in "
                         "between) and the epd.Parse board; non-trivial = not a dead-draw "
                         "material balance; distinct by FEN"),
          StreamCfg("c19z", 400, 20000,
                    rule="same generator; Go Eval[Score] on the no-hash board against the wrapping int16 model eval_Z, the "
                         "non-wrapping model eval_U and the no_wrap predicate (proved for all valid positions: C19_no_wrap)"),
          StreamCfg("c19fresh", 12, 200, judge="judge_c19fresh", model=False,
                    rule="every case runs in a FRESH PROCESS (the harness re-executes itself): 8-16 goroutines released "
                         "together from a spin barrier (arrival windows 0..256 us) make the first calls of tuning.EngineCoeffs() "
                         "of that process, each compares its copy with float64(eval.Coefficients) (memory images) and evaluates "
                         "4 positions with EngineRep.Eval against Eval[Score]; then a sequential call; non-trivial = every case"),
          StreamCfg("c19vec", 63, 140000, judge="judge_c19vec",
                    rule="target lists: default targets (tuner order), all fields, none, unknown name, every single field, "
                         "random subsets in random order with duplicates and unknown names (thorough: every one of the 2^17 "
                         "subsets and every index of the default vector); mode 0 write/read-back/TunedParams on the zero struct, "
                         "mode 1 the finite-difference perturbation of client.go on EngineCoeffs(), mode 2 EngineCoeffs() itself; "
                         "mode 4 two or three private coefficient sets with equal or different selections whose TunedParams iterators "
                         "are obtained up front and advanced one after the other / in lockstep (iter.Pull2) / nested / interleaved with "
                         "strides, every yielded pointer located by address and marked, mode 5 concurrent workers with private sets; "
                         "non-trivial = at least one target or mode 2; distinct by input")],
         allowed_axioms=C19_AXIOMS,
         trusted=["hooks eval/export_verif.go (VerifSigm, VerifSideOfBoard, VerifInsufficientMat), board/export_verif.go (snapshot/restore)",
                  "tools/tuner/{tuning,epd,checksum} compiled from the working tree in a scratch module (the rest of the tuner module does not build offline)",
                  "coefficient positions on the Go side are offsets in the memory image of the struct (unsafe), i.e. Go's declaration-order layout of a struct of float64 arrays is trusted",
                  "modelled, not verified: reflect (field order = declaration order, Array/Float64 kinds), math.Exp, float64 arithmetic"],
         assumptions=["float64 ~ real numbers: the IEEE-754 rounding of the <= 10^3 float operations of one evaluation (magnitudes <= 10^7) and of math.Exp "
                      "is NOT modelled; it is far below the 0.24 cp that the 2.25 envelope leaves above the proved real-number bound 2.0 (named assumption float64_real_gap)",
                      "halfmove clock 0..200 (|100 - clock| <= 100; the FEN parser admits 0..100); outside it the taper factor exceeds 1 "
                      "and the int16 result may wrap"],
         extra=c19_extra, design_ref="5/C19"))

reg(Prop("C09", "Fast checkmate and stalemate tests agree with the absence of legal moves", ["Properties/C09.v", "Properties/C09_closed.v", "Properties/C09_effects.v"],
         [StreamCfg("c09", 12000, 800000, judge="judge_c09",
                    rule="constructed only-en-passant positions (G8: pushed pawn + 1-2 capturers, king on a theme line through capturer / landing square / captured pawn or in check by the pawn, sliders behind, enemy men added until the king has no flight; kept when every legal move is an en-passant capture, plus some near misses); hand-constructed hard cases (smothered/back-rank mates, pinned interposers, en-passant capture of a "
                         "checking pawn, double-push blocks, x-ray through the king, stalemates with pinned men, stalemate broken "
                         "only by en passant) with colour mirrors and single-piece mutations; small material sampled uniformly per "
                         "class from the integer-indexed enumerator (KQK KRK KPK KBNK KQKR KRKP KPKP, both colours, both sides to "
                         "move, every consistent en-passant state); themed random king-hunt positions biased to <= 2 legal moves; "
                         "play-outs / sparse placements / mutations filtered for in-check, pinned man, en-passant target or <= 2 "
                         "legal moves; non-trivial = every case; distinct by FEN"),
          StreamCfg("c09sweep", 48, 200000, judge="judge_c09",
                    rule="implementation-side sweep of the small-material index space (quick: a random 1/251 sub-lattice, "
                         "thorough: every index, about 10^8 positions of the domain): IsCheckmate/IsStalemate against the engine's own "
                         "playable-move count; every disagreement and a sample of the agreeing positions are handed to the model "
                         "and to the spec judge; the histogram keys swept-* give the volume"),
          StreamCfg("c09s", 400, 20000, judge="judge_c09s",
                    rule="sessions on ONE long-lived board: depth-first walks (depth <= 4, make / undo / null move, illegal "
                         "moves made and taken back) from constructed, themed in-check / few-flight, only-en-passant, small-material "
                         "and play-out roots; at every node before descending and again after every child (post-order) "
                         "InCheck(side to move), InCheck(other side), IsCheckmate, IsStalemate in random order and random subsets, the "
                         "domain of the two tests decided on a fresh copy; every answer is compared with the same question on a fresh "
                         "copy (VerifRestore of a snapshot), with Model/Mate.v after the same operations, and judged against the rules; "
                         "non-trivial = a post-order IsCheckmate/IsStalemate question after a child asked InCheck(side to move)"),
          StreamCfg("c09ab", 1500, 100000,
                    rule="Board.Attackers / Board.Block on positions of the shared generators with random square sets and colours")],
         trusted=["hook board/export_verif.go (VerifSnapshot/VerifRestore: building engine boards from the wire format)",
                  "harness/posgen: Valid / NormalEP are only pre-filters; the judge re-checks `valid` and `normal_ep` with the extracted spec",
                  "attack primitives: the model uses the geometric sliders/leapers of Spec/Geometry.v; that the engine's magic tables compute the same is property C12 and is exercised again by this stream"],
         assumptions=["Rep b (the three encodings of the placement agree, C04), valid (abs b), normal_ep (abs b); the theorems speak about legal_moves of the spec (C01 identifies them with the engine's playable moves)",
                      "IsCheckmate is specified only for positions in check, IsStalemate only for positions not in check (their only callers, search.go quiescence, guarantee this; outside its domain IsCheckmate panics on InBetween[kingSq][64])"],
         design_ref="5/C09"))


reg(Prop("C02", "Playing a move produces the successor position the rules prescribe", ["Properties/C02.v", "Properties/C02_closed.v", "Properties/C02_effects.v"],
         [StreamCfg("c02", 60000, 1200000, judge="judge_c02",
                    rule="fixed en-passant / clock witnesses (F2, F5 and relatives); 25 % dedicated en-passant generator "
                         "(double push next to enemy pawns with the enemy king and an own slider lined up through the "
                         "destination, capturer, origin or passed-over square; both colours); 10 % positions with the "
                         "halfmove clock set to 98..101, 126..129, 254..257, 32765, 32766; the rest G1/G2/G4 positions x "
                         "every legal move; non-trivial = every case (a legal move played), distinct by (FEN, clock, move)"),
          StreamCfg("c02uci", 3000, 60000, judge="judge_c02uci",
                    rule="fresh in-process uci.Driver per case: position startpos|fen F moves ... then fen; legal lines "
                         "of 0..24 (10 %: 60..140) plies, 60 % with one bad token in the middle (possible-but-illegal move, "
                         "random square pair, wrong promotion suffix, malformed, one byte mutated, alias spelling); "
                         "non-trivial = a non-empty move list, distinct by input"),
          StreamCfg("c10reuse", 63, 4000, judge="judge_c02reuse", rule=_C10REUSE_RULE)],
         trusted=["hooks board/export_verif.go (VerifSnapshot/VerifRestore: field copies) and the exported uci.NewDriver options; "
                  "harness/hx/fen.go (strict parser of the printed FEN into six integers, independent of board.FromFEN)",
                  "the position set up by `position fen F` is taken from board.FromFEN (FEN parsing is property C11)",
                  "attack tables = ray geometry is property C12 (Model/Att.v uses the geometric definitions; the streams run "
                  "the Go code, which uses the magic tables, against them)"],
         assumptions=["halfmove clock before the move in 0..32766 (int16 after fix cb6b25d; C02_clock states the wrap)",
                      "chain theorems: Zobrist table entries below 2^64 (zob_ok; proved for the generated tables, Example C02_zob_real_ok); "
                      "they re-establish valid_core (one king per side, side not to move not in check, consistent en-passant target), not the "
                      "remaining conjuncts of valid"],
         design_ref="5/C02"))

reg(Prop("C01", "Playable moves are exactly the legal moves of chess", ["Properties/C01.v", "Properties/C01_effects.v"],
         [StreamCfg("gen", 4000, 120000, judge="judge_c01x",
                    rule="positions: every root of harness/posgen (hand roots for castling next to/through attacked or "
                         "occupied squares, en passant incl. pins and file-edge cases, promotions, double checks, bare "
                         "kings; 127 roots of debug/standard.epd), then ~60 % random legal play-outs (<= 120 plies, biased "
                         "to captures/checks/promotions/castling/double pushes/en passant), ~30 % random sparse placements "
                         "(2-12 pieces, promoted material, castling/ep flags), ~10 % single-piece mutations; thorough tier "
                         "adds every placement of KQK, KRK, KPK (both pawn colours, both sides to move, all consistent "
                         "ep/castling states) and a strided subset of twelve 4-piece materials; every position passed the "
                         "harness filter posgen.Valid, and the judge re-checks rep_ok (violation clause 8) and Spec `valid` "
                         "(positions outside it are accepted unjudged); compared (each as a sorted list, i.e. as a multiset - emission order is not part of the property): noisy list, quiet list and playable "
                         "list against the model, and the playable list against legal_spec enumerated over all candidate "
                         "encodings (clauses 1 not legal / 2 missing / 3 duplicate); non-trivial = every such position; "
                         "distinct by FEN (placement, side to move, rights, ep target, clocks)"),
          StreamCfg("c01reach", 1200, 60000, judge="judge_c01reach",
                    rule="root (fresh history) + 1..24 legal moves played with MakeMove (play-outs biased towards double pushes that "
                         "create en-passant rights, captures, castling, promotions); the judge recomputes the reached position from "
                         "the rules alone (iterated succ_spec) and compares its legal moves with the playable moves reported after "
                         "the play-out; distinct = distinct reached FENs"),
          StreamCfg("perft", 120, 420, judge="judge_perftx", model=False,
                    rule="debug.Perft against the spec's perft (legal_moves + succ_spec): hand roots, then random roots "
                         "of debug/standard.epd, then positions reached by play; depth = the largest d <= 3 (thorough: 4) "
                         "whose tree needs <= 130 (thorough: 1500) expanded spec nodes; non-trivial = depth >= 2; "
                         "distinct by (FEN, depth)"),
          StreamCfg("c01valid", 4000, 120000,
                    rule="the harness-side domain filter posgen.Valid (and the engine's en-passant convention) against Spec "
                         "`valid` / `normal_ep` on the very positions of stream gen (same generator and seed): a position "
                         "the harness calls valid but the specification does not would be accepted unjudged by stream gen, "
                         "so the two must agree; not counted in distinct_nontrivial (same positions as stream gen)")],
         trusted=["hook board/export_verif.go (VerifSnapshot/VerifRestore: the harness builds engine boards from the wire "
                  "format and from FEN through board.FromFEN)",
                  "harness/posgen.Legal is the glue 'GenNoisy + GenNotNoisy, MakeMove, InCheck(mover), UndoMove' copied "
                  "from search.go/debug/perft.go; debug.Perft itself is run unmodified in stream perft",
                  "attack tables: the model uses the geometric sliders/leapers of Spec/Geometry.v; that the engine's magic "
                  "tables compute them is property C12 and is exercised here by the exact-list comparison of stream gen"],
         assumptions=["position valid in the sense of Spec/Chess.v `valid` (DESIGN.md 4.3: one king per side, no pawns on "
                      "ranks 1/8, promotion-reachable material, side not to move not in check, castling rights only with king "
                      "and rook at home, en-passant target only behind a pawn that could just have double-pushed incl. "
                      "ep_pred_ok); board satisfies the representation invariant Rep (Spec/Rep.v; re-checked on every "
                      "sampled board by the judge)",
                      "moves are the 15-bit encodings of move.Move (from, to, promotion piece); the Zobrist table is arbitrary"],
         design_ref="5/C01"))


# ------------------------------------------------------------------------------------------------
# registry sanity (a malformed registration must fail loudly at import time, not at run time)

for _pid, _p in PROPS.items():
    assert all(isinstance(_s, StreamCfg) for _s in _p.streams), f"{_pid}: streams must be StreamCfg objects"
    assert all(isinstance(_r, str) and _r.endswith(".v") for _r in coq_list(_p)), f"{_pid}: coq must name .v files"
    assert all(os.path.exists(os.path.join(V.COQ, _r)) for _r in coq_list(_p)), f"{_pid}: missing Properties file"
    assert isinstance(_p.allowed_axioms, set) and all(isinstance(_a, str) for _a in _p.allowed_axioms), f"{_pid}: allowed_axioms"


# the properties whose Properties/Cxx_effects.v states what the translator-side effect analysis found
for _pid in ("C01", "C02", "C04", "C05", "C06", "C09", "C10", "C11", "C12", "C14", "C15", "C17", "C18"):
    PROPS[_pid].trusted.append(EFFECTS_TRUSTED)
