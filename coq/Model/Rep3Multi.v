(* Correspondence entry points, model side, for the two multi-history streams of C10 (also used by
   C03/C04): several games alive at once ("c10two"), and one UCI driver given unrelated move lists
   one after the other ("c10reuse").  In the model every game has its own board value, so games
   cannot influence each other: each is played independently from the start board.

   c10two   input  = board-in(start) ++ [mode; g; n_1; m..; ...; n_g; m..; T; s_1 .. s_T]
                     mode 0: boards from board.StartPos(), 1: from FromFEN(FEN of start),
                     2: boards of g uci.Drivers, each sent `position startpos moves <prefix>`;
                     s_t = the game that makes its next move at step t
            output = A ++ B ++ C ++ D
              A  for t = 0 .. T (t = 0: before any move), for every game k:
                   [Threefold_k; (Hash_k == calculateHash_k); len(history_k)]
              B  for every game: board-out (all attributes and the whole hash history)
              C  (modes 0, 1) all moves undone in reverse order of the schedule; for every game: board-out
              D  (modes 0, 1, n_1 >= 1) game 1's board makes its first move again and calls ResetHash:
                   board-out ++ [(Hash == calculateHash)]; then a NEW start board is obtained the same
                   way as before: board-out ++ [Threefold]
   c10reuse input  = board-in(start) ++ [K; kind_1; n_1; payload_1 (n_1 tokens); ...]
                     kind 0: `position startpos moves ..`, 1: `ucinewgame` first,
                     2: `position fen <FEN of start> moves ..`   (payload = the moves);
                     kind 3: `position fen <FEN of X> [moves ..]`, 4: `ucinewgame` first
                     (payload = board-in(X) ++ the moves); all on ONE driver
            output = for every command: board-out without history ++ [Threefold; (Hash == calculateHash); len(history)] *)
From Coq Require Import NArith ZArith List Bool.
From Chess3 Require Import Base.Bits Model.Types Model.BoardDef Model.Board Model.Movegen Model.Rep3 Gen.Zobrist.
Import ListNotations.
Open Scope Z_scope.

Definition zflag (b : bool) : Z := if b then 1 else 0.

(* g move lists "n m_1 .. m_n", and the rest of the input *)
Fixpoint parse_lists (g : nat) (l : list Z) : list (list N) * list Z :=
  match g with
  | O => ([], l)
  | S g' =>
      match l with
      | [] => ([], [])
      | n :: r =>
          let k := Z.to_nat n in
          let '(gs, rest) := parse_lists g' (skipn k r) in
          (map Z.to_N (firstn k r) :: gs, rest)
      end
  end.

Definition obs3 (b : board) : list Z :=
  [threefold b; zflag (cur_hash b =? calc_hash zob_real b)%N; Z.of_nat (length (hashes b))].

(* counters after each step of the schedule (including the initial all-zero state) *)
Fixpoint upd_nat (l : list nat) (i : nat) : list nat :=
  match l, i with
  | [], _ => []
  | x :: r, O => S x :: r
  | x :: r, S j => x :: upd_nat r j
  end.
Fixpoint schedule_states (cs : list nat) (sched : list Z) : list (list nat) :=
  cs :: match sched with [] => [] | s :: r => schedule_states (upd_nat cs (Z.to_nat s)) r end.

(* make every move, then take them all back *)
Fixpoint play_undo (b : board) (ms : list N) : board :=
  match ms with
  | [] => b
  | m :: r => let '(b', t) := make zob_real b m in undo zob_real (play_undo b' r) m t
  end.

Definition run_c10two (l : list Z) : list Z :=
  match decode_board l with
  | Some (b, mode :: g :: rest) =>
      let start := reset_hash zob_real b in
      let '(games, rest2) := parse_lists (Z.to_nat g) rest in
      let sched := match rest2 with t :: r => firstn (Z.to_nat t) r | [] => [] end in
      let boards := map (run_boards zob_real start) games in
      let obs := map (map obs3) boards in
      let states := schedule_states (map (fun _ => O) games) sched in
      let at_state (cs : list nat) : list Z :=
        flat_map (fun oc : list (list Z) * nat => nth (snd oc) (fst oc) []) (combine obs cs) in
      let final := last states [] in
      let partA := flat_map at_state states in
      let partB := flat_map (fun bc : list board * nat => encode_board (nth (snd bc) (fst bc) start))
                            (combine boards final) in
      if mode =? 2 then partA ++ partB else
      let partC := flat_map (fun mc : list N * nat => encode_board (play_undo start (firstn (snd mc) (fst mc))))
                            (combine games final) in
      let partD := match games with
                   | (m :: _) :: _ =>
                       let b1 := reset_hash zob_real (fst (make zob_real start m)) in
                       encode_board b1 ++ [zflag (cur_hash b1 =? calc_hash zob_real b1)%N] ++
                       encode_board start ++ [threefold start]
                   | _ => []
                   end in
      partA ++ partB ++ partC ++ partD
  | _ => []
  end.

(* kinds 0 1 2: the payload is the move list, the root is the start board; kinds 3 (`position fen X
   [moves ..]`) and 4 (`ucinewgame` first): the payload is board-in(X) followed by the move list *)
(* applyMoves (uci.go): the moves are played one by one; the first one that parseUCIMove does not accept
   (= IsPseudoLegal answers no, property C05) ends the command and the board stays where it is *)
Fixpoint run_moves_accepted (b : board) (ms : list N) : board :=
  match ms with
  | [] => b
  | m :: r => if is_pseudo_legal b m then run_moves_accepted (fst (make zob_real b m)) r else b
  end.

Definition reuse_root_moves (start : board) (kind : Z) (payload : list Z) : board * list N :=
  if 3 <=? kind then
    match decode_board payload with
    | Some (bx, ms) => (reset_hash zob_real bx, map Z.to_N ms)
    | None => (start, [])
    end
  else (start, map Z.to_N payload).

Fixpoint run_reuse_cmds (start : board) (k : nat) (l : list Z) : list Z :=
  match k with
  | O => []
  | S k' =>
      match l with
      | kind :: n :: r =>
          let c := Z.to_nat n in
          let '(root, ms) := reuse_root_moves start kind (firstn c r) in
          let b := run_moves_accepted root ms in
          encode_board_nohist b ++ obs3 b ++ run_reuse_cmds start k' (skipn c r)
      | _ => []
      end
  end.

Definition run_c10reuse (l : list Z) : list Z :=
  match decode_board l with
  | Some (b, k :: rest) => run_reuse_cmds (reset_hash zob_real b) (Z.to_nat k) rest
  | _ => []
  end.
