(* Executable model of /repo/board/board.go, board/attacks.go (IsAttacked, InCheck, CanEnPassant)
   and board/zobrist.go (calculateHash): a line-by-line transliteration.  Definitions only.

   Fixed-width arithmetic is written out: bitboards and hashes are 64-bit words on N (Base/Bits.v),
   the halfmove clock is Go's int16 (wrap16), the reverse token is an unsigned word whose width and
   field layout are a parameter [l : tok_layout] (Model/TokLayout.v) of make_l / undo_l /
   make_null_l / undo_null_l, so that theorems hold for every sound layout; [make], [undo],
   [make_null], [undo_null] are these functions at the layout the source has now ([gen_layout],
   Gen/TokLayout.v, regenerated on every run).  The Zobrist tables are an argument [z : zobrist], so
   that theorems hold for arbitrary tables; Gen/Zobrist.v supplies the engine's tables for execution. *)
From Coq Require Import NArith ZArith List Bool.
From Chess3 Require Import Base.Bits Base.Word Model.Types Model.Att Model.BoardDef.
From Chess3 Require Export Model.TokLayout Gen.TokLayout.
Import ListNotations.
Open Scope N_scope.

Record zobrist := mkZobrist {
  z_piece : color -> N -> N -> N;   (* piecesRand[c][p][sq]; the engine's table has 0 for NoPiece *)
  z_stm : N;                        (* stmRand *)
  z_castle : N -> N;                (* castlingRand[i], i < 4 *)
  z_ep : N -> N                     (* epFileRand[f], f < 8 *)
}.

(* ------------------------------------------------------------------------------------------ *)
(* reverse token (type Reverse uintW, W = l_bits l)

   setX:  r = (r & ^mask) | Reverse(x)<<shift       (arithmetic of the W-bit unsigned type)
   X():   T((r & mask) >> shift)                    (T = int16 / Castles(uint8) / Square(int8) / Piece(uint8)) *)

(* x << k in the token's type *)
Definition tok_shl (l : tok_layout) (x k : N) : N := N.land (N.shiftl x k) (N.ones (l_bits l)).

(* Reverse(uint16(fc)) << shift *)
Definition tok_set_fifty (l : tok_layout) (r : N) (fc : Z) : N :=
  bor (bandn r (l_fifty_mask l)) (tok_shl l (Z.to_N (trunc16 fc)) (l_fifty_shift l)).
(* int16((r & mask) >> shift) *)
Definition tok_fifty (l : tok_layout) (r : N) : Z :=
  wrap16 (Z.of_N (shr (band r (l_fifty_mask l)) (l_fifty_shift l))).
Definition tok_set_castling (l : tok_layout) (r c : N) : N :=
  bor (bandn r (l_castling_mask l)) (tok_shl l c (l_castling_shift l)).
Definition tok_castling (l : tok_layout) (r : N) : N :=
  N.land (shr (band r (l_castling_mask l)) (l_castling_shift l)) 255.
Definition tok_set_ep (l : tok_layout) (r e : N) : N :=
  bor (bandn r (l_ep_mask l)) (tok_shl l e (l_ep_shift l)).
(* Square is int8: the conversion is the identity below 128, which is all a field of a sound layout
   ever holds (the xor of two squares) *)
Definition tok_ep (l : tok_layout) (r : N) : N := shr (band r (l_ep_mask l)) (l_ep_shift l).
Definition tok_set_capture (l : tok_layout) (r p : N) : N :=
  bor (bandn r (l_capture_mask l)) (tok_shl l p (l_capture_shift l)).
Definition tok_capture (l : tok_layout) (r : N) : N :=
  N.land (shr (band r (l_capture_mask l)) (l_capture_shift l)) 255.

(* ------------------------------------------------------------------------------------------ *)
(* addPiece / removePiece: return the board and the hash delta *)

Definition add_piece (z : zobrist) (b : board) (c : color) (p sq : N) : board * N :=
  if p =? NoPiece then (b, 0) else
  let b1 := set_cols b (updN (cols b) (cix c) (bor (colors b c) (bit sq))) in
  let b2 := set_pcs b1 (updN (pcs b1) p (bor (pieces b1 p) (bit sq))) in
  let b3 := set_sq2p b2 (updN (sq2p b2) sq p) in
  (b3, z_piece z c p sq).

Definition remove_piece (z : zobrist) (b : board) (c : color) (p sq : N) : board * N :=
  if p =? NoPiece then (b, 0) else
  let b1 := set_cols b (updN (cols b) (cix c) (bandn (colors b c) (bit sq))) in
  let b2 := set_pcs b1 (updN (pcs b1) p (bandn (pieces b1 p) (bit sq))) in
  let b3 := set_sq2p b2 (updN (sq2p b2) sq NoPiece) in
  (b3, z_piece z c p sq).

(* ------------------------------------------------------------------------------------------ *)
(* attacks on the board *)

(* IsAttacked(by, occ, target) *)
Definition is_attacked (b : board) (by_ : color) (occ target : N) : bool :=
  let other := colors b by_ in
  if negb (band (pawn_capture_moves (band (pieces b Pawn) other) by_) target =? 0) then true else
  existsb (fun sq =>
    negb (band (band (king_moves sq) (pieces b King)) other =? 0) ||
    negb (band (band (knight_moves sq) (pieces b Knight)) other =? 0) ||
    negb (band (band (bishop_moves sq occ) (bor (pieces b Queen) (pieces b Bishop))) other =? 0) ||
    negb (band (band (rook_moves sq occ) (bor (pieces b Rook) (pieces b Queen))) other =? 0))
    (bits_of target).

Definition in_check (b : board) (who : color) : bool :=
  is_attacked b (flip who) (occupancy b) (band (colors b who) (pieces b King)).

(* CanEnPassant(to): shifts = {8, -8}; Square is int8, modelled on Z *)
Definition can_en_passant (b : board) (to : N) : bool :=
  let target := bit to in
  let them := colors b (flip (stm b)) in
  let shift := match stm b with White => 8%Z | Black => (-8)%Z end in
  let king := band (pieces b King) them in
  let dest := bit (Z.to_N (Z.of_N to - shift)) in
  let origin := bit (Z.to_N (Z.of_N to - 2 * shift)) in
  let ables := band (band (bor (shr (bandn target AFileBB) 1) (shl (bandn target HFileBB) 1)) (pieces b Pawn)) them in
  existsb (fun a =>
    let able := bit a in
    let occ := bandn (bor (bor (colors b White) (colors b Black)) dest) (bor (bor target able) origin) in
    negb (is_attacked b (stm b) occ king)) (bits_of ables).

(* ------------------------------------------------------------------------------------------ *)
(* MakeMove / UndoMove *)

Definition is_en_passant (b : board) (m : N) : bool :=
  negb (ep b =? 0) && (ep b =? mv_to m) && (piece_at b (mv_from m) =? Pawn).

Definition capture_sq (b : board) (m : N) : N :=
  if is_en_passant b m then N.lor (N.land (mv_to m) 7) (N.land (mv_from m) 56) else mv_to m.

Definition new_castles (b : board) (m : N) : N :=
  let piece := piece_at b (mv_from m) in
  let a0 := if piece =? King then bor (castle_bit (stm b) false) (castle_bit (stm b) true) else 0 in
  let a1 := if (mv_from m =? A1) || (mv_to m =? A1) then bor a0 LongWhite else a0 in
  let a2 := if (mv_from m =? H1) || (mv_to m =? H1) then bor a1 ShortWhite else a1 in
  let a3 := if (mv_from m =? A8) || (mv_to m =? A8) then bor a2 LongBlack else a2 in
  let a4 := if (mv_from m =? H8) || (mv_to m =? H8) then bor a3 ShortBlack else a3 in
  bandn (castles b) a4.

Definition abs_diff (a b : N) : N := if a <? b then b - a else a - b.

(* hash ^= castlingRand[i] & hashEnable[(change >> i) & 1] *)
Definition castle_hash (z : zobrist) (change : N) : N :=
  fold_left (fun h i => if N.testbit change i then bxor h (z_castle z i) else h) [0; 1; 2; 3] 0.

(* the rook part of castling: (rook from, rook to) *)
Definition castle_rook (from to : N) : option (N * N) :=
  if (from =? E1) && (to =? G1) then Some (H1, F1)
  else if (from =? E1) && (to =? C1) then Some (A1, D1)
  else if (from =? E8) && (to =? G8) then Some (H8, F8)
  else if (from =? E8) && (to =? C8) then Some (A8, D8)
  else None.

Definition make_l (l : tok_layout) (z : zobrist) (b : board) (m : N) : board * N :=
  let from := mv_from m in
  let to := mv_to m in
  let me := stm b in
  let full' := (full b + Z.of_N (cix me))%Z in
  let hash := cur_hash b in
  let piece := piece_at b from in
  let can_ep := (piece =? Pawn) && (abs_diff from to =? 16) && can_en_passant b to in
  let csq := capture_sq b m in
  let capture := piece_at b csq in
  let change := bxor (castles b) (new_castles b m) in
  let r := tok_set_fifty l 0 (fifty b) in
  let fifty' := if (piece =? Pawn) || negb (capture =? NoPiece) then 0%Z else wrap16 (fifty b + 1) in
  let hash := bxor hash (castle_hash z change) in
  let castles' := bxor (castles b) change in
  let r := tok_set_castling l r change in
  let r := tok_set_capture l r capture in
  let put := if negb (mv_promo m =? NoPiece) then mv_promo m else piece in
  let b0 := set_castles (set_fifty (set_full b full') fifty') castles' in
  let '(b1, h1) := remove_piece z b0 (flip me) capture csq in
  let '(b2, h2) := remove_piece z b1 me piece from in
  let '(b3, h3) := add_piece z b2 me put to in
  let hash := bxor (bxor (bxor hash h1) h2) h3 in
  let hash := if negb (ep b =? 0) then bxor hash (z_ep z (sq_file (ep b))) else hash in
  let new_ep := if can_ep then (from + to) / 2 else 0 in
  let hash := if can_ep then bxor hash (z_ep z (sq_file new_ep)) else hash in
  let r := tok_set_ep l r (bxor (ep b) new_ep) in
  let b4 := set_ep b3 new_ep in
  let '(b5, hash) :=
    if piece =? King then
      match castle_rook from to with
      | Some (rf, rt) =>
          let '(c1, g1) := remove_piece z b4 me Rook rf in
          let '(c2, g2) := add_piece z c1 me Rook rt in
          (c2, bxor (bxor hash g1) g2)
      | None => (b4, hash)
      end
    else (b4, hash) in
  let b6 := set_stm b5 (flip me) in
  let hash := bxor hash (z_stm z) in
  (set_hashes b6 (hash :: hashes b6), r).

Definition undo_l (l : tok_layout) (z : zobrist) (b : board) (m r : N) : board :=
  let from := mv_from m in
  let to := mv_to m in
  let b0 := set_hashes b (tl (hashes b)) in
  let b1 := set_stm b0 (flip (stm b0)) in
  let me := stm b1 in
  let rm_piece := piece_at b1 to in
  let piece := if negb (mv_promo m =? NoPiece) then Pawn else rm_piece in
  let b2 :=
    if piece =? King then
      match castle_rook from to with
      | Some (rf, rt) => fst (add_piece z (fst (remove_piece z b1 me Rook rt)) me Rook rf)
      | None => b1
      end
    else b1 in
  let b3 := set_ep b2 (bxor (ep b2) (tok_ep l r)) in
  let b4 := fst (remove_piece z b3 me rm_piece to) in
  let b5 := fst (add_piece z b4 me piece from) in
  let b6 := fst (add_piece z b5 (flip me) (tok_capture l r) (capture_sq b5 m)) in
  let b7 := set_castles b6 (bxor (castles b6) (tok_castling l r)) in
  let b8 := set_fifty b7 (tok_fifty l r) in
  set_full b8 (full b8 - Z.of_N (cix me))%Z.

Definition make_null_l (l : tok_layout) (z : zobrist) (b : board) : board * N :=
  let hash := cur_hash b in
  let '(r, hash, b1) :=
    if negb (ep b =? 0) then (tok_set_ep l 0 (ep b), bxor hash (z_ep z (sq_file (ep b))), set_ep b 0)
    else (0, hash, b) in
  let b2 := set_stm b1 (flip (stm b1)) in
  let hash := bxor hash (z_stm z) in
  (set_hashes b2 (hash :: hashes b2), r).

Definition undo_null_l (l : tok_layout) (b : board) (r : N) : board :=
  let b1 := set_stm b (flip (stm b)) in
  let b2 := set_ep b1 (tok_ep l r) in
  set_hashes b2 (tl (hashes b2)).

(* the engine as it is now: the layout regenerated from board.go *)
Definition make : zobrist -> board -> N -> board * N := make_l gen_layout.
Definition undo : zobrist -> board -> N -> N -> board := undo_l gen_layout.
Definition make_null : zobrist -> board -> board * N := make_null_l gen_layout.
Definition undo_null : board -> N -> board := undo_null_l gen_layout.

(* ------------------------------------------------------------------------------------------ *)
(* calculateHash, ResetHash *)

Definition calc_hash (z : zobrist) (b : board) : N :=
  let side (c : color) (h : N) : N :=
    fold_left (fun h sq => bxor h (z_piece z c (piece_at b sq) sq)) (bits_of (colors b c)) h in
  let h := side Black (side White 0) in
  let h := match stm b with Black => bxor h (z_stm z) | White => h end in
  let h := fold_left (fun h i => if N.testbit (castles b) i then bxor h (z_castle z i) else h) [0; 1; 2; 3] h in
  if negb (ep b =? 0) then bxor h (z_ep z (N.modulo (ep b) 8)) else h.

Definition reset_hash (z : zobrist) (b : board) : board := set_hashes b [calc_hash z b].

(* ------------------------------------------------------------------------------------------ *)
(* Threefold: cnt := 1; for ix := len-5; ix >= 0; ix -= 2 { if hashes[ix] == hash { cnt++; if cnt >= 3 return } } *)

Fixpoint every_other (l : list N) : list N :=
  match l with
  | [] => []
  | x :: r => x :: match r with [] => [] | _ :: r' => every_other r' end
  end.

Fixpoint three_scan (h : N) (l : list N) (cnt : Z) : Z :=
  match l with
  | [] => cnt
  | x :: r => if x =? h then (if (3 <=? cnt + 1)%Z then (cnt + 1)%Z else three_scan h r (cnt + 1)%Z)
              else three_scan h r cnt
  end.

Definition threefold_hashes (hs : list N) : Z :=
  match hs with
  | [] => 1%Z
  | h :: _ => three_scan h (every_other (skipn 4 hs)) 1%Z
  end.

Definition threefold (b : board) : Z := threefold_hashes (hashes b).
