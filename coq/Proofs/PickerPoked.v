(* The picker theorem in the situation of the search: between two calls of Next the caller
   overwrites the weight of the entry it was just handed (search.go: w.Weight = value / -Inf).
   Whatever is written, the drained sequence is still every generated move exactly once, hash move
   first. The loops of Proofs/PickerProofs.v are redone with the yielded prefix of the frame left
   unspecified except for its length. *)
From Coq Require Import ZArith Lia Bool List Permutation.
Import ListNotations.
From Chess3 Require Import Base.Word Gen.HeurConsts Model.Hist Model.Picker Proofs.HistProofs Proofs.PickerProofs.
Open Scope Z_scope.

Lemma drain_poked_S fuel pokes e p : drain_poked (S fuel) pokes e p =
  match next e p with
  | None => None
  | Some (false, p') => Some ([], p')
  | Some (true, p') =>
      match drain_poked fuel (tl pokes) e (poke p' (hd None pokes)) with
      | None => None | Some (ys, q) => Some (current p' :: ys, q) end
  end.
Proof. reflexivity. Qed.

(* without writes it is the plain drain *)
Lemma drain_poked_nil : forall fuel e p, drain_poked fuel [] e p = drain_from fuel e p.
Proof.
  induction fuel as [|fuel IH]; intros e p; [reflexivity|].
  rewrite drain_poked_S, drain_from_S. destruct (next e p) as [[[|] p']|]; try reflexivity.
  cbn [tl hd poke]. now rewrite IH.
Qed.

(* the write changes the weight of the last yielded entry and nothing else *)
Lemma poke_spec p v fr L Y y Rm :
  framed (p_store p) fr L ((Y ++ [y]) ++ Rm) -> p_ix p = length (Y ++ [y]) ->
  exists y', framed (p_store (poke p v)) fr L ((Y ++ [y']) ++ Rm)
    /\ p_ix (poke p v) = length (Y ++ [y']) /\ p_state (poke p v) = p_state p /\ p_hash (poke p v) = p_hash p.
Proof.
  intros Hf Hix. destruct v as [w|]; cbn [poke].
  - exists (fst y, w). cbn [p_store p_ix p_state p_hash].
    rewrite (framed_frame _ _ _ _ Hf), Hix.
    assert (Hl : (length (Y ++ [y]) - 1)%nat = length Y) by (rewrite app_length; cbn; lia).
    rewrite Hl, <- app_assoc. cbn [app]. rewrite nth_middle, set_nth_app.
    split; [|split; [|split]]; try reflexivity.
    + rewrite <- app_assoc. cbn [app].
      eapply framed_write; exact Hf.
    + rewrite !app_length. reflexivity.
  - exists y. auto.
Qed.

(* as [yields], with the prefix of the final frame known by its length only *)
Definition yieldsP (e : env) (fuel : nat) (pokes : list (option Z)) (p : picker) (fr : list nat)
    (L : list wmove) (n : nat) (Rin : list wmove) : Prop :=
  exists ys R' q Yq, drain_poked fuel pokes e p = Some (ys, q)
    /\ framed (p_store q) fr L (Yq ++ R') /\ length Yq = (n + length ys)%nat /\ p_ix q = length Yq
    /\ Permutation (ys ++ R') Rin
    /\ Forall (fun x => snd x <= rest_threshold) R' /\ Forall (fun x => rest_threshold < snd x) ys.

Lemma yieldsP_next_eq e fuel pokes p p' fr L n Rin : next e p = next e p' ->
  yieldsP e (S fuel) pokes p' fr L n Rin -> yieldsP e (S fuel) pokes p fr L n Rin.
Proof. intros H. unfold yieldsP. rewrite !drain_poked_S. now rewrite H. Qed.

Lemma yieldsP_cons e fuel pokes p p' fr L n y Rm Rin :
  next e p = Some (true, p') -> current p' = y -> rest_threshold < snd y ->
  Permutation (y :: Rm) Rin ->
  yieldsP e fuel (tl pokes) (poke p' (hd None pokes)) fr L (S n) Rm -> yieldsP e (S fuel) pokes p fr L n Rin.
Proof.
  intros Hn Hc Hy Hp (ys & R' & q & Yq & Hd & Hfq & Hlen & Hixq & Hperm & HR' & Hys).
  exists (y :: ys), R', q, Yq. rewrite drain_poked_S, Hn, Hd, Hc. splits; auto.
  - cbn [length]. lia.
  - cbn [app]. eapply Permutation_trans; [apply perm_skip; exact Hperm|exact Hp].
Qed.

Lemma app1_length (Y : list wmove) y : length (Y ++ [y]) = S (length Y).
Proof. rewrite app_length. cbn. lia. Qed.

(* yieldRest *)
Lemma yield_rest_loopP e fr L : forall fuel pokes p Y R,
  p_state p = YieldRest -> framed (p_store p) fr L (Y ++ R) -> p_ix p = length Y ->
  (length R < fuel)%nat -> yieldsP e fuel pokes p fr L (length Y) R.
Proof.
  induction fuel as [|fuel IH]; intros pokes p Y R Hst Hf Hix Hfuel; [lia|].
  pose proof (select_spec p fr L Y R rest_threshold Hf Hix) as Hsel.
  assert (Hnext : next e p = yield_rest p) by (unfold next; now rewrite Hst).
  unfold yield_rest in Hnext. change (- HashMove + 1) with rest_threshold in Hnext.
  destruct (select p rest_threshold) as [p'|].
  - destruct Hsel as (y & Rm & Hf' & Hix' & Hperm & Hgt & Hcur & Hst' & _).
    destruct (poke_spec p' (hd None pokes) fr L Y y Rm Hf' Hix') as (y' & Hf'' & Hix'' & Hst'' & _).
    eapply yieldsP_cons; eauto.
    rewrite <- (app1_length Y y').
    apply IH; auto; [congruence|].
    apply Permutation_length in Hperm. cbn [length] in Hperm. lia.
  - exists [], R, p, Y. rewrite drain_poked_S, Hnext. cbn [app length]. splits; auto.
Qed.

(* yieldGoodNoisy, then genQuiet + yieldRest *)
Lemma yield_good_loopP e fr L : forall fuel pokes p Y R,
  p_state p = YieldGoodNoisy -> framed (p_store p) fr L (Y ++ R) -> p_ix p = length Y ->
  (length R + length (e_quiet e) < fuel)%nat ->
  Z.of_nat (length L + length Y + length R + length (e_quiet e)) <= StoreSize ->
  yieldsP e fuel pokes p fr L (length Y) (R ++ map (mark (p_hash p)) (e_quiet e)).
Proof.
  induction fuel as [|fuel IH]; intros pokes p Y R Hst Hf Hix Hfuel Hroom; [lia|].
  pose proof (select_spec p fr L Y R 0 Hf Hix) as Hsel.
  assert (Hnext : next e p = yield_good_noisy e p) by (unfold next; now rewrite Hst).
  unfold yield_good_noisy in Hnext.
  destruct (select p 0) as [p'|].
  - destruct Hsel as (y & Rm & Hf' & Hix' & Hperm & Hgt & Hcur & Hst' & Hh').
    destruct (poke_spec p' (hd None pokes) fr L Y y Rm Hf' Hix') as (y' & Hf'' & Hix'' & Hst'' & Hh'').
    pose proof threshold_nonpos.
    eapply yieldsP_cons with (Rm := Rm ++ map (mark (p_hash p)) (e_quiet e)); eauto; [lia| |].
    + change (y :: Rm ++ map (mark (p_hash p)) (e_quiet e)) with ((y :: Rm) ++ map (mark (p_hash p)) (e_quiet e)).
      now apply Permutation_app_tail.
    + rewrite <- Hh', <- Hh''. apply Permutation_length in Hperm. cbn [length] in Hperm.
      rewrite <- (app1_length Y y').
      apply IH; auto; [congruence|lia|].
      rewrite app1_length. lia.
  - destruct (gen_quiet_spec e (set_state p GenQuiet) fr L (Y ++ R)) as (p2 & Hg & Hst2 & Hf2 & Hix2 & Hh2).
    { exact Hf. } { rewrite app_length. lia. }
    cbn [set_state p_hash p_ix] in *.
    assert (Hn2 : next e p2 = yield_rest p2) by (unfold next; now rewrite Hst2).
    apply (yieldsP_next_eq e fuel pokes p p2); [congruence|].
    rewrite <- app_assoc in Hf2.
    apply yield_rest_loopP; auto; [congruence|].
    rewrite app_length, map_length. lia.
Qed.

Lemma gen_noisy_loopP e fr L fuel pokes p Y :
  p_state p = GenNoisy -> framed (p_store p) fr L Y -> p_ix p = length Y ->
  (length (e_noisy e) + length (e_quiet e) < S fuel)%nat ->
  Z.of_nat (length L + length Y + length (e_noisy e) + length (e_quiet e)) <= StoreSize ->
  yieldsP e (S fuel) pokes p fr L (length Y) (map (mark (p_hash p)) (e_noisy e) ++ map (mark (p_hash p)) (e_quiet e)).
Proof.
  intros Hst Hf Hix Hfuel Hroom.
  destruct (gen_noisy_spec e p fr L Y Hf Hix ltac:(lia)) as (p1 & Hg & Hst1 & Hf1 & Hix1 & Hh1).
  assert (Hn : next e p = next e p1).
  { unfold next. rewrite Hst, Hst1. exact Hg. }
  apply (yieldsP_next_eq e fuel pokes p p1); [exact Hn|]. rewrite <- Hh1.
  apply yield_good_loopP; auto; try congruence; rewrite map_length; lia.
Qed.

Lemma drain_generalP s hm e pokes fr L : framed s fr L [] ->
  Z.of_nat (length L) + 1 + Z.of_nat (length (e_noisy e)) + Z.of_nat (length (e_quiet e)) <= StoreSize ->
  exists ys R' q Yq,
    drain_poked (drain_fuel e) pokes e (picker_new s hm) = Some ((if e_ipl e then [(hm, HashMove)] else []) ++ ys, q)
    /\ framed (p_store q) fr L (Yq ++ R')
    /\ Permutation (ys ++ R') (map (mark hm) (e_noisy e ++ e_quiet e))
    /\ Forall (fun x => snd x <= rest_threshold) R' /\ Forall (fun x => rest_threshold < snd x) ys.
Proof.
  intros Hf Hroom. unfold drain_fuel.
  set (fuel := (length (e_noisy e) + length (e_quiet e))%nat).
  change (2 + length (e_noisy e) + length (e_quiet e))%nat with (S (S fuel)).
  destruct (e_ipl e) eqn:Hipl.
  - destruct (framed_alloc s fr L [] hm Hf) as (s1 & Ha & Hf1). { cbn [length]. lia. }
    cbn [app] in Hf1.
    set (p1 := {| p_store := store_write_frame s1 [(hm, HashMove)]; p_ix := 1; p_hash := hm; p_state := GenNoisy |}).
    assert (Hn : next e (picker_new s hm) = Some (true, p1)).
    { unfold next, picker_new, pick_hash. cbn [p_state set_state p_store p_hash p_ix]. rewrite Hipl, Ha.
      rewrite (framed_frame _ _ _ _ Hf1). reflexivity. }
    assert (Hfp1 : framed (p_store p1) fr L (([] ++ [(hm, HashMove)]) ++ [])) by (eapply framed_write; exact Hf1).
    destruct (poke_spec p1 (hd None pokes) fr L [] (hm, HashMove) [] Hfp1 eq_refl) as (y' & Hf2 & Hix2 & Hst2 & Hh2).
    cbn [app] in Hf2, Hix2.
    destruct (gen_noisy_loopP e fr L fuel (tl pokes) (poke p1 (hd None pokes)) [y'] Hst2 Hf2 Hix2
                ltac:(unfold fuel; lia) ltac:(cbn [length]; lia))
      as (ys & R' & q & Yq & Hd & Hfq & Hlen & Hixq & Hperm & HR' & Hys).
    exists ys, R', q, Yq. rewrite drain_poked_S, Hn, Hd.
    assert (Hc : current p1 = (hm, HashMove)).
    { unfold current. rewrite (framed_frame _ _ _ _ Hfp1). reflexivity. }
    rewrite Hc. rewrite Hh2 in Hperm. cbn [p_hash p1] in Hperm. rewrite map_app. splits; auto.
  - set (p0 := set_state (picker_new s hm) GenNoisy).
    assert (Hn : next e (picker_new s hm) = next e p0).
    { unfold next, picker_new, pick_hash, p0. cbn [p_state set_state]. now rewrite Hipl. }
    assert (Hf0 : framed (p_store p0) fr L []) by exact Hf.
    destruct (gen_noisy_loopP e fr L (S fuel) pokes p0 [] eq_refl Hf0 eq_refl
                ltac:(unfold fuel; lia) ltac:(cbn [length]; lia))
      as (ys & R' & q & Yq & Hd & Hfq & Hlen & Hixq & Hperm & HR' & Hys).
    exists ys, R', q, Yq. rewrite drain_poked_S, Hn, <- drain_poked_S, Hd.
    cbn [app] in *. rewrite map_app. splits; auto.
Qed.

(* C16_picker with a caller that overwrites the weights of the yielded entries *)
Theorem picker_correct_poked s hm e pokes :
  fresh_frame s -> store_room s e ->
  (e_ipl e = true <-> In hm (moves_of e)) ->
  NoDup (moves_of e) ->
  (forall mw, In mw (e_noisy e ++ e_quiet e) -> rest_threshold < snd mw) ->
  exists ys q,
    drain_poked (drain_fuel e) pokes e (picker_new s hm) = Some (ys, q)
    /\ Permutation (map fst ys) (moves_of e)
    /\ (e_ipl e = true -> hd_error ys = Some (hm, HashMove))
    /\ store_pop (p_store q) = store_pop s.
Proof.
  intros Hfresh Hroom Hipl Hnd Hw.
  pose proof (fresh_framed s Hfresh) as Hf.
  destruct (drain_generalP s hm e pokes _ _ Hf Hroom) as (ys & R' & q & Yq & Hd & Hfq & Hperm & HR' & Hys).
  eexists. exists q. split; [exact Hd|].
  assert (Hys' : Permutation ys (filter (fun x => rest_threshold <? snd x) (map (mark hm) (e_noisy e ++ e_quiet e)))).
  { eapply perm_split_filter; [exact Hperm| |].
    - eapply Forall_impl; [|exact Hys]. cbn. intros a Ha. now apply Z.ltb_lt.
    - eapply Forall_impl; [|exact HR']. cbn. intros a Ha. now apply Z.ltb_ge. }
  apply (Permutation_map fst) in Hys'. rewrite (filter_marked hm _ Hw) in Hys'. fold (moves_of e) in Hys'.
  split; [|split].
  - rewrite map_app. destruct (e_ipl e) eqn:Ei.
    + cbn [map app fst]. eapply Permutation_trans; [apply perm_skip; exact Hys'|].
      apply nodup_filter_perm; [exact Hnd|]. now apply Hipl.
    + cbn [map app]. rewrite filter_neq_notin in Hys'; [exact Hys'|].
      intros Hin. apply Hipl in Hin. discriminate.
  - intros Ei. rewrite Ei. reflexivity.
  - eapply framed_pop; eassumption.
Qed.
