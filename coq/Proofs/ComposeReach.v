(* Composition, part 4: positions reached by play.

   One legal move from a representable valid position leads to a representable valid position that
   follows the engine's en-passant convention ([normal_ep]) and keeps "stored hash = hash from
   scratch"; hence the same for every line of legal moves.  No hypothesis about the clocks: the
   placement, side to move, rights and en-passant square of the board are those of the rules'
   successor for every clock value (ComposeSucc.make_same_core), and the predicates of the rules do
   not read the clocks (ComposeClock).

   [Rep] contains "every stored hash is a 64-bit word", which MakeMove keeps only for Zobrist tables
   with 64-bit entries ([zob_w64], the same predicate as C02's [zob_ok]); b-c01's [MRep] version
   (Proofs/GenTopReach.run_inv) needs no such hypothesis but is not what C05 / C09 / C16 are stated
   for.  The engine's table has 64-bit entries (Proofs/BoardExamples.zob_real_w64). *)
From Coq Require Import NArith ZArith List Bool Lia.
From Chess3 Require Import Base.Bits Model.Types Model.BoardDef Model.Board Model.Movegen.
From Chess3 Require Import Spec.Geometry Spec.Chess Spec.Rep Spec.Applicable Spec.RepLinks Spec.Play.
From Chess3 Require Proofs.BoardInv Proofs.UndoMove Proofs.HashInv Proofs.ValidStep Proofs.SuccMain Proofs.SuccRep
  Proofs.SuccValid Proofs.SuccFacts.
From Chess3 Require Import Proofs.ComposeClock Proofs.ComposeValid Proofs.ComposeSucc.
Import ListNotations.
Open Scope N_scope.

Section Reach.
Variable z : zobrist.
Hypothesis Hz : UndoMove.zob_w64 z.

(* one move *)
Theorem make_inv b m : Rep b -> valid (abs b) = true -> legal_spec (abs b) m = true ->
  let b' := fst (make z b m) in
  Rep b' /\ valid (abs b') = true /\ normal_ep (abs b') = true /\
  same_core (abs b') (succ_spec (abs b) m) /\
  (HashInv.hash_ok z b -> HashInv.hash_ok z b').
Proof.
  intros HR HV HL. cbv zeta.
  pose proof (legal_applicable b m HR HV HL) as HA.
  pose proof (make_same_core z b m HR HV HL) as SC.
  split; [apply UndoMove.make_Rep; assumption|].
  split; [rewrite (valid_same_core _ _ SC); apply ValidStep.valid_step_any; assumption|].
  split; [rewrite (normal_ep_same_core _ _ SC); apply ValidStep.succ_normal_ep|].
  split; [exact SC|].
  intros HH. apply (HashInv.hash_ok_make z gen_layout b m (BoardInv.Rep_RepW b HR) HA HH).
Qed.

(* lines of legal moves (Spec/Play.v: each move legal, by the rules, on the board on which it is played) *)
Theorem run_inv_Rep ms : forall b, Rep b -> valid (abs b) = true -> legal_line z b ms ->
  Rep (run z b ms) /\ valid (abs (run z b ms)) = true /\
  (normal_ep (abs b) = true \/ ms <> [] -> normal_ep (abs (run z b ms)) = true) /\
  (HashInv.hash_ok z b -> HashInv.hash_ok z (run z b ms)).
Proof.
  induction ms as [|m r IH]; intros b HR HV HL; cbn [run].
  - split; [exact HR|]. split; [exact HV|]. split; [|tauto]. intros [H|H]; [exact H|contradiction].
  - cbn [legal_line] in HL. destruct HL as [L1 L2].
    destruct (make_inv b m HR HV L1) as (R' & V' & N' & _ & H').
    destruct (IH _ R' V' L2) as (R'' & V'' & N'' & H'').
    split; [exact R''|]. split; [exact V''|]. split; [intros _; apply N''; left; exact N'|].
    intros HH. apply H'', H', HH.
Qed.

(* every move of the line is applicable where it is played: C03 / C04 apply along the line *)
Theorem legal_line_applicable ms : forall b, Rep b -> valid (abs b) = true -> legal_line z b ms ->
  applicable_all gen_layout z b (map OpMove ms).
Proof.
  induction ms as [|m r IH]; intros b HR HV HL; cbn [map applicable_all]; [exact I|].
  cbn [legal_line] in HL. destruct HL as [L1 L2].
  destruct (make_inv b m HR HV L1) as (R' & V' & _).
  split; [apply legal_applicable; assumption|]. cbn [step]. apply IH; assumption.
Qed.

(* ------------------------------------------------------------------------------------------ *)
(* the spec-level chain of C02 / C10 (each move legal in the iterated successor position) is a legal
   line on the boards, whatever the clocks *)

Lemma legal_chain_same_core ms : forall p q, same_core p q -> SuccMain.legal_chain p ms = SuccMain.legal_chain q ms.
Proof.
  induction ms as [|m r IH]; intros p q SC; cbn [SuccMain.legal_chain]; [reflexivity|].
  rewrite (legal_spec_same_core _ _ m SC), (IH _ _ (succ_spec_same_core _ _ m SC)). reflexivity.
Qed.

Lemma play_spec_same_core ms : forall p q, same_core p q -> same_core (SuccMain.play_spec p ms) (SuccMain.play_spec q ms).
Proof.
  induction ms as [|m r IH]; intros p q SC; cbn [SuccMain.play_spec]; [exact SC|].
  apply IH, succ_spec_same_core, SC.
Qed.

Lemma play_run ms : forall b, SuccMain.play z b ms = run z b ms.
Proof. induction ms as [|m r IH]; intros b; cbn [SuccMain.play run]; [reflexivity|apply IH]. Qed.

Theorem legal_chain_line ms : forall b, Rep b -> valid (abs b) = true ->
  SuccMain.legal_chain (abs b) ms = true -> legal_line z b ms.
Proof.
  induction ms as [|m r IH]; intros b HR HV HL; cbn [legal_line]; [exact I|].
  cbn [SuccMain.legal_chain] in HL. apply andb_true_iff in HL. destruct HL as [L1 L2].
  destruct (make_inv b m HR HV L1) as (R' & V' & _ & SC & _).
  split; [exact L1|]. apply IH; [exact R'|exact V'|].
  rewrite (legal_chain_same_core r _ _ SC). exact L2.
Qed.

(* C02_chain without the clock bound: every field but the clocks *)
Theorem run_same_core ms : forall b, Rep b -> valid (abs b) = true -> SuccMain.legal_chain (abs b) ms = true ->
  same_core (abs (run z b ms)) (SuccMain.play_spec (abs b) ms).
Proof.
  induction ms as [|m r IH]; intros b HR HV HL; cbn [run SuccMain.play_spec]; [apply same_core_refl|].
  cbn [SuccMain.legal_chain] in HL. apply andb_true_iff in HL. destruct HL as [L1 L2].
  destruct (make_inv b m HR HV L1) as (R' & V' & _ & SC & _).
  apply (same_core_trans _ (SuccMain.play_spec (abs (fst (make z b m))) r)).
  - apply IH; [exact R'|exact V'|]. rewrite (legal_chain_same_core r _ _ SC). exact L2.
  - apply play_spec_same_core. exact SC.
Qed.

End Reach.

(* C02_chain with the full [valid] in the conclusion (clock bound as in C02_chain) *)
Theorem chain_valid_full z : SuccRep.zob_ok z ->
  forall ms b, Rep b -> valid (abs b) = true -> (0 <= fifty b)%Z -> (fifty b + Z.of_nat (length ms) < 32768)%Z ->
  SuccMain.legal_chain (abs b) ms = true ->
  abs (SuccMain.play z b ms) = SuccMain.play_spec (abs b) ms /\ Rep (SuccMain.play z b ms) /\
  valid (abs (SuccMain.play z b ms)) = true /\
  (normal_ep (abs b) = true \/ ms <> [] -> normal_ep (abs (SuccMain.play z b ms)) = true).
Proof.
  intros Hz ms b HR HV H0 H1 HL.
  destruct (SuccValid.chain_valid z Hz ms b HR HV H0 H1 HL) as (E & R & _).
  pose proof (proj1 (zob_ok_w64 z) Hz) as Hw.
  pose proof (legal_chain_line z Hw ms b HR HV HL) as LL.
  destruct (run_inv_Rep z Hw ms b HR HV LL) as (_ & V & Nm & _).
  rewrite play_run in *. repeat split; assumption.
Qed.
