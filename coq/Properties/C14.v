(* C14 - Time budget granted to a search never exceeds the clock.
   Statements only; proofs live in Proofs/TimeCtlProofs.v. The constants TimeSafetyMargin,
   PredictedMoves and TimeInf come from Gen/TimeConsts.v, regenerated from uci/uci.go on every run. *)
From Coq Require Import ZArith.
From Coq Require Import List.
From Chess3 Require Import Base.Word Gen.TimeConsts Model.TimeCtl Proofs.TimeCtlProofs.
From Chess3 Require Import Model.TimeArm Proofs.TimeArmProofs.
Open Scope Z_scope.

(* clock_ok t c :=  1 <= remaining <= 9*10^12 ms  /\  0 <= increment <= 2^60 ms
   (contains the property's domain 1..10^12 ms x 0..10^9 ms; 9.2*10^12 ms is where the
   conversion to time.Duration nanoseconds would wrap) *)

Theorem C14_hard_deadline : forall t c, mtime t = 0 -> clock_ok t c ->
  0 < hard_limit t c <= remaining t c
  /\ (remaining t c > TimeSafetyMargin -> hard_limit t c <= remaining t c - TimeSafetyMargin)
  /\ duration_ns (hard_limit t c) = hard_limit t c * 1000000
  /\ 0 < duration_ns (hard_limit t c).
Proof. exact hard_bounds. Qed.
Print Assumptions C14_hard_deadline.

Theorem C14_movetime : forall t c, 0 < mtime t ->
  soft_limit t c = mtime t /\ hard_limit t c = mtime t.
Proof. exact movetime_fixed. Qed.
Print Assumptions C14_movetime.

Theorem C14_movetime_duration : forall t c, 0 < mtime t <= 9000000000000 ->
  duration_ns (hard_limit t c) = mtime t * 1000000 /\ 0 < duration_ns (hard_limit t c).
Proof. exact movetime_duration. Qed.
Print Assumptions C14_movetime_duration.

Theorem C14_own_clock_only : forall t t' c,
  remaining t c = remaining t' c -> increment t c = increment t' c -> mtime t = mtime t' ->
  hard_limit t c = hard_limit t' c /\ soft_limit t c = soft_limit t' c /\ timed_mode t c = timed_mode t' c.
Proof. exact own_clock_only. Qed.
Print Assumptions C14_own_clock_only.

Theorem C14_timer_armed : forall t c, 0 < remaining t c \/ 0 < mtime t -> timed_mode t c = true.
Proof. exact timer_armed. Qed.
Print Assumptions C14_timer_armed.

(* ---- the arming of the deadline (Model/TimeArm.v: handleGo and its interrupt goroutine; tied to
   the real uci.Driver by stream c14arm under virtual time) ----
   case_hard c      := hard_limit of the go line's clock state for the side to move of the ROOT
   clock_started c  := not a ponder search, or the ponderhit comes before the GUI's stop
   clock_start c    := instant of the ponderhit for a ponder search, else the start of the search
   abort_delay c    := instant the stop channel closes - clock_start c
   same_mover_view c c' := same colour, same remaining time / increment / move time of the MOVER,
                       same Ponder option and token, same ponderhit and stop instants; the opponent's
                       fields, the depth of the search in its tree and the traffic are arbitrary
   deadline_view c  := [soft target; ponder channel; ponderhit instant; abort delay; aborted by the timer] *)

Theorem C14_armed_deadline : forall c,
  timed_mode (ac_tc c) (ac_color c) = true -> 0 <= case_hard c -> clock_started c ->
  clock_start c + case_hard c <= ac_stop c ->
  abort_delay c = case_hard c /\ by_timer c = true.
Proof. exact armed_deadline. Qed.
Print Assumptions C14_armed_deadline.

Theorem C14_armed_within_clock : forall c,
  mtime (ac_tc c) = 0 -> clock_ok (ac_tc c) (ac_color c) -> clock_started c ->
  clock_start c + remaining (ac_tc c) (ac_color c) <= ac_stop c ->
  0 < abort_delay c <= remaining (ac_tc c) (ac_color c)
  /\ (remaining (ac_tc c) (ac_color c) > TimeSafetyMargin ->
      abort_delay c <= remaining (ac_tc c) (ac_color c) - TimeSafetyMargin)
  /\ by_timer c = true.
Proof. exact armed_within_clock. Qed.
Print Assumptions C14_armed_within_clock.

Theorem C14_armed_movetime : forall c,
  0 < mtime (ac_tc c) -> clock_started c -> clock_start c + mtime (ac_tc c) <= ac_stop c ->
  abort_delay c = mtime (ac_tc c) /\ by_timer c = true /\ nth 0 (observe c) 0 = mtime (ac_tc c).
Proof. exact armed_movetime. Qed.
Print Assumptions C14_armed_movetime.

Theorem C14_arming_own_clock_only : forall c c',
  same_mover_view c c' -> deadline_view c = deadline_view c'.
Proof. exact arming_own_clock_only. Qed.
Print Assumptions C14_arming_own_clock_only.

(* non-vacuity: a concrete clock state meets the hypotheses *)
Example C14_nonvacuous :
  let t := {| wtime := 60000; btime := 1; winc := 1000; binc := 0; mtime := 0 |} in
  mtime t = 0 /\ clock_ok t White /\ andb (0 <? hard_limit t White) (hard_limit t White <=? 60000 - TimeSafetyMargin) = true.
Proof. split; [reflexivity|]. split; [cbv; repeat split; discriminate|]. vm_compute. reflexivity. Qed.

(* a ponder search of Black, 1 s against 10 min, ponderhit after 250 ms, three plies below the root,
   isready every 100 ms, stop after a minute: aborted hard_limit ms after the ponderhit (132 ms with the constants
   shipped when this was written; the example does not pin retunable numbers); the same with the
   opponent's clock, the traffic and the depth changed *)
Example C14_arm_nonvacuous :
  let mk (opp oinc plies k ivl : Z) :=
    {| ac_color := Black; ac_tc := {| wtime := opp; btime := 1000; winc := oinc; binc := 0; mtime := 0 |};
       ac_popt := true; ac_ptok := true; ac_debug := false; ac_base0 := false;
       ac_plies := plies; ac_k := k; ac_ivl := ivl; ac_phit := 250; ac_stop := 60000 |} in
  let c := mk 600000 0 3 30 100 in
  let c' := mk 7 5000 0 0 1 in
  mtime (ac_tc c) = 0 /\ clock_ok (ac_tc c) (ac_color c) /\ clock_started c
  /\ clock_start c + remaining (ac_tc c) (ac_color c) <= ac_stop c
  /\ same_mover_view c c' /\ abort_delay c = hard_limit (ac_tc c) Black /\ abort_delay c' = abort_delay c
  /\ deadline_view c' = deadline_view c.
Proof. vm_compute. repeat split; try discriminate; try reflexivity. Qed.

Example C14_arm_movetime_nonvacuous :
  let c := {| ac_color := White; ac_tc := {| wtime := 0; btime := 0; winc := 0; binc := 0; mtime := 500 |};
              ac_popt := false; ac_ptok := false; ac_debug := true; ac_base0 := false;
              ac_plies := 2; ac_k := 9; ac_ivl := 70; ac_phit := 0; ac_stop := 501 |} in
  0 < mtime (ac_tc c) /\ clock_started c /\ clock_start c + mtime (ac_tc c) <= ac_stop c /\ abort_delay c = 500.
Proof. cbv. repeat split; try discriminate; try reflexivity. Qed.
