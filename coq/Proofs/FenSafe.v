(* C11, robustness: ParseFEN never panics and never loops, for every byte list of every length.
   The argument is the parser's index discipline: every read [fen[ix]] happens under [ix < l]
   (loop conditions), after [sep] established [ix < l] (stm, enPassant), or after the explicit test
   [ix + 1 >= l] (second byte of the en-passant square); array writes are guarded by the range test
   on [sq] and by the ranges of cToP / the colour test. *)
From Coq Require Import NArith ZArith List Bool Lia PeanoNat.
From Chess3 Require Import Base.Bits Base.Word Model.Types Model.BoardDef Model.Board Model.Fen.
Import ListNotations.

Definition safe {A} (o : outcome A) : Prop := o <> Panic /\ o <> Diverge.

Lemma safe_Ok {A} (a : A) : safe (Ok a).
Proof. split; discriminate. Qed.
Lemma safe_Err {A} e : safe (@Err A e).
Proof. split; discriminate. Qed.
#[export] Hint Resolve safe_Ok safe_Err : fen.

Lemma safe_bind {A B} (x : outcome A) (f : A -> outcome B) :
  safe x -> (forall a, x = Ok a -> safe (f a)) -> safe (bind x f).
Proof.
  intros [H1 H2] Hf. destruct x; cbn; auto with fen; contradiction.
Qed.

Lemma read_in_range (s : list N) ix : (ix < length s)%nat -> exists c, nth_error s ix = Some c.
Proof.
  intros H. destruct (nth_error s ix) eqn:E; [eauto|].
  apply nth_error_None in E. lia.
Qed.

Lemma c_to_p_range c : (c_to_p c <= 6)%N.
Proof.
  unfold c_to_p.
  repeat match goal with |- context [if ?x then _ else _] => destruct x end;
  unfold Pawn, Rook, Knight, Bishop, Queen, King, NoPiece; lia.
Qed.

Lemma place_safe b c sq : (sq < 64)%N -> exists b', place b c sq = Ok b'.
Proof.
  intros Hsq. unfold place, arr_set.
  pose proof (c_to_p_range c) as Hp.
  destruct (N.ltb_spec (c_to_p c) 7) as [_|H]; [|lia].
  destruct (N.ltb_spec (cix (if (c_a <? c)%N && (c <? c_z)%N then Black else White)) 2) as [_|H].
  2:{ destruct ((c_a <? c)%N && (c <? c_z)%N); cbn in H; lia. }
  destruct (N.ltb_spec sq 64) as [_|H]; [|lia].
  eexists; reflexivity.
Qed.

(* ---- the loops: with fuel above l - ix they neither panic nor run out of fuel ---- *)

Lemma position_loop_safe s : forall fuel ix rank file b,
  (length s - ix < fuel)%nat -> safe (position_loop fuel s (length s) ix rank file b).
Proof.
  induction fuel as [|fuel IH]; intros ix rank file b Hf; [lia|].
  cbn [position_loop].
  destruct (Nat.ltb_spec ix (length s)) as [Hlt|Hge]; [|auto with fen].
  destruct (read_in_range s ix Hlt) as [c ->].
  destruct (is_digit18 c); [apply IH; lia|].
  destruct (c =? c_slash)%N.
  { destruct (wrap64 (rank - 1) <? 0)%Z; [auto with fen|apply IH; lia]. }
  destruct (is_piece_char c).
  { destruct ((wrap64 (wrap64 (8 * rank) + file) <? 0)%Z || (63 <? wrap64 (wrap64 (8 * rank) + file))%Z) eqn:E;
      [auto with fen|].
    apply orb_false_iff in E. destruct E as [E1 E2].
    apply Z.ltb_ge in E1. apply Z.ltb_ge in E2.
    destruct (place_safe b c (Z.to_N (wrap64 (wrap64 (8 * rank) + file)))) as [b' ->]; [lia|].
    apply IH; lia. }
  destruct (c =? c_space)%N; auto with fen.
Qed.

Lemma crights_loop_safe s : forall fuel ix b,
  (length s - ix < fuel)%nat -> safe (crights_loop fuel s (length s) ix b).
Proof.
  induction fuel as [|fuel IH]; intros ix b Hf; [lia|].
  cbn [crights_loop].
  destruct (Nat.ltb_spec ix (length s)) as [Hlt|Hge]; [|auto with fen].
  destruct (read_in_range s ix Hlt) as [c ->].
  repeat match goal with
         | |- safe (if ?x then _ else _) => destruct x
         | |- safe (crights_loop _ _ _ _ _) => apply IH; lia
         end; auto with fen.
Qed.

Lemma counter_loop_safe s : forall fuel ix cnt,
  (length s - ix < fuel)%nat -> safe (counter_loop fuel s (length s) ix cnt).
Proof.
  induction fuel as [|fuel IH]; intros ix cnt Hf; [lia|].
  cbn [counter_loop].
  destruct (Nat.ltb_spec ix (length s)) as [Hlt|Hge]; [|auto with fen].
  destruct (read_in_range s ix Hlt) as [c ->].
  destruct (c =? c_space)%N; [auto with fen|].
  destruct ((c <? c_0)%N || (c_9 <? c)%N); [auto with fen|].
  apply IH; lia.
Qed.

Lemma skip_spaces_safe s : forall fuel ix,
  (length s - ix < fuel)%nat -> safe (skip_spaces fuel s (length s) ix).
Proof.
  induction fuel as [|fuel IH]; intros ix Hf; [lia|].
  cbn [skip_spaces].
  destruct (Nat.ltb_spec ix (length s)) as [Hlt|Hge]; [|auto with fen].
  destruct (read_in_range s ix Hlt) as [c ->].
  destruct (c =? c_space)%N; [apply IH; lia|auto with fen].
Qed.

(* what [sep] establishes for the field parser that follows: the index is inside the string *)
Lemma sep_safe s fuel ix : (length s - ix < fuel)%nat -> safe (sep fuel s (length s) ix).
Proof.
  intros Hf. unfold sep. apply safe_bind; [apply skip_spaces_safe; exact Hf|].
  intros ix' _. destruct (length s <=? ix')%nat; auto with fen.
Qed.

Lemma sep_in_range s fuel ix ix' : sep fuel s (length s) ix = Ok ix' -> (ix' < length s)%nat.
Proof.
  unfold sep. destruct (skip_spaces fuel s (length s) ix) as [j| | |]; cbn; try discriminate.
  destruct (Nat.leb_spec (length s) j); [discriminate|]. intros E; inversion E; subst; assumption.
Qed.

Lemma stm_field_safe s ix b : (ix < length s)%nat -> safe (stm_field s ix b).
Proof.
  intros H. unfold stm_field. destruct (read_in_range s ix H) as [c ->].
  destruct (c =? c_w)%N; [auto with fen|]. destruct (c =? c_b)%N; auto with fen.
Qed.

Lemma ep_field_safe s ix b : (ix < length s)%nat -> safe (ep_field s (length s) ix b).
Proof.
  intros H. unfold ep_field. destruct (read_in_range s ix H) as [c0 ->].
  destruct (negb (c0 =? c_minus)%N); [|auto with fen].
  destruct (Nat.leb_spec (length s) (ix + 1)) as [|H1]; [auto with fen|].
  destruct (read_in_range s (ix + 1) H1) as [c1 ->].
  destruct ((c0 <? c_a)%N || (c_h <? c0)%N || (c1 <? c_1)%N || (c_8 <? c1)%N); auto with fen.
Qed.

Lemma fifty_field_safe s fuel ix b : (length s - ix < fuel)%nat -> safe (fifty_field fuel s (length s) ix b).
Proof.
  intros Hf. unfold fifty_field. apply safe_bind; [apply counter_loop_safe; exact Hf|].
  intros [ix' cnt] _. destruct ((cnt <? 0)%Z || (100 <? cnt)%Z); auto with fen.
Qed.

Lemma full_field_safe s fuel ix b : (length s - ix < fuel)%nat -> safe (full_field fuel s (length s) ix b).
Proof.
  intros Hf. unfold full_field. apply safe_bind; [apply counter_loop_safe; exact Hf|].
  intros [ix' cnt] _. destruct (cnt <? 1)%Z; auto with fen.
Qed.

Theorem parse_fen_safe s : safe (parse_fen s).
Proof.
  unfold parse_fen.
  assert (F : forall ix, (length s - ix < S (length s))%nat) by (intros; lia).
  apply safe_bind; [apply position_loop_safe, F|]. intros [i1 b1] _.
  apply safe_bind; [apply sep_safe, F|]. intros i1' H1. apply sep_in_range in H1.
  apply safe_bind; [apply stm_field_safe, H1|]. intros [i2 b2] _.
  apply safe_bind; [apply sep_safe, F|]. intros i2' H2.
  apply safe_bind; [apply crights_loop_safe, F|]. intros [i3 b3] _.
  apply safe_bind; [apply sep_safe, F|]. intros i3' H3. apply sep_in_range in H3.
  apply safe_bind; [apply ep_field_safe, H3|]. intros [i4 b4] _.
  apply safe_bind; [apply sep_safe, F|]. intros i4' H4.
  apply safe_bind; [apply fifty_field_safe, F|]. intros [i5 b5] _.
  apply safe_bind; [apply sep_safe, F|]. intros i5' H5.
  apply safe_bind; [apply full_field_safe, F|]. intros [i6 b6] _.
  auto with fen.
Qed.

Corollary parse_fen_no_panic s : parse_fen s <> Panic.
Proof. exact (proj1 (parse_fen_safe s)). Qed.

Corollary parse_fen_terminates s : parse_fen s <> Diverge.
Proof. exact (proj2 (parse_fen_safe s)). Qed.

Corollary parse_fen_total s : (exists b, parse_fen s = Ok b) \/ (exists e, parse_fen s = Err e).
Proof.
  destruct (parse_fen_safe s) as [H1 H2]. destruct (parse_fen s); eauto; contradiction.
Qed.

Corollary from_fen_safe z s : safe (from_fen z s).
Proof. unfold from_fen. apply safe_bind; [apply parse_fen_safe|]. intros; auto with fen. Qed.

(* epd.Parse (the tuner's input path) inherits it *)
Corollary epd_parse_no_panic line : epd_parse line <> EpdPanic.
Proof.
  unfold epd_parse. destruct (length line <? 5)%nat; [discriminate|].
  destruct (parse_fen_safe (firstn (length line - 5) line)) as [H1 H2].
  destruct (parse_fen (firstn (length line - 5) line)); try contradiction; try discriminate.
  repeat match goal with |- (if ?x then _ else _) <> _ => destruct x end; discriminate.
Qed.
