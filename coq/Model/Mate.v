(* Executable model of /repo/board/attacks.go: Attackers, Block, IsCheckmate, IsStalemate.
   Line-by-line transliterations, definitions only (proofs are in Proofs/Mate*.v).

   The Go loops  [for x := s; x != 0; x &= x - 1 { sq := x.LowestSet(); piece := x & -x; ... }]
   visit the set bits of s in ascending order; they are written as recursion over [bits_of s]
   ([x & -x] is [bit sq]).  A loop whose body may [return false] becomes a function returning
   [true] when some iteration returns (the caller then answers false).  Mutation of a variable
   across iterations (the [opp &= ^attacker] of IsCheckmate) is threaded through explicitly. *)
From Coq Require Import NArith ZArith List Bool.
From Chess3 Require Import Base.Bits Model.Types Model.Att Model.BoardDef Model.Board Model.Movegen.
Import ListNotations.
Open Scope N_scope.

(* b.Pieces[Bishop] | b.Pieces[Queen]   and   b.Pieces[Rook] | b.Pieces[Queen] *)
Definition diag_sliders (b : board) : N := bor (pieces b Bishop) (pieces b Queen).
Definition line_sliders (b : board) : N := bor (pieces b Rook) (pieces b Queen).

(* func (b *Board) Attackers(squares, occ BitBoard, color Color) BitBoard *)
Definition attackers (b : board) (squares occ : N) (c : color) : N :=
  let opp := colors b c in
  let res :=
    fold_left (fun res sq =>
      let sub := band (king_moves sq) (pieces b King) in
      let sub := bor sub (band (knight_moves sq) (pieces b Knight)) in
      let sub := bor sub (band (bishop_moves sq occ) (diag_sliders b)) in
      let sub := bor sub (band (rook_moves sq occ) (line_sliders b)) in
      bor res (band sub opp)) (bits_of squares) 0 in
  bor res (band (band (pawn_capture_moves squares (flip c)) opp) (pieces b Pawn)).

(* RankBB(FourthRank.FromPerspectiveOf(color)) *)
Definition FourthRank : N := 3.

(* func (b *Board) Block(squares BitBoard, color Color) BitBoard *)
Definition block (b : board) (squares : N) (c : color) : N :=
  let blockers := colors b c in
  let occ := bor (colors b White) (colors b Black) in
  let res :=
    fold_left (fun res sq =>
      let sub := band (knight_moves sq) (pieces b Knight) in
      let sub := bor sub (band (bishop_moves sq occ) (diag_sliders b)) in
      let sub := bor sub (band (rook_moves sq occ) (line_sliders b)) in
      bor res (band sub blockers)) (bits_of squares) 0 in
  let occNoPawn := band occ (bnot (band (pieces b Pawn) blockers)) in
  let dpawn := band (rank_from c FourthRank) squares in
  let dpawn := bandn (pawn_single_push_moves dpawn (flip c)) occ in
  let dpawn := bandn (pawn_single_push_moves dpawn (flip c)) occNoPawn in
  bor res (band (band (bor (band (pawn_single_push_moves squares (flip c)) (bnot occNoPawn)) dpawn) blockers)
                (pieces b Pawn)).

(* the two-armed pin test that recurs everywhere:
     if BishopMoves(kingSq, nocc) & (B|Q) & opp != 0 { pinned } else if RookMoves(kingSq, nocc) & (R|Q) & opp != 0 { pinned } *)
Definition slider_hits (b : board) (kingSq nocc opp : N) : bool :=
  negb (band (band (bishop_moves kingSq nocc) (diag_sliders b)) opp =? 0) ||
  negb (band (band (rook_moves kingSq nocc) (line_sliders b)) opp =? 0).

(* king steps: for kMvs := KingMoves(kingSq) & ^own; ...; if !IsAttacked(them, occ &^ king, to) { return false } *)
Definition king_can_step (b : board) (kingSq king occ own : N) : bool :=
  existsb (fun to => negb (is_attacked b (flip (stm b)) (bandn occ king) (bit to)))
          (bits_of (band (king_moves kingSq) (bnot own))).

(* first defenders loop of IsCheckmate (capture of the attacker); [opp] is the function-level
   variable that [opp &= ^attacker] mutates (idempotent after the first iteration) *)
Fixpoint mate_capture_loop (b : board) (kingSq occ attacker : N) (opp : N) (defs : list N) : bool :=
  match defs with
  | [] => false
  | d :: rest =>
      let nocc := band occ (bnot (bit d)) in
      let opp := band opp (bnot attacker) in
      if negb (slider_hits b kingSq nocc opp) then true
      else mate_capture_loop b kingSq occ attacker opp rest
  end.

(* second defenders loop (interposition); a fresh [opp] shadows the outer one *)
Definition mate_block_loop (b : board) (kingSq occ blocked : N) (defs : list N) : bool :=
  existsb (fun d =>
    let nocc := bor (band occ (bnot (bit d))) blocked in
    let opp := colors b (flip (stm b)) in
    negb (slider_hits b kingSq nocc opp)) defs.

(* func (b *Board) IsCheckmate() bool *)
Definition is_checkmate (b : board) : bool :=
  let me := stm b in
  let king := band (pieces b King) (colors b me) in
  let occ := bor (colors b White) (colors b Black) in
  let opp := colors b (flip me) in
  let atk := attackers b king occ (flip me) in
  let kingSq := lsb king in
  if king_can_step b kingSq king occ (colors b me) then false else
  if 1 <? popcount atk then true else
  let attacker := atk in
  let defenders := band (attackers b attacker occ me) (bnot king) in
  if mate_capture_loop b kingSq occ attacker opp (bits_of defenders) then false else
  if negb (ep b =? 0) &&
     (pawn_single_push_moves (bit (ep b)) (flip me) =? attacker) then false else
  let aSq := lsb attacker in
  let blocked := band (in_between kingSq aSq) (bnot (bor king attacker)) in
  let defenders := block b blocked me in
  if mate_block_loop b kingSq occ blocked (bits_of defenders) then false else
  true.

(* ------------------------------------------------------------------------------------------ *)
(* IsStalemate *)

(* unpinned-pawn shortcut: some pawn of [pawns] can push or capture *)
Definition stale_free_pawn (me : color) (pawns occ opp : N) : bool :=
  match me with
  | White =>
      negb (band (shl pawns 8) (bnot occ) =? 0) ||
      negb (band (bor (shl (band pawns (bnot AFileBB)) 7) (shl (band pawns (bnot HFileBB)) 9)) opp =? 0)
  | Black =>
      negb (band (shr pawns 8) (bnot occ) =? 0) ||
      negb (band (bor (shr (band pawns (bnot HFileBB)) 7) (shr (band pawns (bnot AFileBB)) 9)) opp =? 0)
  end.

Definition stale_queen (b : board) (occ me : N) : bool :=
  existsb (fun sq => negb (band (bor (bishop_moves sq occ) (rook_moves sq occ)) (bnot me) =? 0))
          (bits_of (band (pieces b Queen) me)).

Definition stale_bishop (b : board) (kingSq occ me opp : N) : bool :=
  existsb (fun sq =>
    let nocc := band occ (bnot (bit sq)) in
    (band (band (rook_moves kingSq nocc) (line_sliders b)) opp =? 0) &&
    negb (band (bishop_moves sq nocc) (bnot me) =? 0))
    (bits_of (band (pieces b Bishop) me)).

Definition stale_rook (b : board) (kingSq occ me opp : N) : bool :=
  existsb (fun sq =>
    let nocc := band occ (bnot (bit sq)) in
    (band (band (bishop_moves kingSq nocc) (diag_sliders b)) opp =? 0) &&
    negb (band (rook_moves sq nocc) (bnot me) =? 0))
    (bits_of (band (pieces b Rook) me)).

Definition stale_knight (b : board) (kingSq occ me opp maybePinned : N) : bool :=
  existsb (fun sq =>
    let piece := bit sq in
    let nocc := band occ (bnot piece) in
    let pinned := negb (band piece maybePinned =? 0) && slider_hits b kingSq nocc opp in
    negb pinned && negb (band (knight_moves sq) (bnot me) =? 0))
    (bits_of (band (pieces b Knight) me)).

Definition stale_pinned_pawn (b : board) (kingSq occ me opp maybePinned : N) : bool :=
  existsb (fun sq =>
    let piece := bit sq in
    let targets := band (pawn_single_push_moves piece (stm b)) (bnot occ) in
    let nocc := bor (band occ (bnot piece)) targets in
    if negb (slider_hits b kingSq nocc opp) && negb (targets =? 0) then true else
    let targets := band (pawn_capture_moves piece (stm b)) opp in
    let nocc := bor (band occ (bnot piece)) targets in
    let pinned :=
      negb (band (band (band (bishop_moves kingSq nocc) (diag_sliders b)) (bnot targets)) opp =? 0) ||
      negb (band (band (rook_moves kingSq nocc) (line_sliders b)) opp =? 0) in
    negb pinned && negb (targets =? 0))
    (bits_of (band (band (pieces b Pawn) me) maybePinned)).

Definition stale_ep (b : board) (kingSq occ me opp : N) : bool :=
  if ep b =? 0 then false else
  let enPassantBB := bit (ep b) in
  let pawns := band (band (pawn_capture_moves enPassantBB (flip (stm b))) (pieces b Pawn)) me in
  let remove := pawn_single_push_moves enPassantBB (flip (stm b)) in
  existsb (fun sq =>
    let pawn := bit sq in
    let nocc := bor (band (band occ (bnot pawn)) (bnot remove)) enPassantBB in
    let pinned :=
      negb (band (band (rook_moves kingSq nocc) (line_sliders b)) opp =? 0) ||
      negb (band (band (bishop_moves kingSq nocc) (diag_sliders b)) opp =? 0) in
    negb pinned) (bits_of pawns).

(* func (b *Board) IsStalemate() bool *)
Definition is_stalemate (b : board) : bool :=
  let me := colors b (stm b) in
  let opp := colors b (flip (stm b)) in
  let king := band (pieces b King) me in
  let kingSq := lsb king in
  let occ := bor me opp in
  let maybePinned := band (bor (bishop_moves kingSq occ) (rook_moves kingSq occ)) me in
  let pawns := band (band (pieces b Pawn) me) (bnot maybePinned) in
  if stale_free_pawn (stm b) pawns occ opp then false else
  if stale_queen b occ me then false else
  if stale_bishop b kingSq occ me opp then false else
  if stale_rook b kingSq occ me opp then false else
  if stale_knight b kingSq occ me opp maybePinned then false else
  if king_can_step b kingSq king occ me then false else
  if stale_pinned_pawn b kingSq occ me opp maybePinned then false else
  if stale_ep b kingSq occ me opp then false else
  true.
