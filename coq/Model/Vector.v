(* tools/tuner/tuning/vector.go: the flat parameter vector of the tuner.  Definitions only.

   Go:  type EngineRep eval.CoeffSet[float64]       a struct whose fields are (nested) arrays of float64
        func (e EngineRep) ToVector(targets []string) Vector
        func (e *EngineRep) SetVector(v Vector, targets []string)
        func (e *EngineRep) TunedParams(targets []string) iter.Seq2[int, *float64]
   All three walk the struct fields in declaration order with reflect, select the fields whose NAME
   is contained in targets (slices.Contains - the target list is used as a set), and recurse into
   arrays element by element.

   Model.  A coefficient struct is a list of named fields, a field is a [tree]: [Leaf a] is a
   float64, [Node l] an array with the elements l.  (Nothing here is specific to eval.CoeffSet; the
   stream at the end instantiates the GENERATED shape Gen/CoeffShape.v.)  A coefficient is addressed
   by (field index, path), a path being the list of array indices from the field down to the leaf -
   this is what a *float64 yielded by TunedParams denotes.

     to_vector e sel          ToVector        : the selected leaves, in order
     set_vector e v sel       SetVector       : None = the Go code panics (vector too short)
     tuned_params e sel       TunedParams     : the addresses, in order; the yielded index is the position
     get_at / upd_at                          : reading / writing through such a pointer              *)
From Coq Require Import NArith ZArith List Bool String.
From Chess3 Require Import Gen.CoeffShape.
Import ListNotations.
Local Notation length := List.length.

Section Tree.
Context {A : Type}.

Inductive tree : Type := Leaf (a : A) | Node (l : list tree).

(* getFieldFloats *)
Fixpoint flatten (t : tree) : list A :=
  match t with
  | Leaf a => [a]
  | Node l => flat_map flatten l
  end.

Fixpoint size (t : tree) : nat :=
  match t with
  | Leaf _ => 1
  | Node l => list_sum (map size l)
  end.

(* setFieldFloats on the elements of an array: each element consumes its share of the floats *)
Definition fill_list (f : tree -> list A -> option (tree * list A)) : list tree -> list A -> option (list tree * list A) :=
  fix go (l : list tree) (v : list A) :=
    match l with
    | [] => Some ([], v)
    | t :: ts =>
        match f t v with
        | None => None
        | Some (t', r) =>
            match go ts r with
            | None => None
            | Some (ts', r') => Some (t' :: ts', r')
            end
        end
    end.

(* setFieldFloats: returns the rewritten value and the floats that are left.
   Go:  case Array:   if dst.Len() > len(floats) { panic }  ... elements in order ...
        case Float64: if len(floats) < 1 { panic };  dst.SetFloat(floats[0]); return 1 *)
Fixpoint fill (t : tree) (v : list A) : option (tree * list A) :=
  match t with
  | Leaf _ => match v with x :: r => Some (Leaf x, r) | [] => None end
  | Node l =>
      if (length v <? length l)%nat then None else
      match fill_list fill l v with
      | Some (l', r) => Some (Node l', r)
      | None => None
      end
  end.

(* yieldFields: the leaves in order, as paths *)
Definition paths_list (f : tree -> list (list nat)) : nat -> list tree -> list (list nat) :=
  fix go (k : nat) (l : list tree) :=
    match l with
    | [] => []
    | t :: ts => map (cons k) (f t) ++ go (S k) ts
    end.

Fixpoint paths (t : tree) : list (list nat) :=
  match t with
  | Leaf _ => [[]]
  | Node l => paths_list paths 0 l
  end.

(* *ptr *)
Fixpoint get (p : list nat) (t : tree) : option A :=
  match p, t with
  | [], Leaf a => Some a
  | i :: p', Node l => match nth_error l i with Some t' => get p' t' | None => None end
  | _, _ => None
  end.

Fixpoint upd_nth {B} (i : nat) (f : B -> B) (l : list B) : list B :=
  match l, i with
  | [], _ => []
  | x :: r, O => f x :: r
  | x :: r, S j => x :: upd_nth j f r
  end.

(* *ptr = x *)
Fixpoint upd (p : list nat) (x : A) (t : tree) : tree :=
  match p, t with
  | [], Leaf _ => Leaf x
  | i :: p', Node l => Node (upd_nth i (upd p' x) l)
  | _, _ => t
  end.

(* ------------------------------------------------------------------------------------------ *)
(* the struct: named fields, selected by a predicate on the name *)

Definition fields : Type := list (string * tree).

Section Sel.
Variable sel : string -> bool.

(* ToVector *)
Definition to_vector (e : fields) : list A :=
  flat_map (fun nt => if sel (fst nt) then flatten (snd nt) else []) e.

Definition vec_len (e : fields) : nat :=
  list_sum (map (fun nt => if sel (fst nt) then size (snd nt) else 0) e).

(* SetVector: `floats = floats[numUsed:]` after every selected field; floats left over are ignored *)
Fixpoint set_fields (e : fields) (v : list A) : option (fields * list A) :=
  match e with
  | [] => Some ([], v)
  | (n, t) :: r =>
      if sel n then
        match fill t v with
        | None => None
        | Some (t', v') =>
            match set_fields r v' with
            | None => None
            | Some (r', v'') => Some ((n, t') :: r', v'')
            end
        end
      else
        match set_fields r v with
        | None => None
        | Some (r', v'') => Some ((n, t) :: r', v'')
        end
  end.

Definition set_vector (e : fields) (v : list A) : option fields :=
  match set_fields e v with Some (e', _) => Some e' | None => None end.

(* TunedParams: (field index, path) of every yielded pointer, in order *)
Fixpoint tuned_from (k : nat) (e : fields) : list (nat * list nat) :=
  match e with
  | [] => []
  | (n, t) :: r => (if sel n then map (pair k) (paths t) else []) ++ tuned_from (S k) r
  end.

Definition tuned_params (e : fields) : list (nat * list nat) := tuned_from 0 e.

End Sel.

Definition get_at (e : fields) (a : nat * list nat) : option A :=
  match nth_error e (fst a) with Some (_, t) => get (snd a) t | None => None end.

Definition upd_at (e : fields) (a : nat * list nat) (x : A) : fields :=
  upd_nth (fst a) (fun nt => (fst nt, upd (snd a) x (snd nt))) e.

(* the whole struct in declaration order (its memory image) *)
Definition flat_all (e : fields) : list A := flat_map (fun nt => flatten (snd nt)) e.

End Tree.
Arguments tree A : clear implicits.
Arguments fields A : clear implicits.

(* the shape of a value (what the Go TYPE fixes) *)
Fixpoint skel {A} (t : tree A) : tree unit :=
  match t with
  | Leaf _ => Leaf tt
  | Node l => Node (map skel l)
  end.
Definition skel_fields {A} (e : fields A) : list (string * tree unit) := map (fun nt => (fst nt, skel (snd nt))) e.

(* the target list is used as a set of names *)
Definition in_targets (ts : list string) (n : string) : bool := existsb (String.eqb n) ts.

(* ------------------------------------------------------------------------------------------ *)
(* instance: the generated shape of eval.CoeffSet[float64] *)

Fixpoint tree_of_shape {A} (a : A) (s : shape) : tree A :=
  match s with
  | SLeaf => Leaf a
  | SArr n s' => Node (repeat (tree_of_shape a s') n)
  end.

Definition zero_rep : fields Z := map (fun ns => (fst ns, tree_of_shape 0%Z (snd ns))) coeff_fields.

(* the engine's coefficients poured into the shape (EngineCoeffs): by memory order *)
Definition engine_rep : fields Z :=
  match set_vector (fun _ => true) zero_rep engine_flat with Some e => e | None => zero_rep end.

(* memory position of an address: the number of leaves before it (declaration order, row major) *)
Fixpoint path_pos {A} (p : list nat) (t : tree A) : nat :=
  match p, t with
  | i :: p', Node l =>
      list_sum (map size (firstn i l)) + match nth_error l i with Some t' => path_pos p' t' | None => 0 end
  | _, _ => 0
  end.
Definition mem_pos {A} (e : fields A) (a : nat * list nat) : nat :=
  list_sum (map (fun nt => size (snd nt)) (firstn (fst a) e)) +
  match nth_error e (fst a) with Some (_, t) => path_pos (snd a) t | None => 0 end.

(* ------------------------------------------------------------------------------------------ *)
(* stream c19vec (harness/streams/c19.go runC19Vec) *)
Open Scope Z_scope.

Definition name_table : list string := map fst coeff_fields ++ ["NoSuchField"%string].
Definition targets_of (l : list Z) : list string :=
  flat_map (fun k => match nth_error name_table (Z.to_nat k) with
                     | Some n => if (0 <=? k) then [n] else []
                     | None => [] end) l.

Definition odd_vector (n : nat) : list Z := map (fun i => 2 * Z.of_nat i + 1) (seq 0 n).

Definition zn (n : nat) : Z := Z.of_nat n.

Definition diff_pairs (a b : list Z) : list Z :=
  (* (index, b[i]-a[i]) where they differ *)
  let fix go (i : Z) (a b : list Z) : list Z :=
    match a, b with
    | x :: a', y :: b' => (if x =? y then [] else [i; y - x]) ++ go (i + 1) a' b'
    | _, _ => []
    end in go 0 a b.

Definition b2z (b : bool) : Z := if b then 1 else 0.
Fixpoint list_eqbZ (a b : list Z) : bool :=
  match a, b with
  | [], [] => true
  | x :: a', y :: b' => (x =? y) && list_eqbZ a' b'
  | _, _ => false
  end.
(* maximal runs of consecutive positions: (first index, first position, length) *)
Fixpoint runs (i : nat) (pos : list nat) : list (nat * nat * nat) :=
  match pos with
  | [] => []
  | p :: rest =>
      match runs (S i) rest with
      | (i', p', len) :: more => if Nat.eqb p' (S p) then (i, p, S len) :: more else (i, p, 1%nat) :: (i', p', len) :: more
      | [] => [(i, p, 1%nat)]
      end
  end.

(* ---- modes 4 and 5: parameter iterations that are alive at the same time.  Every iterator belongs to
   its own coefficient set; what it yields depends on its own set and selection only. ---- *)
Definition sel_sep : Z := 63.

Definition split_sels (l : list Z) : list (list Z) :=
  fold_right (fun x acc => if x =? sel_sep then [] :: acc
                           else match acc with h :: t => (x :: h) :: t | [] => [[x]] end) [[]] l.

(* the parameters of one set: (yielded index, memory position) *)
Definition params_of (ts : list Z) : list (nat * nat) :=
  let tp := tuned_params (in_targets (targets_of ts)) zero_rep in
  combine (seq 0 (List.length tp)) (map (mem_pos zero_rep) tp).

Definition live_rec (j : nat) (ip : nat * nat) : list Z := [zn j; zn (fst ip); zn j; zn (snd ip); 1].

(* one round: iterator j advances stride_j steps *)
Fixpoint live_round (j : nat) (strides : list nat) (qs : list (list (nat * nat))) : list Z * list (list (nat * nat)) :=
  match qs with
  | [] => ([], [])
  | q :: rest =>
      let s := match strides with s :: _ => s | [] => 1%nat end in
      let r := live_round (S j) (tl strides) rest in
      (flat_map (live_rec j) (firstn s q) ++ fst r, skipn s q :: snd r)
  end.

Fixpoint live_rounds (fuel : nat) (strides : list nat) (qs : list (list (nat * nat))) : list Z :=
  match fuel with
  | O => []
  | S k =>
      if forallb (fun q => match q with [] => true | _ => false end) qs then []
      else let r := live_round 0 strides qs in fst r ++ live_rounds k strides (snd r)
  end.

Definition live_records (pattern : Z) (ps : list (list (nat * nat))) : list Z :=
  let total := list_sum (map (@List.length _) ps) in
  if pattern =? 0 then
    List.concat (map (fun jq => flat_map (live_rec (fst jq)) (snd jq)) (combine (seq 0 (List.length ps)) ps))
  else if pattern =? 1 then live_rounds (S total) [] ps
  else if pattern =? 3 then
    live_rounds (S total) (map (fun j => nth (Nat.modulo j 3) [2; 1; 3]%nat 1%nat) (seq 0 (List.length ps))) ps
  else (* nested *)
    match ps with
    | [] => []
    | outer :: others =>
        let inner := List.concat (map (fun jq => flat_map (live_rec (fst jq)) (snd jq))
                                      (combine (seq 1 (List.length others)) others)) in
        flat_map (fun ip => live_rec 0 ip ++ inner) (firstn 3 outer)
    end.

(* the cells written per set *)
Definition live_marked (pattern : Z) (ps : list (list (nat * nat))) : list (list nat) :=
  if pattern =? 2 then
    match ps with
    | [] => []
    | outer :: others =>
        map (@snd _ _) (firstn 3 outer) ::
        map (fun q => match outer with [] => [] | _ => map (@snd _ _) q end) others
    end
  else map (map (@snd _ _)) ps.

Definition run_c19vec (l : list Z) : list Z :=
  match l with
  | 0 :: _ :: nt :: ts0 =>
      let ts := firstn (Z.to_nat nt) ts0 in
      let sel := in_targets (targets_of ts) in
      let n := vec_len sel zero_rep in
      match set_vector sel zero_rep (odd_vector n) with
      | None => [-1; -1; -1]
      | Some e =>
          let r := to_vector sel e in
          let tp := tuned_params sel e in
          [zn n] ++ flat_all e ++ [zn (length r)] ++ r ++ [zn (length tp)] ++
          List.concat (map (fun ia => [zn (fst ia); zn (mem_pos e (snd ia));
                                  match get_at e (snd ia) with Some x => x | None => -1 end])
                      (combine (seq 0 (length tp)) tp))
      end
  | 1 :: k :: nt :: ts0 =>
      let ts := firstn (Z.to_nat nt) ts0 in
      let sel := in_targets (targets_of ts) in
      let e := engine_rep in
      let n := vec_len sel e in
      let tp := tuned_params sel e in
      let e' := if (0 <=? k) then
                  match nth_error tp (Z.to_nat k) with
                  | Some a => match get_at e a with Some x => upd_at e a (x + 1) | None => e end
                  | None => e
                  end
                else e in
      let dm := diff_pairs (flat_all e) (flat_all e') in
      let dv := diff_pairs (to_vector sel e) (to_vector sel e') in
      [zn n] ++ [zn (length dm) / 2] ++ dm ++ [zn (length dv) / 2] ++ dv ++ [1]
  | 2 :: _ => flat_all engine_rep
  | 4 :: pattern :: nt :: ts0 =>
      let ps := map params_of (split_sels (firstn (Z.to_nat nt) ts0)) in
      let recs := live_records pattern ps in
      [zn (List.length recs) / 5] ++ recs ++
      flat_map (fun m => zn (List.length m) :: map zn m) (live_marked pattern ps)
  | 5 :: k :: nt :: ts0 =>
      let sel := in_targets (targets_of (firstn (Z.to_nat nt) ts0)) in
      let n := vec_len sel zero_rep in
      flat_map (fun _ => [1; 1; zn n]) (seq 0 (Z.to_nat k))
  | 3 :: _ :: nt :: ts0 =>
      let ts := firstn (Z.to_nat nt) ts0 in
      let sel := in_targets (targets_of ts) in
      let n := vec_len sel zero_rep in
      match set_vector sel zero_rep (odd_vector n) with
      | None => [-1; -1; -1]
      | Some e =>
          let r := to_vector sel e in
          let tp := tuned_params sel e in
          let pos := map (mem_pos e) tp in
          let vals := map (fun a => match get_at e a with Some x => x | None => -1 end) tp in
          let rs := runs 0 pos in
          [zn n; b2z (list_eqbZ r (odd_vector n)); b2z (list_eqbZ vals (odd_vector n));
           b2z (Nat.eqb (List.length (filter (fun x => negb (x =? 0)) (flat_all e))) n);
           zn (List.length rs)] ++ flat_map (fun t => [zn (fst (fst t)); zn (snd (fst t)); zn (snd t)]) rs
      end
  | _ => []
  end.
