package streams

// C07 streams:
//
//	c07       request -> every printed line of one Search.Go call, each variation replayed on the Go
//	          board; judged by judge_c07
//	c07uci    the same through the UCI driver (`bestmove M ponder P` line included)
//	c07id     the decision layer (Model/IterDeepen.v) replayed against a real transcript (model stream)
//	c07pv     random setNull/insert sequences on the real PV buffer vs Model/Pv.v (model stream)
//	c07score  chess.Score.String vs Model/Pv.v score_string, all 65536 scores (model stream)
//
// Observation layout (c07, c07uci):
//
//	nLines (kind depth nodes scoreKind scoreVal pvlen legalPrefix pv0 pv1)* move ponder ponderLegal parsedOK
//
// kind 1 = `info depth D score .. nodes N .. pv ..`, 2 = `info depth D nodes N`, 0 = not understood.

import (
	"fmt"
	"strings"

	"github.com/paulsonkoly/chess-3/board"
	. "github.com/paulsonkoly/chess-3/chess"
	"github.com/paulsonkoly/chess-3/move"
	"github.com/paulsonkoly/chess-3/search"
	"github.com/paulsonkoly/chess-3/uci"

	"verifharness/hx"
)

func init() {
	hx.Register(&hx.Stream{Name: "c07", Gen: genC07, Run: runC07})
	hx.Register(&hx.Stream{Name: "c07uci", Gen: genC07uci, Run: runC07uci})
	hx.Register(&hx.Stream{Name: "c07id", Gen: genC07id, Run: runC07id})
	hx.Register(&hx.Stream{Name: "c07pv", Gen: genC07pv, Run: runC07pv})
	hx.Register(&hx.Stream{Name: "c07score", Gen: genC07score, Run: runC07score})
}

const sbBadMove = 0xffff

// sbReplayPV plays the variation on a copy of the root: number of moves that were legal in order,
// and the first two moves encoded (sbBadMove when the text is not a move of the position).
func sbReplayPV(root sbRoot, pv []string) (prefix int, m0, m1 move.Move) {
	b := sbBoard(root)
	ok := true
	for i, t := range pv {
		m, legal := hx.U2M(uint64(sbBadMove)), false
		if ok {
			if pm, err := uci.VerifParseUCIMove(b, t); err == nil {
				m, legal = pm, sbIsLegal(b, pm)
			}
		}
		if i == 0 {
			m0 = m
		}
		if i == 1 {
			m1 = m
		}
		if ok && legal {
			prefix++
			b.MakeMove(m)
		} else {
			ok = false
		}
	}
	return
}

func sbLinesObservation(root sbRoot, lines []string, out *hx.Nums) (allParsed bool) {
	allParsed = true
	var infos []sbInfo
	for _, l := range lines {
		if strings.HasPrefix(l, "info") {
			infos = append(infos, sbParseInfo(l))
		}
	}
	out.Int(len(infos))
	for _, in := range infos {
		if in.Kind == 0 {
			allParsed = false
		}
		prefix, m0, m1 := sbReplayPV(root, in.PV)
		out.Int(in.Kind, in.Depth, in.Nodes, in.ScoreKind, in.ScoreVal, len(in.PV), prefix).U(hx.M2U(m0), hx.M2U(m1))
	}
	return
}

func sbPonderLegal(root sbRoot, m, p move.Move) bool {
	if p == 0 {
		return true
	}
	b := sbBoard(root)
	if m == 0 || !sbIsLegal(b, m) {
		return false
	}
	b.MakeMove(m)
	return sbIsLegal(b, p)
}

func runC07(a hx.Args) string {
	r, _, ok := sbDecode(a, 0)
	if !ok {
		return "badinput"
	}
	b := sbBoard(r.Root)
	if b == nil {
		return "badroot"
	}
	s := sbEngine(r.TTKB, r.Warm, b)
	res := sbRun(s, b, r)
	out := &hx.Nums{}
	parsed := sbLinesObservation(r.Root, res.Lines, out)
	out.U(hx.M2U(res.Move), uint64(res.Ponder)).B(sbPonderLegal(r.Root, res.Move, res.Ponder)).B(parsed && !res.Watchdog)
	return out.String()
}

func genC07(rng *hx.Rng, n int, tier string, emit func(hx.Input)) {
	sbRequests(rng, n, tier, func(r sbReq, tags []string) {
		b := sbBoard(r.Root)
		nt := sbFinal(b) == 0
		emit(hx.Input{In: r.encode().String(), Desc: r.desc(), Tags: tags, NonTrivial: nt})
	})
}

// c07uci: request (depth/nodes/warm used; table is the driver's) -> transcript of
//
//	setoption Ponder true; position ..; [go nodes warm]; go [depth D] [nodes N]
func runC07uci(a hx.Args) string {
	r, _, ok := sbDecode(a, 0)
	if !ok {
		return "badinput"
	}
	b := sbBoard(r.Root)
	if b == nil {
		return "badroot"
	}
	cmds := []string{"setoption name Ponder value true", sbPositionCmd(r.Root)}
	if r.Warm > 0 {
		cmds = append(cmds, fmt.Sprintf("go nodes %d", r.Warm))
	}
	goCmd := "go"
	if r.HasDepth {
		goCmd += fmt.Sprintf(" depth %d", r.Depth)
	}
	if r.Nodes >= 0 {
		goCmd += fmt.Sprintf(" nodes %d", r.Nodes)
	}
	if goCmd == "go" {
		return "badinput" // would never stop
	}
	cmds = append(cmds, goCmd)
	lines := sbUCI(nil, cmds)
	// keep the transcript of the last go only
	last := 0
	for i, l := range lines {
		if strings.HasPrefix(l, "bestmove") && i != len(lines)-1 {
			last = i + 1
		}
	}
	lines = lines[last:]
	out := &hx.Nums{}
	parsed := sbLinesObservation(r.Root, lines, out)
	var m, p move.Move
	bm := strings.Fields(lines[len(lines)-1])
	if len(bm) < 2 || bm[0] != "bestmove" || (len(bm) != 2 && !(len(bm) == 4 && bm[2] == "ponder")) {
		parsed = false
	} else {
		if bm[1] != "0000" {
			var err error
			if m, err = uci.VerifParseUCIMove(b, bm[1]); err != nil {
				m = sbBadMove
			}
		}
		if len(bm) == 4 {
			p = sbBadMove
			if m != 0 && m != sbBadMove && sbIsLegal(b, m) {
				b2 := sbBoard(r.Root)
				b2.MakeMove(m)
				if pm, err := uci.VerifParseUCIMove(b2, bm[3]); err == nil {
					p = pm
				}
			}
		}
	}
	out.U(hx.M2U(m), uint64(p)).B(sbPonderLegal(r.Root, m, p)).B(parsed)
	return out.String()
}

func genC07uci(rng *hx.Rng, n int, tier string, emit func(hx.Input)) {
	roots := sbRoots()
	epd := sbEpdRoots()
	for cnt := 0; cnt < n; cnt++ {
		var root sbRoot
		if rng.Chance(0.5) || len(epd) == 0 {
			root = roots[rng.Intn(len(roots))]
		} else {
			root = epd[rng.Intn(len(epd))]
		}
		if rng.Chance(0.3) {
			root = sbRandomWalk(rng, root, rng.Intn(16))
		}
		r := sbReq{TTKB: 1024, Nodes: rng.Intn(2500), SoftNodes: -1, Root: root}
		tags := []string{"uci"}
		if rng.Chance(0.3) {
			r.Warm = 1 + rng.Intn(1500)
			tags = append(tags, "warmed")
		}
		if rng.Chance(0.4) {
			r.HasDepth, r.Depth = true, int(rng.Range(-2, 7))
			tags = append(tags, "+depth")
		}
		b := sbBoard(root)
		emit(hx.Input{In: r.encode().String(), Desc: r.desc(), Tags: tags, NonTrivial: sbFinal(b) == 0})
	}
}

// ---------------------------------------------------------------------------------------------
// c07id: request | firstLegal W nLines (kind depth nodes scoreKnown score pvlen pv0 pv1)*
// -> [move ponder nLines aborted score|12345]

const sbUnknownScore = 12345

func sbTranscript(root sbRoot, lines []string) (*hx.Nums, bool) {
	out := &hx.Nums{}
	var infos []sbInfo
	for _, l := range lines {
		if strings.HasPrefix(l, "info") {
			infos = append(infos, sbParseInfo(l))
		}
	}
	out.Int(len(infos))
	known := true
	for _, in := range infos {
		_, m0, m1 := sbReplayPV(root, in.PV)
		sk, sv := 1, in.ScoreVal
		if in.Kind == 1 && in.ScoreKind != 1 {
			// mate scores are printed rounded: (Inf-|s|+1)/2; any representative will do for the replay
			known = false
			sk = 0
			f := strings.Fields(in.Raw)
			n := in.ScoreVal
			if n < 0 {
				n = -n
			}
			sv = int(Inf) - 2*n + 1
			if sv > int(Inf) {
				sv = int(Inf)
			}
			if strings.HasPrefix(f[5], "-") {
				sv = -sv
			}
		}
		out.Int(in.Kind, in.Depth, in.Nodes, sk, sv, len(in.PV)).U(hx.M2U(m0), hx.M2U(m1))
	}
	return out, known
}

func sbFirstLegal(b *board.Board) move.Move {
	ls := sbLegalMoves(b)
	if len(ls) == 0 {
		return 0
	}
	return ls[0]
}

func runC07id(a hx.Args) string {
	r, _, ok := sbDecode(a, 0)
	if !ok {
		return "badinput"
	}
	b := sbBoard(r.Root)
	if b == nil {
		return "badroot"
	}
	s := sbEngine(r.TTKB, r.Warm, b)
	res := sbRun(s, b, r)
	_, known := sbTranscript(r.Root, res.Lines)
	sc := int64(res.Score)
	if !known {
		sc = sbUnknownScore
	}
	n := 0
	for _, l := range res.Lines {
		if strings.HasPrefix(l, "info") {
			n++
		}
	}
	return (&hx.Nums{}).U(hx.M2U(res.Move), uint64(res.Ponder)).Int(n).B(res.Aborted).I(sc).String()
}

func genC07id(rng *hx.Rng, n int, tier string, emit func(hx.Input)) {
	sbRequests(rng, n*3/2, tier, func(r sbReq, tags []string) {
		if r.StopKind&15 == 3 {
			return // arrival point of the stop is not reproducible; the transcript would differ on re-run
		}
		b := sbBoard(r.Root)
		s := sbEngine(r.TTKB, r.Warm, b)
		res := sbRun(s, b, r)
		tr, _ := sbTranscript(r.Root, res.Lines)
		in := r.encode().U(hx.M2U(sbFirstLegal(b))).Int(sbWindowSize())
		emit(hx.Input{In: in.String() + " " + tr.String(), Desc: r.desc(), Tags: tags,
			NonTrivial: len(res.Lines) > 1})
	})
}

// ---------------------------------------------------------------------------------------------
// c07pv

func runC07pv(a hx.Args) string {
	pv := search.VerifNewPV()
	for i := 0; i+2 < a.Len(); i += 3 {
		k, ply, m := a.Int(i), a.I64(i+1), hx.U2M(a.U64(i+2))
		if k == 0 {
			pv.SetNull(Depth(ply))
		} else {
			pv.Insert(Depth(ply), m)
		}
	}
	out := &hx.Nums{}
	for p := 0; p < MaxPlies; p++ {
		l := pv.Line(Depth(p))
		out.Int(len(l))
		for _, m := range l {
			out.U(hx.M2U(m))
		}
	}
	return out.String()
}

func genC07pv(rng *hx.Rng, n int, tier string, emit func(hx.Input)) {
	for c := 0; c < n; c++ {
		in := &hx.Nums{}
		var desc []string
		nops := 1 + rng.Intn(120)
		mode := rng.Intn(4)
		ply := 0
		tag := []string{"random-walk", "search-like", "deep", "with-out-of-range"}[mode]
		for i := 0; i < nops; i++ {
			k := rng.Intn(2)
			switch mode {
			case 0:
				ply = rng.Intn(64)
				if k == 1 && ply == 63 {
					ply = 62
				}
			case 1:
				// like a search: walk down setting null, come back up inserting
				if rng.Chance(0.5) && ply < 62 {
					ply++
					k = 0
				} else if ply > 0 {
					ply--
					k = 1
				} else {
					k = rng.Intn(2)
				}
			case 2:
				ply = 50 + rng.Intn(13)
			default:
				ply = int(rng.Range(-3, 66))
				if rng.Chance(0.9) {
					ply = rng.Intn(63)
				}
			}
			m := 1 + rng.Intn(0x7fff)
			in.Int(k, ply, m)
			desc = append(desc, fmt.Sprintf("%s(%d,%x)", []string{"setNull", "insert"}[k], ply, m))
		}
		emit(hx.Input{In: in.String(), Desc: strings.Join(desc, " "), Tags: []string{tag}, NonTrivial: true})
	}
}

// ---------------------------------------------------------------------------------------------
// c07score

func runC07score(a hx.Args) string {
	s := Score(a.I64(0))
	str := s.String()
	f := strings.Fields(str)
	switch {
	case str == "Inv":
		return "0 0 0"
	case len(f) == 2 && f[0] == "cp":
		var v int64
		fmt.Sscan(f[1], &v)
		return (&hx.Nums{}).Int(1, 0).I(v).String()
	case len(f) == 2 && f[0] == "mate":
		// the sign is printed separately from the number: "mate -3", and for out-of-range scores "mate --3"
		neg := 0
		t := f[1]
		if s < 0 {
			if !strings.HasPrefix(t, "-") {
				return "63 0 0"
			}
			neg = 1
			t = t[1:]
		}
		var v int64
		if _, err := fmt.Sscan(t, &v); err != nil {
			return "63 0 0"
		}
		return (&hx.Nums{}).Int(2, neg).I(v).String()
	}
	return "63 0 0"
}

func genC07score(rng *hx.Rng, n int, tier string, emit func(hx.Input)) {
	for s := -32768; s <= 32767; s++ {
		tag := "cp"
		a := s
		if a < 0 {
			a = -a
		}
		if a >= int(Inf)-MaxPlies {
			tag = "mate-range"
		}
		if a > int(Inf) {
			tag = "beyond-inf"
		}
		emit(hx.Input{In: (&hx.Nums{}).Int(s).String(), Desc: fmt.Sprintf("Score(%d).String()", s), Tags: []string{tag},
			NonTrivial: true})
	}
}
