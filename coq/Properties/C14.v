(* C14 - Time budget granted to a search never exceeds the clock.
   Statements only; proofs live in Proofs/TimeCtlProofs.v. The constants TimeSafetyMargin,
   PredictedMoves and TimeInf come from Gen/TimeConsts.v, regenerated from uci/uci.go on every run. *)
From Coq Require Import ZArith.
From Chess3 Require Import Base.Word Gen.TimeConsts Model.TimeCtl Proofs.TimeCtlProofs.
Open Scope Z_scope.

(* clock_ok t c :=  1 <= remaining <= 9*10^12 ms  /\  0 <= increment <= 2^60 ms
   (contains the property's domain 1..10^12 ms x 0..10^9 ms; 9.2*10^12 ms is where the
   conversion to time.Duration nanoseconds would wrap) *)

Theorem C14_hard_deadline : forall t c, mtime t = 0 -> clock_ok t c ->
  0 < hard_limit t c <= remaining t c
  /\ (remaining t c > TimeSafetyMargin -> hard_limit t c <= remaining t c - TimeSafetyMargin)
  /\ duration_ns (hard_limit t c) = hard_limit t c * 1000000
  /\ 0 < duration_ns (hard_limit t c).
Proof. exact hard_bounds. Qed.
Print Assumptions C14_hard_deadline.

Theorem C14_movetime : forall t c, 0 < mtime t ->
  soft_limit t c = mtime t /\ hard_limit t c = mtime t.
Proof. exact movetime_fixed. Qed.
Print Assumptions C14_movetime.

Theorem C14_movetime_duration : forall t c, 0 < mtime t <= 9000000000000 ->
  duration_ns (hard_limit t c) = mtime t * 1000000 /\ 0 < duration_ns (hard_limit t c).
Proof. exact movetime_duration. Qed.
Print Assumptions C14_movetime_duration.

Theorem C14_own_clock_only : forall t t' c,
  remaining t c = remaining t' c -> increment t c = increment t' c -> mtime t = mtime t' ->
  hard_limit t c = hard_limit t' c /\ soft_limit t c = soft_limit t' c /\ timed_mode t c = timed_mode t' c.
Proof. exact own_clock_only. Qed.
Print Assumptions C14_own_clock_only.

Theorem C14_timer_armed : forall t c, 0 < remaining t c \/ 0 < mtime t -> timed_mode t c = true.
Proof. exact timer_armed. Qed.
Print Assumptions C14_timer_armed.

(* non-vacuity: a concrete clock state meets the hypotheses *)
Example C14_nonvacuous :
  let t := {| wtime := 60000; btime := 1; winc := 1000; binc := 0; mtime := 0 |} in
  mtime t = 0 /\ clock_ok t White /\ hard_limit t White = 10000.
Proof. cbv. repeat split; discriminate. Qed.
