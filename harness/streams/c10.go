package streams

import (
	"bufio"
	"fmt"
	"io"
	"strings"

	"github.com/paulsonkoly/chess-3/board"
	. "github.com/paulsonkoly/chess-3/chess"
	"github.com/paulsonkoly/chess-3/move"
	"github.com/paulsonkoly/chess-3/search"
	"github.com/paulsonkoly/chess-3/uci"

	"verifharness/hx"
	"verifharness/posgen"
)

// c10: board-in(root) ++ [j n m_1..m_n] -> [T_0..T_n] ++ [U_0..U_n] ++ [S]
//
//	T_i  Threefold() after i plies played with MakeMove on the root board
//	U_i  Threefold() of an in-process UCI driver's board after `position fen <root> moves m_1..m_i`
//	     (n+1 consecutive position commands on ONE driver: lists that grow, each preceded by a FEN load)
//	S    Threefold() after `position fen <root> moves m_1..m_j` followed by
//	     `position fen <FEN after j plies> moves m_(j+1)..m_n` (a FEN load starts a new history)
//
// See coq/Model/Rep3Stream.v (model side) and coq/Spec/RepJudge.v (spec oracle).
func init() {
	hx.Register(&hx.Stream{Name: "c10", Gen: genC10, Run: runC10, Shrink: shrinkC10, Describe: describeC10})
}

// ---------------------------------------------------------------------------------------------
// an in-process UCI session, synchronised with isready/readyok

type c10Stub struct{}

func (c10Stub) Go(*board.Board, ...search.Option) (Score, move.Move, move.Move) { return 0, 0, 0 }
func (c10Stub) Clear()                                                          {}
func (c10Stub) ResizeTT(int)                                                    {}

type c10Sess struct {
	in   *io.PipeWriter
	out  *bufio.Reader
	d    *uci.Driver
	done chan struct{}
}

func newC10Sess() *c10Sess {
	inR, inW := io.Pipe()
	outR, outW := io.Pipe()
	d := uci.NewDriver(uci.WithInput(inR), uci.WithOutput(outW), uci.WithError(io.Discard), uci.WithSearch(c10Stub{}))
	s := &c10Sess{in: inW, out: bufio.NewReader(outR), d: d, done: make(chan struct{})}
	go func() {
		d.Run()
		outW.Close()
		close(s.done)
	}()
	return s
}

// cmd sends one command and waits until the driver has processed it.
func (s *c10Sess) cmd(line string) {
	if _, err := io.WriteString(s.in, line+"\nisready\n"); err != nil {
		panic(err)
	}
	for {
		l, err := s.out.ReadString('\n')
		if err != nil {
			panic(err)
		}
		if strings.TrimSpace(l) == "readyok" {
			return
		}
	}
}

func (s *c10Sess) close() {
	s.in.Close()
	go io.Copy(io.Discard, s.out)
	<-s.done
}

func c10Position(rootFEN string, ms []string) string {
	var sb strings.Builder
	if rootFEN == StartPosFEN {
		sb.WriteString("position startpos")
	} else {
		sb.WriteString("position fen " + rootFEN)
	}
	if len(ms) > 0 {
		sb.WriteString(" moves " + strings.Join(ms, " "))
	}
	return sb.String()
}

func runC10(a hx.Args) string {
	b, i := a.Board(0)
	j, n := a.Int(i), a.Int(i+1)
	if n < 0 || i+2+n > a.Len() || j < 0 || j > n {
		return "badinput"
	}
	ms := make([]move.Move, n)
	strs := make([]string, n)
	for k := 0; k < n; k++ {
		ms[k] = hx.U2M(a.U64(i + 2 + k))
		strs[k] = ms[k].String()
	}
	rootFEN := b.FEN()
	midFEN := rootFEN
	out := &hx.Nums{}
	// MakeMove path
	out.Int(int(b.Threefold()))
	for k, m := range ms {
		b.MakeMove(m)
		out.Int(int(b.Threefold()))
		if k+1 == j {
			midFEN = b.FEN()
		}
	}
	// UCI path
	s := newC10Sess()
	defer s.close()
	for k := 0; k <= n; k++ {
		s.cmd(c10Position(rootFEN, strs[:k]))
		out.Int(int(s.d.VerifBoard().Threefold()))
	}
	s.cmd(c10Position(rootFEN, strs[:j]))
	s.cmd(c10Position(midFEN, strs[j:]))
	out.Int(int(s.d.VerifBoard().Threefold()))
	return out.String()
}

// ---------------------------------------------------------------------------------------------
// generator

// c10Hist builds one history move by move on a real board.
type c10Hist struct {
	b          *board.Board
	root       string
	ms         []move.Move
	kind       string
	fens       []string // FEN after i plies
	epSeen     bool
	rightsLost bool
}

func newC10Hist(root, kind string) *c10Hist {
	b, err := board.FromFEN(root)
	if err != nil || !posgen.Valid(b) || b.InvalidPieceCount() {
		return nil
	}
	return &c10Hist{b: b, root: root, kind: kind, fens: []string{b.FEN()}}
}

func (h *c10Hist) play(m move.Move) bool {
	for _, l := range posgen.Legal(h.b) {
		if l == m {
			c := h.b.Castles
			h.b.MakeMove(m)
			h.ms = append(h.ms, m)
			h.fens = append(h.fens, h.b.FEN())
			if h.b.EnPassant != 0 {
				h.epSeen = true
			}
			if h.b.Castles != c {
				h.rightsLost = true
			}
			return true
		}
	}
	return false
}

func (h *c10Hist) playStr(s string) bool {
	m, err := uci.VerifParseUCIMove(h.b, s)
	if err != nil {
		return false
	}
	return h.play(m)
}

// script plays blank separated moves, reps times; stops at the first move that is not legal.
func (h *c10Hist) script(moves string, reps int) bool {
	for r := 0; r < reps; r++ {
		for _, s := range strings.Fields(moves) {
			if len(h.ms) >= 400 || !h.playStr(s) {
				return false
			}
		}
	}
	return true
}

func c10Rev(m move.Move) move.Move { return move.From(m.To()) | move.To(m.From()) }

// quiet moves: a piece (not a pawn) moves to an empty square, no castling
func c10Quiet(b *board.Board) []move.Move {
	var out []move.Move
	for _, m := range posgen.Legal(b) {
		p := b.SquaresToPiece[m.From()]
		if p == Pawn || b.SquaresToPiece[m.To()] != NoPiece {
			continue
		}
		if p == King && Abs(m.From()-m.To()) == 2 {
			continue
		}
		out = append(out, m)
	}
	return out
}

func c10Clone(b *board.Board) *board.Board { return board.VerifRestore(b.VerifSnapshot()) }

func c10IsLegal(b *board.Board, m move.Move) bool {
	for _, l := range posgen.Legal(b) {
		if l == m {
			return true
		}
	}
	return false
}

// findCycle looks for a sequence of quiet moves of the given length (4, 6 or 8 plies) that returns
// to the same placement: 4 = both sides move a piece and move it back; 6 = both sides walk a
// triangle with one piece; 8 = both sides move two pieces out and back.
func c10FindCycle(rng *hx.Rng, b0 *board.Board, length int) []move.Move {
	for try := 0; try < 30; try++ {
		b := c10Clone(b0)
		var seq []move.Move
		ok := true
		pick := func(filter func(move.Move) bool) bool {
			var cand []move.Move
			for _, m := range c10Quiet(b) {
				if filter == nil || filter(m) {
					cand = append(cand, m)
				}
			}
			if len(cand) == 0 {
				return false
			}
			m := cand[rng.Intn(len(cand))]
			b.MakeMove(m)
			seq = append(seq, m)
			return true
		}
		force := func(m move.Move) bool {
			if b.SquaresToPiece[m.To()] != NoPiece || !c10IsLegal(b, m) {
				return false
			}
			b.MakeMove(m)
			seq = append(seq, m)
			return true
		}
		switch length {
		case 4:
			ok = pick(nil) && pick(nil) && force(c10Rev(seq[0])) && force(c10Rev(seq[1]))
		case 6:
			ok = pick(nil) && pick(nil) &&
				pick(func(m move.Move) bool { return m.From() == seq[0].To() && m.To() != seq[0].From() }) &&
				pick(func(m move.Move) bool { return m.From() == seq[1].To() && m.To() != seq[1].From() }) &&
				force(move.From(seq[2].To())|move.To(seq[0].From())) &&
				force(move.From(seq[3].To())|move.To(seq[1].From()))
		default:
			ok = pick(nil) && pick(nil) &&
				pick(func(m move.Move) bool { return m.From() != seq[0].To() && m.To() != seq[0].From() }) &&
				pick(func(m move.Move) bool { return m.From() != seq[1].To() && m.To() != seq[1].From() }) &&
				force(c10Rev(seq[0])) && force(c10Rev(seq[1])) && force(c10Rev(seq[2])) && force(c10Rev(seq[3]))
		}
		if ok {
			return seq
		}
	}
	return nil
}

// randomMove: a legal move with the play-out biases (en passant / double pushes, undo, noisy, quiet).
func (h *c10Hist) randomMove(rng *hx.Rng, undo, quiet int) bool {
	legal := posgen.Legal(h.b)
	if len(legal) == 0 {
		return false
	}
	x := rng.Intn(100)
	var cand []move.Move
	switch {
	case x < undo && len(h.ms) >= 2:
		back := c10Rev(h.ms[len(h.ms)-2])
		for _, l := range legal {
			if l == back {
				cand = append(cand, l)
			}
		}
	case x < undo+quiet:
		cand = c10Quiet(h.b)
	case x < undo+quiet+10:
		for _, l := range legal {
			if h.b.IsEnPassant(l) {
				cand = append(cand, l, l)
			} else if h.b.SquaresToPiece[l.From()] == Pawn && Abs(l.From()-l.To()) == 16 {
				r := h.b.MakeMove(l)
				if h.b.EnPassant != 0 {
					cand = append(cand, l)
				}
				h.b.UndoMove(l, r)
			}
		}
	}
	if len(cand) == 0 {
		cand = legal
	}
	return h.play(cand[rng.Intn(len(cand))])
}

var c10Scripts = []struct {
	root string
	segs []string // "moves*reps"
}{
	{StartPosFEN, []string{"g1f3 g8f6 f3g1 f6g8*100"}},
	{StartPosFEN, []string{"b1c3 b8c6 c3b1 c6b8*3", "g1f3 g8f6 f3g1 f6g8*3", "b1c3 b8c6 c3b1 c6b8*2"}},
	// rights lost in the middle of a cycle: same placement, different position
	{"r3k2r/8/8/8/8/8/8/R3K2R w KQkq - 0 1", []string{"a1b1 a8b8 b1a1 b8a8*3", "h1g1 h8g8 g1h1 g8h8*3", "e1e2 e8e7 e2e1 e7e8*3"}},
	{"r3k2r/8/8/8/8/8/8/R3K2R b KQkq - 0 1", []string{"e8d8 e1d1 d8e8 d1e1*4"}},
	{StartPosFEN, []string{"g1f3 g8f6 f3g1 f6g8*1", "g1f3 g8f6*1", "h1g1 h8g8 g1h1 g8h8*1", "f3g1 f6g8*1", "g1f3 g8f6 f3g1 f6g8*3"}},
	{StartPosFEN, []string{"g1f3 g8f6*1", "h1g1 f6g8 g1h1 g8f6*2", "f3g1 f6g8*1", "g1f3 g8f6 f3g1 f6g8*2"}},
	{"r3k2r/pppppppp/8/8/8/8/PPPPPPPP/R3K2R w KQkq - 0 1", []string{"e1d1 e8d8 d1e1 d8e8*2", "a1b1 a8b8 b1a1 b8a8*3"}},
	{"r3k2r/8/8/8/8/8/8/R3K2R w KQkq - 0 1", []string{"e1g1 e8c8*1", "g1h1 c8b8 h1g1 b8c8*3"}},
	// transient en-passant right: the capture is legal, so the position after the double push is not
	// the same as its later recurrences
	{"4k3/8/8/8/3p4/8/4P3/4K3 w - - 0 1", []string{"e2e4*1", "e8d8 e1d1 d8e8 d1e1*3"}},
	{"4k3/3p4/8/4P3/8/8/8/4K3 b - - 0 1", []string{"d7d5*1", "e1d1 e8d8 d1e1 d8e8*3"}},
	{"4k3/8/8/8/3p1p2/8/4P3/4K3 w - - 0 1", []string{"e2e4*1", "e8d8 e1d1 d8e8 d1e1*2", "d4e3*1"}},
	{"rnbqkbnr/ppp1pppp/8/8/3p4/8/PPPPPPPP/RNBQKBNR w KQkq - 0 3", []string{"e2e4*1", "g8f6 g1f3 f6g8 f3g1*3"}},
	{"rnbqkbnr/ppp1pppp/8/8/3p4/8/PPPPPPPP/RNBQKBNR w KQkq - 0 3", []string{"c2c4*1", "g8f6 g1f3 f6g8 f3g1*2", "d4c3*1"}},
	// the double push creates no right (capture illegal: pinned along the rank / king left in check):
	// the later recurrences ARE the same position
	{"8/8/8/8/k2p3R/8/4P3/4K3 w - - 0 1", []string{"e2e4*1", "a4a5 e1d1 a5a4 d1e1*3"}},
	{"8/8/8/8/1k1p3R/8/4P3/K7 w - - 0 1", []string{"e2e4*1", "b4b5 a1b1 b5b4 b1a1*3"}},
	{"4k3/8/8/8/3p4/8/4P3/3RK3 w - - 0 1", []string{"e2e4*1", "e8f8 e1f1 f8e8 f1e1*3"}},
	{"3r4/8/8/8/4p2k/8/3P4/3K4 w - - 0 1", []string{"d2d4*1", "h4h5 d1c1 h5h4 c1d1*3"}},
	{"4k3/8/8/8/8/8/4P3/4K3 w - - 0 1", []string{"e2e4*1", "e8d8 e1d1 d8e8 d1e1*3"}},
	{"rnbqkbnr/pppppppp/8/8/8/8/PPPPPPPP/RNBQKBNR w KQkq - 0 1", []string{"e2e4 e7e5*1", "g1f3 g8f6 f3g1 f6g8*3"}},
	// cycles of 6 and 8 plies, mixed distances
	{"4k3/8/8/8/8/8/8/4K3 w - - 0 1", []string{"e1d1 e8d8 d1d2 d8d7 d2e1 d7e8*5"}},
	{"4k3/8/8/8/8/8/8/4K3 w - - 0 1", []string{"e1d1 e8d8 d1e1 d8e8*1", "e1d1 e8d8 d1d2 d8d7 d2e1 d7e8*2", "e1d1 e8d8 d1e1 d8e8*2"}},
	{"4k3/8/8/8/8/8/8/Q3K3 b - - 0 1", []string{"e8d8 a1a2 d8d7 a2b2 d7e8 b2a1*4"}},
	{StartPosFEN, []string{"g1f3 g8f6 b1c3 b8c6 f3g1 f6g8 c3b1 c6b8*6"}},
	{StartPosFEN, []string{"g1f3 g8f6 b1c3 b8c6 f3g1 c6b8 c3b1 f6g8*4"}},
	// history continues across captures, promotions and castling
	{"4k3/P7/8/8/8/8/7p/4K3 w - - 0 1", []string{"e1d1 e8d8 d1e1 d8e8*2", "a7a8q*1", "e8e7 a8a7*1", "e7e8 a7a8*3"}},
	{"r3k2r/8/8/8/8/8/8/R3K2R w KQkq - 0 1", []string{"a1a8 h8h1*1", "e1e2 e8e7 e2e1 e7e8*3"}},
}

// roots that carry an en-passant square although no en-passant capture is legal (valid positions by
// the letter of FEN; recorded finding fen-ep-flag)
var c10EpFlagRoots = []struct {
	root string
	segs []string
}{
	{"rnbqkbnr/pppppppp/8/8/4P3/8/PPPP1PPP/RNBQKBNR b KQkq e3 0 1", []string{"g8f6 g1f3 f6g8 f3g1*3"}},
	{"rnbqkbnr/pppp1ppp/8/4p3/4P3/8/PPPP1PPP/RNBQKBNR w KQkq e6 0 2", []string{"g1f3 g8f6 f3g1 f6g8*2", "b1c3 b8c6 c3b1 c6b8*2"}},
	{"8/8/8/8/k2pP2R/8/8/4K3 b - e3 0 1", []string{"a4a5 e1d1 a5a4 d1e1*3"}},
	{"4k3/8/8/8/4P3/8/8/4K3 b - e3 0 1", []string{"e8d8 e1d1 d8d7 d1d2 d7e8 d2e1*2"}},
}

func c10Seg(h *c10Hist, seg string) bool {
	parts := strings.Split(seg, "*")
	reps := 1
	if len(parts) == 2 {
		fmt.Sscanf(parts[1], "%d", &reps)
	}
	return h.script(parts[0], reps)
}

// measured over one generator run: do two different position keys share a hash?
type c10Coll struct {
	byHash map[board.Hash]string
}

func c10Key(b *board.Board) string {
	// placement, side to move, castling rights, and whether some en-passant capture is legal
	f := strings.Fields(b.FEN())
	ep := "-"
	if b.EnPassant != 0 {
		for _, l := range posgen.Legal(b) {
			if b.IsEnPassant(l) {
				ep = "ep"
			}
		}
	}
	return f[0] + " " + f[1] + " " + f[2] + " " + ep
}

func genC10(rng *hx.Rng, n int, tier string, emit func(hx.Input)) {
	coll := &c10Coll{byHash: map[board.Hash]string{}}
	cnt := 0
	finish := func(h *c10Hist) {
		if h == nil || cnt >= n {
			return
		}
		nm := len(h.ms)
		// the restart ply: some ply whose FEN the parser accepts (clock <= 100)
		j := 0
		for try := 0; try < 8; try++ {
			c := rng.Intn(nm + 1)
			var clock int
			f := strings.Fields(h.fens[c])
			fmt.Sscanf(f[4], "%d", &clock)
			if clock <= 100 {
				j = c
				break
			}
		}
		// replay for the tags: true counts by key, collisions
		b, _ := board.FromFEN(h.root)
		rootAbnormal := b.EnPassant != 0 && !strings.HasSuffix(c10Key(b), " ep")
		seen := map[string]int{}
		maxc, collided := 1, false
		first := true
		note := func() {
			k := c10Key(b)
			seen[k]++
			if seen[k] > maxc {
				maxc = seen[k]
			}
			// the hash of a root with a non-capturable en-passant square contains the file although the
			// key does not (finding fen-ep-flag); that is one key with two hashes, not a collision
			skip := first && rootAbnormal
			first = false
			if skip {
				return
			}
			if old, ok := coll.byHash[b.Hash()]; ok && old != k {
				collided = true
			}
			coll.byHash[b.Hash()] = k
		}
		note()
		for _, m := range h.ms {
			b.MakeMove(m)
			note()
		}
		in := (&hx.Nums{}).BoardIn(c10Root(h.root)).Int(j, nm)
		for _, m := range h.ms {
			in.U(hx.M2U(m))
		}
		tags := []string{h.kind}
		switch {
		case nm <= 50:
			tags = append(tags, "plies<=50")
		case nm <= 150:
			tags = append(tags, "plies<=150")
		default:
			tags = append(tags, "plies<=400")
		}
		tags = append(tags, fmt.Sprintf("max-count=%d", min(maxc, 4)))
		if h.epSeen {
			tags = append(tags, "ep-right-arose")
		}
		if h.rightsLost {
			tags = append(tags, "castling-rights-lost")
		}
		if rootAbnormal {
			tags = append(tags, "root-ep-square-not-capturable")
		}
		if collided {
			tags = append(tags, "HASH-COLLISION")
		} else {
			tags = append(tags, "no-hash-collision")
		}
		var sb strings.Builder
		sb.WriteString(h.kind + " fen " + h.root + fmt.Sprintf(" restart-at %d moves", j))
		for _, m := range h.ms {
			sb.WriteString(" " + m.String())
		}
		emit(hx.Input{In: in.String(), Desc: sb.String(), Tags: tags, NonTrivial: maxc >= 2})
		cnt++
	}

	// 1. the scripted oscillations
	for _, s := range c10Scripts {
		h := newC10Hist(s.root, "script")
		if h == nil {
			continue
		}
		for _, seg := range s.segs {
			if !c10Seg(h, seg) {
				break
			}
		}
		finish(h)
	}
	for _, s := range c10EpFlagRoots {
		h := newC10Hist(s.root, "script-fen-ep")
		if h == nil {
			continue
		}
		for _, seg := range s.segs {
			if !c10Seg(h, seg) {
				break
			}
		}
		finish(h)
	}
	roots := posgen.Roots()
	maxLen := 400
	for cnt < n {
		root := roots[rng.Intn(len(roots))]
		if rng.Chance(0.15) {
			root = StartPosFEN
		}
		switch x := rng.Intn(100); {
		case x < 40:
			// play-out with a strong undo bias
			h := newC10Hist(root, "playout")
			if h == nil {
				continue
			}
			target := 10 + rng.Intn(maxLen-9)
			if rng.Chance(0.5) {
				target = 10 + rng.Intn(120)
			}
			undo, quiet := 20+rng.Intn(30), rng.Intn(40)
			for len(h.ms) < target && h.randomMove(rng, undo, quiet) {
			}
			finish(h)
		case x < 90:
			// random prefix, then cycles of 4/6/8 plies interleaved with disturbing moves
			h := newC10Hist(root, "cycles")
			if h == nil {
				continue
			}
			target := 20 + rng.Intn(maxLen-19)
			if rng.Chance(0.5) {
				target = 20 + rng.Intn(100)
			}
			for k := rng.Intn(25); k > 0 && h.randomMove(rng, 10, 20); k-- {
			}
			alive := true
			for alive && len(h.ms) < target {
				switch y := rng.Intn(100); {
				case y < 70:
					length := []int{4, 4, 4, 6, 6, 8}[rng.Intn(6)]
					seq := c10FindCycle(rng, h.b, length)
					if seq == nil {
						alive = h.randomMove(rng, 0, 50)
						break
					}
					reps := 1 + rng.Intn(3)
					for r := 0; r < reps && alive; r++ {
						for _, m := range seq {
							if len(h.ms) >= maxLen || !h.play(m) {
								alive = false
								break
							}
						}
					}
				case y < 85:
					// out and back with one piece by each side (rook and king moves lose castling rights)
					seq := c10FindCycle(rng, h.b, 4)
					if seq == nil {
						alive = h.randomMove(rng, 0, 0)
						break
					}
					for _, m := range seq {
						if !h.play(m) {
							alive = false
							break
						}
					}
				default:
					alive = h.randomMove(rng, 0, 0)
				}
			}
			finish(h)
		default:
			// a root with an en-passant square, capturable or not, followed by cycles
			h := newC10Hist(c10EpRoot(rng), "cycles-ep-root")
			if h == nil {
				continue
			}
			for r := 1 + rng.Intn(4); r > 0; r-- {
				seq := c10FindCycle(rng, h.b, []int{4, 6, 8}[rng.Intn(3)])
				if seq == nil {
					break
				}
				for k := 1 + rng.Intn(3); k > 0; k-- {
					for _, m := range seq {
						h.play(m)
					}
				}
			}
			if len(h.ms) > 0 {
				finish(h)
			}
		}
	}
}

func c10Root(fen string) *board.Board {
	b, err := board.FromFEN(fen)
	if err != nil {
		panic(err)
	}
	return b
}

// c10EpRoot plays a few plies and returns the FEN after a double push, with the en-passant square
// written the way strict FEN writers do it (always), whether or not a capture is possible.
func c10EpRoot(rng *hx.Rng) string {
	roots := posgen.Roots()
	for try := 0; try < 50; try++ {
		b, err := board.FromFEN(roots[rng.Intn(len(roots))])
		if err != nil {
			continue
		}
		for k := rng.Intn(12); k > 0; k-- {
			l := posgen.Legal(b)
			if len(l) == 0 {
				break
			}
			b.MakeMove(l[rng.Intn(len(l))])
		}
		var pushes []move.Move
		for _, l := range posgen.Legal(b) {
			if b.SquaresToPiece[l.From()] == Pawn && Abs(l.From()-l.To()) == 16 {
				pushes = append(pushes, l)
			}
		}
		if len(pushes) == 0 {
			continue
		}
		m := pushes[rng.Intn(len(pushes))]
		b.MakeMove(m)
		f := strings.Fields(b.FEN())
		mid := (m.From() + m.To()) / 2
		f[3] = string([]byte{byte('a' + mid%8), byte('1' + mid/8)})
		f[4] = "0"
		fen := strings.Join(f, " ")
		if nb, err := board.FromFEN(fen); err == nil && posgen.Valid(nb) {
			return fen
		}
	}
	return "rnbqkbnr/pppppppp/8/8/4P3/8/PPPP1PPP/RNBQKBNR b KQkq e3 0 1"
}
