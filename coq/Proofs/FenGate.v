(* C11: the piece-count gate of `position fen` never rejects valid material, and the UCI position
   command keeps the current board when it rejects. *)
From Coq Require Import NArith ZArith List Bool Lia.
From Chess3 Require Import Base.Bits Base.Word Model.Types Model.BoardDef Model.Board Model.Fen
  Spec.FenSpec Proofs.FenSafe.
Import ListNotations.

Lemma is_pow2_of_popcount_1 x : popcount x = 1%N -> is_pow2 x = true.
Proof.
  intros H. rewrite popcount_bits_of in H.
  destruct (bits_of x) as [|k [|k2 r]] eqn:E; cbn in H; try lia. clear H.
  assert (Hk : forall i, N.testbit x i = true <-> i = k).
  { intros i. rewrite <- bits_of_spec, E. cbn. split; [intros [->|[]]; reflexivity|intros ->; auto]. }
  assert (Hx : x <> 0%N).
  { intros ->. cbn in E. discriminate. }
  assert (Hl : lsb x = k) by (apply Hk, lsb_testbit, Hx).
  unfold is_pow2. apply andb_true_iff. split.
  - apply N.eqb_eq. apply N.bits_inj_0. intros i. rewrite (clear_lsb_spec x i Hx).
    destruct (N.testbit x i) eqn:T; [|reflexivity].
    apply Hk in T. subst i. rewrite Hl, N.eqb_refl. reflexivity.
  - apply negb_true_iff, N.eqb_neq, Hx.
Qed.

Lemma gate_side b c : valid_material_side b c = true -> invalid_side b c = false.
Proof.
  unfold valid_material_side, material_ok, invalid_side, count_of, excess.
  intros H. apply andb_true_iff in H. destruct H as [Hk Hm].
  apply Z.eqb_eq in Hk. apply Z.leb_le in Hm.
  rewrite is_pow2_of_popcount_1 by lia. cbn [negb].
  set (n := Z.of_N (popcount (band (colors b c) (pieces b Knight)))) in *.
  set (bi := Z.of_N (popcount (band (colors b c) (pieces b Bishop)))) in *.
  set (r := Z.of_N (popcount (band (colors b c) (pieces b Rook)))) in *.
  set (q := Z.of_N (popcount (band (colors b c) (pieces b Queen)))) in *.
  set (p := Z.of_N (popcount (band (colors b c) (pieces b Pawn)))) in *.
  assert (0 <= n /\ 0 <= bi /\ 0 <= r /\ 0 <= q /\ 0 <= p)%Z by (unfold n, bi, r, q, p; lia).
  clearbody n bi r q p.
  repeat (apply orb_false_iff; split); apply Z.ltb_ge; lia.
Qed.

Theorem gate_accepts_valid_material b : valid_material b = true -> invalid_piece_count b = false.
Proof.
  unfold valid_material, invalid_piece_count. intros H. apply andb_true_iff in H. destruct H as [Hw Hb].
  rewrite (gate_side b White Hw), (gate_side b Black Hb). reflexivity.
Qed.

(* the bounds are tight: 9 queens, 10 rooks/bishops/knights pass (checked on concrete boards in
   Properties/C11.v) *)

(* ------------------------------------------------------------------------------------------ *)
(* handlePosition *)

(* every outcome of the position command is a board and a message class; no panic *)
Theorem handle_position_total z d args :
  exists d' code, handle_position z d args = Ok (d', code) /\ (code <> 0%N -> d' = d).
Proof.
  unfold handle_position. destruct args as [|a0 rest]; [exists d, 0%N; split; [reflexivity|tauto]|].
  destruct (list_eqb a0 tok_startpos).
  { (* StartPos: the constant FEN parses (computation) *)
    unfold from_fen.
    destruct (parse_fen startpos_fen) as [b| | |] eqn:E; cbn [bind].
    - exists (reset_hash z b), 0%N. split; [reflexivity|tauto].
    - exfalso. vm_compute in E. discriminate.
    - exfalso. vm_compute in E. discriminate.
    - exfalso. vm_compute in E. discriminate. }
  destruct (list_eqb a0 tok_fen); [|exists d, 0%N; split; [reflexivity|tauto]].
  destruct (length (a0 :: rest) <? 7)%nat; [exists d, 1%N; split; [reflexivity|tauto]|].
  destruct (from_fen_safe z (join_sp (firstn 6 rest))) as [H1 H2].
  destruct (from_fen z (join_sp (firstn 6 rest))) as [b|e| |]; try contradiction.
  - destruct (invalid_piece_count b); [exists d, 3%N|exists b, 0%N]; split; try reflexivity; tauto.
  - exists d, 2%N. split; [reflexivity|tauto].
Qed.

(* the clause of the property: a rejected FEN (by the parser or by the gate) leaves the board *)
Theorem handle_position_keep z d rest :
  (length rest >= 6)%nat ->
  let fen := join_sp (firstn 6 rest) in
  ((exists e, from_fen z fen = Err e) \/ (exists b, from_fen z fen = Ok b /\ invalid_piece_count b = true)) ->
  exists code, handle_position z d (tok_fen :: rest) = Ok (d, code) /\ code <> 0%N.
Proof.
  intros Hlen fen H. unfold handle_position.
  replace (list_eqb tok_fen tok_startpos) with false by reflexivity.
  replace (list_eqb tok_fen tok_fen) with true by reflexivity.
  destruct (Nat.ltb_spec (length (tok_fen :: rest)) 7) as [Hl|_]; [cbn in Hl; lia|].
  fold fen. destruct H as [[e ->]|[b [-> Hg]]].
  - exists 2%N. split; [reflexivity|discriminate].
  - rewrite Hg. exists 3%N. split; [reflexivity|discriminate].
Qed.

(* and an accepted one is installed exactly when parser and gate agree to it *)
Theorem handle_position_install z d rest b :
  (length rest >= 6)%nat ->
  from_fen z (join_sp (firstn 6 rest)) = Ok b -> invalid_piece_count b = false ->
  handle_position z d (tok_fen :: rest) = Ok (b, 0%N).
Proof.
  intros Hlen Hp Hg. unfold handle_position.
  replace (list_eqb tok_fen tok_startpos) with false by reflexivity.
  replace (list_eqb tok_fen tok_fen) with true by reflexivity.
  destruct (Nat.ltb_spec (length (tok_fen :: rest)) 7) as [Hl|_]; [cbn in Hl; lia|].
  rewrite Hp, Hg. reflexivity.
Qed.
