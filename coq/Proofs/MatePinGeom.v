(* Finite geometric facts about pins (C09, IsStalemate exits for bishops, rooks and queens):
   at most one direction of a ray family reaches a square; the part of a prefix behind one of its
   squares is again a prefix (from that square); two prefixes from one origin that share a square lie
   on one ray.  Discharged by vm_compute over all squares. *)
From Coq Require Import NArith ZArith List Bool Lia.
From Chess3 Require Import Base.Bits Model.Types Spec.Geometry Model.Att Model.BoardDef Proofs.MateGeom.
Import ListNotations.
Open Scope N_scope.

(* the prefix towards u along the first direction of the family that reaches u *)
Fixpoint pfx (dirs : list (Z * Z)) (k u : N) : option (list N) :=
  match dirs with
  | [] => None
  | d :: r => match prefix_to (ray k d) u with Some p => Some p | None => pfx r k u end
  end.

Definition memb (x : N) (l : list N) : bool := existsb (N.eqb x) l.
Lemma memb_In x l : memb x l = true <-> In x l.
Proof.
  unfold memb. rewrite existsb_exists. split.
  - intros [y [Hy E]]. apply N.eqb_eq in E. subst. exact Hy.
  - intros H. exists x. split; [exact H|apply N.eqb_refl].
Qed.

(* at most one direction reaches u *)
Definition uniq_check (dirs : list (Z * Z)) (k u : N) : bool :=
  (length (filter (fun d => match prefix_to (ray k d) u with Some _ => true | None => false end) dirs) <=? 1)%nat.
Lemma rook_uniq : forall k u, k < 64 -> u < 64 -> uniq_check rook_dirs k u = true.
Proof. apply (forall_sq2 (uniq_check rook_dirs)). vm_compute. reflexivity. Qed.
Lemma bishop_uniq : forall k u, k < 64 -> u < 64 -> uniq_check bishop_dirs k u = true.
Proof. apply (forall_sq2 (uniq_check bishop_dirs)). vm_compute. reflexivity. Qed.

Lemma pfx_of_dir dirs k u dir pre : uniq_check dirs k u = true -> In dir dirs ->
  prefix_to (ray k dir) u = Some pre -> pfx dirs k u = Some pre.
Proof.
  unfold uniq_check. induction dirs as [|d r IH]; intros Hu Hin Hp; [destruct Hin|].
  cbn [pfx filter] in *. destruct Hin as [->|Hin].
  - rewrite Hp. reflexivity.
  - destruct (prefix_to (ray k d) u) as [p0|] eqn:E0.
    + (* two directions reach u: excluded *)
      exfalso. cbn [length] in Hu.
      assert (In dir (filter (fun d => match prefix_to (ray k d) u with Some _ => true | None => false end) r)) as Hf
        by (apply filter_In; split; [exact Hin|rewrite Hp; reflexivity]).
      destruct (filter _ r); [destruct Hf|]. cbn [length] in Hu. apply Nat.leb_le in Hu. lia.
    + apply IH; assumption.
Qed.

(* the part of a prefix behind one of its squares *)
Definition suffix_check (dirs : list (Z * Z)) (k u : N) : bool :=
  match pfx dirs k u with
  | None => true
  | Some pre => forallb (fun d => match pfx dirs d u with
                                  | Some post => forallb (fun x => memb x pre && negb (x =? d)) post
                                  | None => false end) pre
  end.
Lemma rook_suffix : forall k u, k < 64 -> u < 64 -> suffix_check rook_dirs k u = true.
Proof. apply (forall_sq2 (suffix_check rook_dirs)). vm_compute. reflexivity. Qed.
Lemma bishop_suffix : forall k u, k < 64 -> u < 64 -> suffix_check bishop_dirs k u = true.
Proof. apply (forall_sq2 (suffix_check bishop_dirs)). vm_compute. reflexivity. Qed.

(* two prefixes from k that share a square: one target lies on the other prefix *)
Definition share_check (dirs1 dirs2 : list (Z * Z)) (k u v : N) : bool :=
  match pfx dirs1 k u, pfx dirs2 k v with
  | Some pu, Some pv => if existsb (fun x => memb x pv) pu then memb u pv || memb v pu || (u =? v) else true
  | _, _ => true
  end.
Definition share_all (dirs1 dirs2 : list (Z * Z)) : bool :=
  forallb (fun k => forallb (fun u => forallb (fun v => share_check dirs1 dirs2 k u v) squares64) squares64) squares64.
Lemma share_lift dirs1 dirs2 : share_all dirs1 dirs2 = true ->
  forall k u v, k < 64 -> u < 64 -> v < 64 -> share_check dirs1 dirs2 k u v = true.
Proof.
  intros H k u v Hk Hu Hv. unfold share_all in H.
  apply (forall_sq (fun v => share_check dirs1 dirs2 k u v)); [|exact Hv].
  apply (forall_sq (fun u => forallb (fun v => share_check dirs1 dirs2 k u v) squares64)); [|exact Hu].
  apply (forall_sq (fun k => forallb (fun u => forallb (fun v => share_check dirs1 dirs2 k u v) squares64) squares64)); assumption.
Qed.
Lemma share_bb : share_all bishop_dirs bishop_dirs = true. Proof. vm_cast_no_check (eq_refl true). Qed.
Lemma share_br : share_all bishop_dirs rook_dirs = true. Proof. vm_cast_no_check (eq_refl true). Qed.
Lemma share_rb : share_all rook_dirs bishop_dirs = true. Proof. vm_cast_no_check (eq_refl true). Qed.
Lemma share_rr : share_all rook_dirs rook_dirs = true. Proof. vm_cast_no_check (eq_refl true). Qed.
