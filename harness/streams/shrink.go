package streams

// Shrinkers and describers of the operation-sequence streams (hx.Stream.Shrink / Describe).
//
// A shrinker proposes smaller WELL-FORMED inputs of the same stream: the same case with operations,
// moves, script lines, file lines or whole requests removed, a list truncated, a numeric field
// reduced. Where the generator keeps an invariant that the spec judge does not re-check (mkseq:
// every move pseudo-legal where it is made, an illegal one undone at once; c13: the script is
// conforming in the generator's sense) the candidates are filtered with the very test the
// generator uses, so that a shrunk witness is a case the generator could have produced. Where the
// judge re-checks the domain itself (legal move lists of c10*, windows of c20_file, ...) an
// ill-formed candidate merely changes the verdict's clause and is dropped by the shrink loop of
// lib/props.py (a candidate is adopted only when the judge fails with the SAME clause); the move
// lists of c10* are nevertheless pre-filtered for legality to save implementation runs.
//
// Nothing here decides anything: a candidate becomes the witness only after the implementation was
// re-run on it and the extracted judge rejected that observation.

import (
	"bytes"
	"fmt"
	"strings"

	"github.com/paulsonkoly/chess-3/board"
	. "github.com/paulsonkoly/chess-3/chess"
	"github.com/paulsonkoly/chess-3/heur"
	"github.com/paulsonkoly/chess-3/move"

	"verifharness/hx"
	"verifharness/posgen"
)

// shrinkOK runs a validity test of a candidate; a panic of the code under test counts as "no".
func shrinkOK(f func() bool) (ok bool) {
	defer func() {
		if recover() != nil {
			ok = false
		}
	}()
	return f()
}

// without returns xs with the range [c.Lo, c.Hi) removed.
func without[T any](xs []T, c hx.Cut) []T {
	out := make([]T, 0, len(xs)-(c.Hi-c.Lo))
	out = append(out, xs[:c.Lo]...)
	return append(out, xs[c.Hi:]...)
}

func hexInt(x int) string { return hx.Hex(int64(x)) }

// boardInLen is the number of tokens of the board-in encoding starting at token i (-1 if cut short).
func boardInLen(a hx.Args, i int) int {
	if i+14 > a.Len() {
		return -1
	}
	nh := a.Int(i + 13)
	if nh < 0 || i+14+nh > a.Len() {
		return -1
	}
	return 14 + nh
}

func moveStrs(toks []string) string {
	var sb strings.Builder
	for _, t := range toks {
		a, err := hx.ParseArgs(t)
		if err != nil || len(a) != 1 {
			sb.WriteString(" ?")
			continue
		}
		sb.WriteString(" " + opString(a.U64(0)))
	}
	return sb.String()
}

// legalLineFrom: are the moves legal, one after the other, from a copy of root?
func legalLineFrom(root *board.Board, ms []move.Move) bool {
	return shrinkOK(func() bool {
		b := c10Clone(root)
		for _, m := range ms {
			if !c10IsLegal(b, m) {
				return false
			}
			b.MakeMove(m)
		}
		return true
	})
}

// lineCache holds the boards along a legal move list, so that "is the list still legal with the
// moves [lo, hi) left out" only replays the moves after the cut.
type lineCache struct {
	ms    []move.Move
	snaps []board.VerifSnap // snaps[i] = board after i plies
}

func newLineCache(root *board.Board, ms []move.Move) (lc *lineCache) {
	defer func() {
		if recover() != nil {
			lc = nil
		}
	}()
	lc = &lineCache{ms: ms}
	b := c10Clone(root)
	lc.snaps = append(lc.snaps, b.VerifSnapshot())
	for _, m := range ms {
		if !c10IsLegal(b, m) {
			return nil
		}
		b.MakeMove(m)
		lc.snaps = append(lc.snaps, b.VerifSnapshot())
	}
	return lc
}

func (lc *lineCache) cutOK(c hx.Cut) bool {
	if lc == nil {
		return false
	}
	return legalLineFrom(board.VerifRestore(lc.snaps[c.Lo]), lc.ms[c.Hi:])
}

func movesOf(a hx.Args, from, n int) []move.Move {
	ms := make([]move.Move, n)
	for k := range ms {
		ms[k] = hx.U2M(a.U64(from + k))
	}
	return ms
}

// ---------------------------------------------------------------------------------------------
// mkseq: board-in ++ [n op_1 .. op_n]

// mkseqWalkOK: the walk is one the generator could have emitted - every move pseudo-legal where
// it is made, a move that leaves the mover's king attacked undone at once, null moves only when
// not in check, no undo on an empty stack.
func mkseqWalkOK(b *board.Board, ops []uint64) bool {
	return shrinkOK(func() bool {
		var stack []seqFrame
		for k, op := range ops {
			switch {
			case op == opPop:
				if len(stack) == 0 {
					return false
				}
				f := stack[len(stack)-1]
				stack = stack[:len(stack)-1]
				if f.null {
					b.UndoNullMove(f.r)
				} else {
					b.UndoMove(f.m, f.r)
				}
			case op == opNull:
				if b.InCheck(b.STM) || len(stack) >= 40 {
					return false
				}
				stack = append(stack, seqFrame{null: true, r: b.MakeNullMove()})
			default:
				m := hx.U2M(uint64(op))
				if op >= 0x10000 || len(stack) >= 40 || !hasMove(posgen.Pseudo(b), m) {
					return false
				}
				me := b.STM
				stack = append(stack, seqFrame{m: m, r: b.MakeMove(m)})
				if b.InCheck(me) && (k+1 >= len(ops) || ops[k+1] != opPop) {
					return false
				}
			}
		}
		return true
	})
}

func shrinkMkseq(in string) []string {
	toks := hx.Toks(in)
	a, err := hx.ParseArgs(in)
	if err != nil {
		return nil
	}
	i := boardInLen(a, 0)
	if i < 0 || i >= a.Len() {
		return nil
	}
	n := a.Int(i)
	if n < 0 || i+1+n != a.Len() {
		return nil
	}
	head, opToks := toks[:i], toks[i+1:]
	ops := make([]uint64, n)
	for k := range ops {
		ops[k] = a.U64(i + 1 + k)
	}
	var out []string
	try := func(keep []bool) {
		var cand []uint64
		var ct []string
		for k, kp := range keep {
			if kp {
				cand = append(cand, ops[k])
				ct = append(ct, opToks[k])
			}
		}
		if len(cand) == 0 || len(cand) == n {
			return
		}
		b, _ := a.Board(0)
		if mkseqWalkOK(b, cand) {
			out = append(out, hx.JoinToks(head, []string{hexInt(len(cand))}, ct))
		}
	}
	all := func() []bool {
		k := make([]bool, n)
		for j := range k {
			k[j] = true
		}
		return k
	}
	// the hash history of the start board cut down to its newest entry
	if nh := a.Int(13); nh > 1 {
		h := append(append([]string{}, toks[:13]...), "1", toks[13+nh])
		out = append(out, hx.JoinToks(h, toks[i:]))
	}
	for _, c := range hx.Cuts(n, 1) {
		keep := all()
		for j := c.Lo; j < c.Hi; j++ {
			keep[j] = false
		}
		try(keep)
	}
	// completed sub-walks (a make together with everything up to its matching undo): each one alone,
	// and all of them at once (what stays is the path to the node the walk stands on at the end)
	var open []int
	closed := all()
	for k, op := range ops {
		if op != opPop {
			open = append(open, k)
			continue
		}
		if len(open) == 0 {
			continue
		}
		s := open[len(open)-1]
		open = open[:len(open)-1]
		keep := all()
		for j := s; j <= k; j++ {
			keep[j], closed[j] = false, false
		}
		try(keep)
	}
	try(closed)
	// the same, but the last completed sub-walk stays (the failing undo is often its last operation)
	for k := n - 1; k >= 0; k-- {
		if !closed[k] {
			for j := k; j >= 0 && !closed[j]; j-- {
				closed[j] = true
			}
			break
		}
	}
	try(closed)
	return out
}

func describeMkseq(a hx.Args) string {
	i := boardInLen(a, 0)
	if i < 0 || i >= a.Len() {
		return ""
	}
	b, _ := a.Board(0)
	n := a.Int(i)
	var sb strings.Builder
	fmt.Fprintf(&sb, "fen %s (hash history of %d) ops", b.FEN(), a.Int(13))
	for k := 0; k < n && i+1+k < a.Len(); k++ {
		sb.WriteString(" " + opString(a.U64(i+1+k)))
	}
	return sb.String()
}

// ---------------------------------------------------------------------------------------------
// c15 / c15big: size0 npool pool... nops (kind hash gen depth ply move value type)*

func c15Split(a hx.Args, toks []string, at int) (head []string, pool []string, ops [][]string, ok bool) {
	if at+2 > len(toks) {
		return nil, nil, nil, false
	}
	np := a.Int(at + 1)
	if np < 0 || at+2+np >= len(toks) {
		return nil, nil, nil, false
	}
	nops := a.Int(at + 2 + np)
	base := at + 3 + np
	if nops < 0 || base+8*nops != len(toks) {
		return nil, nil, nil, false
	}
	for j := 0; j < nops; j++ {
		ops = append(ops, toks[base+8*j:base+8*j+8])
	}
	return toks[:at+1], toks[at+2 : at+2+np], ops, true
}

func c15Join(head, pool []string, ops [][]string) string {
	parts := [][]string{head, {hexInt(len(pool))}, pool, {hexInt(len(ops))}}
	return hx.JoinToks(append(parts, ops...)...)
}

func shrinkC15At(in string, at int) []string {
	toks := hx.Toks(in)
	a, err := hx.ParseArgs(in)
	if err != nil {
		return nil
	}
	head, pool, ops, ok := c15Split(a, toks, at)
	if !ok {
		return nil
	}
	var out []string
	// the judge notices an eviction only through the sweep over the pool keys that follows every
	// store: a key that some store of the case uses has to stay in the pool (generator invariant:
	// stores use pool keys only)
	stored := map[string]bool{}
	for _, o := range ops {
		if o[0] == "0" {
			stored[o[1]] = true
		}
	}
	for _, c := range hx.Cuts(len(pool), 0) {
		used := false
		for _, k := range pool[c.Lo:c.Hi] {
			used = used || stored[k]
		}
		if !used {
			out = append(out, c15Join(head, without(pool, c), ops))
		}
	}
	for _, c := range hx.Cuts(len(ops), 1) {
		out = append(out, c15Join(head, pool, without(ops, c)))
	}
	return out
}

func shrinkC15(in string) []string    { return shrinkC15At(in, 0) }
func shrinkC15Big(in string) []string { return shrinkC15At(in, 1) }

func describeC15At(a hx.Args, at int) string {
	np := a.Int(at + 1)
	if np < 0 || at+2+np >= a.Len() {
		return ""
	}
	pool := make([]uint64, np)
	for i := range pool {
		pool[i] = a.U64(at + 2 + i)
	}
	nops := a.Int(at + 2 + np)
	base := at + 3 + np
	var ops []c15op
	for j := 0; j < nops && base+8*j+7 < a.Len(); j++ {
		o := base + 8*j
		ops = append(ops, c15op{kind: a.Int(o), hash: a.U64(o + 1), gen: a.I64(o + 2), d: a.I64(o + 3), ply: a.I64(o + 4),
			m: a.I64(o + 5), v: a.I64(o + 6), typ: a.I64(o + 7)})
	}
	_, desc := c15Encode(a.I64(at), pool, ops)
	return desc
}

func describeC15(a hx.Args) string { return describeC15At(a, 0) }
func describeC15Big(a hx.Args) string {
	if a.Len() < 2 {
		return ""
	}
	return fmt.Sprintf("GOMAXPROCS=%d buckets=%d: ", a.Int(0), a.I64(1)/32) + describeC15At(a, 1)
}

// c15multi: ntab npool pool... nops (kind tab hash gen depth ply move value type)*
// Any sub-sequence of the ops is well formed (an op on an empty slot does nothing, held results are
// read at the next op that is not a held probe).
func c15MultiSplit(a hx.Args, toks []string) (head []string, pool []string, ops [][]string, ok bool) {
	if len(toks) < 3 {
		return nil, nil, nil, false
	}
	np := a.Int(1)
	if np < 0 || 2+np >= len(toks) {
		return nil, nil, nil, false
	}
	nops := a.Int(2 + np)
	base := 3 + np
	if nops < 0 || base+9*nops != len(toks) {
		return nil, nil, nil, false
	}
	for j := 0; j < nops; j++ {
		ops = append(ops, toks[base+9*j:base+9*j+9])
	}
	return toks[:1], toks[2 : 2+np], ops, true
}

func shrinkC15Multi(in string) []string {
	toks := hx.Toks(in)
	a, err := hx.ParseArgs(in)
	if err != nil {
		return nil
	}
	head, pool, ops, ok := c15MultiSplit(a, toks)
	if !ok {
		return nil
	}
	var out []string
	stored := map[string]bool{}
	for _, o := range ops {
		if o[0] == "0" {
			stored[o[2]] = true
		}
	}
	for _, c := range hx.Cuts(len(ops), 1) {
		out = append(out, c15Join(head, pool, without(ops, c)))
	}
	for _, c := range hx.Cuts(len(pool), 0) {
		used := false
		for _, k := range pool[c.Lo:c.Hi] {
			used = used || stored[k]
		}
		if !used {
			out = append(out, c15Join(head, without(pool, c), ops))
		}
	}
	return out
}

func describeC15Multi(a hx.Args) string {
	np := a.Int(1)
	if np < 0 || 2+np >= a.Len() {
		return ""
	}
	pool := make([]uint64, np)
	for i := range pool {
		pool[i] = a.U64(2 + i)
	}
	nops := a.Int(2 + np)
	base := 3 + np
	var ops []c15mop
	for j := 0; j < nops && base+9*j+8 < a.Len(); j++ {
		o := base + 9*j
		ops = append(ops, c15mop{a.Int(o + 1), c15op{kind: a.Int(o), hash: a.U64(o + 2), gen: a.I64(o + 3), d: a.I64(o + 4),
			ply: a.I64(o + 5), m: a.I64(o + 6), v: a.I64(o + 7), typ: a.I64(o + 8)}})
	}
	_, desc := c15MultiEncode(a.Int(0), pool, ops)
	return desc
}

// ---------------------------------------------------------------------------------------------
// c10: board-in(root) ++ [j n m_1..m_n]

// c10ClockOK: the FEN after j plies is one the parser accepts (halfmove clock <= 100).
func c10ClockOK(root *board.Board, ms []move.Move, j int) bool {
	return shrinkOK(func() bool {
		b := c10Clone(root)
		for _, m := range ms[:j] {
			b.MakeMove(m)
		}
		return b.VerifSnapshot().FiftyCnt <= 100
	})
}

func shrinkC10(in string) []string {
	toks := hx.Toks(in)
	a, err := hx.ParseArgs(in)
	if err != nil {
		return nil
	}
	i := boardInLen(a, 0)
	if i < 0 || i+2 > a.Len() {
		return nil
	}
	j, n := a.Int(i), a.Int(i+1)
	if n < 0 || i+2+n != a.Len() || j < 0 || j > n {
		return nil
	}
	root, _ := a.Board(0)
	head, mt := toks[:i], toks[i+2:]
	ms := movesOf(a, i+2, n)
	var out []string
	if j > 0 {
		out = append(out, hx.JoinToks(head, []string{"0", hexInt(n)}, mt))
	}
	lc := newLineCache(root, ms)
	for _, c := range hx.Cuts(n, 0) {
		if !lc.cutOK(c) {
			continue
		}
		cm := without(ms, c)
		nj := j
		switch {
		case c.Hi <= j:
			nj = j - (c.Hi - c.Lo)
		case c.Lo < j:
			nj = c.Lo
		}
		if !c10ClockOK(root, cm, nj) {
			nj = 0
		}
		out = append(out, hx.JoinToks(head, []string{hexInt(nj), hexInt(len(cm))}, without(mt, c)))
	}
	return out
}

func describeC10(a hx.Args) string {
	i := boardInLen(a, 0)
	if i < 0 || i+2 > a.Len() {
		return ""
	}
	b, _ := a.Board(0)
	var sb strings.Builder
	fmt.Fprintf(&sb, "fen %s restart-at %d moves", b.FEN(), a.Int(i))
	for k := 0; k < a.Int(i+1) && i+2+k < a.Len(); k++ {
		sb.WriteString(" " + hx.U2M(a.U64(i+2+k)).String())
	}
	return sb.String()
}

// ---------------------------------------------------------------------------------------------
// c10two: board-in(root) ++ [mode g] ++ g * [n moves..] ++ [T sched..]

type c10TwoCase struct {
	head  []string
	mode  int
	games [][]string // move tokens
	moves [][]move.Move
	sched []int
	root  *board.Board
}

func c10TwoParse(in string) (*c10TwoCase, bool) {
	toks := hx.Toks(in)
	a, err := hx.ParseArgs(in)
	if err != nil {
		return nil, false
	}
	i := boardInLen(a, 0)
	if i < 0 || i+2 > a.Len() {
		return nil, false
	}
	c := &c10TwoCase{head: toks[:i], mode: a.Int(i)}
	g := a.Int(i + 1)
	if g < 1 || g > 8 {
		return nil, false
	}
	p := i + 2
	for k := 0; k < g; k++ {
		if p >= a.Len() {
			return nil, false
		}
		n := a.Int(p)
		if n < 0 || p+1+n > a.Len() {
			return nil, false
		}
		c.games = append(c.games, toks[p+1:p+1+n])
		c.moves = append(c.moves, movesOf(a, p+1, n))
		p += 1 + n
	}
	if p >= a.Len() {
		return nil, false
	}
	T := a.Int(p)
	if T < 0 || p+1+T != a.Len() {
		return nil, false
	}
	for t := 0; t < T; t++ {
		s := a.Int(p + 1 + t)
		if s < 0 || s >= g {
			return nil, false
		}
		c.sched = append(c.sched, s)
	}
	if c.mode == 0 {
		c.root = board.StartPos()
	} else {
		c.root, _ = a.Board(0)
	}
	return c, true
}

// encode writes the case with every game cut down to the moves the schedule plays (game 0 keeps
// one move for the ResetHash tail of the stream if it had one).
func (c *c10TwoCase) encode(games [][]string, sched []int, trim bool) string {
	cnt := make([]int, len(games))
	for _, s := range sched {
		cnt[s]++
	}
	parts := [][]string{c.head, {hexInt(c.mode), hexInt(len(games))}}
	for k, g := range games {
		if trim {
			keep := cnt[k]
			if k == 0 && keep == 0 && len(g) > 0 {
				keep = 1
			}
			if keep < len(g) {
				g = g[:keep]
			}
		}
		parts = append(parts, []string{hexInt(len(g))}, g)
	}
	st := make([]string, len(sched))
	for t, s := range sched {
		st[t] = hexInt(s)
	}
	parts = append(parts, []string{hexInt(len(sched))}, st)
	return hx.JoinToks(parts...)
}

func shrinkC10Two(in string) []string {
	c, ok := c10TwoParse(in)
	if !ok {
		return nil
	}
	var out []string
	out = append(out, c.encode(c.games, c.sched, true))
	// steps of the schedule (the game concerned plays one move less at its end)
	for _, cut := range hx.Cuts(len(c.sched), 0) {
		out = append(out, c.encode(c.games, without(c.sched, cut), true))
	}
	// a whole game
	if len(c.games) > 1 {
		for k := range c.games {
			var sched []int
			for _, s := range c.sched {
				switch {
				case s < k:
					sched = append(sched, s)
				case s > k:
					sched = append(sched, s-1)
				}
			}
			games := without(c.games, hx.Cut{Lo: k, Hi: k + 1})
			out = append(out, c.encode(games, sched, false), c.encode(games, sched, true))
		}
	}
	// moves inside a game, together with the steps of the schedule that play them
	for k := range c.games {
		lc := newLineCache(c.root, c.moves[k])
		for _, cut := range hx.Cuts(len(c.games[k]), 0) {
			if !lc.cutOK(cut) {
				continue
			}
			games := append([][]string{}, c.games...)
			games[k] = without(c.games[k], cut)
			var sched []int
			seen := 0
			for _, s := range c.sched {
				if s == k {
					seen++
					if seen > cut.Lo && seen <= cut.Hi {
						continue
					}
				}
				sched = append(sched, s)
			}
			out = append(out, c.encode(games, sched, true))
		}
	}
	return out
}

func describeC10Two(a hx.Args) string {
	var toks []string
	for _, x := range a {
		toks = append(toks, x.Text(16))
	}
	c, ok := c10TwoParse(strings.Join(toks, " "))
	if !ok {
		return ""
	}
	b, _ := a.Board(0)
	var sb strings.Builder
	fmt.Fprintf(&sb, "two-games mode=%d (%s) fen %s", c.mode, []string{"board.StartPos()", "FromFEN", "uci.Drivers"}[c.mode%3], b.FEN())
	for k, ms := range c.moves {
		fmt.Fprintf(&sb, " | game %d:", k)
		for _, m := range ms {
			sb.WriteString(" " + m.String())
		}
	}
	sb.WriteString(" | order:")
	for _, s := range c.sched {
		fmt.Fprintf(&sb, " %d", s)
	}
	return sb.String()
}

// ---------------------------------------------------------------------------------------------
// c10reuse: board-in(startpos) ++ [K] ++ K * [kind n payload..]; payload = moves (kinds 0 1 2) or
// board-in(X) ++ moves (kinds 3 4: position fen X)

type c10ReuseCmd struct {
	kind int
	toks []string // the move tokens
	ms   []move.Move
	pre  []string     // kinds 3, 4: the tokens of board-in(X)
	root *board.Board // kinds 3, 4: X
}

func c10ReuseParse(in string) (head []string, root *board.Board, cmds []c10ReuseCmd, ok bool) {
	toks := hx.Toks(in)
	a, err := hx.ParseArgs(in)
	if err != nil {
		return
	}
	i := boardInLen(a, 0)
	if i < 0 || i >= a.Len() {
		return
	}
	K := a.Int(i)
	p := i + 1
	for c := 0; c < K; c++ {
		if p+2 > a.Len() {
			return
		}
		n := a.Int(p + 1)
		if n < 0 || p+2+n > a.Len() {
			return
		}
		c := c10ReuseCmd{kind: a.Int(p)}
		q := p + 2
		if c.kind >= 3 {
			bl := boardInLen(a, q)
			if bl < 0 || bl > n {
				return
			}
			c.pre = toks[q : q+bl]
			c.root, _ = a.Board(q)
			q += bl
		}
		c.toks, c.ms = toks[q:p+2+n], movesOf(a, q, p+2+n-q)
		cmds = append(cmds, c)
		p += 2 + n
	}
	if p != a.Len() {
		return
	}
	root, _ = a.Board(0)
	return toks[:i], root, cmds, true
}

func c10ReuseJoin(head []string, cmds []c10ReuseCmd) string {
	parts := [][]string{head, {hexInt(len(cmds))}}
	for _, c := range cmds {
		parts = append(parts, []string{hexInt(c.kind), hexInt(len(c.pre) + len(c.toks))}, c.pre, c.toks)
	}
	return hx.JoinToks(parts...)
}

func shrinkC10Reuse(in string) []string {
	head, root, cmds, ok := c10ReuseParse(in)
	if !ok {
		return nil
	}
	var out []string
	for k, c := range cmds {
		if c.kind == 1 || c.kind == 2 || c.kind == 4 {
			alt := append([]c10ReuseCmd{}, cmds...)
			alt[k].kind = map[int]int{1: 0, 2: 0, 4: 3}[c.kind]
			out = append(out, c10ReuseJoin(head, alt))
		}
	}
	for _, cut := range hx.Cuts(len(cmds), 1) {
		out = append(out, c10ReuseJoin(head, without(cmds, cut)))
	}
	// the same plies out of every list that is long enough (the lists of one case are variations of
	// one another: a common prefix, a transposed pair, a replaced move)
	if len(cmds) > 1 {
		longest := 0
		caches := make([]*lineCache, len(cmds))
		for k, c := range cmds {
			if c.root != nil {
				continue
			}
			longest = max(longest, len(c.ms))
			caches[k] = newLineCache(root, c.ms)
		}
		for _, cut := range hx.Cuts(longest, 0) {
			alt := append([]c10ReuseCmd{}, cmds...)
			hit, ok := 0, true
			for k, c := range cmds {
				if c.root != nil || len(c.ms) < cut.Hi {
					continue
				}
				if !caches[k].cutOK(cut) {
					ok = false
					break
				}
				alt[k] = c10ReuseCmd{kind: c.kind, toks: without(c.toks, cut), ms: without(c.ms, cut)}
				hit++
			}
			if ok && hit > 1 {
				out = append(out, c10ReuseJoin(head, alt))
			}
		}
	}
	for k, c := range cmds {
		r := root
		if c.root != nil {
			r = c.root
		}
		lc := newLineCache(r, c.ms)
		for _, cut := range hx.Cuts(len(c.ms), 0) {
			if !lc.cutOK(cut) {
				continue
			}
			ms := without(c.ms, cut)
			alt := append([]c10ReuseCmd{}, cmds...)
			alt[k] = c10ReuseCmd{kind: c.kind, toks: without(c.toks, cut), ms: ms, pre: c.pre, root: c.root}
			out = append(out, c10ReuseJoin(head, alt))
		}
	}
	return out
}

func describeC10Reuse(a hx.Args) string {
	var toks []string
	for _, x := range a {
		toks = append(toks, x.Text(16))
	}
	_, _, cmds, ok := c10ReuseParse(strings.Join(toks, " "))
	if !ok {
		return ""
	}
	var sb strings.Builder
	sb.WriteString("reused driver:")
	for _, c := range cmds {
		switch {
		case c.kind >= 3 && c.root != nil:
			if c.kind == 4 {
				sb.WriteString(" | ucinewgame;")
			} else {
				sb.WriteString(" |")
			}
			sb.WriteString(" position fen " + c.root.FEN() + " moves")
		default:
			sb.WriteString([]string{" | position startpos moves", " | ucinewgame; position startpos moves", " | position fen <startpos> moves"}[(c.kind%3+3)%3])
		}
		for _, m := range c.ms {
			sb.WriteString(" " + m.String())
		}
	}
	return sb.String()
}

// ---------------------------------------------------------------------------------------------
// c11seq: n (commands separated by 257, tokens separated by 256)

func c11SeqJoin(cmds [][]string) string {
	body := &hx.Nums{}
	k := 0
	for i, c := range cmds {
		if i > 0 {
			body.Int(257)
			k++
		}
		k += encodeCmd(body, c)
	}
	s := hexInt(k)
	if body.String() != "" {
		s += " " + body.String()
	}
	return s
}

func c11SeqParse(a hx.Args) ([][]string, bool) {
	if a.Len() < 1 || a.Int(0) != a.Len()-1 {
		return nil, false
	}
	cmds := splitTokens(a, 1, a.Len())
	for _, c := range cmds {
		for _, t := range c {
			if t == "" {
				return nil, false // not representable after a re-join (doubled separator)
			}
		}
	}
	return cmds, true
}

func shrinkC11Seq(in string) []string {
	a, err := hx.ParseArgs(in)
	if err != nil {
		return nil
	}
	cmds, ok := c11SeqParse(a)
	if !ok {
		return nil
	}
	var out []string
	// moves of a move list (the word `moves` goes with the last one)
	for k, c := range cmds {
		at := -1
		for j, t := range c {
			if t == "moves" {
				at = j
				break
			}
		}
		if at < 0 {
			continue
		}
		ms := c[at+1:]
		for _, cut := range hx.Cuts(len(ms), 0) {
			rest := without(ms, cut)
			nc := append([]string{}, c[:at]...)
			if len(rest) > 0 {
				nc = append(append(nc, "moves"), rest...)
			}
			alt := append([][]string{}, cmds...)
			alt[k] = nc
			out = append(out, c11SeqJoin(alt))
		}
	}
	for _, cut := range hx.Cuts(len(cmds), 1) {
		out = append(out, c11SeqJoin(without(cmds, cut)))
	}
	return out
}

func describeC11Seq(a hx.Args) string {
	if a.Len() < 1 {
		return ""
	}
	var desc []string
	for _, c := range splitTokens(a, 1, 1+a.Int(0)) {
		desc = append(desc, fmt.Sprintf("position %s", strings.Join(c, " ")))
	}
	return strings.Join(desc, " ; ")
}

// ---------------------------------------------------------------------------------------------
// c11reuse: mode k (flag_i n_i bytes_i)*k

func c11ReuseItems(a hx.Args, toks []string) ([][]string, bool) {
	if a.Len() < 2 {
		return nil, false
	}
	k := a.Int(1)
	i := 2
	var items [][]string
	for j := 0; j < k; j++ {
		if i+2 > a.Len() {
			return nil, false
		}
		n := a.Int(i + 1)
		if n < 0 || i+2+n > a.Len() {
			return nil, false
		}
		items = append(items, toks[i:i+2+n])
		i += 2 + n
	}
	return items, i == a.Len()
}

func shrinkC11Reuse(in string) []string {
	toks := hx.Toks(in)
	a, err := hx.ParseArgs(in)
	if err != nil {
		return nil
	}
	items, ok := c11ReuseItems(a, toks)
	if !ok {
		return nil
	}
	var out []string
	for _, cut := range hx.Cuts(len(items), 1) {
		rest := without(items, cut)
		parts := [][]string{{toks[0], hexInt(len(rest))}}
		out = append(out, hx.JoinToks(append(parts, rest...)...))
	}
	return out
}

func describeC11Reuse(a hx.Args) string {
	if a.Len() < 2 {
		return ""
	}
	what := []string{"board.ParseFEN", "board.ParseFEN + ResetHash", "epd.Parse"}
	var desc []string
	i := 2
	for j := 0; j < a.Int(1) && i+2 <= a.Len(); j++ {
		n := a.Int(i + 1)
		desc = append(desc, fmt.Sprintf("%q", a.Bytes(i+2, i+2+n)))
		i += 2 + n
	}
	return fmt.Sprintf("one Board, %s of: ", what[(a.Int(0)%3+3)%3]) + strings.Join(desc, " then ")
}

// ---------------------------------------------------------------------------------------------
// c13: n mode unit tail, n records [code a b c delay dur]

// c13GenConforming: conforming in the generator's sense (c13GenNeed: a real search is left alone
// only when it has a depth / node / time limit and is not pondering), on top of Model/Uci.v conf.
func c13GenConforming(ls []c13Line, mode int64) bool {
	if !c13Conforming(ls) {
		return false
	}
	need := needNone
	for _, l := range ls {
		switch l.code {
		case c13Quit, c13Isready, c13Nop:
		case c13Stop:
			need = needNone
		case c13Ponderhit:
			if need == needPh {
				need = needNone
			}
		case c13Go:
			if need != needNone {
				return false
			}
			need = c13GenNeed(l, mode&1)
		default:
			if need != needNone {
				return false
			}
		}
	}
	return true
}

func shrinkC13(in string) []string {
	a, err := hx.ParseArgs(in)
	if err != nil {
		return nil
	}
	c, ok := c13Parse(a)
	if !ok {
		return nil
	}
	var out []string
	put := func(d *c13Case) {
		if c13GenConforming(d.lines, d.mode) {
			out = append(out, d.encode())
		}
	}
	clone := func() *c13Case {
		d := *c
		d.lines = append([]c13Line{}, c.lines...)
		return &d
	}
	// timing: one delay to zero, all delays to zero, prompt consumer of stdout
	for k, l := range c.lines {
		if l.delay != 0 {
			d := clone()
			d.lines[k].delay = 0
			put(d)
		}
	}
	if c.tail != 0 {
		d := clone()
		d.tail = 0
		put(d)
	}
	if c.slow() != 0 {
		d := clone()
		d.mode = c.mode & 1
		put(d)
	}
	d := clone()
	d.tail = 0
	for k := range d.lines {
		d.lines[k].delay = 0
	}
	put(d)
	// script lines
	for _, cut := range hx.Cuts(len(c.lines), 1) {
		d := clone()
		d.lines = without(c.lines, cut)
		put(d)
	}
	return out
}

func describeC13(a hx.Args) string {
	c, ok := c13Parse(a)
	if !ok {
		return ""
	}
	return c.desc()
}

// ---------------------------------------------------------------------------------------------
// c16h: nOps {op}* | L fen[L]

type c16hOp struct {
	toks []string
	desc string
}

func c16hStackStr(a hx.Args, p int) string {
	var e []heur.StackMove
	if a.I64(p) != 0 {
		e = append(e, heur.StackMove{Piece: Piece(a.I64(p + 1)), To: Square(a.I64(p + 2))})
		if a.I64(p+3) != 0 {
			e = append(e, heur.StackMove{Piece: Piece(a.I64(p + 4)), To: Square(a.I64(p + 5))})
		}
	}
	return fmt.Sprintf("%v", e)
}

func c16hParse(in string) (ops []c16hOp, tail []string, a hx.Args, ok bool) {
	toks := hx.Toks(in)
	a, err := hx.ParseArgs(in)
	if err != nil || a.Len() < 1 {
		return
	}
	nOps := a.Int(0)
	q := 1
	for i := 0; i < nOps; i++ {
		if q >= a.Len() {
			return
		}
		e := q
		var d string
		switch a.I64(q) {
		case 0:
			if q+9 >= a.Len() {
				return
			}
			n := a.Int(q + 9)
			e = q + 10 + 4*n
			if n < 0 || e > a.Len() {
				return
			}
			var sb strings.Builder
			for j := 0; j < n; j++ {
				fmt.Fprintf(&sb, " %s:%d", c16MoveStr(hx.U2M(a.U64(q+10+4*j))), a.I64(q+13+4*j))
			}
			d = fmt.Sprintf("FailHigh(d=%d stack=%s moves=%s)", a.I64(q+1), c16hStackStr(a, q+3), sb.String())
		case 1:
			e = q + 8
			if e > a.Len() {
				return
			}
			d = fmt.Sprintf("%s.Add([%d %d %d %d %d], %d)", []string{"history", "captHist", "cont0", "cont1"}[min(max(a.Int(q+1), 0), 3)],
				a.I64(q+2), a.I64(q+3), a.I64(q+4), a.I64(q+5), a.I64(q+6), a.I64(q+7))
		default:
			if q+8 >= a.Len() {
				return
			}
			n := a.Int(q + 8)
			e = q + 9 + 2*n
			if n < 0 || e > a.Len() {
				return
			}
			var sb strings.Builder
			for j := 0; j < n; j++ {
				sb.WriteString(" " + c16MoveStr(hx.U2M(a.U64(q+9+2*j))))
			}
			d = fmt.Sprintf("RankQuiet(stack=%s) on%s", c16hStackStr(a, q+2), sb.String())
		}
		ops = append(ops, c16hOp{toks: toks[q:e], desc: d})
		q = e
	}
	if q >= a.Len() || q+1+a.Int(q) != a.Len() {
		return
	}
	return ops, toks[q:], a, true
}

func c16hJoin(ops []c16hOp, tail []string) string {
	parts := [][]string{{hexInt(len(ops))}}
	for _, o := range ops {
		parts = append(parts, o.toks)
	}
	return hx.JoinToks(append(parts, tail)...)
}

func shrinkC16h(in string) []string {
	ops, tail, _, ok := c16hParse(in)
	if !ok {
		return nil
	}
	var out []string
	// move lists: FailHigh keeps its last move (the one that failed high), RankQuiet its first ones
	for k, o := range ops {
		var variants [][]string
		switch o.toks[0] {
		case "0":
			n := (len(o.toks) - 10) / 4
			for _, keep := range []int{n - 1, (n + 1) / 2, 1} {
				if keep >= 1 && keep < n {
					v := append(append([]string{}, o.toks[:9]...), hexInt(keep))
					variants = append(variants, append(v, o.toks[10+4*(n-keep):]...))
				}
			}
		case "1":
		default:
			n := (len(o.toks) - 9) / 2
			for _, keep := range []int{n - 1, (n + 1) / 2, 1} {
				if keep >= 1 && keep < n {
					v := append(append([]string{}, o.toks[:8]...), hexInt(keep))
					variants = append(variants, append(v, o.toks[9:9+2*keep]...))
				}
			}
		}
		for _, v := range variants {
			alt := append([]c16hOp{}, ops...)
			alt[k] = c16hOp{toks: v}
			out = append(out, c16hJoin(alt, tail))
		}
	}
	for _, cut := range hx.Cuts(len(ops), 1) {
		out = append(out, c16hJoin(without(ops, cut), tail))
	}
	return out
}

func describeC16h(a hx.Args) string {
	var toks []string
	for _, x := range a {
		toks = append(toks, x.Text(16))
	}
	ops, tail, _, ok := c16hParse(strings.Join(toks, " "))
	if !ok {
		return ""
	}
	ds := make([]string, len(ops))
	for i, o := range ops {
		ds[i] = o.desc
	}
	ta, _ := hx.ParseArgs(strings.Join(tail, " "))
	return fmt.Sprintf("%s: %s", ta.Bytes(1, ta.Len()), strings.Join(ds, "; "))
}

// ---------------------------------------------------------------------------------------------
// c20_file: mode B epoch start end nbytes bytes...

func c20FileParse(a hx.Args) (mode, B int, epoch int64, start, end int, data []byte, ok bool) {
	if a.Len() < 6 || a.Int(5) < 0 || 6+a.Int(5) != a.Len() {
		return
	}
	return a.Int(0), a.Int(1), a.I64(2), a.Int(3), a.Int(4), a.Bytes(6, a.Len()), true
}

func shrinkC20File(in string) []string {
	a, err := hx.ParseArgs(in)
	if err != nil {
		return nil
	}
	mode, B, epoch, start, end, data, ok := c20FileParse(a)
	if !ok {
		return nil
	}
	// physical lines, each with its newline (the last one may lack it)
	var lines [][]byte
	for rest := data; len(rest) > 0; {
		k := bytes.IndexByte(rest, '\n')
		if k < 0 {
			lines = append(lines, rest)
			break
		}
		lines = append(lines, rest[:k+1])
		rest = rest[k+1:]
	}
	counted := func(l []byte) bool { return len(l) > 1 && l[len(l)-1] == '\n' } // a line of the manifest
	enc := func(ls [][]byte, s, e int, ep int64) string {
		var d []byte
		for _, l := range ls {
			d = append(d, l...)
		}
		return (&hx.Nums{}).Int(mode, B).I(ep).Int(s, e, len(d)).Bytes(d).String()
	}
	var out []string
	if epoch != 0 {
		out = append(out, enc(lines, start, end, 0))
	}
	// a long line cut down to its first half
	for k, l := range lines {
		if body := len(l) - 1; counted(l) && body >= 2 {
			alt := append([][]byte{}, lines...)
			alt[k] = append(append([]byte{}, l[:(body+1)/2]...), '\n')
			out = append(out, enc(alt, start, end, epoch))
		}
	}
	for _, cut := range hx.Cuts(len(lines), 0) {
		s, e := start, end
		if mode == 0 {
			// keep the window on the lines it covered: indices count manifest lines
			ix := 0
			for k, l := range lines {
				if !counted(l) {
					continue
				}
				if k >= cut.Lo && k < cut.Hi {
					if ix < start {
						s--
					}
					if ix < end {
						e--
					}
				}
				ix++
			}
		}
		out = append(out, enc(without(lines, cut), s, e, epoch))
	}
	return out
}

func describeC20File(a hx.Args) string {
	mode, B, epoch, start, end, data, ok := c20FileParse(a)
	if !ok {
		return ""
	}
	return c20FileCase(mode, B, epoch, start, end, data).Desc
}

// ---------------------------------------------------------------------------------------------
// c08clear: one request; Warm = number of tiny searches served before the clear

func shrinkC08Clear(in string) []string {
	a, err := hx.ParseArgs(in)
	if err != nil {
		return nil
	}
	r, end, ok := sbDecode(a, 0)
	if !ok || end != a.Len() {
		return nil
	}
	var out []string
	for _, k := range []int{r.Warm - 1, r.Warm / 2, 257, 256, 255, 2, 1, 0} {
		if k >= 0 && k < r.Warm {
			alt := r
			alt.Warm = k
			out = append(out, alt.encode().String())
		}
	}
	return out
}

func describeC08Clear(a hx.Args) string {
	r, _, ok := sbDecode(a, 0)
	if !ok {
		return ""
	}
	return r.desc()
}

// ---------------------------------------------------------------------------------------------
// search: ttBytes tracePly nReq { hasDepth depth nodes softNodes board-in }*nReq

func shrinkSearch(in string) []string {
	toks := hx.Toks(in)
	a, err := hx.ParseArgs(in)
	if err != nil || a.Len() < 3 {
		return nil
	}
	n := a.Int(2)
	var reqs [][]string
	i := 3
	for k := 0; k < n; k++ {
		l := boardInLen(a, i+4)
		if l < 0 {
			return nil
		}
		reqs = append(reqs, toks[i:i+4+l])
		i += 4 + l
	}
	if i != a.Len() {
		return nil
	}
	var out []string
	for _, cut := range hx.Cuts(n, 1) {
		rest := without(reqs, cut)
		parts := [][]string{{toks[0], toks[1], hexInt(len(rest))}}
		out = append(out, hx.JoinToks(append(parts, rest...)...))
	}
	return out
}

func describeSearch(a hx.Args) string {
	tt, reqs, ok := smDecode(a)
	if !ok {
		return ""
	}
	return smCase{TT: tt, Reqs: reqs, Name: "requests"}.input(-1).Desc
}
