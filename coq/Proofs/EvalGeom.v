(* Rank-mirror equivariance of the attack primitives the evaluation uses:
     rook_moves (sq xor 56) (flipV occ) = flipV (rook_moves sq occ)   (same for bishops)
   from the symmetry of the rays of Spec/Geometry.v, and the leaper tables by a finite check. *)
From Coq Require Import NArith ZArith List Bool Lia Permutation.
From Chess3 Require Import Base.Bits Model.Types Model.BoardDef Model.Att Spec.Geometry Model.Eval Spec.EvalSym
  Proofs.EvalFlip.
Import ListNotations.
Open Scope N_scope.
Ltac Zify.zify_post_hook ::= Z.to_euclidean_division_equations.

(* ---- leapers: 64 squares each ---- *)
Lemma king_moves_flip s : s < 64 -> king_moves (x56 s) = flipV (king_moves s).
Proof.
  intros H. apply N.eqb_eq. revert s H. apply forall64. vm_compute. reflexivity.
Qed.
Lemma knight_moves_flip s : s < 64 -> knight_moves (x56 s) = flipV (knight_moves s).
Proof.
  intros H. apply N.eqb_eq. revert s H. apply forall64. vm_compute. reflexivity.
Qed.

(* ---- coordinates ---- *)
Lemma file_of_x56 s : s < 64 -> file_of (x56 s) = file_of s.
Proof. intros H. apply Z.eqb_eq. revert s H. apply forall64. vm_compute. reflexivity. Qed.
Lemma rank_of_x56 s : s < 64 -> rank_of (x56 s) = (7 - rank_of s)%Z.
Proof. intros H. apply Z.eqb_eq. revert s H. apply forall64. vm_compute. reflexivity. Qed.
Lemma file_of_range s : (0 <= file_of s < 8)%Z.
Proof. unfold file_of. pose proof (N.mod_lt s 8 ltac:(discriminate)). lia. Qed.
Lemma rank_of_range s : s < 64 -> (0 <= rank_of s < 8)%Z.
Proof.
  intros H. unfold rank_of. assert (s / 8 < 8) by (apply N.div_lt_upper_bound; lia). lia.
Qed.

Lemma sq_of_x56 f r : (0 <= f < 8)%Z -> (0 <= r < 8)%Z -> sq_of f (7 - r) = x56 (sq_of f r).
Proof.
  intros Hf Hr.
  assert (E : forall s, s < 64 -> (x56 s =? sq_of (file_of s) (7 - rank_of s)) = true).
  { apply forall64. vm_compute. reflexivity. }
  assert (Hs : sq_of f r < 64) by (unfold sq_of; lia).
  specialize (E _ Hs). apply N.eqb_eq in E. rewrite E.
  assert (F : file_of (sq_of f r) = f) by (unfold file_of, sq_of; lia).
  assert (R : rank_of (sq_of f r) = r) by (unfold rank_of, sq_of; lia).
  rewrite F, R. reflexivity.
Qed.

Lemma on_board_flip f r : on_board f (7 - r) = on_board f r.
Proof.
  unfold on_board.
  destruct (0 <=? f)%Z, (f <? 8)%Z; cbn [andb]; try reflexivity.
  destruct (Z.leb_spec 0 r), (Z.ltb_spec r 8), (Z.leb_spec 0 (7 - r)), (Z.ltb_spec (7 - r) 8); cbn [andb]; try reflexivity; lia.
Qed.

Lemma on_board_range f r : on_board f r = true -> (0 <= f < 8)%Z /\ (0 <= r < 8)%Z.
Proof.
  unfold on_board. intros H. repeat (apply andb_true_iff in H; destruct H as [H ?]).
  apply Z.leb_le in H. apply Z.ltb_lt in H0. apply Z.leb_le in H1. apply Z.ltb_lt in H2. lia.
Qed.

(* ---- rays ---- *)
Lemma ray_from_flip fuel : forall f r df dr,
  ray_from fuel f (7 - r) df (- dr) = map x56 (ray_from fuel f r df dr).
Proof.
  induction fuel as [|k IH]; intros f r df dr; cbn [ray_from map]; [reflexivity|].
  replace (7 - r + - dr)%Z with (7 - (r + dr))%Z by lia.
  rewrite on_board_flip. destruct (on_board (f + df) (r + dr)) eqn:E; [|reflexivity].
  apply on_board_range in E. destruct E as [Hf Hr].
  cbn [map]. rewrite IH, sq_of_x56 by assumption. reflexivity.
Qed.

Lemma ray_from_lt fuel : forall f r df dr s, In s (ray_from fuel f r df dr) -> s < 64.
Proof.
  induction fuel as [|k IH]; intros f r df dr s; cbn [ray_from]; [intros []|].
  destruct (on_board (f + df) (r + dr)) eqn:E; [|intros []].
  intros [<-|H]; [|eapply IH; exact H].
  apply on_board_range in E. unfold sq_of. lia.
Qed.

Definition negr (d : Z * Z) : Z * Z := (fst d, (- snd d)%Z).

Lemma ray_x56 s d : s < 64 -> ray (x56 s) d = map x56 (ray s (negr d)).
Proof.
  intros H. unfold ray, negr. cbn [fst snd]. rewrite file_of_x56, rank_of_x56 by exact H.
  rewrite <- ray_from_flip, Z.opp_involutive. reflexivity.
Qed.

Lemma ray_lt s d t : In t (ray s d) -> t < 64.
Proof. unfold ray. apply ray_from_lt. Qed.

(* ---- walking a mirrored ray on the mirrored occupancy ---- *)
Lemma walk_flip l occ : (forall t, In t l -> t < 64) ->
  walk (map x56 l) (flipV occ) = flipV (walk l occ).
Proof.
  induction l as [|t l IH]; intros Hl; cbn [walk map]; [symmetry; apply flipV_0|].
  assert (Ht : t < 64) by (apply Hl; left; reflexivity).
  change N.lor with bor. rewrite flipV_bor, flipV_bit by exact Ht. f_equal.
  rewrite flipV_testbit, x56_x56.
  pose proof (x56_lt t Ht) as L. apply N.ltb_lt in L. rewrite L. cbn [andb].
  destruct (N.testbit occ t); [symmetry; apply flipV_0|].
  apply IH. intros u Hu. apply Hl. right. exact Hu.
Qed.

Lemma walk_ray_flip s d occ : s < 64 ->
  walk (ray (x56 s) d) (flipV occ) = flipV (walk (ray s (negr d)) occ).
Proof.
  intros H. rewrite ray_x56 by exact H. apply walk_flip. intros t Ht. eapply ray_lt; exact Ht.
Qed.

(* ---- sliders ---- *)
Lemma rook_moves_flip s occ : s < 64 -> rook_moves (x56 s) (flipV occ) = flipV (rook_moves s occ).
Proof.
  intros H. unfold rook_moves, rook_attacks, slide, rook_dirs. cbn [fold_right].
  rewrite !walk_ray_flip by exact H. unfold negr. cbn [fst snd Z.opp].
  change N.lor with bor. rewrite !flipV_bor, flipV_0.
  unfold bor. rewrite !N.lor_assoc. f_equal. f_equal. f_equal. apply N.lor_comm.
Qed.

Lemma bishop_moves_flip s occ : s < 64 -> bishop_moves (x56 s) (flipV occ) = flipV (bishop_moves s occ).
Proof.
  intros H. unfold bishop_moves, bishop_attacks, slide, bishop_dirs. cbn [fold_right].
  rewrite !walk_ray_flip by exact H. unfold negr. cbn [fst snd Z.opp].
  change N.lor with bor. rewrite !flipV_bor, flipV_0.
  unfold bor. apply N.bits_inj. intros i. rewrite !N.lor_spec.
  repeat match goal with |- context [N.testbit ?a i] => generalize (N.testbit a i); intro end.
  repeat match goal with b : bool |- _ => destruct b end; reflexivity.
Qed.

(* bounds *)
Lemma walk_lt l occ : (forall t, In t l -> t < 64) -> walk l occ < two64.
Proof.
  induction l as [|t l IH]; intros Hl; cbn [walk]; [reflexivity|].
  change N.lor with bor. apply bor_lt; [apply bit_lt, Hl; left; reflexivity|].
  destruct (N.testbit occ t); [reflexivity|]. apply IH. intros u Hu. apply Hl. right. exact Hu.
Qed.
Lemma slide_lt dirs s occ : slide dirs s occ < two64.
Proof.
  unfold slide. induction dirs as [|d ds IH]; cbn [fold_right]; [reflexivity|].
  change N.lor with bor. apply bor_lt; [|exact IH]. apply walk_lt. intros t Ht. eapply ray_lt; exact Ht.
Qed.
Lemma rook_moves_lt s occ : rook_moves s occ < two64.
Proof. apply slide_lt. Qed.
Lemma bishop_moves_lt s occ : bishop_moves s occ < two64.
Proof. apply slide_lt. Qed.
Lemma leaper_lt offs s : leaper offs s < two64.
Proof.
  unfold leaper. induction offs as [|d ds IH]; cbn [fold_right]; [reflexivity|].
  destruct (on_board (file_of s + fst d) (rank_of s + snd d)) eqn:E; [|exact IH].
  change N.lor with bor. apply bor_lt; [|exact IH]. apply bit_lt.
  apply on_board_range in E. unfold sq_of. lia.
Qed.
Lemma king_moves_lt s : king_moves s < two64.
Proof. apply leaper_lt. Qed.
Lemma knight_moves_lt s : knight_moves s < two64.
Proof. apply leaper_lt. Qed.
