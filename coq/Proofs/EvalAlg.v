(* Algebra of the accumulator lists of Model/Eval.v, and the independence half of C17.

   * [total] is invariant under permutations of the bump list when addition is right-commutative
     ((a + b) + c = (a + c) + b), which int16 wrap-around addition is;
   * swapping the colours of every bump swaps the colour-indexed totals;
   * [eval_gen] reads nothing but b.Pieces, b.Colors, b.STM and b.FiftyCnt ([eval_core]). *)
From Coq Require Import NArith ZArith List Bool Lia Permutation.
From Chess3 Require Import Base.Bits Base.Word Model.Types Model.BoardDef Gen.Coeffs Model.Eval Spec.EvalSym.
Import ListNotations.

(* ------------------------------------------------------------------------------------------ *)
(* independence *)

(* the board stripped of everything the evaluation must not depend on *)
Definition eval_core (b : board) : board :=
  mkBoard [] (pcs b) (cols b) [] 0%Z (stm b) 0%N 0%N (fifty b).

Section Core.
Context {T : Type} (O : score_ops T) (C : CoeffSet T).

Lemma core_insufficient b : insufficient_mat (eval_core b) = insufficient_mat b.
Proof. reflexivity. Qed.
Lemma core_knbvk b : knbvk (eval_core b) = knbvk b.
Proof. reflexivity. Qed.
Lemma core_piece_values b : add_piece_values O C (eval_core b) = add_piece_values O C b.
Proof. reflexivity. Qed.
Lemma core_phase b : phase_of (eval_core b) = phase_of b.
Proof. reflexivity. Qed.
Lemma core_knbvk_terms b : knbvk_terms O C (eval_core b) = knbvk_terms O C b.
Proof. reflexivity. Qed.
Lemma core_tempo b : add_tempo O C (eval_core b) = add_tempo O C b.
Proof. reflexivity. Qed.
Lemma core_bishop_pair b : add_bishop_pair O C (eval_core b) = add_bishop_pair O C b.
Proof. reflexivity. Qed.
Lemma core_pw b : calc_pw_pre (eval_core b) = calc_pw_pre b.
Proof. reflexivity. Qed.
Lemma core_passers b pw : add_passers O C (eval_core b) pw = add_passers O C b pw.
Proof. reflexivity. Qed.
Lemma core_piece_terms b pw c : piece_terms O C (eval_core b) pw c = piece_terms O C b pw c.
Proof. reflexivity. Qed.
Lemma core_safety_terms b pw a c : safety_terms O C (eval_core b) pw a c = safety_terms O C b pw a c.
Proof. reflexivity. Qed.
Lemma core_main_terms b : main_terms O C (eval_core b) = main_terms O C b.
Proof.
  unfold main_terms. rewrite core_pw, core_tempo, core_bishop_pair, core_passers.
  rewrite !core_piece_terms, !core_safety_terms. reflexivity.
Qed.
Lemma core_endgame b l : endgame_score O (eval_core b) l = endgame_score O b l.
Proof. reflexivity. Qed.
Lemma core_tapered b ph l : tapered_score O (eval_core b) ph l = tapered_score O b ph l.
Proof. reflexivity. Qed.

Lemma eval_gen_core (b : board) : eval_gen O C b = eval_gen O C (eval_core b).
Proof.
  unfold eval_gen.
  rewrite core_insufficient, core_knbvk, core_piece_values, core_phase, core_knbvk_terms, core_main_terms,
          core_endgame, core_tapered. reflexivity.
Qed.
End Core.

Lemma eval_gen_indep {T} (O : score_ops T) (C : CoeffSet T) (b b' : board) :
  pcs b = pcs b' -> cols b = cols b' -> stm b = stm b' -> fifty b = fifty b' ->
  eval_gen O C b = eval_gen O C b'.
Proof.
  intros Hp Hc Hs Hf. rewrite (eval_gen_core O C b), (eval_gen_core O C b').
  unfold eval_core. rewrite Hp, Hc, Hs, Hf. reflexivity.
Qed.

Lemma eval_Z_indep (c : CoeffSet Z) (b b' : board) :
  same_eval_inputs b b' -> eval_Z c b = eval_Z c b'.
Proof. intros (_ & Hp & Hc & Hs & Hf). apply eval_gen_indep; assumption. Qed.

(* ------------------------------------------------------------------------------------------ *)
(* totals *)

Definition swapc {T} (e : bump T) : bump T := (fst (fst e), flip (snd (fst e)), snd e).

(* l' is l with the colours swapped, up to the order of the statements *)
Definition sim {T} (l' l : list (bump T)) : Prop := Permutation l' (map swapc l).

Lemma flip_flip c : flip (flip c) = c.
Proof. destruct c; reflexivity. Qed.

Lemma swapc_swapc {T} (e : bump T) : swapc (swapc e) = e.
Proof. destruct e as [[s c] v]. unfold swapc. cbn. rewrite flip_flip. reflexivity. Qed.

Lemma color_eqb_flip a b : color_eqb a (flip b) = color_eqb (flip a) b.
Proof. destruct a, b; reflexivity. Qed.

Section Alg.
Context {T : Type} (O : score_ops T).
Hypothesis add_rc : forall a b c, s_add O (s_add O a b) c = s_add O (s_add O a c) b.

Definition step (s : slot) (c : color) (acc : T) (e : bump T) : T :=
  if slot_eqb s (fst (fst e)) && color_eqb c (snd (fst e)) then add O acc (snd e) else acc.

Lemma total_fold s c l : total O s c l = fold_left (step s c) l (zero O).
Proof. reflexivity. Qed.

Lemma step_rc s c a x y : step s c (step s c a x) y = step s c (step s c a y) x.
Proof.
  unfold step, add.
  destruct (slot_eqb s (fst (fst x)) && color_eqb c (snd (fst x)));
  destruct (slot_eqb s (fst (fst y)) && color_eqb c (snd (fst y))); try reflexivity.
  apply add_rc.
Qed.

Lemma fold_step_perm s c l l' : Permutation l l' -> forall a, fold_left (step s c) l a = fold_left (step s c) l' a.
Proof.
  induction 1 as [|x l l' _ IH|x y l|l l' l'' _ IH1 _ IH2]; intros a; cbn [fold_left].
  - reflexivity.
  - apply IH.
  - rewrite step_rc. reflexivity.
  - rewrite IH1. apply IH2.
Qed.

Lemma total_perm s c l l' : Permutation l l' -> total O s c l = total O s c l'.
Proof. intros H. rewrite !total_fold. apply fold_step_perm. exact H. Qed.

Lemma fold_step_swap s c l : forall a, fold_left (step s c) (map swapc l) a = fold_left (step s (flip c)) l a.
Proof.
  induction l as [|e l IH]; intros a; cbn [map fold_left]; [reflexivity|].
  rewrite IH. f_equal. unfold step, swapc. cbn [fst snd]. rewrite color_eqb_flip. reflexivity.
Qed.

Lemma total_swap s c l : total O s c (map swapc l) = total O s (flip c) l.
Proof. rewrite !total_fold. apply fold_step_swap. Qed.

Lemma total_sim s c l' l : sim l' l -> total O s c l' = total O s (flip c) l.
Proof. intros H. rewrite (total_perm s c l' _ H). apply total_swap. Qed.

(* ---- sim is a congruence for the list constructions of the model ---- *)
Lemma sim_nil : @sim T [] [].
Proof. apply perm_nil. Qed.

Lemma sim_eq (l' l : list (bump T)) : l' = map swapc l -> sim l' l.
Proof. intros ->. apply Permutation_refl. Qed.

Lemma sim_app (a' a b' b : list (bump T)) : sim a' a -> sim b' b -> sim (a' ++ b') (a ++ b).
Proof. unfold sim. intros Ha Hb. rewrite map_app. apply Permutation_app; assumption. Qed.

(* the two iterations of a `for color` loop change places *)
Lemma sim_app_swap (a' a b' b : list (bump T)) : sim a' b -> sim b' a -> sim (a' ++ b') (a ++ b).
Proof.
  unfold sim. intros Ha Hb. rewrite map_app.
  eapply Permutation_trans; [apply Permutation_app; eassumption|]. apply Permutation_app_comm.
Qed.

Lemma sim_colors (f' f : color -> list (bump T)) :
  (forall c, sim (f' c) (f (flip c))) -> sim (flat_map f' [White; Black]) (flat_map f [White; Black]).
Proof.
  intros H. cbn [flat_map]. rewrite !app_nil_r. apply sim_app_swap; [apply (H White)|apply (H Black)].
Qed.

Lemma sim_trans_perm (l'' l' l : list (bump T)) : Permutation l'' l' -> sim l' l -> sim l'' l.
Proof. unfold sim. intros H1 H2. eapply Permutation_trans; eassumption. Qed.

Lemma sim_perm_r (l' l l2 : list (bump T)) : sim l' l -> Permutation l l2 -> sim l' l2.
Proof. unfold sim. intros H1 H2. eapply Permutation_trans; [exact H1|]. apply Permutation_map. exact H2. Qed.

(* loops over the squares of a set: the mirrored set is visited in another order *)
Lemma sim_flat_map (g' g : N -> list (bump T)) (l' l : list N) (h : N -> N) :
  Permutation l' (map h l) -> (forall s, In s l -> sim (g' (h s)) (g s)) ->
  sim (flat_map g' l') (flat_map g l).
Proof.
  intros Hp Hg. eapply sim_trans_perm; [apply Permutation_flat_map; exact Hp|].
  clear Hp. induction l as [|s l IH]; cbn [map flat_map]; [apply sim_nil|].
  apply sim_app; [apply Hg; left; reflexivity|]. apply IH. intros t Ht. apply Hg. right. exact Ht.
Qed.

(* addKingAttacks *)
Lemma sim_king_attacks l' l : sim l' l -> sim (add_king_attacks O l') (add_king_attacks O l).
Proof.
  intros H. unfold add_king_attacks, sim. cbn [map]. unfold swapc at 1 2 3 4. cbn [fst snd flip].
  rewrite !(total_sim _ _ _ _ H). cbn [flip].
  eapply perm_trans; [apply perm_swap|]. do 2 apply perm_skip. apply perm_swap.
Qed.

(* the consumers *)
Lemma endgame_score_sim (b' b : board) l' l :
  stm b' = flip (stm b) -> sim l' l -> endgame_score O b' l' = endgame_score O b l.
Proof.
  intros Hs H. unfold endgame_score. rewrite Hs, !(total_sim _ _ _ _ H), !flip_flip. reflexivity.
Qed.

Lemma tapered_score_sim (b' b : board) ph l' l :
  stm b' = flip (stm b) -> fifty b' = fifty b -> sim l' l -> tapered_score O b' ph l' = tapered_score O b ph l.
Proof.
  intros Hs Hf H. unfold tapered_score. rewrite Hs, Hf, !(total_sim _ _ _ _ H), !flip_flip. reflexivity.
Qed.

End Alg.

(* int16 wrap-around addition is right-commutative *)
Lemma wrapS_add_l bits a b : (0 < bits)%Z -> wrapS bits (wrapS bits a + b) = wrapS bits (a + b).
Proof.
  intros Hb. unfold wrapS.
  assert (H : (0 < 2 ^ (bits - 1))%Z) by (apply Z.pow_pos_nonneg; lia).
  set (h := (2 ^ (bits - 1))%Z) in *.
  replace (((a + h) mod (2 * h) - h + b + h))%Z with ((a + h) mod (2 * h) + b)%Z by lia.
  rewrite Zplus_mod_idemp_l. f_equal. f_equal. lia.
Qed.

Lemma ops_Z_add_rc a b c : s_add ops_Z (s_add ops_Z a b) c = s_add ops_Z (s_add ops_Z a c) b.
Proof.
  cbn [s_add ops_Z]. unfold wrapsc.
  assert (Hb : (0 < score_bits)%Z) by reflexivity.
  rewrite !wrapS_add_l by exact Hb. f_equal. lia.
Qed.
