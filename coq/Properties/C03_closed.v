(* C03, closed form - Undoing a move restores the position exactly, for every valid position and every
   move the engine makes.  Statements only; proofs in Proofs/ComposeValid.v and Proofs/ComposeReach.v.

   Properties/C03.v proves undo-after-make for [Rep b] and the explicit condition [applicable b m], and
   shows that IsPseudoLegal-accepted moves are applicable on boards with the two side invariants
   ep_inv / castle_inv.  Here those hypotheses are discharged from the property's domain:
     - a valid position (Spec/Chess.v [valid]: ep_ok, rights_consistent) has both side invariants;
     - a generated move is accepted by IsPseudoLegal (C05), hence applicable: this is
       [C03_generated_moves_statement] of Properties/C03.v, which was left open there;
     - valid positions are closed under legal moves (valid_step) and [Rep] is kept by MakeMove (for
       Zobrist tables with 64-bit entries - the hash words are part of [Rep]).
   So: in every position that is valid, or reached from a valid position by legal moves, every move the
   engine makes - a generated move, or any 15-bit-or-not encoding IsPseudoLegal accepts (hash moves, UCI
   moves), legal or not - is undone exactly: the whole board record is equal to what it was. *)
From Coq Require Import NArith ZArith List Bool.
From Chess3 Require Import Proofs.LayoutNow.
From Chess3 Require Import Base.Bits Model.Types Model.BoardDef Model.Board Model.Movegen Gen.Zobrist
  Spec.Chess Spec.Rep Spec.Applicable Spec.Play
  Proofs.BoardInv Proofs.UndoMove Proofs.PseudoApplicable Proofs.BoardExamples Proofs.Statements
  Proofs.ComposeValid Proofs.ComposeReach.
Import ListNotations.
Open Scope N_scope.

(* 1. valid => the side invariants of Properties/C03.v *)
Theorem C03_valid_side_invariants : forall b, Rep b -> valid (abs b) = true ->
  ep_inv b = true /\ castle_inv b = true.
Proof. exact valid_side_invariants. Qed.
Print Assumptions C03_valid_side_invariants.

(* 2. the moves accepted by IsPseudoLegal *)
Theorem C03_pseudo_legal_applicable_valid : forall b m,
  Rep b -> valid (abs b) = true -> is_pseudo_legal b m = true -> applicable b m = true.
Proof. exact pseudo_legal_applicable_valid. Qed.
Print Assumptions C03_pseudo_legal_applicable_valid.

Theorem C03_pseudo_legal_move_valid : forall z b m,
  Rep b -> valid (abs b) = true -> is_pseudo_legal b m = true ->
  let '(b', t) := make z b m in undo z b' m t = b.
Proof. exact pseudo_legal_move_valid. Qed.
Print Assumptions C03_pseudo_legal_move_valid.

(* 3. the generated moves: the statement left open in Properties/C03.v, under the property's domain *)
Theorem C03_generated_applicable : forall b m,
  Rep b -> valid (abs b) = true -> In m (gen_all b) -> applicable b m = true.
Proof. exact gen_applicable_valid. Qed.
Print Assumptions C03_generated_applicable.

(* ... which is C03_generated_moves_statement of Properties/C03.v restricted to valid positions (that
   statement asks for ep_inv / castle_inv only; it is implied by this one wherever both apply) *)
Theorem C03_generated_move_valid : forall z b m,
  Rep b -> valid (abs b) = true -> In m (gen_all b) ->
  let '(b', t) := make z b m in undo z b' m t = b.
Proof. exact generated_move_valid. Qed.
Print Assumptions C03_generated_move_valid.

(* THE CLOSED STATEMENT: every move the engine makes in a valid position is undone exactly *)
Theorem C03_closed : forall z b m,
  Rep b -> valid (abs b) = true ->
  In m (gen_all b) \/ is_pseudo_legal b m = true ->
  let '(b', t) := make z b m in undo z b' m t = b.
Proof.
  intros z b m HR HV [H|H]; [apply generated_move_valid|apply pseudo_legal_move_valid]; assumption.
Qed.
Print Assumptions C03_closed.

(* 4. ... and in every position reached from a valid one by legal moves (z with 64-bit entries: Rep
   contains the 64-bit bound on the stored hashes) *)
Theorem C03_reach : forall z b0 ms m, zob_w64 z ->
  Rep b0 -> valid (abs b0) = true -> legal_line z b0 ms ->
  let b := run z b0 ms in
  Rep b /\ valid (abs b) = true /\
  (In m (gen_all b) \/ is_pseudo_legal b m = true -> let '(b', t) := make z b m in undo z b' m t = b).
Proof.
  intros z b0 ms m Hz HR HV HL. cbv zeta.
  destruct (run_inv_Rep z Hz ms b0 HR HV HL) as (R & V & _).
  split; [exact R|]. split; [exact V|].
  intros [H|H]; [apply generated_move_valid|apply pseudo_legal_move_valid]; assumption.
Qed.
Print Assumptions C03_reach.

(* a line of legal moves from a valid position, played and then undone in reverse order (C03_nested
   with its hypothesis [applicable_all] discharged) *)
Theorem C03_legal_line_undone : forall z b0 ms, zob_w64 z ->
  Rep b0 -> valid (abs b0) = true -> legal_line z b0 ms ->
  let '(b', st) := make_all gen_layout z b0 (map OpMove ms) [] in undo_all gen_layout z b' st = b0.
Proof.
  intros z b0 ms Hz HR HV HL. apply C03_nested_l; [exact generated_layout_ok|exact HR|].
  apply legal_line_applicable; assumption.
Qed.
Print Assumptions C03_legal_line_undone.

(* non-vacuity: the start position; e2e4 is generated and accepted; a legal line from it *)
Example C03_closed_nonvacuous :
  Rep ex_start /\ valid (abs ex_start) = true /\ zob_w64 zob_real /\
  In e2e4 (gen_all ex_start) /\ is_pseudo_legal ex_start e2e4 = true /\
  legal_line zob_real ex_start [e2e4; e7e5; g1f3] /\
  ep_inv ex_ep = true /\ valid (abs ex_ep) = true /\ is_pseudo_legal ex_ep d5c6 = true.
Proof.
  split; [vm_compute; reflexivity|]. split; [vm_compute; reflexivity|]. split; [exact zob_real_w64|].
  split; [vm_compute; tauto|]. split; [vm_compute; reflexivity|].
  split; [vm_compute; repeat split; reflexivity|].
  repeat split; vm_compute; reflexivity.
Qed.
