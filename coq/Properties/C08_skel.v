(* C08, Layer A (control skeleton) - "a hard budget of N nodes is never exceeded" and the mechanism
   "abort is checked before any persistent store (table, histories) is updated", on the skeleton
   generated from the current search.go.  Statements only; proofs in Proofs/Skel*.v.

   What holds where (nothing more is asserted):
   * C08_budget: for every statement tree and every execution, at every intermediate point.
   * C08_no_store_after_abort: a persistent store executed while s.aborted is set can only be the
     FINAL insert of alphaBeta (tags alphaBeta/UpperBound, alphaBeta/Exact).  Never: the cut-off
     insert + history update of alphaBeta, and both inserts of quiescence (since repo d1717eb the
     abort test follows the child call directly; before it the cut-off insert of quiescence was
     reachable - observation O1, which was a real defect).
     Why the final insert of alphaBeta is on the allow-list: the null-move child
     (`value := -s.alphaBeta(.. ply+1, CutNode ..)`) is not followed by an abort test.  If that child
     aborts, the code relies on DATA: the child returns Inv, value = 11000 >= beta, the cut-off
     return is taken.  The skeleton abstracts the comparison, so the path "cut-off test fails, the
     move loop finds no legal move, final insert" exists in it.  In the real code that path needs a
     double null move (an aborted null-move grandchild makes the null-move child return beta, i.e.
     value = beta-1 at the parent) and a parent without legal moves; it then stores Exact 0 for a
     stalemate, which is the right score.  No failing input is known; not a defect.
   * sticky flag: the checker accepts `s.aborted = false` only in refresh, or at a point where the
     flag is known to be clear anyway (part of C08_skeleton_abort_before_store; without it a parent
     could clear a child's abort and store the child's meaningless score unnoticed by `late`).
   * C08_exhausted_budget_stores_nothing: an activation of any search function entered with the flag
     set or with the hard budget exhausted (not pondering) performs no persistent store at all and
     returns with the flag set - the fact the soft-limit / hard-limit replay argument needs
     ("the first incrementNodes of the next iteration aborts before anything is stored").  It does
     execute s.pv.setNull(ply) before noticing (alphaBeta's first statement); the PV buffer is not
     state that survives a search (iterativeDeepen has copied move/ponder out before). *)
From Coq Require Import String List ZArith Bool.
From Chess3 Require Import Model.Skel Model.SkelCheck Gen.SearchSkel
  Proofs.SkelFlag Proofs.SkelInstances Proofs.SkelTheorems Proofs.SkelExamples.
Import ListNotations.
Open Scope string_scope.

(* the hand-written models of incrementNodes / abort are models of the current source text *)
Theorem C08_incrementNodes_source : incrementNodes_src = incrementNodes_expected.
Proof. exact incrementNodes_pinned. Qed.
Print Assumptions C08_incrementNodes_source.

Theorem C08_abort_source : abort_src = abort_expected.
Proof. exact abort_pinned. Qed.
Print Assumptions C08_abort_source.

(* N0 = value of opts.Counters.Nodes when the search starts (0 for fresh counters); budget = opts.Nodes,
   -1 meaning "no limit" *)
Theorem C08_budget :
  forall (B M T : Type) (make : M -> B -> B * T) (undo : M -> T -> B -> B)
         (make_null : B -> B * T) (undo_null : T -> B -> B) (N0 : Z) s c o c',
  (0 <= N0)%Z ->
  exec B M T make undo make_null undo_null ftable s c o c' ->
  budget B M (fst c) <> (-1)%Z ->
  (nodes B M (fst c) <= Z.max N0 (budget B M (fst c)))%Z ->
  (nodes B M (fst c') <= Z.max N0 (budget B M (fst c)))%Z.
Proof. exact skel_nodes_le_budget. Qed.
Print Assumptions C08_budget.

Theorem C08_skeleton_abort_before_store :
  table_ok (flag_dom late_allowed resetters clearers (quiet_of ftable)) ftable = true
  /\ late_allowed = ["alphaBeta/UpperBound"; "alphaBeta/Exact"]
  /\ fn_ok (flag_dom [] resetters clearers (quiet_of ftable)) "quiescence" f_quiescence = true
  /\ fn_ok (flag_dom [] resetters clearers (quiet_of ftable)) "iterativeDeepen" f_iterativeDeepen = true.
Proof.
  exact (conj table_abort_before_store
          (conj eq_refl (conj quiescence_abort_before_store iterativeDeepen_abort_before_store))).
Qed.
Print Assumptions C08_skeleton_abort_before_store.

(* `late` records the tag of every s.tt.Insert / s.ranker.FailHigh executed while s.aborted was set;
   any outcome o, including OHalt = any intermediate point of any (also non-terminating) execution *)
Theorem C08_no_store_after_abort :
  forall (B M T : Type) (make : M -> B -> B * T) (undo : M -> T -> B -> B)
         (make_null : B -> B * T) (undo_null : T -> B -> B) f p c o c',
  exec B M T make undo make_null undo_null ftable (Call f p) c o c' ->
  forall t, In t (late B M (fst c')) ->
            In t ["alphaBeta/UpperBound"; "alphaBeta/Exact"] \/ In t (late B M (fst c)).
Proof. exact skel_late_stores. Qed.
Print Assumptions C08_no_store_after_abort.

Theorem C08_exhausted_budget_stores_nothing :
  forall (B M T : Type) (make : M -> B -> B * T) (undo : M -> T -> B -> B)
         (make_null : B -> B * T) (undo_null : T -> B -> B) f p c c',
  mem f resetters = false ->
  exec B M T make undo make_null undo_null ftable (Call f p) c ONormal c' ->
  (aborted B M (fst c) = true
   \/ (budget B M (fst c) <> (-1)%Z /\ (budget B M (fst c) <= nodes B M (fst c))%Z /\ ponder B M (fst c) = false)) ->
  stores B M (fst c') = stores B M (fst c)
  /\ (aborted B M (fst c') = true
      \/ (budget B M (fst c') <> (-1)%Z /\ (budget B M (fst c') <= nodes B M (fst c'))%Z /\ ponder B M (fst c') = false)).
Proof. exact skel_doomed_no_store. Qed.
Print Assumptions C08_exhausted_budget_stores_nothing.

(* non-vacuity: the generated skeleton has a complete execution of Search.Go with hard budget 3 that
   ends with exactly 3 nodes counted and the abort flag raised (so the budget bound is attained), and
   one with budget 1000 that performs persistent stores *)
Example C08_nonvacuous :
  (exists c', exec cB cM cT cmake cundo cmake_null cundo_null ftable (Call "Go" PlyKeep) (cstate0 3) ONormal c'
              /\ nodes _ _ (fst c') = 3%Z /\ aborted _ _ (fst c') = true)
  /\ (exists c', exec cB cM cT cmake cundo cmake_null cundo_null ftable (Call "Go" PlyKeep) (cstate0 1000) ONormal c'
              /\ (0 < nodes _ _ (fst c'))%Z /\ 0 < stores _ _ (fst c') /\ pv _ _ (fst c') 0 <> [])
  /\ budget _ _ (fst (cstate0 3)) <> (-1)%Z /\ mem "alphaBeta" resetters = false.
Proof.
  split; [exact budget_run_exists|]. split; [exact go_run_exists|]. split; [discriminate | reflexivity].
Qed.
