(* C12: king and knight tables, pawn shift formulas (for every SET of pawns), the InBetween table. *)
From Coq Require Import NArith ZArith List Bool Lia.
From Chess3 Require Import Base.Bits Base.BitsLemmas Model.Types Spec.Geometry Gen.AttackTables Model.Att Model.Attacks.
Import ListNotations.
Open Scope N_scope.

(* ------------------------------------------------------------------------------------------ *)
(* leapers: 64 cells each *)
Lemma king_table_check : forall_below 64 (fun sq => engine_king_moves sq =? king_attacks sq) = true.
Proof. vm_compute. reflexivity. Qed.
Lemma knight_table_check : forall_below 64 (fun sq => engine_knight_moves sq =? knight_attacks sq) = true.
Proof. vm_compute. reflexivity. Qed.

Theorem king_moves_correct sq : sq < 64 -> engine_king_moves sq = king_attacks sq.
Proof. intros H. apply N.eqb_eq. exact (forall_below_spec _ _ king_table_check sq H). Qed.
Theorem knight_moves_correct sq : sq < 64 -> engine_knight_moves sq = knight_attacks sq.
Proof. intros H. apply N.eqb_eq. exact (forall_below_spec _ _ knight_table_check sq H). Qed.

(* ------------------------------------------------------------------------------------------ *)
(* pawns: single squares by computation, sets by distributivity of the formulas over union *)
Lemma pawn_single_check :
  forall_below 64 (fun s =>
    (pawn_capture_moves (bit s) White =? pawn_attacks White s) &&
    (pawn_capture_moves (bit s) Black =? pawn_attacks Black s) &&
    (pawn_single_push_moves (bit s) White =? pawn_push1 White s) &&
    (pawn_single_push_moves (bit s) Black =? pawn_push1 Black s)) = true.
Proof. vm_compute. reflexivity. Qed.

Lemma pawn_single s c : s < 64 ->
  pawn_capture_moves (bit s) c = pawn_attacks c s /\ pawn_single_push_moves (bit s) c = pawn_push1 c s.
Proof.
  intros H. pose proof (forall_below_spec _ _ pawn_single_check s H) as E. cbv beta in E.
  repeat (apply andb_true_iff in E; destruct E as [E ?]).
  repeat match goal with X : (_ =? _) = true |- _ => apply N.eqb_eq in X end.
  destruct c; split; assumption.
Qed.

Lemma pawn_capture_distributes c : distributes (fun b => pawn_capture_moves b c).
Proof.
  unfold pawn_capture_moves, bor.
  apply distributes_lor.
  - apply (distributes_compose (fun x => shr x _)); [apply distributes_shr|].
    apply distributes_lor.
    + apply (distributes_compose (fun x => shl x 7)); [apply distributes_shl|apply distributes_bandn].
    + apply (distributes_compose (fun x => shl x 9)); [apply distributes_shl|apply distributes_bandn].
  - apply (distributes_compose (fun x => shl x _)); [apply distributes_shl|].
    apply distributes_lor.
    + apply (distributes_compose (fun x => shr x 7)); [apply distributes_shr|apply distributes_bandn].
    + apply (distributes_compose (fun x => shr x 9)); [apply distributes_shr|apply distributes_bandn].
Qed.

Lemma pawn_push_distributes c : distributes (fun b => pawn_single_push_moves b c).
Proof.
  unfold pawn_single_push_moves, bor.
  apply distributes_lor.
  - apply (distributes_compose (fun x => shr x _)); [apply distributes_shr|apply distributes_shl].
  - apply (distributes_compose (fun x => shl x _)); [apply distributes_shl|apply distributes_shr].
Qed.

(* the extra lemma used by the board-level proofs: the formulas distribute over union *)
Lemma pawn_capture_lor a b c : pawn_capture_moves (N.lor a b) c = N.lor (pawn_capture_moves a c) (pawn_capture_moves b c).
Proof. exact (proj2 (pawn_capture_distributes c) a b). Qed.
Lemma pawn_push_lor a b c : pawn_single_push_moves (N.lor a b) c = N.lor (pawn_single_push_moves a c) (pawn_single_push_moves b c).
Proof. exact (proj2 (pawn_push_distributes c) a b). Qed.

Theorem pawn_capture_correct b c : b < two64 -> pawn_capture_moves b c = pawn_attacks_set c b.
Proof.
  intros Hb. rewrite (distributes_bits _ b (pawn_capture_distributes c)).
  unfold pawn_attacks_set, union_over. apply union_bits_ext.
  intros s Hs. apply pawn_single. exact (bits_of_lt b s Hb Hs).
Qed.

Theorem pawn_push_correct b c : b < two64 -> pawn_single_push_moves b c = pawn_push1_set c b.
Proof.
  intros Hb. rewrite (distributes_bits _ b (pawn_push_distributes c)).
  unfold pawn_push1_set, union_over. apply union_bits_ext.
  intros s Hs. apply pawn_single. exact (bits_of_lt b s Hb Hs).
Qed.

(* ------------------------------------------------------------------------------------------ *)
(* InBetween: all 64 x 64 cells of the table the four nested loops fill *)
Definition between_check (t : table) : bool :=
  forall_below 64 (fun a => forall_below 64 (fun b =>
    let e := tbl_get t (64 * a + b) in
    (e =? in_between_direct a b) &&
    (N.ldiff e (N.lor (bit a) (bit b)) =? between_bb a b) &&
    (aligned a b || (e =? 0)) &&
    (e =? in_between a b))).

Lemma between_table_check : between_check (init_in_between_from tbl_empty) = true.
Proof. vm_compute. reflexivity. Qed.

Lemma between_check_sound t : between_check t = true -> forall a b, a < 64 -> b < 64 ->
  tbl_get t (64 * a + b) = in_between_direct a b /\
  N.ldiff (tbl_get t (64 * a + b)) (N.lor (bit a) (bit b)) = between_bb a b /\
  (aligned a b = false -> tbl_get t (64 * a + b) = 0) /\
  tbl_get t (64 * a + b) = in_between a b.
Proof.
  intros C a b Ha Hb. unfold between_check in C.
  pose proof (forall_below_spec _ _ (forall_below_spec _ _ C a Ha) b Hb) as E. cbv beta zeta in E.
  set (e := tbl_get t (64 * a + b)) in *. clearbody e.
  repeat (apply andb_true_iff in E; destruct E as [E ?]).
  repeat match goal with X : (_ =? _) = true |- _ => apply N.eqb_eq in X end.
  repeat split; try assumption.
  intros Hal. match goal with X : (aligned a b || _) = true |- _ => rewrite Hal in X; cbn [orb] in X; apply N.eqb_eq in X; exact X end.
Qed.

Lemma between_all a b : a < 64 -> b < 64 ->
  engine_in_between a b = in_between_direct a b /\
  N.ldiff (engine_in_between a b) (N.lor (bit a) (bit b)) = between_bb a b /\
  (aligned a b = false -> engine_in_between a b = 0) /\
  engine_in_between a b = in_between a b.
Proof. unfold engine_in_between. exact (between_check_sound _ between_table_check a b). Qed.

Theorem between_correct a b : a < 64 -> b < 64 ->
  N.ldiff (engine_in_between a b) (N.lor (bit a) (bit b)) = between_bb a b /\
  (aligned a b = false -> engine_in_between a b = 0 /\ between a b = nil) /\
  engine_in_between a b = in_between a b.
Proof.
  intros Ha Hb. destruct (between_all a b Ha Hb) as [_ [H1 [H2 H3]]].
  split; [exact H1|]. split; [|exact H3].
  intros Hal. split; [exact (H2 Hal)|]. unfold between. rewrite Hal. reflexivity.
Qed.

(* the stream runs the loop body directly; it is the table cell *)
Theorem in_between_table_cell a b : a < 64 -> b < 64 -> engine_in_between a b = in_between_direct a b.
Proof. intros Ha Hb. exact (proj1 (between_all a b Ha Hb)). Qed.
