(* Property C19 (b): ToVector / SetVector / TunedParams on a struct of named fields, for EVERY
   field list, every selection predicate and every value type.  See Model/Vector.v. *)
From Coq Require Import List Arith Lia Bool String.
From Chess3 Require Import Model.Vector Proofs.VectorTree.
Import ListNotations.
Local Notation length := List.length.

Lemma nth_error_ext {B} (l l' : list B) : (forall j, nth_error l j = nth_error l' j) -> l = l'.
Proof.
  revert l'. induction l as [| x r IH]; intros [| y r'] H.
  - reflexivity.
  - specialize (H 0). discriminate.
  - specialize (H 0). discriminate.
  - pose proof (H 0) as H0. cbn in H0. injection H0 as ->. f_equal. apply IH. intros j. exact (H (S j)).
Qed.

Lemma map_Some_inj {B} (l l' : list B) : map Some l = map Some l' -> l = l'.
Proof.
  revert l'. induction l as [| x r IH]; intros [| y r'] H; try discriminate; [reflexivity|].
  cbn in H. injection H as -> H. f_equal. exact (IH _ H).
Qed.

Section FieldProofs.
Context {A : Type}.
Variable sel : string -> bool.
Notation fields := (fields A).

Definition proper_fields (e : fields) : bool := forallb (fun nt => proper (snd nt)) e.

(* fields that are not selected are left alone; names are kept *)
Definition same_unselected (e e' : fields) : Prop :=
  Forall2 (fun nt nt' => fst nt' = fst nt /\ (sel (fst nt) = false -> nt' = nt)) e e'.

Lemma length_to_vector (e : fields) : length (to_vector sel e) = vec_len sel e.
Proof.
  unfold to_vector, vec_len. induction e as [| [n t] r IH]; [reflexivity|].
  cbn [flat_map map fst snd]. rewrite list_sum_cons, app_length, IH.
  destruct (sel n); [rewrite length_flatten|]; reflexivity.
Qed.

Lemma vec_len_skel (e e' : fields) : skel_fields e = skel_fields e' -> vec_len sel e = vec_len sel e'.
Proof.
  unfold vec_len, skel_fields. revert e'. induction e as [| [n t] r IH]; intros [| [n' t'] r'] H; try discriminate; [reflexivity|].
  cbn [map fst snd] in H |- *. injection H as -> Ht Hr. rewrite !list_sum_cons, (IH _ Hr).
  destruct (sel n'); [rewrite (size_skel t t' Ht)|]; reflexivity.
Qed.

(* SetVector consumes the front of a long enough vector *)
Lemma set_fields_spec (e : fields) : proper_fields e = true ->
  forall v, vec_len sel e <= length v ->
  exists e' r, set_fields sel e v = Some (e', r) /\ v = to_vector sel e' ++ r /\
               skel_fields e' = skel_fields e /\ same_unselected e e'.
Proof.
  unfold proper_fields, vec_len, to_vector, skel_fields, same_unselected.
  induction e as [| [n t] rest IH]; intros Hp v Hv.
  - exists [], v. repeat split. constructor.
  - cbn [forallb snd] in Hp. apply andb_prop in Hp. destruct Hp as [Ht Hrest].
    cbn [map fst snd] in Hv. rewrite list_sum_cons in Hv. cbn [set_fields].
    destruct (sel n) eqn:Es.
    + destruct (fill_spec t Ht v ltac:(lia)) as (t' & r & Hf & Hvr & Hsk).
      assert (Hr : list_sum (map (fun nt => if sel (fst nt) then size (snd nt) else 0) rest) <= length r).
      { subst v. rewrite app_length, length_flatten, (size_skel t' t Hsk) in Hv. lia. }
      destruct (IH Hrest r Hr) as (e' & r' & Hs & Hvr' & Hske & Hun).
      exists ((n, t') :: e'), r'. rewrite Hf, Hs. repeat split.
      * cbn [flat_map fst snd]. rewrite Es, <- app_assoc, <- Hvr'. exact Hvr.
      * cbn [map fst snd]. rewrite Hsk, Hske. reflexivity.
      * constructor; [|exact Hun]. cbn [fst]. split; [reflexivity|]. intros E. congruence.
    + destruct (IH Hrest v ltac:(lia)) as (e' & r' & Hs & Hvr' & Hske & Hun).
      exists ((n, t) :: e'), r'. rewrite Hs. repeat split.
      * cbn [flat_map fst snd]. rewrite Es. exact Hvr'.
      * cbn [map fst snd]. rewrite Hske. reflexivity.
      * constructor; [|exact Hun]. split; reflexivity.
Qed.

Lemma set_fields_flatten (e : fields) : proper_fields e = true ->
  forall r, set_fields sel e (to_vector sel e ++ r) = Some (e, r).
Proof.
  unfold proper_fields, to_vector. induction e as [| [n t] rest IH]; intros Hp r; [reflexivity|].
  cbn [forallb snd] in Hp. apply andb_prop in Hp. destruct Hp as [Ht Hrest].
  cbn [set_fields flat_map fst snd]. destruct (sel n).
  - rewrite <- app_assoc, (fill_flatten t Ht), (IH Hrest). reflexivity.
  - cbn [app]. rewrite (IH Hrest). reflexivity.
Qed.

(* SetVector then ToVector: the vector comes back *)
Theorem set_then_to (e : fields) (v : list A) : proper_fields e = true -> length v = vec_len sel e ->
  exists e', set_vector sel e v = Some e' /\ to_vector sel e' = v /\
             skel_fields e' = skel_fields e /\ same_unselected e e'.
Proof.
  intros Hp Hv. destruct (set_fields_spec e Hp v ltac:(lia)) as (e' & r & Hs & Hvr & Hsk & Hun).
  exists e'. unfold set_vector. rewrite Hs. repeat split; try assumption.
  assert (Hl : length (to_vector sel e') = length v).
  { rewrite length_to_vector, (vec_len_skel e' e Hsk). symmetry. exact Hv. }
  rewrite Hvr, app_length in Hl. assert (r = []) as -> by (destruct r; [reflexivity | cbn in Hl; lia]).
  rewrite app_nil_r in Hvr. symmetry. exact Hvr.
Qed.

(* ToVector then SetVector: the struct comes back *)
Theorem to_then_set (e : fields) : proper_fields e = true -> set_vector sel e (to_vector sel e) = Some e.
Proof.
  intros Hp. unfold set_vector. rewrite <- (app_nil_r (to_vector sel e)), (set_fields_flatten e Hp). reflexivity.
Qed.

(* ---------------------------------------------------------------------------------------- *)
(* TunedParams *)

Lemma tuned_from_cons k n t (r : fields) :
  tuned_from sel k ((n, t) :: r) = (if sel n then map (pair k) (paths t) else []) ++ tuned_from sel (S k) r.
Proof. reflexivity. Qed.

Lemma tuned_from_ge (e : fields) : forall k a, In a (tuned_from sel k e) -> k <= fst a.
Proof.
  induction e as [| [n t] r IH]; intros k a H; [destruct H|].
  rewrite tuned_from_cons in H. apply in_app_or in H. destruct H as [H|H].
  - destruct (sel n); [|destruct H]. apply in_map_iff in H. destruct H as (p & <- & _). cbn. lia.
  - specialize (IH _ _ H). lia.
Qed.

Lemma get_at_tuned (E : fields) : forall e pre, E = pre ++ e ->
  map (get_at E) (tuned_from sel (length pre) e) = map Some (to_vector sel e).
Proof.
  unfold to_vector. induction e as [| [n t] r IH]; intros pre HE; [reflexivity|].
  rewrite tuned_from_cons, map_app. cbn [flat_map fst snd]. rewrite map_app. f_equal.
  - destruct (sel n); [|reflexivity]. rewrite map_map, <- (get_paths t). apply map_ext. intros p.
    unfold get_at. cbn [fst snd]. rewrite HE, nth_error_app2 by lia. rewrite Nat.sub_diag. reflexivity.
  - specialize (IH (pre ++ [(n, t)])). rewrite app_length in IH. cbn [length] in IH.
    rewrite Nat.add_1_r in IH. apply IH. rewrite <- app_assoc. exact HE.
Qed.

(* the i-th pointer addresses the coefficient whose value is the i-th vector entry *)
Theorem tuned_values (e : fields) : map (get_at e) (tuned_params sel e) = map Some (to_vector sel e).
Proof. exact (get_at_tuned e e [] eq_refl). Qed.

Theorem tuned_length (e : fields) : length (tuned_params sel e) = length (to_vector sel e).
Proof. pose proof (f_equal (@length _) (tuned_values e)) as H. rewrite !map_length in H. exact H. Qed.

(* no two pointers coincide *)
Lemma NoDup_tuned_from (e : fields) : forall k, NoDup (tuned_from sel k e).
Proof.
  induction e as [| [n t] r IH]; intros k; [constructor|].
  rewrite tuned_from_cons. apply NoDup_app_intro.
  - destruct (sel n); [|constructor]. apply FinFun.Injective_map_NoDup; [|apply NoDup_paths].
    intros p q E. injection E. auto.
  - apply IH.
  - intros a Ha Hb. apply tuned_from_ge in Hb. destruct (sel n); [|destruct Ha].
    apply in_map_iff in Ha. destruct Ha as (p & <- & _). cbn in Hb. lia.
Qed.

Theorem tuned_distinct (e : fields) : NoDup (tuned_params sel e).
Proof. apply NoDup_tuned_from. Qed.

(* the pointers depend on the shape only (so SetVector does not move them) *)
Lemma tuned_from_skel (e : fields) : forall (e' : fields) k, skel_fields e = skel_fields e' -> tuned_from sel k e = tuned_from sel k e'.
Proof.
  unfold skel_fields. induction e as [| [n t] r IH]; intros [| [n' t'] r'] k H; try discriminate; [reflexivity|].
  cbn [map fst snd] in H. injection H as -> Ht Hr. rewrite !tuned_from_cons, (paths_skel t t' Ht), (IH r' (S k) Hr). reflexivity.
Qed.

Theorem tuned_shape_only (e e' : fields) : skel_fields e = skel_fields e' -> tuned_params sel e = tuned_params sel e'.
Proof. intros H. apply tuned_from_skel, H. Qed.

(* writing through a pointer *)
Lemma skel_upd_at (e : fields) a x : skel_fields (upd_at e a x) = skel_fields e.
Proof.
  unfold skel_fields, upd_at. apply map_upd_nth. intros [n t]. cbn [fst snd]. rewrite skel_upd. reflexivity.
Qed.

Lemma get_upd_at_same (e : fields) a x : get_at e a <> None -> get_at (upd_at e a x) a = Some x.
Proof.
  unfold get_at, upd_at. rewrite nth_error_upd_nth, Nat.eqb_refl.
  destruct (nth_error e (fst a)) as [[n t]|]; [|congruence]. cbn [option_map fst snd]. apply get_upd_same.
Qed.

Lemma get_upd_at_other (e : fields) a x a' : a' <> a -> get_at (upd_at e a x) a' = get_at e a'.
Proof.
  intros Hne. unfold get_at, upd_at. rewrite nth_error_upd_nth.
  destruct (Nat.eqb (fst a') (fst a)) eqn:E; [|reflexivity]. apply Nat.eqb_eq in E.
  destruct (nth_error e (fst a')) as [[n t]|]; [|reflexivity]. cbn [option_map fst snd].
  apply get_upd_other. intros Hp. apply Hne. destruct a, a'. cbn in *. congruence.
Qed.

(* the finite-difference loop: writing x through the i-th pointer changes exactly the i-th entry
   of the vector (and nothing that is not in the vector) *)
Theorem perturb_index (e : fields) i a x : nth_error (tuned_params sel e) i = Some a ->
  to_vector sel (upd_at e a x) = upd_nth i (fun _ => x) (to_vector sel e)
  /\ (forall a', a' <> a -> get_at (upd_at e a x) a' = get_at e a')
  /\ tuned_params sel (upd_at e a x) = tuned_params sel e.
Proof.
  intros Hi.
  assert (Htp : tuned_params sel (upd_at e a x) = tuned_params sel e)
    by (apply tuned_shape_only, skel_upd_at).
  split; [|split; [intros a'; apply get_upd_at_other | exact Htp]].
  apply map_Some_inj. rewrite <- tuned_values, Htp. apply nth_error_ext. intros j.
  rewrite !nth_error_map, nth_error_upd_nth.
  destruct (Nat.eqb j i) eqn:E.
  - apply Nat.eqb_eq in E. subst j. rewrite Hi. cbn [option_map].
    assert (Hg : get_at e a <> None).
    { pose proof (f_equal (fun l => nth_error l i) (tuned_values e)) as H. cbn beta in H.
      rewrite !nth_error_map, Hi in H. cbn [option_map] in H.
      destruct (nth_error (to_vector sel e) i); cbn in H; congruence. }
    rewrite (get_upd_at_same e a x Hg).
    pose proof (f_equal (fun l => nth_error l i) (tuned_values e)) as H. cbn beta in H.
    rewrite !nth_error_map, Hi in H. cbn [option_map] in H.
    destruct (nth_error (to_vector sel e) i); cbn in H |- *; [reflexivity | discriminate].
  - pose proof (f_equal (fun l => nth_error l j) (tuned_values e)) as H. cbn beta in H.
    rewrite !nth_error_map in H. rewrite <- H.
    destruct (nth_error (tuned_params sel e) j) as [a'|] eqn:Ej; [|reflexivity]. cbn [option_map]. f_equal.
    apply get_upd_at_other. intros ->.
    apply Nat.eqb_neq in E. apply E.
    pose proof (tuned_distinct e) as ND. rewrite NoDup_nth_error in ND. apply ND; [|congruence].
    apply nth_error_Some. congruence.
Qed.

End FieldProofs.

(* the target list is used as a set *)
Lemma in_targets_iff ts n : in_targets ts n = true <-> In n ts.
Proof.
  unfold in_targets. rewrite existsb_exists. split.
  - intros (m & Hm & E). apply String.eqb_eq in E. subst. exact Hm.
  - intros H. exists n. split; [exact H | apply String.eqb_refl].
Qed.

Lemma in_targets_ext ts ts' : (forall n, In n ts <-> In n ts') -> forall n, in_targets ts n = in_targets ts' n.
Proof.
  intros H n. destruct (in_targets ts n) eqn:E, (in_targets ts' n) eqn:E'; try reflexivity.
  - apply in_targets_iff, H, in_targets_iff in E. congruence.
  - apply in_targets_iff, H, in_targets_iff in E'. congruence.
Qed.
