(* Correspondence entry point of property C10 (stream "c10"), model side.

   input  = board-in(root) ++ [j; n; m_1 .. m_n]
   output = [T_0 .. T_n] ++ [U_0 .. U_n] ++ [S]      (see Spec/RepJudge.v)

   FromFEN / `position fen` is modelled as [reset_hash] (same fields, history = the one recomputed
   hash), applyMoves as [run_moves]; therefore U_i = T_i, and S restarts the history at ply j. *)
From Coq Require Import NArith ZArith List Bool.
From Chess3 Require Import Base.Bits Model.Types Model.BoardDef Model.Board Model.Rep3 Gen.Zobrist.
Import ListNotations.
Open Scope Z_scope.

Definition run_c10 (l : list Z) : list Z :=
  match decode_board l with
  | Some (b, j :: n :: rest) =>
      let n' := Z.to_nat n in
      let j' := Z.to_nat j in
      let ms := map Z.to_N (firstn n' rest) in
      let bs := run_boards zob_real (reset_hash zob_real b) ms in
      let ts := map threefold bs in
      let bj := nth j' bs b in
      let s := threefold (run_moves zob_real (reset_hash zob_real bj) (skipn j' ms)) in
      ts ++ ts ++ [s]
  | _ => []
  end.
