#!/usr/bin/env python3
"""Self-test of the witness shrinkers (harness/streams/shrink.go) on the UNCHANGED tree.

A shrinker must only propose well-formed inputs of its stream, including every invariant of the
generator that the judge relies on without re-checking it. So, on the tree the checks are silent on,
a candidate has to behave exactly like a generated input:

  * `h run` and the extracted model agree on it (streams that have a model),
  * every judge of the stream accepts the implementation's observation (verdict `1`; verdicts of a
    recorded known-finding class are tolerated where the generated inputs of the stream show them too),
  * it is not larger than the input it came from, differs from it, and is listed once.

Usage (after `./check setup` and one quick run of the checks named below, which leaves the generated
inputs in build/run/<Cxx>-quick/):

  python3 selftest/shrink_selftest.py [--all] [--inputs N] [stream ...]

--all tests every candidate of the sampled inputs instead of the 12 most and the 6 least aggressive.
Exit status 0 iff no candidate misbehaves.
"""
import os, random, subprocess, sys

VERIF = os.path.dirname(os.path.dirname(os.path.abspath(__file__)))
BIN = os.path.join(VERIF, "build", "bin")
RUN = os.path.join(VERIF, "build", "run")
H, M = os.path.join(BIN, "h"), os.path.join(BIN, "modelrun")

# stream: (run directory, judges, has a model, verdict prefixes that generated inputs show as well)
STREAMS = {
    "mkseq": ("C03-quick", ["judge_c03", "judge_c04"], True, []),
    "c15": ("C15-quick", ["judge_c15"], True, []),
    "c15big": ("C15-quick", ["judge_c15big"], False, []),
    "c10": ("C10-quick", ["judge_c10"], True, ["0 2 "]),       # known finding fen-ep-flag
    "c10two": ("C10-quick", ["judge_c10two", "judge_c03two", "judge_c04two"], True, []),
    "c10reuse": ("C10-quick", ["judge_c10reuse"], True, []),
    "c11seq": ("C11-quick", ["judge_c11seq"], True, []),
    "c11reuse": ("C11-quick", ["judge_c11reuse"], True, []),
    "c16h": ("C16-quick", ["judge_c16h"], True, []),
    "c20_file": ("C20-quick", ["judge_c20_file"], True, []),
    "search": ("C06-quick", ["judge_search"], True, []),
    "c08clear": ("C08-quick", ["judge_c08clear"], False, []),
    "c13": ("C13-quick", ["judge_c13", "accepts_c13"], False, []),     # -race build, real timing
}
DEFAULT_INPUTS = {"c15big": 2, "search": 6, "c08clear": 4, "c20_file": 25, "c13": 30}
RACE = {"c13"}


def run(cmd, inp):
    p = subprocess.run(cmd, input=inp, capture_output=True, text=True, cwd=os.path.join(VERIF, "build"))
    return p.stdout.split("\n")


def main(argv):
    every = "--all" in argv
    n_inputs = None
    if "--inputs" in argv:
        n_inputs = int(argv[argv.index("--inputs") + 1])
        del argv[argv.index("--inputs"):argv.index("--inputs") + 2]
    only = [a for a in argv if not a.startswith("--")]
    random.seed(int(os.environ.get("VERIF_SEED", "7")))
    failures = 0
    for s, (d, judges, has_model, tolerated) in STREAMS.items():
        if only and s not in only:
            continue
        path = os.path.join(RUN, d, s + ".in")
        if not os.path.exists(path):
            print(f"{s}: no generated inputs at {path} (run ./check {d.split('-')[0]} --tier quick first)")
            failures += 1
            continue
        ins = [l for l in open(path).read().split("\n") if l]
        H = os.path.join(BIN, "h-race" if s in RACE else "h")
        sample = random.sample(ins, min(n_inputs or DEFAULT_INPUTS.get(s, 40), len(ins)))
        out = run([H, "shrink", s] + ([] if every else ["60"]), "\n".join(sample) + "\n")
        groups, cur = [], []
        for l in out:
            if l == "--":
                groups.append(cur)
                cur = []
            elif l:
                cur.append(l)
        if len(groups) != len(sample):
            print(f"{s}: h shrink answered {len(groups)} groups for {len(sample)} inputs")
            failures += 1
            continue
        cands, shape = [], 0
        for src, g in zip(sample, groups):
            n0 = len(src.split())
            shape += sum(1 for c in g if len(c.split()) > n0 or c.split() == src.split()) + (len(g) - len(set(g)))
            cands += g if every else g[-12:] + g[:6]
        cands = list(dict.fromkeys(cands))
        if not cands:
            print(f"{s}: {len(sample)} inputs, no candidates")
            continue
        impl = run([H, "run", s], "\n".join(cands) + "\n")[:len(cands)]
        mism = 0
        if has_model:
            model = run([M, s], "\n".join(cands) + "\n")[:len(cands)]
            bad = [i for i, (a, b) in enumerate(zip(impl, model)) if a.split() != b.split()]
            mism = len(bad)
            if bad:
                j = bad[0]
                print(f"   model and implementation disagree on: {cands[j][:300]}\n   impl : {impl[j][:200]}\n   model: {model[j][:200]}")
        rej = {}
        for jn in judges:
            v = run([M, jn], "\n".join(a + " " + b for a, b in zip(cands, impl)) + "\n")[:len(cands)]
            bad = [(cands[i], x) for i, x in enumerate(v)
                   if x.split() != ["1"] and not any((x + " ").startswith(t) for t in tolerated)]
            rej[jn] = len(bad)
            if bad:
                print(f"   {jn} rejects `{bad[0][1]}`: {bad[0][0][:300]}")
        desc = run([H, "desc", s], cands[-1] + "\n")[0]
        ok = shape == 0 and mism == 0 and not any(rej.values())
        failures += 0 if ok else 1
        print(f"{s}: {len(sample)} inputs, {sum(len(g) for g in groups)} candidates, tested {len(cands)}: "
              f"ill-shaped {shape}, model mismatches {mism}, judge rejections {rej} -> {'ok' if ok else 'FAILED'}")
        print(f"   e.g. {desc[:200]}")
    print("SHRINK SELFTEST " + ("OK" if failures == 0 else "FAILED"))
    return 0 if failures == 0 else 1


if __name__ == "__main__":
    sys.exit(main(sys.argv[1:]))
