(* The iterative deepening of the closed search model (Model/Search.v deepen) IS Layer B
   (Model/IterDeepen.v iterative_deepen, the decision layer the C06 / C07 / C08 theorems of
   Properties/C0{6,7,8}.v are about) with its abstract alphaBeta oracle instantiated by the model's
   alphaBeta: the oracle's state is the engine state with the board, one question is one root call
   followed by the abort test.  Needs the board to be restored by the root call (the fallback move is
   computed from the board the last root call left behind): Proofs/SearchModelBoard.v. *)
From Coq Require Import NArith ZArith List Bool Lia.
From Chess3 Require Import Base.Bits Base.Word Model.Types Model.BoardDef Model.Board Model.Search
  Spec.Rep Spec.Applicable Proofs.SearchModelInv Proofs.SearchModelBoard.
From Chess3 Require Model.Movegen Model.Pv Model.IterDeepen Model.Picker Gen.SearchParams.
Import ListNotations.
Open Scope Z_scope.

Definition ostate := res (sstate * board).

Definition ask_model (fuel : nat) (o : opts) (x : ostate) (al be d : Z) : IterDeepen.ab_result * ostate :=
  match x with
  | Ok (st, b) =>
      match alphaBeta fuel o st b al be d 0 SearchParams.PVNode with
      | Ok (s, st1, b1) =>
          if s_aborted st1 then (IterDeepen.AbAborted (s_nodes st1), Ok (st1, b1))
          else (IterDeepen.AbValue s (Pv.active (s_pv st1)) (s_nodes st1), Ok (st1, b1))
      | Panic => (IterDeepen.AbAborted (-1), Panic)
      | OutOfFuel => (IterDeepen.AbAborted (-1), OutOfFuel)
      end
  | Panic => (IterDeepen.AbAborted (-1), Panic)
  | OutOfFuel => (IterDeepen.AbAborted (-1), OutOfFuel)
  end.

Definition proj_report (r : report) : IterDeepen.report :=
  match r with
  | RLine d s n _ pv => IterDeepen.RLine d s n pv
  | RAbort d n => IterDeepen.RAbort d n
  end.

Definition root_moves (b : board) : list Z := map zN (Movegen.gen_noisy b ++ Movegen.gen_quiet b).
Definition root_legal (b : board) (m : Z) : bool :=
  let b1 := fst (make zob b (Z.to_N m)) in negb (in_check b1 (flip (stm b1))).

Section Id.
  Variable good : board -> Prop.
  Hypothesis good_Rep : forall b, good b -> Rep b.
  Hypothesis good_ipl : forall b m, good b -> Movegen.is_pseudo_legal b m = true -> applicable b m = true.
  Hypothesis good_gen : forall b m, good b -> In m (Movegen.gen_all b) -> applicable b m = true.
  Hypothesis make_good : forall b m, good b -> applicable b m = true -> good (fst (make zob b m)).
  Hypothesis null_good : forall b, good b -> good (fst (make_null zob b)).

  Variable fuel : nat.
  Variable o : opts.
  Let lim := {| IterDeepen.l_depth := o_depth o; IterDeepen.l_soft_nodes := o_soft o |}.
  Notation ask := (ask_model fuel o).
  Notation W := SearchParams.WindowSize.

  Lemma aspire_agrees b : good b -> forall n st al be f d a,
    aspire fuel o n st b al be f d = Ok a ->
    IterDeepen.aspire ostate ask W n (Ok (st, b)) al be f d =
    match a with
    | AspOk s st1 b1 => IterDeepen.AspOk ostate s (Pv.active (s_pv st1)) (s_nodes st1) (Ok (st1, b1))
    | AspAbort st1 b1 => IterDeepen.AspAbort ostate (s_nodes st1) (Ok (st1, b1))
    end /\ match a with AspOk _ _ b1 => b1 = b | AspAbort _ b1 => b1 = b end.
  Proof.
    intros Hg. induction n as [|n IH]; intros st al be f d a H; [discriminate H|].
    cbn [aspire IterDeepen.aspire] in H |- *. unfold ask_model at 1.
    destruct (alphaBeta fuel o st b al be d 0 SearchParams.PVNode) as [[[s st1] b1]| |] eqn:E; cbn [bind] in H; try discriminate H.
    destruct (alphaBeta_good good good_Rep good_ipl good_gen make_good null_good o fuel _ _ _ _ _ _ _ _ _ _ Hg E) as [-> _].
    destruct (s_aborted st1).
    { injection H as <-. split; reflexivity. }
    destruct (s <=? al); [exact (IH _ _ _ _ _ _ H)|]. destruct (be <=? s); [exact (IH _ _ _ _ _ _ H)|].
    injection H as <-. split; reflexivity.
  Qed.

  Lemma first_legal_filter : forall ms b, good b -> (forall m, In m ms -> applicable b m = true) ->
    fst (first_legal b ms) = match filter (root_legal b) (map zN ms) with m :: _ => m | [] => 0 end.
  Proof.
    induction ms as [|m ms IH]; intros b Hg HA; cbn [first_legal map filter]; [reflexivity|].
    unfold root_legal at 1. unfold zN at 1. rewrite N2Z.id.
    destruct (make zob b m) as [b1 t] eqn:Em. cbn [fst].
    destruct (play_undo good good_Rep make_good _ _ _ _ Hg (HA m (or_introl eq_refl)) Em) as [_ Hu].
    destruct (negb (in_check b1 (flip (stm b1)))); cbn [fst]; [reflexivity|].
    rewrite Hu. apply IH; [exact Hg|]. intros m' Hm'. apply HA. now right.
  Qed.

  Lemma fallback_agrees st b mv st' b' : good b -> fallback st b = Ok (mv, st', b') ->
    mv = IterDeepen.fallback (root_moves b) (root_legal b).
  Proof.
    intros Hg H. unfold fallback in H. walk.
    pose proof (push_framed (s_ms st)) as F0.
    match goal with E : Picker.store_alloc_all (Picker.store_push _) _ = Some _ |- _ => pose proof (alloc_all_framed _ _ _ _ _ _ E F0) as F1 end.
    match goal with E : Picker.store_alloc_all _ (map zN (Movegen.gen_quiet b)) = Some _ |- _ => pose proof (alloc_all_framed _ _ _ _ _ _ E F1) as F2 end.
    match goal with E : first_legal _ _ = _ |- _ => apply (f_equal fst) in E; cbn [fst] in E; rewrite <- E end.
    rewrite (PickerProofs.framed_frame _ _ _ _ F2). cbn [app]. rewrite map_app, !map_map. cbn [fst].
    assert (Hid : forall l : list N, map (fun x => Z.to_N (zN x)) l = l).
    { intros l. rewrite <- (map_id l) at 2. apply map_ext. intros x. unfold zN. apply N2Z.id. }
    rewrite !Hid. unfold IterDeepen.fallback, root_moves.
    rewrite first_legal_filter; [reflexivity|exact Hg|].
    intros m Hm. apply good_gen; [exact Hg|exact Hm].
  Qed.

  Ltac fin :=
    unfold IterDeepen.mk;
    cbn [IterDeepen.r_score IterDeepen.r_move IterDeepen.r_ponder IterDeepen.r_reports r_score r_move r_ponder r_reports];
    cbn [rev]; rewrite ?map_app, ?map_rev; cbn [map proj_report rev]; repeat split; reflexivity.

  Theorem deepen_agrees : forall todo st b d al be sc mv pd reps r st' b', good b ->
    deepen fuel o todo st b d al be sc mv pd reps = Ok (r, st', b') ->
    let R := IterDeepen.deepen ostate ask W (fun _ => false) (root_moves b) (root_legal b) 64 lim todo (Ok (st, b))
                               d al be sc mv pd (map proj_report reps) in
    IterDeepen.r_score R = r_score r /\ IterDeepen.r_move R = r_move r /\ IterDeepen.r_ponder R = r_ponder r
    /\ IterDeepen.r_reports R = map proj_report (r_reports r).
  Proof.
    induction todo as [|todo IH]; intros st b d al be sc mv pd reps r st' b' Hg H; cbn [deepen IterDeepen.deepen] in H |- *.
    - injection H as <- <- <-. fin.
    - change (IterDeepen.l_depth lim) with (o_depth o).
      change IdConsts.MaxPlies with SearchParams.MaxPlies.
      destruct (negb ((d <? SearchParams.MaxPlies) && (d <=? o_depth o))).
      { injection H as <- <- <-. fin. }
      destruct (aspire fuel o 64 st b al be 1 d) as [a| |] eqn:Ea; cbn [bind] in H; try discriminate H.
      destruct (aspire_agrees b Hg _ _ _ _ _ _ _ Ea) as [-> Hb].
      destruct a as [s st1 b1|st1 b1]; subst b1.
      + destruct (IterDeepen.adopt (Pv.active (s_pv st1)) mv pd) as [mv1 pd1].
        destruct (hashfull (s_tt st1) (s_gen st1)) as [hf| |]; cbn [bind] in H; try discriminate H.
        unfold IterDeepen.soft_abort. cbn [orb IterDeepen.l_soft_nodes lim]. change (soft_abort o (s_nodes st1)) with ((0 <? o_soft o) && (o_soft o <? s_nodes st1)) in H.
        destruct (negb (mv1 =? 0) && ((0 <? o_soft o) && (o_soft o <? s_nodes st1))).
        * injection H as <- <- <-. fin.
        * exact (IH _ _ _ _ _ _ _ _ (RLine d s (s_nodes st1) hf (Pv.active (s_pv st1)) :: reps) _ _ _ Hg H).
      + destruct (mv =? 0).
        * destruct (fallback st1 b) as [[[m x] y]| |] eqn:F; cbn [bind] in H; try discriminate H.
          injection H as <- <- <-. rewrite (fallback_agrees _ _ _ _ _ Hg F). fin.
        * injection H as <- <- <-. fin.
  Qed.
End Id.
