(* C05 - The pseudo-legality test accepts exactly the moves the generator emits.
   Statements only; proofs live in Proofs/Ipl*.v and Proofs/AttackedSpec.v.

   [Rep b]            the engine board's three placement encodings agree, words are 64-bit (Spec/Rep.v)
   [valid (abs b)]    the position is valid in the sense of the property (Spec/Chess.v)
   [is_pseudo_legal]  Model/Movegen.v, transliteration of Board.IsPseudoLegal (stream c05: all 32768 encodings)
   [gen_all]          Model/Movegen.v, GenNoisy followed by GenNotNoisy (same stream)
   [pseudo_spec]      Spec/Chess.v, the rules: "the move is possible by the way the pieces move"

   The property is proved through the common middle [pseudo_spec]: the engine half is Proofs/Ipl*.v and
   Proofs/AttackedSpec.v, the generator half [gen_iff_spec] is Proofs/GenSpec.v (shared with property C01;
   its castling clause is Proofs/GenCastle.v).  No axiom is declared anywhere. *)
From Coq Require Import NArith ZArith List.
From Chess3 Require Import Base.Bits Model.Types Model.BoardDef Model.Movegen Model.BoardStreams Model.C05Streams
  Spec.Chess Spec.Rep Spec.C05Judge Proofs.AttackedSpec Proofs.IplFast Proofs.IplSpec Proofs.IplC05 Proofs.IplJudge.
Import ListNotations.
Open Scope N_scope.

(* the full statement of the property *)
Definition C05_full_statement : Prop :=
  forall b, Rep b -> valid (abs b) = true -> forall m, m < 32768 ->
    (is_pseudo_legal b m = true <-> In m (gen_all b)).

(* the generator half, proved under exactly this statement in Proofs/GenSpec.v (C01) *)
Definition C05_generator_half : Prop :=
  forall b m, Rep b -> valid (abs b) = true -> m < 32768 -> (In m (gen_all b) <-> pseudo_spec (abs b) m = true).

(* THE PROPERTY: for every valid position and every one of the 32768 encodings, IsPseudoLegal accepts the
   encoding iff the generator emits exactly that encoding *)
Theorem C05 : forall b, Rep b -> valid (abs b) = true -> forall m, m < 32768 ->
  (is_pseudo_legal b m = true <-> In m (gen_all b)).
Proof. exact C05_closed. Qed.
Print Assumptions C05.

(* "neither a move remembered for a different position ... nor a malformed move string from the GUI can ever
   be played on the board unless it is a genuine move of the current position" *)
Theorem C05_hash_move : forall b b' m, Rep b -> valid (abs b) = true ->
  In m (gen_all b') -> is_pseudo_legal b m = true -> In m (gen_all b).
Proof. exact hash_move_from_other_position. Qed.
Print Assumptions C05_hash_move.

Theorem C05_uci_move : forall b s m, Rep b -> valid (abs b) = true ->
  parse_uci_move b s = Some m -> In m (gen_all b).
Proof. exact uci_move_is_generated. Qed.
Print Assumptions C05_uci_move.

Theorem C05_generated_accepted : forall b m, Rep b -> valid (abs b) = true ->
  In m (gen_all b) -> is_pseudo_legal b m = true.
Proof. exact generated_is_accepted. Qed.
Print Assumptions C05_generated_accepted.

(* engine half, all piece kinds (knight, bishop, rook, queen, king step, the four castlings, pawn single and
   double push, capture, en passant, promotion bits 0..7), every encoding *)
Theorem C05_ipl_iff_spec : forall b m, Rep b -> valid (abs b) = true -> m < 32768 ->
  (is_pseudo_legal b m = true <-> pseudo_spec (abs b) m = true).
Proof. exact ipl_iff_spec. Qed.
Print Assumptions C05_ipl_iff_spec.

(* the same as an equation of booleans, without a bound on the encoding *)
Theorem C05_ipl_eq_spec : forall b m, Rep b -> valid (abs b) = true ->
  is_pseudo_legal b m = pseudo_spec (abs b) m.
Proof. exact ipl_eq_spec. Qed.
Print Assumptions C05_ipl_eq_spec.

Theorem C05_from_gen_iff_spec : C05_generator_half -> C05_full_statement.
Proof. exact C05_from_gen. Qed.
Print Assumptions C05_from_gen_iff_spec.

(* the rules' attack relation vs Board.IsAttacked (used by castling here, by the legality filter in C01) *)
Theorem C05_is_attacked_spec : forall b c tgt, Rep b -> w64p tgt ->
  Board.is_attacked b c (occupancy b) tgt = existsb (attacked_by (abs b) c) (bits_of tgt).
Proof. exact is_attacked_spec. Qed.
Print Assumptions C05_is_attacked_spec.

(* soundness of the correspondence driver's shortcut (stream c05): skipping encodings whose from-square
   holds no piece of the side to move loses nothing *)
Theorem C05_ipl_from_own : forall b m, is_pseudo_legal b m = true -> N.testbit (colors b (stm b)) (mv_from m) = true.
Proof. exact ipl_from_own. Qed.
Print Assumptions C05_ipl_from_own.

Theorem C05_driver_complete : forall b, fast_accepted b = filter (is_pseudo_legal b) all_encodings.
Proof. exact fast_accepted_eq. Qed.
Print Assumptions C05_driver_complete.

(* the spec-level judge of stream c05 passes exactly "equal sets of 15-bit encodings", and the model's own
   output passes it on every valid position: the oracle of the witness search and the theorem agree *)
Theorem C05_judge_exact : forall acc gen,
  judge_sets acc gen = [1%Z] <->
  ((forall m, In m (acc ++ gen) -> m < 32768) /\ (forall m, In m acc <-> In m gen)).
Proof. exact judge_sets_iff. Qed.
Print Assumptions C05_judge_exact.

Theorem C05_model_passes_judge : forall b, Rep b -> valid (abs b) = true ->
  judge_sets (fast_accepted b) (sort_moves (gen_all b)) = [1%Z].
Proof. exact model_passes_judge. Qed.
Print Assumptions C05_model_passes_judge.

(* ------------------------------------------------------------------------------------------ *)
(* non-vacuity: the start position meets the hypotheses; the encodings of the repaired defect are rejected *)

Definition start_board : board :=
  let ps := [71776119061282560; 4755801206503243842; 2594073385365405732; 9295429630892703873;
             576460752303423496; 1152921504606846992] in
  mkBoard (sq2p_of_sets ps) (0 :: ps) [65535; 18446462598732840960] [1] 1%Z White 0 15 0%Z.

Example C05_nonvacuous :
  Rep start_board /\ valid (abs start_board) = true /\
  (* e2e4 and g1f3 are accepted, generated and possible *)
  is_pseudo_legal start_board (mk_move 12 28 0) = true /\ In (mk_move 12 28 0) (gen_all start_board) /\
  pseudo_spec (abs start_board) (mk_move 6 21 0) = true /\
  (* e2e3 with promotion bits = queen (witness of the repaired defect 06f039b) is rejected and not generated *)
  is_pseudo_legal start_board (mk_move 12 20 Queen) = false /\ ~ In (mk_move 12 20 Queen) (gen_all start_board) /\
  length (filter (is_pseudo_legal start_board) all_encodings) = 20%nat.
Proof.
  repeat split; try (vm_compute; reflexivity).
  - vm_compute. tauto.
  - vm_compute. intuition discriminate.
Qed.

(* a7a8 with promotion bits pawn / king / 7 is rejected; with N/B/R/Q it is accepted *)
Definition a7_board : board :=
  let ps := [281474976710656; 0; 0; 0; 0; 1152921504606846992] in
  mkBoard (sq2p_of_sets ps) (0 :: ps) [281474976710672; 1152921504606846976] [1] 1%Z White 0 0 0%Z.

Example C05_promotion_bits :
  Rep a7_board /\ valid (abs a7_board) = true /\
  map (fun pr => is_pseudo_legal a7_board (mk_move 48 56 pr)) [0; 1; 2; 3; 4; 5; 6; 7] =
  [false; false; true; true; true; true; false; false].
Proof. repeat split; vm_compute; reflexivity. Qed.
