#!/usr/bin/env python3
"""Resolve a merge conflict in lib/levels.json by taking the union of the keys of both sides
(theirs wins for a key present on both sides only if ours is identical or missing)."""
import json, subprocess, sys
def show(stage):
    try:
        return json.loads(subprocess.check_output(["git", "show", f":{stage}:lib/levels.json"], text=True))
    except Exception:
        return {}
ours, theirs = show(2), show(3)
out = dict(ours)
for k, v in theirs.items():
    if k not in out:
        out[k] = v
json.dump(out, open("lib/levels.json", "w"), indent=1)
print("levels keys:", sorted(out))
