(* Refinement of Model/TT.v to the abstract table of Spec/TTSpec.v:
   bucket invariant, abstraction function, one step (insert / clear / resize+clear / probe),
   and runs of operations by induction over the operation list. *)
From Coq Require Import ZArith Lia Bool List.
Import ListNotations.
From Chess3 Require Import Base.Word Gen.TTConsts Model.TT Spec.TTSpec Proofs.TTBits.
Open Scope Z_scope.

(* ---------------------------------------------------------------------------------------- *)
(* first_lane_eq, logically *)

Ltac lane_ne_tac :=
  let i := fresh "i" in let Hi := fresh "Hi" in let Hc := fresh "Hc" in
  intros i Hi; assert (Hc : i = 0 \/ i = 1 \/ i = 2 \/ i = 3) by lia;
  destruct Hc as [-> | [-> | [-> | ->]]]; try lia; apply Z.eqb_neq; assumption.

Lemma fle_some w s j : first_lane_eq w s = Some j ->
  0 <= j < 4 /\ lane j w = s /\ forall i, 0 <= i < j -> lane i w <> s.
Proof.
  unfold first_lane_eq.
  destruct (lane 0 w =? s) eqn:E0; [intros [= <-]; split; [lia|split; [apply Z.eqb_eq; assumption|lane_ne_tac]]|].
  destruct (lane 1 w =? s) eqn:E1; [intros [= <-]; split; [lia|split; [apply Z.eqb_eq; assumption|lane_ne_tac]]|].
  destruct (lane 2 w =? s) eqn:E2; [intros [= <-]; split; [lia|split; [apply Z.eqb_eq; assumption|lane_ne_tac]]|].
  destruct (lane 3 w =? s) eqn:E3; [intros [= <-]; split; [lia|split; [apply Z.eqb_eq; assumption|lane_ne_tac]]|].
  discriminate.
Qed.

Lemma fle_none w s : first_lane_eq w s = None -> forall j, 0 <= j < 4 -> lane j w <> s.
Proof.
  unfold first_lane_eq.
  destruct (lane 0 w =? s) eqn:E0; [discriminate|].
  destruct (lane 1 w =? s) eqn:E1; [discriminate|].
  destruct (lane 2 w =? s) eqn:E2; [discriminate|].
  destruct (lane 3 w =? s) eqn:E3; [discriminate|].
  intros _. lane_ne_tac.
Qed.

Lemma fle_intro_some w s j : 0 <= j < 4 -> lane j w = s -> (forall i, 0 <= i < j -> lane i w <> s) ->
  first_lane_eq w s = Some j.
Proof.
  intros Hj Hs Hlow. unfold first_lane_eq.
  assert (Hc : j = 0 \/ j = 1 \/ j = 2 \/ j = 3) by lia.
  destruct Hc as [-> | [-> | [-> | ->]]].
  - rewrite (proj2 (Z.eqb_eq _ _) Hs). reflexivity.
  - rewrite (proj2 (Z.eqb_neq _ _) (Hlow 0 ltac:(lia))), (proj2 (Z.eqb_eq _ _) Hs). reflexivity.
  - rewrite (proj2 (Z.eqb_neq _ _) (Hlow 0 ltac:(lia))), (proj2 (Z.eqb_neq _ _) (Hlow 1 ltac:(lia))),
      (proj2 (Z.eqb_eq _ _) Hs). reflexivity.
  - rewrite (proj2 (Z.eqb_neq _ _) (Hlow 0 ltac:(lia))), (proj2 (Z.eqb_neq _ _) (Hlow 1 ltac:(lia))),
      (proj2 (Z.eqb_neq _ _) (Hlow 2 ltac:(lia))), (proj2 (Z.eqb_eq _ _) Hs). reflexivity.
Qed.

Lemma fle_intro_none w s : (forall j, 0 <= j < 4 -> lane j w <> s) -> first_lane_eq w s = None.
Proof.
  intros H. unfold first_lane_eq.
  rewrite (proj2 (Z.eqb_neq _ _) (H 0 ltac:(lia))), (proj2 (Z.eqb_neq _ _) (H 1 ltac:(lia))),
    (proj2 (Z.eqb_neq _ _) (H 2 ltac:(lia))), (proj2 (Z.eqb_neq _ _) (H 3 ltac:(lia))). reflexivity.
Qed.

(* ---------------------------------------------------------------------------------------- *)
(* lists *)

Lemma set_nth_length {A} (l : nat) (x : A) es : length (set_nth l x es) = length es.
Proof. revert l. induction es as [|a es IH]; intros [|l]; cbn; auto. Qed.

Lemma nth_set_nth {A} (l j : nat) (x d : A) es : (l < length es)%nat ->
  nth j (set_nth l x es) d = if Nat.eqb j l then x else nth j es d.
Proof.
  revert l j. induction es as [|a es IH]; intros l j Hl; [cbn in Hl; lia|].
  destruct l as [|l], j as [|j]; cbn; try reflexivity.
  apply IH. cbn in Hl. lia.
Qed.

Lemma nth_set_nth_other {A} (l j : nat) (x d : A) es : j <> l -> nth j (set_nth l x es) d = nth j es d.
Proof.
  revert l j. induction es as [|a es IH]; intros l j Hl; [destruct l, j; reflexivity|].
  destruct l as [|l], j as [|j]; cbn; try reflexivity; try lia.
  apply IH. lia.
Qed.

Lemma set_nth_same {A} (l : nat) (d : A) es : (l < length es)%nat -> set_nth l (nth l es d) es = es.
Proof.
  revert l. induction es as [|a es IH]; intros l Hl; [cbn in Hl; lia|].
  destruct l as [|l]; cbn; [reflexivity|]. f_equal. apply IH. cbn in Hl. lia.
Qed.

(* ---------------------------------------------------------------------------------------- *)
(* invariant and abstraction *)

Definition K (b : bucket) (j : Z) : Z := lane j (b_keys b).
Definition E (b : bucket) (j : Z) : entry := nth (Z.to_nat j) (b_entries b) zero_entry.

(* stored scores stay far enough from the int16 limits for Value(ply) not to wrap *)
Definition entry_ok (e : entry) : Prop := -32100 <= e_value e <= 32100.

Definition bucket_ok (b : bucket) : Prop :=
  0 <= b_keys b < W64 /\
  length (b_entries b) = 4%nat /\
  (forall j, 0 <= j < 4 -> entry_ok (E b j)) /\
  (forall i j, 0 <= i < 4 -> 0 <= j < 4 -> i <> j -> K b i <> 0 -> K b i <> K b j).

Definition wf (t : table) : Prop := Forall bucket_ok t.

Definition rec_of (e : entry) : arec := mkRec (e_depth e) (e_type e) (e_value e) (e_move e) (e_gen e).

Definition abs_bucket (b : bucket) (s : Z) : option arec :=
  match first_lane_eq (b_keys b) s with
  | Some l => Some (rec_of (E b l))
  | None => None
  end.

Definition tlen (t : table) : Z := Z.of_nat (length t).

Definition abs (t : table) : amap := fun i s =>
  if (0 <=? i) && (i <? tlen t) then abs_bucket (nth (Z.to_nat i) t zero_bucket) s else None.

Lemma zero_bucket_ok : bucket_ok zero_bucket.
Proof.
  unfold bucket_ok, zero_bucket, K, E. cbn [b_keys b_entries]. split; [unfold W64; lia|].
  split; [reflexivity|]. split.
  - intros j Hj. assert (Hc : j = 0 \/ j = 1 \/ j = 2 \/ j = 3) by lia.
    destruct Hc as [-> | [-> | [-> | ->]]]; cbv; split; discriminate.
  - intros i j Hi Hj _ Hn. exfalso. apply Hn.
    assert (Hc : i = 0 \/ i = 1 \/ i = 2 \/ i = 3) by lia.
    destruct Hc as [-> | [-> | [-> | ->]]]; reflexivity.
Qed.

Lemma abs_zero_bucket s : s <> 0 -> abs_bucket zero_bucket s = None.
Proof.
  intros Hs. unfold abs_bucket. rewrite fle_intro_none; [reflexivity|].
  intros j Hj. assert (Hc : j = 0 \/ j = 1 \/ j = 2 \/ j = 3) by lia.
  destruct Hc as [-> | [-> | [-> | ->]]]; cbn; lia.
Qed.

(* ---------------------------------------------------------------------------------------- *)
(* pieces of Insert *)

Lemma lane_tests keys :
  Z.land keys lane_mask = lane 0 keys /\
  Z.land (Z.shiftr keys partialKeyBits) lane_mask = lane 1 keys /\
  Z.land (Z.shiftr (Z.shiftr keys partialKeyBits) partialKeyBits) lane_mask = lane 2 keys /\
  Z.land (Z.shiftr (Z.shiftr (Z.shiftr keys partialKeyBits) partialKeyBits) partialKeyBits) lane_mask = lane 3 keys.
Proof.
  change partialKeyBits with 16. change lane_mask with (Z.ones 16).
  rewrite !Z.shiftr_shiftr by lia. rewrite !lane_alt by lia.
  rewrite Z.shiftr_0_r. repeat split; reflexivity.
Qed.

Definition keep_cond (target : entry) (gen d typ : Z) : bool :=
  negb (typ =? Exact) && (wrap8 (d + 2) <? e_depth target) && (e_gen target =? gen).

Lemma scan_char es keys hk gen d sm typ : length es = 4%nat ->
  match first_lane_eq keys hk with
  | Some l =>
      scan_loop es 0 keys (2 ^ 50) 0 hk gen d sm typ =
      let target := nth (Z.to_nat l) es zero_entry in
      if keep_cond target gen d typ then ScanReturn
      else ScanReplace l (if sm =? 0 then e_move target else sm)
  | None => exists r, 0 <= r < 4 /\ scan_loop es 0 keys (2 ^ 50) 0 hk gen d sm typ = ScanReplace r sm
  end.
Proof.
  intros Hlen.
  destruct es as [|e0 [|e1 [|e2 [|e3 [|e4 es]]]]]; try discriminate Hlen.
  cbn [scan_loop].
  destruct (lane_tests keys) as (T0 & T1 & T2 & T3). rewrite T0, T1, T2, T3.
  change (0 + 1 + 1 + 1) with 3. change (0 + 1 + 1) with 2. change (0 + 1) with 1.
  unfold first_lane_eq, keep_cond.
  destruct (lane 0 keys =? hk); [reflexivity|].
  destruct (lane 1 keys =? hk); [reflexivity|].
  destruct (lane 2 keys =? hk); [reflexivity|].
  destruct (lane 3 keys =? hk); [reflexivity|].
  repeat match goal with |- context [if ?c then _ else _] => destruct c end;
    eexists; (split; [|reflexivity]); lia.
Qed.

Definition range4 : list Z := [0; 1; 2; 3].

Lemma pack_unpack d typ mv v g : 0 <= d <= 63 -> 0 <= typ <= 3 ->
  e_depth (mkEntry mv v (pack d typ) g) = d /\ e_type (mkEntry mv v (pack d typ) g) = typ.
Proof.
  intros Hd Ht. unfold e_depth, e_type. cbn [e_packed].
  assert (H : forallb (fun d => forallb (fun t =>
              (wrap8 (Z.shiftr (pack d t) 2) =? d) && (Z.land (pack d t) 3 =? t)) range4) range64 = true)
    by (vm_compute; reflexivity).
  rewrite forallb_forall in H. specialize (H d (in_range64 d ltac:(lia))).
  rewrite forallb_forall in H.
  assert (Hin : In typ range4) by (unfold range4; cbn; lia).
  specialize (H typ Hin). apply andb_true_iff in H. destruct H as [H1 H2].
  split; apply Z.eqb_eq; assumption.
Qed.

Lemma store_value_to_tt v ply : -32000 <= v <= 32000 -> 0 <= ply <= 63 ->
  store_value v ply = to_tt v ply /\ -32100 <= to_tt v ply <= 32100.
Proof.
  intros Hv Hp. unfold store_value, to_tt.
  destruct mate_consts as (_ & _ & Hhi & Hlo).
  destruct (v <? MateLo) eqn:E1.
  - apply Z.ltb_lt in E1. rewrite wrap16_id by lia.
    destruct (MateHi <? v - ply) eqn:E2; [apply Z.ltb_lt in E2; lia|]. lia.
  - apply Z.ltb_ge in E1. destruct (MateHi <? v) eqn:E2.
    + rewrite wrap16_id by lia. lia.
    + lia.
Qed.

Lemma entry_value_from_tt e ply : entry_ok e -> 0 <= ply <= 63 ->
  entry_value e ply = from_tt (e_value e) ply.
Proof.
  unfold entry_ok, entry_value, from_tt. intros He Hp.
  destruct (MateHi <? e_value e); [apply wrap16_id; lia|].
  destruct (e_value e <? MateLo); [apply wrap16_id; lia|]. reflexivity.
Qed.

(* the model's keep-deeper test is the specification's *)
Lemma keep_cond_spec target o : op_in_domain o = true ->
  keep_cond target (o_gen o) (o_depth o) (o_type o) = keep_deeper (Some (rec_of target)) o.
Proof.
  intros Hd. unfold op_in_domain in Hd. repeat (apply andb_true_iff in Hd; destruct Hd as [Hd ?]).
  unfold keep_cond, keep_deeper, rec_of. cbn [a_depth a_gen].
  rewrite wrap8_id by lia. reflexivity.
Qed.

Lemma E_set_nth b l e j keys : length (b_entries b) = 4%nat -> 0 <= l < 4 -> 0 <= j < 4 ->
  E (mkBucket keys (set_nth (Z.to_nat l) e (b_entries b))) j = if j =? l then e else E b j.
Proof.
  intros Hlen Hl Hj. unfold E. cbn [b_entries]. rewrite nth_set_nth by lia.
  destruct (j =? l) eqn:Ejl.
  - apply Z.eqb_eq in Ejl. subst. rewrite Nat.eqb_refl. reflexivity.
  - apply Z.eqb_neq in Ejl. rewrite (proj2 (Nat.eqb_neq _ _)) by lia. reflexivity.
Qed.

(* overwriting lane l with signature sg and entry e *)
Lemma replace_lane b sg l e :
  bucket_ok b -> 0 <= l < 4 -> 0 <= sg < 65536 -> entry_ok e ->
  (forall i, 0 <= i < l -> K b i <> sg) ->
  (sg <> 0 -> forall j, 0 <= j < 4 -> j <> l -> K b j <> sg) ->
  let b' := mkBucket (splice (b_keys b) sg l) (set_nth (Z.to_nat l) e (b_entries b)) in
  bucket_ok b' /\ abs_bucket b' sg = Some (rec_of e) /\
  forall s, s <> 0 -> s <> sg -> abs_bucket b' s = if s =? K b l then None else abs_bucket b s.
Proof.
  intros (Hkeys & Hlen & Hent & Hdist) Hl Hsg He Hlow Hother b'.
  destruct (splice_lanes (b_keys b) sg l Hkeys Hsg Hl) as [Hrange Hlanes].
  assert (HK : forall j, 0 <= j < 4 -> K b' j = if j =? l then sg else K b j).
  { intros j Hj. unfold K, b'. cbn [b_keys]. apply Hlanes. exact Hj. }
  assert (HE : forall j, 0 <= j < 4 -> E b' j = if j =? l then e else E b j).
  { intros j Hj. unfold b'. apply E_set_nth; assumption. }
  split; [|split].
  - unfold bucket_ok. split; [exact Hrange|]. split; [unfold b'; cbn [b_entries]; rewrite set_nth_length; exact Hlen|].
    split.
    + intros j Hj. rewrite HE by exact Hj. destruct (j =? l); [exact He | apply Hent; exact Hj].
    + intros i j Hi Hj Hij Hnz. rewrite HK in * by assumption. rewrite (HK j Hj).
      destruct (Z.eqb_spec i l) as [Eil|Eil], (Z.eqb_spec j l) as [Ejl|Ejl].
      * lia.
      * intros Heq. apply (Hother Hnz j Hj Ejl). symmetry. exact Heq.
      * destruct (Z.eq_dec sg 0) as [Hz|Hz]; [rewrite Hz; exact Hnz|]. apply Hother; assumption.
      * apply Hdist; assumption.
  - unfold abs_bucket. change (b_keys b') with (splice (b_keys b) sg l).
    rewrite (fle_intro_some _ sg l).
    + rewrite HE by exact Hl. rewrite Z.eqb_refl. reflexivity.
    + exact Hl.
    + rewrite Hlanes by exact Hl. rewrite Z.eqb_refl. reflexivity.
    + intros i Hi. rewrite Hlanes by lia. rewrite (proj2 (Z.eqb_neq i l)) by lia. apply Hlow. exact Hi.
  - intros s Hs Hssg. unfold abs_bucket at 1. change (b_keys b') with (splice (b_keys b) sg l).
    destruct (s =? K b l) eqn:Evict.
    + apply Z.eqb_eq in Evict. rewrite fle_intro_none; [reflexivity|].
      intros j Hj. rewrite Hlanes by exact Hj. destruct (j =? l) eqn:Ejl; [lia|].
      apply Z.eqb_neq in Ejl. rewrite Evict. intros Heq.
      apply (Hdist l j Hl Hj ltac:(lia) ltac:(unfold K in *; lia)). unfold K. symmetry. exact Heq.
    + apply Z.eqb_neq in Evict. unfold abs_bucket.
      destruct (first_lane_eq (b_keys b) s) as [j|] eqn:F.
      * destruct (fle_some _ _ _ F) as (Hj & Hjs & Hjlow).
        assert (Hjl : j <> l) by (intros ->; apply Evict; symmetry; exact Hjs).
        rewrite (fle_intro_some _ s j).
        -- rewrite HE by exact Hj. rewrite (proj2 (Z.eqb_neq j l) Hjl). reflexivity.
        -- exact Hj.
        -- rewrite Hlanes by exact Hj. rewrite (proj2 (Z.eqb_neq j l) Hjl). exact Hjs.
        -- intros i Hi. rewrite Hlanes by lia. destruct (i =? l); [lia | apply Hjlow; exact Hi].
      * rewrite fle_intro_none; [reflexivity|].
        intros j Hj. rewrite Hlanes by exact Hj. destruct (j =? l); [lia|].
        apply (fle_none _ _ F). exact Hj.
Qed.

Lemma sig_range h : 0 <= sig_of h < 65536.
Proof. unfold sig_of. apply Z.mod_pos_bound. lia. Qed.

Lemma domain_fields o : op_in_domain o = true ->
  0 <= o_hash o < W64 /\ 0 <= o_gen o <= 255 /\ 0 <= o_depth o <= 63 /\ 0 <= o_ply o <= 63 /\
  0 <= o_move o <= 65535 /\ -32000 <= o_value o <= 32000 /\ 0 <= o_type o <= 2.
Proof.
  intros Hd. unfold op_in_domain in Hd. repeat (apply andb_true_iff in Hd; destruct Hd as [Hd ?]).
  change (2 ^ 64) with W64 in *. lia.
Qed.

(* ---------------------------------------------------------------------------------------- *)
(* one Insert on one bucket *)

Definition insert_bucket_op (b : bucket) (o : sop) : bucket :=
  insert_bucket b (sig_of (o_hash o)) (o_gen o) (o_depth o) (o_ply o) (o_move o) (o_value o) (o_type o).

Lemma insert_bucket_refines b o :
  bucket_ok b -> op_in_domain o = true ->
  let sg := sig_of (o_hash o) in
  let b' := insert_bucket_op b o in
  bucket_ok b' /\
  if keep_deeper (abs_bucket b sg) o then b' = b
  else abs_bucket b' sg = Some (new_rec (abs_bucket b sg) o) /\
       exists victim, forall s, s <> 0 -> s <> sg ->
         abs_bucket b' s = if opt_is victim s then None else abs_bucket b s.
Proof.
  intros Hok Hdom sg b'.
  pose proof Hok as (Hkeys & Hlen & Hent & Hdist).
  destruct (domain_fields o Hdom) as (Hh & Hg & Hd & Hp & Hm & Hv & Ht).
  pose proof (sig_range (o_hash o)) as Hsg. fold sg in Hsg.
  pose proof (scan_char (b_entries b) (b_keys b) sg (o_gen o) (o_depth o) (o_move o) (o_type o) Hlen) as Hscan.
  destruct (store_value_to_tt (o_value o) (o_ply o) Hv Hp) as [Hsv Hsvr].
  unfold b', insert_bucket_op, insert_bucket. fold sg.
  unfold abs_bucket at 1 3.
  destruct (first_lane_eq (b_keys b) sg) as [l|] eqn:F.
  - (* the signature is in the bucket, lane l *)
    destruct (fle_some _ _ _ F) as (Hl & Hls & Hllow).
    rewrite Hscan. cbv zeta. fold (E b l).
    rewrite (keep_cond_spec (E b l) o Hdom).
    destruct (keep_deeper (Some (rec_of (E b l))) o) eqn:KD.
    + split; [exact Hok | reflexivity].
    + set (e := mkEntry (if o_move o =? 0 then e_move (E b l) else o_move o) (store_value (o_value o) (o_ply o))
                        (pack (o_depth o) (o_type o)) (o_gen o)).
      assert (He : entry_ok e) by (unfold entry_ok, e; cbn [e_value]; rewrite Hsv; exact Hsvr).
      destruct (replace_lane b sg l e Hok Hl Hsg He) as (Hok' & Hbind & Hframe).
      * exact Hllow.
      * intros Hnz j Hj Hjl. intros Heq. apply (Hdist l j Hl Hj ltac:(lia)); unfold K in *; lia.
      * fold (splice (b_keys b) sg l). split; [exact Hok'|]. split.
        -- rewrite Hbind. f_equal. unfold rec_of, new_rec, e.
           destruct (pack_unpack (o_depth o) (o_type o)
                       (if o_move o =? 0 then e_move (E b l) else o_move o)
                       (store_value (o_value o) (o_ply o)) (o_gen o) Hd ltac:(lia)) as [-> ->].
           cbn [e_value e_move e_gen a_move]. rewrite Hsv. reflexivity.
        -- exists (Some (K b l)). intros s Hs Hssg. rewrite (Hframe s Hs Hssg).
           cbn [opt_is]. rewrite (Z.eqb_sym (K b l) s). reflexivity.
  - (* not in the bucket: the lane of minimal quality is overwritten *)
    destruct Hscan as (r & Hr & Hscan). rewrite Hscan.
    cbn [keep_deeper].
    set (e := mkEntry (o_move o) (store_value (o_value o) (o_ply o)) (pack (o_depth o) (o_type o)) (o_gen o)).
    assert (He : entry_ok e) by (unfold entry_ok, e; cbn [e_value]; rewrite Hsv; exact Hsvr).
    destruct (replace_lane b sg r e Hok Hr Hsg He) as (Hok' & Hbind & Hframe).
    + intros i Hi. apply (fle_none _ _ F). lia.
    + intros _ j Hj _. apply (fle_none _ _ F). exact Hj.
    + fold (splice (b_keys b) sg r). split; [exact Hok'|]. split.
      * rewrite Hbind. f_equal. unfold rec_of, new_rec, e.
        destruct (pack_unpack (o_depth o) (o_type o) (o_move o)
                    (store_value (o_value o) (o_ply o)) (o_gen o) Hd ltac:(lia)) as [-> ->].
        cbn [e_value e_move e_gen]. rewrite Hsv.
        destruct (o_move o =? 0) eqn:Em; [apply Z.eqb_eq in Em; rewrite Em|]; reflexivity.
      * exists (Some (K b r)). intros s Hs Hssg. rewrite (Hframe s Hs Hssg).
        cbn [opt_is]. rewrite (Z.eqb_sym (K b r) s). reflexivity.
Qed.

(* ---------------------------------------------------------------------------------------- *)
(* tables *)

Definition tt_insert_op (t : table) (o : sop) : table :=
  insert t (o_hash o) (o_gen o) (o_depth o) (o_ply o) (o_move o) (o_value o) (o_type o).

Definition size_range (t : table) : Prop := 0 < tlen t <= 2 ^ 32.

Lemma wf_nth t i : wf t -> bucket_ok (nth i t zero_bucket).
Proof.
  intros Hwf. destruct (Nat.lt_ge_cases i (length t)) as [Hlt|Hge].
  - unfold wf in Hwf. rewrite Forall_forall in Hwf. apply Hwf. apply nth_In. exact Hlt.
  - rewrite nth_overflow by exact Hge. apply zero_bucket_ok.
Qed.

Lemma wf_set_nth t i b : wf t -> bucket_ok b -> wf (set_nth i b t).
Proof.
  unfold wf. intros Hwf Hb. revert i. induction Hwf as [|a t Ha Ht IH]; intros [|i]; cbn; constructor; auto.
Qed.

Theorem insert_refines t o :
  wf t -> size_range t -> op_in_domain o = true ->
  let t' := tt_insert_op t o in
  wf t' /\ tlen t' = tlen t /\ store_spec (tlen t) (abs t) o (abs t').
Proof.
  intros Hwf Hsz Hdom t'.
  destruct (domain_fields o Hdom) as (Hh & _).
  destruct (bucket_ix_of (tlen t) (o_hash o) Hsz Hh) as [Hix Hixr].
  destruct (partial_key_sig (o_hash o) Hh) as [Hpk _].
  set (ix := bucket_of (tlen t) (o_hash o)) in *.
  set (b := nth (Z.to_nat ix) t zero_bucket).
  assert (Ht' : t' = set_nth (Z.to_nat ix) (insert_bucket_op b o) t).
  { unfold t', tt_insert_op, insert. fold (tlen t). rewrite Hix, Hpk. reflexivity. }
  pose proof (insert_bucket_refines b o (wf_nth t _ Hwf) Hdom) as [Hok' Hstep]. cbv zeta in Hstep.
  assert (Hlen' : tlen t' = tlen t) by (unfold tlen; rewrite Ht', set_nth_length; reflexivity).
  split; [rewrite Ht'; apply wf_set_nth; assumption|]. split; [exact Hlen'|].
  assert (Habs_ix : forall s, abs t ix s = abs_bucket b s).
  { intros s. unfold abs. rewrite (proj2 (Z.leb_le 0 ix)) by lia. rewrite (proj2 (Z.ltb_lt ix (tlen t))) by lia. reflexivity. }
  assert (Habs'_ix : forall s, abs t' ix s = abs_bucket (insert_bucket_op b o) s).
  { intros s. unfold abs. rewrite Hlen'. rewrite (proj2 (Z.leb_le 0 ix)) by lia. rewrite (proj2 (Z.ltb_lt ix (tlen t))) by lia.
    cbn [andb]. rewrite Ht'. rewrite nth_set_nth by (unfold tlen in *; lia). rewrite Nat.eqb_refl. reflexivity. }
  assert (Habs_other : forall i s, i <> ix -> abs t' i s = abs t i s).
  { intros i s Hi. unfold abs. rewrite Hlen'.
    destruct ((0 <=? i) && (i <? tlen t)) eqn:Er; [|reflexivity].
    apply andb_true_iff in Er. destruct Er as [Er1 Er2]. apply Z.leb_le in Er1. apply Z.ltb_lt in Er2.
    rewrite Ht'. rewrite nth_set_nth_other by lia. reflexivity. }
  unfold store_spec. fold ix. cbv zeta. rewrite Habs_ix.
  destruct (keep_deeper (abs_bucket b (sig_of (o_hash o))) o).
  - intros i s. rewrite Ht', Hstep. unfold b. rewrite set_nth_same by (unfold tlen in *; lia). reflexivity.
  - destruct Hstep as [Hbind [victim Hframe]]. split; [rewrite Habs'_ix; exact Hbind|].
    exists victim. intros i s Hs Hkey.
    destruct (i =? ix) eqn:Eix.
    + apply Z.eqb_eq in Eix. subst i. cbn [andb]. rewrite Habs'_ix, Habs_ix. apply Hframe; [exact Hs | tauto].
    + apply Z.eqb_neq in Eix. cbn [andb]. apply Habs_other. exact Eix.
Qed.

(* probing: LookUp + the accessors show exactly the abstract record of (bucket, signature) *)
Theorem probe_refines t h ply :
  wf t -> size_range t -> 0 <= h < 2 ^ 64 -> 0 <= ply <= 63 ->
  probe_obs t h ply =
  match abs t (bucket_of (tlen t) h) (sig_of h) with
  | Some r => 1 :: shown r ply
  | None => [0; 0; 0; 0; 0]
  end.
Proof.
  intros Hwf Hsz Hh Hp. change (2 ^ 64) with W64 in Hh.
  destruct (bucket_ix_of (tlen t) h Hsz Hh) as [Hix Hixr].
  destruct (partial_key_sig h Hh) as [Hpk Hsr].
  unfold probe_obs, lookup, tt_bucket. fold (tlen t). rewrite Hix, Hpk.
  set (ix := bucket_of (tlen t) h) in *.
  set (b := nth (Z.to_nat ix) t zero_bucket).
  pose proof (wf_nth t (Z.to_nat ix) Hwf) as Hok. fold b in Hok. destruct Hok as (Hkeys & Hlen & Hent & _).
  rewrite match64_correct by (change (2 ^ 64) with W64; change (2 ^ 16) with 65536; assumption).
  unfold abs. rewrite (proj2 (Z.leb_le 0 ix)) by lia. rewrite (proj2 (Z.ltb_lt ix (tlen t))) by lia.
  cbn [andb]. fold b. unfold abs_bucket.
  destruct (first_lane_eq (b_keys b) (sig_of h)) as [l|] eqn:F; [|reflexivity].
  destruct (fle_some _ _ _ F) as (Hl & _ & _).
  fold (E b l). unfold shown, rec_of. cbn [a_depth a_type a_score a_move].
  rewrite (entry_value_from_tt (E b l) ply (Hent l Hl) Hp). reflexivity.
Qed.

(* clear and resize *)
Lemma nth_clear t k : nth k (tt_clear t) zero_bucket = zero_bucket.
Proof. revert k. induction t as [|a t IH]; intros [|k]; cbn; auto. Qed.

Lemma clear_refines t : wf (tt_clear t) /\ tlen (tt_clear t) = tlen t /\ cleared (abs (tt_clear t)).
Proof.
  split; [|split].
  - unfold wf, tt_clear. apply Forall_forall. intros b Hb. apply in_map_iff in Hb. destruct Hb as (_ & <- & _). apply zero_bucket_ok.
  - unfold tlen, tt_clear. rewrite map_length. reflexivity.
  - intros i s Hs. unfold abs.
    destruct ((0 <=? i) && (i <? tlen (tt_clear t))) eqn:Er; [|reflexivity].
    apply andb_true_iff in Er. destruct Er as [Er1 Er2]. apply Z.leb_le in Er1. apply Z.ltb_lt in Er2.
    rewrite nth_clear. apply abs_zero_bucket. exact Hs.
Qed.

Lemma In_firstn {A} (x : A) n l : In x (firstn n l) -> In x l.
Proof. revert l. induction n as [|n IH]; intros [|a l] H; cbn in *; try tauto. destruct H; [left; assumption | right; apply IH; assumption]. Qed.

Lemma resize_ok t size : wf t -> size_ok size = true ->
  exists t', tt_resize t size = Some t' /\ wf t' /\ tlen t' = size / bucketSize.
Proof.
  intros Hwf Hs. unfold size_ok in Hs. apply andb_true_iff in Hs. destruct Hs as [Hs1 Hs2].
  apply Z.leb_le in Hs1. apply Z.eqb_eq in Hs2. change bucketSize with 32 in *.
  unfold tt_resize, valid_size. change bucketSize with 32.
  assert (Hrem : Z.rem size 32 = 0) by (rewrite Z.rem_mod_nonneg by lia; exact Hs2).
  rewrite (proj2 (Z.ltb_ge size 32)) by lia. rewrite Hrem. cbn [Z.eqb negb orb].
  assert (Hq : Z.quot size 32 = size / 32) by (apply Z.quot_div_nonneg; lia).
  rewrite Hq.
  destruct (size / 32 <=? Z.of_nat (length t)) eqn:Ele.
  - apply Z.leb_le in Ele. eexists. split; [reflexivity|]. split.
    + unfold wf in *. rewrite Forall_forall in *. intros b Hb. apply Hwf. eapply In_firstn. exact Hb.
    + unfold tlen. rewrite firstn_length. lia.
  - eexists. split; [reflexivity|]. split.
    + unfold wf. apply Forall_forall. intros b Hb. apply repeat_spec in Hb. subst. apply zero_bucket_ok.
    + unfold tlen. rewrite repeat_length. apply Z.leb_gt in Ele. lia.
Qed.

(* ---------------------------------------------------------------------------------------- *)
(* runs *)

Definition tt_step (t : table) (op : aop) : option table :=
  match op with
  | AStore o => Some (tt_insert_op t o)
  | AClear => Some (tt_clear t)
  | AResizeClear size => option_map tt_clear (tt_resize t size)
  end.

Fixpoint tt_run (t : table) (ops : list aop) : option table :=
  match ops with
  | [] => Some t
  | op :: ops' => match tt_step t op with Some t' => tt_run t' ops' | None => None end
  end.

Definition st (t : table) : astate := (tlen t, abs t).

Lemma step_refines t op : wf t -> size_range t -> aop_ok op = true ->
  exists t', tt_step t op = Some t' /\ wf t' /\ size_range t' /\ astep (st t) op (st t').
Proof.
  intros Hwf Hsz Hop. destruct op as [o| |size]; cbn [tt_step aop_ok] in *.
  - destruct (insert_refines t o Hwf Hsz Hop) as (Hwf' & Hlen' & Hspec). cbv zeta in *.
    eexists. split; [reflexivity|]. split; [exact Hwf'|]. split; [unfold size_range; rewrite Hlen'; exact Hsz|].
    unfold st. rewrite Hlen'. constructor. exact Hspec.
  - destruct (clear_refines t) as (Hwf' & Hlen' & Hcl).
    eexists. split; [reflexivity|]. split; [exact Hwf'|]. split; [unfold size_range; rewrite Hlen'; exact Hsz|].
    unfold st. rewrite Hlen'. constructor. exact Hcl.
  - apply andb_true_iff in Hop. destruct Hop as [Hs Hbig]. apply Z.leb_le in Hbig.
    destruct (resize_ok t size Hwf Hs) as (t1 & Hr & Hwf1 & Hlen1).
    destruct (clear_refines t1) as (Hwf' & Hlen' & Hcl).
    exists (tt_clear t1). rewrite Hr. split; [reflexivity|]. split; [exact Hwf'|].
    assert (Hsz' : size_range (tt_clear t1)).
    { unfold size_range. rewrite Hlen', Hlen1. unfold size_ok in Hs. apply andb_true_iff in Hs. destruct Hs as [Hs1 Hs2].
      apply Z.leb_le in Hs1. change bucketSize with 32 in *. change (2 ^ 36) with 68719476736 in Hbig.
      change (2 ^ 32) with 4294967296.
      split; [apply Z.div_str_pos; lia | apply Z.div_le_upper_bound; lia]. }
    split; [exact Hsz'|].
    unfold st. rewrite Hlen', Hlen1. constructor. exact Hcl.
Qed.

Theorem run_refines : forall ops t, wf t -> size_range t -> forallb aop_ok ops = true ->
  exists t', tt_run t ops = Some t' /\ wf t' /\ size_range t' /\ arun (st t) ops (st t').
Proof.
  induction ops as [|op ops IH]; intros t Hwf Hsz Hops.
  - exists t. repeat split; try assumption; try apply Hsz. constructor.
  - cbn [forallb] in Hops. apply andb_true_iff in Hops. destruct Hops as [Hop Hops].
    destruct (step_refines t op Hwf Hsz Hop) as (t1 & Hs & Hwf1 & Hsz1 & Hstep).
    destruct (IH t1 Hwf1 Hsz1 Hops) as (t' & Hr & Hwf' & Hsz' & Hrun).
    exists t'. cbn [tt_run]. rewrite Hs. split; [exact Hr|]. split; [exact Hwf'|]. split; [exact Hsz'|].
    econstructor; eassumption.
Qed.

(* a new table of a supported size: well formed and empty *)
Lemma new_refines size : size_ok size = true -> size <= 2 ^ 36 ->
  exists t, tt_new size = Some t /\ wf t /\ size_range t /\ tlen t = size / bucketSize /\ cleared (abs t).
Proof.
  intros Hs Hbig. unfold tt_new.
  destruct (resize_ok [] size ltac:(constructor) Hs) as (t & Hr & Hwf & Hlen).
  exists t. split; [exact Hr|]. split; [exact Hwf|].
  assert (Hsz : size_range t).
  { unfold size_range. rewrite Hlen. unfold size_ok in Hs. apply andb_true_iff in Hs. destruct Hs as [Hs1 Hs2].
    apply Z.leb_le in Hs1. change bucketSize with 32 in *. change (2 ^ 36) with 68719476736 in Hbig.
    change (2 ^ 32) with 4294967296.
    split; [apply Z.div_str_pos; lia | apply Z.div_le_upper_bound; lia]. }
  split; [exact Hsz|]. split; [exact Hlen|].
  (* the fresh allocation is all zero buckets *)
  unfold tt_resize in Hr. destruct (valid_size size); [|discriminate].
  cbn [length] in Hr.
  destruct (Z.quot size bucketSize <=? Z.of_nat 0) eqn:Ele.
  - injection Hr as <-. intros i s Hs'. unfold abs, tlen. rewrite firstn_nil. cbn [length].
    destruct (0 <=? i) eqn:E1; [|reflexivity]. apply Z.leb_le in E1.
    rewrite (proj2 (Z.ltb_ge i (Z.of_nat 0))) by lia. reflexivity.
  - injection Hr as <-. intros i s Hs'. unfold abs.
    destruct ((0 <=? i) && (i <? tlen (repeat zero_bucket (Z.to_nat (Z.quot size bucketSize))))); [|reflexivity].
    assert (Hn : forall n k, nth k (repeat zero_bucket n) zero_bucket = zero_bucket).
    { induction n as [|n IHn]; intros [|k]; cbn; auto. }
    rewrite Hn. apply abs_zero_bucket. exact Hs'.
Qed.
