package main

import (
	"go/ast"
	"go/parser"
	"go/token"
	"strconv"
	"strings"

	"github.com/paulsonkoly/chess-3/uci"
)

// hardLimitFactor reads k from `Clamp(k*tc.softLimit(stm), ...)` in timeControl.hardLimit (uci/uci.go): an integer
// literal or the name of an integer constant declared in that file. 0 when the statement no longer has that shape
// (the model then disagrees with the implementation on every timed case and the C14 stream reports it).
func hardLimitFactor() int64 {
	fset := token.NewFileSet()
	f, err := parser.ParseFile(fset, "uci/uci.go", nil, 0)
	if err != nil {
		return 0
	}
	consts := map[string]string{}
	for _, d := range f.Decls {
		gd, ok := d.(*ast.GenDecl)
		if !ok || gd.Tok != token.CONST {
			continue
		}
		for _, sp := range gd.Specs {
			vs := sp.(*ast.ValueSpec)
			for i, n := range vs.Names {
				if i < len(vs.Values) {
					if bl, ok := vs.Values[i].(*ast.BasicLit); ok && bl.Kind == token.INT {
						consts[n.Name] = bl.Value
					}
				}
			}
		}
	}
	var k int64
	for _, d := range f.Decls {
		fd, ok := d.(*ast.FuncDecl)
		if !ok || fd.Name.Name != "hardLimit" || fd.Body == nil {
			continue
		}
		ast.Inspect(fd.Body, func(n ast.Node) bool {
			call, ok := n.(*ast.CallExpr)
			if !ok || len(call.Args) != 3 {
				return true
			}
			if id, ok := call.Fun.(*ast.Ident); !ok || id.Name != "Clamp" {
				return true
			}
			be, ok := call.Args[0].(*ast.BinaryExpr)
			if !ok || be.Op != token.MUL {
				return true
			}
			lit := ""
			switch x := be.X.(type) {
			case *ast.BasicLit:
				lit = x.Value
			case *ast.Ident:
				lit = consts[x.Name]
			}
			inner, ok := be.Y.(*ast.CallExpr)
			if !ok {
				return true
			}
			sel, ok := inner.Fun.(*ast.SelectorExpr)
			if !ok || sel.Sel.Name != "softLimit" {
				return true
			}
			if v, err := strconv.ParseInt(strings.ReplaceAll(lit, "_", ""), 0, 64); err == nil {
				k = v
			}
			return true
		})
	}
	return k
}

func init() {
	generators = append(generators, func() {
		f := newFile("TimeConsts.v", "From Coq Require Import ZArith.\nOpen Scope Z_scope.")
		f.p("Definition TimeSafetyMargin : Z := %d.\n", int64(uci.TimeSafetyMargin))
		f.p("Definition PredictedMoves : Z := %d.\n", int64(uci.PredictedMoves))
		f.p("Definition TimeInf : Z := %d.\n", int64(uci.TimeInf))
		f.p("(* the factor k of Clamp(k*softLimit, margin, left-margin) in timeControl.hardLimit, read from the source text *)\n")
		f.p("Definition HardLimitFactor : Z := %d.\n", hardLimitFactor())
	})
}
