(* C12, sliders: the general (unbounded) part of the argument.
   - walk_ext / walk_mask: a ray walk depends only on the occupancy of all but the last square of the
     ray, hence only on occ & mask when the mask covers those squares  (for ALL occupancies);
   - sweep_sq_sound: what a successful per-square sweep means for an arbitrary occupancy, using
     pdep (pext occ mask) mask = occ & mask, pext occ mask < 2^popcount mask. *)
From Coq Require Import NArith ZArith List Bool Lia.
From Chess3 Require Import Base.Bits Base.BitsLemmas Model.Types Spec.Geometry Gen.AttackTables Model.Attacks
  Proofs.AttacksSweepDefs.
Import ListNotations.
Open Scope N_scope.

Lemma walk_ext l : forall occ occ',
  (forall s, In s (removelast l) -> N.testbit occ s = N.testbit occ' s) -> walk l occ = walk l occ'.
Proof.
  induction l as [|s r IH]; intros occ occ' H; [reflexivity|].
  cbn [walk]. destruct r as [|s2 r'].
  - cbn [walk]. destruct (N.testbit occ s), (N.testbit occ' s); reflexivity.
  - assert (Hs : N.testbit occ s = N.testbit occ' s) by (apply H; cbn; auto).
    rewrite Hs. destruct (N.testbit occ' s); [reflexivity|].
    f_equal. apply IH. intros t Ht. apply H. cbn [removelast]. right. exact Ht.
Qed.

Lemma walk_mask l mask occ :
  forallb (fun s => N.testbit mask s) (removelast l) = true -> walk l (N.land occ mask) = walk l occ.
Proof.
  intros H. apply walk_ext. intros s Hs. rewrite N.land_spec.
  rewrite forallb_forall in H. rewrite (H s Hs). apply andb_true_r.
Qed.

Lemma slide_mask dirs sq mask occ :
  forallb (fun d => forallb (fun s => N.testbit mask s) (removelast (ray sq d))) dirs = true ->
  slide dirs sq (N.land occ mask) = slide dirs sq occ.
Proof.
  unfold slide. induction dirs as [|d ds IH]; intros H; [reflexivity|].
  cbn [forallb] in H. apply andb_true_iff in H. destruct H as [Hd Hds].
  cbn [fold_right]. rewrite (walk_mask _ _ _ Hd), (IH Hds). reflexivity.
Qed.

Lemma subsets_count_pow mask : subsets_count mask = 2 ^ popcount mask.
Proof. unfold subsets_count. apply N.shiftl_1_l. Qed.

(* a successful sweep of one square, read for an arbitrary occupancy *)
Lemma sweep_sq_sound calc masks magics shifts size geom sq :
  slider_sweep_sq calc masks magics shifts size geom sq = true ->
  snd (fill calc masks magics shifts sq) = true /\
  forall occ,
    let ix := magic_index occ (nthN masks sq 0) (nthN magics sq 0) (nthN shifts sq 0) in
    ix < size /\
    tbl_get (fst (fill calc masks magics shifts sq)) ix = geom sq (N.land occ (nthN masks sq 0)).
Proof.
  unfold slider_sweep_sq.
  destruct (fill calc masks magics shifts sq) as [row fin]. cbn [fst snd].
  intros H. apply andb_true_iff in H. destruct H as [Hfin Hall]. split; [exact Hfin|].
  intros occ. cbv zeta.
  pose proof (forall_below_spec _ _ Hall (pext occ (nthN masks sq 0))) as Hi.
  cbv beta zeta in Hi. rewrite pdep_pext in Hi.
  assert (Hlt : pext occ (nthN masks sq 0) < subsets_count (nthN masks sq 0))
    by (rewrite subsets_count_pow; apply pext_lt).
  specialize (Hi Hlt). apply andb_true_iff in Hi. destruct Hi as [H1 H2].
  apply N.ltb_lt in H1. apply N.eqb_eq in H2.
  unfold magic_index, band. split; assumption.
Qed.

(* membership in a list of squares, from a computed check *)
Lemma covered_squares (l : list N) :
  forall_below 64 (fun s => existsb (N.eqb s) l) = true -> forall sq, sq < 64 -> In sq l.
Proof.
  intros H sq Hsq. pose proof (forall_below_spec _ _ H sq Hsq) as E. cbv beta in E.
  apply existsb_exists in E. destruct E as [x [Hx Heq]]. apply N.eqb_eq in Heq. subst x. exact Hx.
Qed.

Section Slider.
  Variables (calc : N -> N -> N) (masks magics shifts : list N) (size : N) (dirs : list (Z * Z)).
  Variable squares : list N.
  Hypothesis Hsweep : forallb (slider_sweep_sq calc masks magics shifts size (slide dirs)) squares = true.
  Hypothesis Hcover : forall_below 64 (fun s => existsb (N.eqb s) squares) = true.
  Hypothesis Hmask : forall_below 64 (mask_covers dirs masks) = true.

  Lemma slider_correct sq occ : sq < 64 ->
    let ix := magic_index occ (nthN masks sq 0) (nthN magics sq 0) (nthN shifts sq 0) in
    ix < size /\ tbl_get (fst (fill calc masks magics shifts sq)) ix = slide dirs sq occ.
  Proof.
    intros Hsq ix.
    pose proof (covered_squares _ Hcover sq Hsq) as Hin.
    rewrite forallb_forall in Hsweep. pose proof (sweep_sq_sound _ _ _ _ _ _ _ (Hsweep sq Hin)) as [_ S].
    destruct (S occ) as [S1 S2]. split; [exact S1|].
    unfold ix. rewrite S2. apply slide_mask.
    exact (forall_below_spec _ _ Hmask sq Hsq).
  Qed.

  Lemma slider_init_terminates sq : sq < 64 -> snd (fill calc masks magics shifts sq) = true.
  Proof.
    intros Hsq. pose proof (covered_squares _ Hcover sq Hsq) as Hin.
    rewrite forallb_forall in Hsweep. exact (proj1 (sweep_sq_sound _ _ _ _ _ _ _ (Hsweep sq Hin))).
  Qed.
End Slider.
