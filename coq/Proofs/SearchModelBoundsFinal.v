(* C06, second clause on the closed search model: Search.Go returns the null move only on a final root.
   Proofs/SearchModelBoundsGo.v (values of the iterations of depth 0 and 1, aspiration without wrap) and
   Proofs/SearchModelBoundsPicker.v (the picker hands out every generated move) put together. *)
From Coq Require Import NArith ZArith List Bool Lia.
From Chess3 Require Import Base.Bits Base.Word Model.Types Model.BoardDef Model.Board Model.Search
  Spec.Chess Spec.Rep Proofs.SearchModelLegalBase Proofs.SearchModelLegalId Proofs.SearchModelLegalNull
  Proofs.SearchModelBoundsVal Proofs.SearchModelBoundsRoot Proofs.SearchModelBoundsRk Proofs.SearchModelBoundsGo
  Proofs.SearchModelBoundsPicker Proofs.HistProofs.
From Chess3 Require Model.Movegen Model.TT Model.Hist Model.Pv Proofs.PvProofs.
Import ListNotations.
Open Scope Z_scope.

Theorem go_null_only_final fuel o st b r st' b' : good b -> state_ok st -> tt_values_ok (s_tt st) -> reachable (s_rk st) ->
  1 <= o_depth o -> go fuel o st b = Ok (r, st', b') -> s_aborted st' = false -> r_move r = 0 ->
  Movegen.playable zob b = [] \/ 100 <= fifty b \/ 3 <= threefold b.
Proof.
  intros Hg Hs Ht Hrk Hd H Hna Hr.
  apply (go_null_final fuel o st b r st' b' Hg Hs Ht Hrk); try assumption.
  intros rk Hr0. apply picker_complete_reachable; assumption.
Qed.

(* the hypotheses on the engine state: true of search.New and after Search.Clear *)
Lemma new_state_vals size st : new_state size = Ok st -> tt_values_ok (s_tt st) /\ reachable (s_rk st).
Proof.
  intros H. split; [|eapply new_state_rk; exact H]. unfold new_state in H.
  destruct (TT.tt_new size) as [t|] eqn:E; cbn [of_opt bind] in H; [|discriminate H]. injection H as <-.
  cbn [s_tt]. eapply tt_values_new. exact E.
Qed.

Lemma clear_state_vals st : tt_values_ok (s_tt (clear_state st)) /\ reachable (s_rk (clear_state st)).
Proof. split; [apply tt_values_clear|apply clear_state_rk]. Qed.

(* for the statements of Properties/C06_bounds.v *)
Lemma vmax_range ply : 0 <= ply -> SearchParams.Inf - SearchParams.MaxPlies <= vmax ply <= SearchParams.Inf.
Proof. intros H. unfold vmax, SearchParams.Inf, SearchParams.MaxPlies, TTConsts.MateHi. lia. Qed.

Lemma quiescence_val_entry o fuel st b al be ply v st' b' :
  Rep b -> valid (abs b) = true -> 0 <= ply <= 63 -> tt_values_ok (s_tt st) ->
  quiescence fuel o st b al be ply = Ok (v, st', b') ->
  tt_values_ok (s_tt st') /\ (s_aborted st' = false -> - vmax ply <= v <= vmax ply /\ neg16 v = - v).
Proof.
  intros HR HV Hp Ht H.
  destruct (quiescence_val o fuel st b al be ply v st' b' (conj HR HV) (SearchModelBoundsQ.ply_ok_entry b ply HV Hp) Ht H) as [H1 H2].
  split; [exact H1|]. intros Ha. specialize (H2 Ha). split; [exact H2|].
  pose proof (vmax_range ply (proj1 Hp)) as [_ Hm]. unfold val_ok in H2. unfold neg16. apply wrap16_id.
  unfold SearchParams.Inf in Hm. lia.
Qed.
