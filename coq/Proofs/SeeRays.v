(* Geometry lemmas used by the C18 refinement proof: ray walking is monotone in the occupancy and
   depends only on the squares of the ray; slider attacks are symmetric (a attacks s iff s attacks a)
   for every occupancy; leaper and pawn attacks are symmetric; a square a pawn / knight / bishop /
   rook attacks the target from lies on (respectively: on a diagonal, on no line, on a diagonal, on a
   rank or file) of the target.  The finite parts (64 squares x 8 directions) are decided by
   vm_compute of a forallb; everything about occupancies is proved for all occupancies. *)
From Coq Require Import NArith ZArith List Bool Lia.
From Chess3 Require Import Base.Bits Model.Types Spec.Geometry Model.Att Model.BoardDef.
Import ListNotations.
Open Scope N_scope.

(* ------------------------------------------------------------------------------------------ *)
(* walking a ray *)

Lemma walk_in l occ s : N.testbit (walk l occ) s = true -> In s l.
Proof.
  induction l as [|h r IH]; cbn [walk].
  - rewrite N.bits_0. discriminate.
  - rewrite N.lor_spec, bit_testbit. intros H. apply orb_true_iff in H. destruct H as [H|H].
    + left. apply N.eqb_eq in H. exact H.
    + right. destruct (N.testbit occ h); [rewrite N.bits_0 in H; discriminate|]. apply IH. exact H.
Qed.

Lemma walk_ext l occ occ' :
  (forall h, In h l -> N.testbit occ h = N.testbit occ' h) -> walk l occ = walk l occ'.
Proof.
  induction l as [|h r IH]; intros H; [reflexivity|]. cbn [walk].
  rewrite (H h (or_introl eq_refl)). rewrite IH; [reflexivity|].
  intros k Hk. apply H. right. exact Hk.
Qed.

Lemma walk_clrb_mono l occ x s :
  N.testbit (walk l occ) s = true -> N.testbit (walk l (clrb occ x)) s = true.
Proof.
  induction l as [|h r IH]; cbn [walk]; [intros H; exact H|].
  rewrite !N.lor_spec, bit_testbit. intros H. apply orb_true_iff in H. apply orb_true_iff.
  destruct H as [H|H]; [left; exact H|right].
  destruct (N.testbit occ h) eqn:E; [rewrite N.bits_0 in H; discriminate|].
  rewrite clrb_testbit, E. cbn. apply IH. exact H.
Qed.

Lemma walk_char l occ s :
  N.testbit (walk l occ) s = true <->
  exists l1 l2, l = l1 ++ s :: l2 /\ forall h, In h l1 -> N.testbit occ h = false.
Proof.
  induction l as [|h r IH]; cbn [walk].
  - rewrite N.bits_0. split; [discriminate|]. intros [l1 [l2 [E _]]]. destruct l1; discriminate.
  - rewrite N.lor_spec, bit_testbit. split.
    + intros H. apply orb_true_iff in H. destruct H as [H|H].
      * apply N.eqb_eq in H. subst h. exists [], r. split; [reflexivity|intros k []].
      * destruct (N.testbit occ h) eqn:E; [rewrite N.bits_0 in H; discriminate|].
        apply IH in H. destruct H as [l1 [l2 [-> Hl]]]. exists (h :: l1), l2. split; [reflexivity|].
        intros k [<-|Hk]; [exact E|apply Hl; exact Hk].
    + intros [l1 [l2 [E Hl]]]. apply orb_true_iff. destruct l1 as [|h' l1]; cbn in E; inversion E; subst.
      * left. apply N.eqb_refl.
      * right. rewrite (Hl h' (or_introl eq_refl)). apply IH. exists l1, l2. split; [reflexivity|].
        intros k Hk. apply Hl. right. exact Hk.
Qed.

Lemma slide_testbit dirs sq occ s :
  N.testbit (slide dirs sq occ) s = existsb (fun d => N.testbit (walk (ray sq d) occ) s) dirs.
Proof.
  unfold slide. induction dirs as [|d r IH]; cbn [fold_right existsb].
  - apply N.bits_0.
  - rewrite N.lor_spec, IH. reflexivity.
Qed.

Definition ray_squares (dirs : list (Z * Z)) (sq : N) : list N := flat_map (ray sq) dirs.

Lemma slide_in_rays dirs sq occ s : N.testbit (slide dirs sq occ) s = true -> In s (ray_squares dirs sq).
Proof.
  rewrite slide_testbit. intros H. apply existsb_exists in H. destruct H as [d [Hd H]].
  unfold ray_squares. apply in_flat_map. exists d. split; [exact Hd|]. eapply walk_in. exact H.
Qed.

(* removing a square that is on none of the rays does not change the attack set *)
Lemma slide_clrb_off dirs sq occ x :
  ~ In x (ray_squares dirs sq) -> slide dirs sq (clrb occ x) = slide dirs sq occ.
Proof.
  intros Hx. apply N.bits_inj. intros i. rewrite !slide_testbit.
  assert (H : forall d, In d dirs -> walk (ray sq d) (clrb occ x) = walk (ray sq d) occ).
  { intros d Hd. apply walk_ext. intros h Hh. rewrite clrb_testbit.
    destruct (N.eqb_spec x h) as [->|Hn]; [|apply andb_true_r].
    exfalso. apply Hx. unfold ray_squares. apply in_flat_map. exists d. split; assumption. }
  clear Hx. induction dirs as [|d r IH]; [reflexivity|]. cbn [existsb].
  rewrite (H d (or_introl eq_refl)). rewrite IH; [reflexivity|]. intros d' Hd'. apply H. right. exact Hd'.
Qed.

Lemma slide_clrb_mono dirs sq occ x s :
  N.testbit (slide dirs sq occ) s = true -> N.testbit (slide dirs sq (clrb occ x)) s = true.
Proof.
  rewrite !slide_testbit. intros H. apply existsb_exists in H. destruct H as [d [Hd H]].
  apply existsb_exists. exists d. split; [exact Hd|]. apply walk_clrb_mono. exact H.
Qed.

(* ------------------------------------------------------------------------------------------ *)
(* finite facts *)

Lemma in_squares64 a : a < 64 -> In a squares64.
Proof.
  intros H. unfold squares64. apply in_map_iff. exists (N.to_nat a). split; [lia|].
  apply in_seq. lia.
Qed.

Definition memN (x : N) (l : list N) : bool := existsb (N.eqb x) l.
Lemma memN_In x l : memN x l = true <-> In x l.
Proof.
  unfold memN. rewrite existsb_exists. split.
  - intros [y [Hy E]]. apply N.eqb_eq in E. subst. exact Hy.
  - intros H. exists x. split; [exact H|apply N.eqb_refl].
Qed.

Fixpoint leqb (l1 l2 : list N) : bool :=
  match l1, l2 with
  | [], [] => true
  | a :: r1, b :: r2 => (a =? b) && leqb r1 r2
  | _, _ => false
  end.
Lemma leqb_eq l1 : forall l2, leqb l1 l2 = true -> l1 = l2.
Proof.
  induction l1 as [|a r IH]; intros [|b r2] H; cbn in H; try discriminate; [reflexivity|].
  apply andb_true_iff in H. destruct H as [H1 H2]. apply N.eqb_eq in H1. subst. f_equal. apply IH. exact H2.
Qed.

Definition dirs8 : list (Z * Z) := rook_dirs ++ bishop_dirs.
Definition negd (d : Z * Z) : Z * Z := (- fst d, - snd d)%Z.

(* diagonal squares and rank/file squares of a square are different squares *)
Definition rays_disjoint_check : bool :=
  forallb (fun t => forallb (fun x => negb (memN x (ray_squares rook_dirs t))) (ray_squares bishop_dirs t)) squares64.
Lemma rays_disjoint_ok : rays_disjoint_check = true.
Proof. vm_compute. reflexivity. Qed.

Lemma rays_disjoint t x : t < 64 ->
  In x (ray_squares bishop_dirs t) -> In x (ray_squares rook_dirs t) -> False.
Proof.
  intros Ht Hb Hr. pose proof rays_disjoint_ok as C. unfold rays_disjoint_check in C.
  rewrite forallb_forall in C. specialize (C t (in_squares64 t Ht)).
  rewrite forallb_forall in C. specialize (C x Hb).
  apply memN_In in Hr. rewrite Hr in C. discriminate.
Qed.

(* a knight's move away is on no line through the square *)
Definition knight_off_check : bool :=
  forallb (fun t => forallb (fun x => negb (memN x (ray_squares rook_dirs t)) && negb (memN x (ray_squares bishop_dirs t)))
                            (bits_of (knight_attacks t))) squares64.
Lemma knight_off_ok : knight_off_check = true.
Proof. vm_compute. reflexivity. Qed.

Lemma knight_off t x : t < 64 -> N.testbit (knight_attacks t) x = true ->
  ~ In x (ray_squares rook_dirs t) /\ ~ In x (ray_squares bishop_dirs t).
Proof.
  intros Ht Hx. pose proof knight_off_ok as C. unfold knight_off_check in C.
  rewrite forallb_forall in C. specialize (C t (in_squares64 t Ht)).
  rewrite forallb_forall in C. specialize (C x (proj2 (bits_of_spec _ _) Hx)).
  apply andb_true_iff in C. destruct C as [C1 C2].
  split; intros H; apply memN_In in H; rewrite H in *; discriminate.
Qed.

(* the squares a pawn captures onto the target from are diagonal neighbours *)
Definition pawn_diag_check : bool :=
  forallb (fun t => forallb (fun c => forallb (fun x => memN x (ray_squares bishop_dirs t))
                                              (bits_of (pawn_capture_moves (bit t) c))) [White; Black]) squares64.
Lemma pawn_diag_ok : pawn_diag_check = true.
Proof. vm_compute. reflexivity. Qed.

Lemma pawn_diag t c x : t < 64 -> N.testbit (pawn_capture_moves (bit t) c) x = true ->
  In x (ray_squares bishop_dirs t).
Proof.
  intros Ht Hx. pose proof pawn_diag_ok as C. unfold pawn_diag_check in C.
  rewrite forallb_forall in C. specialize (C t (in_squares64 t Ht)).
  rewrite forallb_forall in C. specialize (C c ltac:(destruct c; cbn; tauto)).
  rewrite forallb_forall in C. specialize (C x (proj2 (bits_of_spec _ _) Hx)).
  apply memN_In. exact C.
Qed.

(* symmetry of the leapers and of the pawn captures (done backwards from the target in the engine) *)
Lemma leaper_sym_ok :
  forallb (fun t => forallb (fun s =>
    Bool.eqb (N.testbit (knight_attacks t) s) (N.testbit (knight_attacks s) t) &&
    Bool.eqb (N.testbit (king_attacks t) s) (N.testbit (king_attacks s) t) &&
    Bool.eqb (N.testbit (pawn_capture_moves (bit t) Black) s) (N.testbit (pawn_attacks White s) t) &&
    Bool.eqb (N.testbit (pawn_capture_moves (bit t) White) s) (N.testbit (pawn_attacks Black s) t))
    squares64) squares64 = true.
Proof. vm_compute. reflexivity. Qed.

Lemma leaper_sym t s : t < 64 -> s < 64 ->
  N.testbit (knight_attacks t) s = N.testbit (knight_attacks s) t /\
  N.testbit (king_attacks t) s = N.testbit (king_attacks s) t /\
  N.testbit (pawn_capture_moves (bit t) Black) s = N.testbit (pawn_attacks White s) t /\
  N.testbit (pawn_capture_moves (bit t) White) s = N.testbit (pawn_attacks Black s) t.
Proof.
  intros Ht Hs. pose proof leaper_sym_ok as C.
  rewrite forallb_forall in C. specialize (C t (in_squares64 t Ht)).
  rewrite forallb_forall in C. specialize (C s (in_squares64 s Hs)).
  apply andb_true_iff in C. destruct C as [C C4].
  apply andb_true_iff in C. destruct C as [C C3].
  apply andb_true_iff in C. destruct C as [C1 C2].
  split; [apply eqb_prop; exact C1|].
  split; [apply eqb_prop; exact C2|].
  split; [apply eqb_prop; exact C3|apply eqb_prop; exact C4].
Qed.

(* walking back along a ray: if s is the k-th square of the ray leaving a in direction d, then the
   ray leaving s in direction -d starts with the squares in between, reversed, followed by a *)
Definition ray_reverse_check : bool :=
  forallb (fun a => forallb (fun d => forallb (fun k =>
    let l := ray a d in
    if (k <? length l)%nat then
      leqb (firstn (S k) (ray (nth k l 0) (negd d))) (rev (firstn k l) ++ [a])
    else true) (seq 0 7)) dirs8) squares64.
Lemma ray_reverse_ok : ray_reverse_check = true.
Proof. vm_compute. reflexivity. Qed.

Lemma ray_length a d : (length (ray a d) <= 7)%nat.
Proof.
  unfold ray. generalize (file_of a) (rank_of a). generalize 7%nat.
  induction n as [|n IH]; intros f r; cbn [ray_from]; [cbn; lia|].
  destruct (on_board _ _); cbn [length]; [|lia]. specialize (IH (f + fst d)%Z (r + snd d)%Z). lia.
Qed.

Lemma ray_reverse a d l1 s l2 : a < 64 -> In d dirs8 -> ray a d = l1 ++ s :: l2 ->
  exists rest, ray s (negd d) = rev l1 ++ a :: rest.
Proof.
  intros Ha Hd E. pose proof ray_reverse_ok as C. unfold ray_reverse_check in C.
  rewrite forallb_forall in C. specialize (C a (in_squares64 a Ha)).
  rewrite forallb_forall in C. specialize (C d Hd).
  rewrite forallb_forall in C.
  pose proof (ray_length a d) as L. rewrite E, app_length in L. cbn [length] in L.
  assert (Hk : In (length l1) (seq 0 7)) by (apply in_seq; lia).
  specialize (C (length l1) Hk). cbv zeta in C.
  assert (Hlt : (length l1 <? length (ray a d))%nat = true).
  { apply Nat.ltb_lt. rewrite E, app_length. cbn [length]. lia. }
  rewrite Hlt in C. clear Hlt.
  assert (Hnth : nth (length l1) (ray a d) 0 = s).
  { rewrite E. rewrite app_nth2 by lia. rewrite Nat.sub_diag. reflexivity. }
  assert (Hfst : firstn (length l1) (ray a d) = l1).
  { rewrite E. rewrite firstn_app, firstn_all, Nat.sub_diag, firstn_O. apply app_nil_r. }
  rewrite Hnth, Hfst in C.
  apply leqb_eq in C.
  exists (skipn (S (length l1)) (ray s (negd d))).
  pose proof (firstn_skipn (S (length l1)) (ray s (negd d))) as FS. rewrite C in FS.
  symmetry in FS. rewrite <- app_assoc in FS. exact FS.
Qed.

Lemma negd_rook d : In d rook_dirs -> In (negd d) rook_dirs.
Proof. cbn. intros [<-|[<-|[<-|[<-|[]]]]]; cbn; tauto. Qed.
Lemma negd_bishop d : In d bishop_dirs -> In (negd d) bishop_dirs.
Proof. cbn. intros [<-|[<-|[<-|[<-|[]]]]]; cbn; tauto. Qed.

(* slider attacks are symmetric, for every occupancy *)
Lemma slide_sym_imp dirs a s occ :
  (forall d, In d dirs -> In d dirs8) -> (forall d, In d dirs -> In (negd d) dirs) ->
  a < 64 -> N.testbit (slide dirs a occ) s = true -> N.testbit (slide dirs s occ) a = true.
Proof.
  intros H8 Hneg Ha. rewrite !slide_testbit. intros H.
  apply existsb_exists in H. destruct H as [d [Hd H]].
  apply walk_char in H. destruct H as [l1 [l2 [E Hl]]].
  destruct (ray_reverse a d l1 s l2 Ha (H8 d Hd) E) as [rest R].
  apply existsb_exists. exists (negd d). split; [apply Hneg; exact Hd|].
  apply walk_char. exists (rev l1), rest. split; [exact R|].
  intros h Hh. apply Hl. apply in_rev. exact Hh.
Qed.

Lemma bool_eq_of_imp (x y : bool) : (x = true -> y = true) -> (y = true -> x = true) -> x = y.
Proof. destruct x, y; intros H1 H2; try reflexivity; [symmetry; apply H1; reflexivity|apply H2; reflexivity]. Qed.

Lemma rook_sym a s occ : a < 64 -> s < 64 ->
  N.testbit (rook_attacks a occ) s = N.testbit (rook_attacks s occ) a.
Proof.
  intros Ha Hs. unfold rook_attacks.
  apply bool_eq_of_imp; apply slide_sym_imp; try assumption;
    try (intros d Hd; unfold dirs8; apply in_or_app; left; exact Hd); apply negd_rook.
Qed.

Lemma bishop_sym a s occ : a < 64 -> s < 64 ->
  N.testbit (bishop_attacks a occ) s = N.testbit (bishop_attacks s occ) a.
Proof.
  intros Ha Hs. unfold bishop_attacks.
  apply bool_eq_of_imp; apply slide_sym_imp; try assumption;
    try (intros d Hd; unfold dirs8; apply in_or_app; right; exact Hd); apply negd_bishop.
Qed.
