(* Spec-level oracles of properties C03 and C04 over what the IMPLEMENTATION was observed to do in
   the streams mkseq / mktp (formats: Model/SeqStreams.v).  They do not use the board model: they
   only compare snapshots with each other (C03) and recompute the redundant encodings from the six
   piece sets (C04).  Input: input tokens ++ observed output tokens.  Output: [1] when the
   observation satisfies the property, [0; clause; position] otherwise.

   judge_c03 clauses: 1 = the snapshot after an undo differs from the snapshot taken before the
   matching make (position = index of the first differing attribute: 0-6 piece sets, 7-8 colour
   sets, 9 side to move, 10 en-passant square, 11 castling rights, 12 halfmove clock, 13 fullmove
   number, 14 per-square map, 15 length of the hash history, 16 current hash); 2 = the same while
   the remaining operations are undone at the end; 3 = the complete final snapshot (entire hash
   history included) differs from the start; 4 = internal consistency of the observation; 9x =
   malformed observation (a panic of the implementation lands here).
   judge_c04 clauses: 1 = Hash() differs from calculateHash(); 2 = Pieces[NoPiece] not empty;
   3 = two piece sets overlap; 4 = the colour sets overlap; 5 = union of the piece sets differs from
   the union of the colour sets; 6 = the per-square map differs from the one rebuilt from the piece
   sets; position = index of the record. judge_c04tp: 7 = equal keys (placement, side to move,
   castling rights, en-passant file as hashed) with different hashes. *)
From Coq Require Import ZArith List Bool.
Import ListNotations.
Open Scope Z_scope.

Definition takeZ {A} (n : Z) (l : list A) : list A := firstn (Z.to_nat n) l.
Definition dropZ {A} (n : Z) (l : list A) : list A := skipn (Z.to_nat n) l.
Definition nthZ (l : list Z) (i : Z) : Z := nth (Z.to_nat i) l 0.

Fixpoint first_diff (a b : list Z) (i : Z) : option Z :=
  match a, b with
  | [], [] => None
  | x :: a', y :: b' => if x =? y then first_diff a' b' (i + 1) else Some i
  | _, _ => Some i
  end.

(* board-out -> (the 15 attribute tokens, hash history, rest) *)
Definition split_board_out (l : list Z) : option (list Z * list Z * list Z) :=
  let attrs := takeZ 15 l in
  match dropZ 15 l with
  | nh :: rest =>
      if (Z.of_nat (length attrs) =? 15) && (0 <=? nh) && (Z.of_nat (length rest) >=? nh)
      then Some (attrs, takeZ nh rest, dropZ nh rest) else None
  | [] => None
  end.

(* the ops of the input and the observed output *)
Definition split_io (io : list Z) : option (list Z * list Z) :=
  match dropZ 13 io with
  | nh :: rest =>
      match dropZ nh rest with
      | n :: rest2 => if (0 <=? n) && (Z.of_nat (length rest2) >=? n) then Some (takeZ n rest2, dropZ n rest2) else None
      | [] => None
      end
  | [] => None
  end.

Definition j_op_null : Z := 65536.
Definition j_op_pop : Z := 131072.

Definition summary (attrs hs : list Z) : list Z := attrs ++ [Z.of_nat (length hs); last hs 0].

(* ------------------------------------------------------------------------------------------ *)
(* C03 *)

(* walk over the operations: cur = snapshot summary now, st = summaries saved before each make *)
Fixpoint c03_ops (ops out : list Z) (cur : list Z) (st : list (list Z)) : list Z + (list Z * list (list Z) * list Z) :=
  match ops with
  | [] => inr (cur, st, out)
  | o :: ops' =>
      let rc := takeZ 17 out in
      if negb (Z.of_nat (length (takeZ 18 out)) =? 18) then inl [0; 91; 0] else
      let out' := dropZ 18 out in
      if o =? j_op_pop then
        match st with
        | saved :: st' =>
            match first_diff saved rc 0 with
            | Some i => inl [0; 1; i]
            | None => c03_ops ops' out' rc st'
            end
        | [] =>
            match first_diff cur rc 0 with
            | Some i => inl [0; 1; i]
            | None => c03_ops ops' out' rc st
            end
        end
      else c03_ops ops' out' rc (cur :: st)
  end.

Fixpoint c03_unwind (st : list (list Z)) (out : list Z) : list Z + list Z :=
  match st with
  | [] => inr out
  | saved :: st' =>
      if negb (Z.of_nat (length (takeZ 18 out)) =? 18) then inl [0; 92; 0] else
      match first_diff saved (takeZ 17 out) 0 with
      | Some i => inl [0; 2; i]
      | None => c03_unwind st' (dropZ 18 out)
      end
  end.

Definition judge_c03 (io : list Z) : list Z :=
  match split_io io with
  | None => [0; 93; 0]
  | Some (ops, out) =>
      match split_board_out out with
      | None => [0; 94; 0]
      | Some (a0, h0, out1) =>
          match c03_ops ops out1 (summary a0 h0) [] with
          | inl v => v
          | inr (cur, st, out2) =>
              match split_board_out out2 with
              | None => [0; 95; 0]
              | Some (a1, h1, out3) =>
                  match first_diff cur (summary a1 h1) 0 with
                  | Some i => [0; 4; i]
                  | None =>
                      match c03_unwind st out3 with
                      | inl v => v
                      | inr out4 =>
                          match split_board_out out4 with
                          | None => [0; 96; 0]
                          | Some (a2, h2, out5) =>
                              match out5 with
                              | _ :: _ => [0; 97; 0]
                              | [] =>
                                  match first_diff (a0 ++ [Z.of_nat (length h0)] ++ h0)
                                                   (a2 ++ [Z.of_nat (length h2)] ++ h2) 0 with
                                  | Some i => [0; 3; i]
                                  | None => [1]
                                  end
                              end
                          end
                      end
                  end
              end
          end
      end
  end.

(* ------------------------------------------------------------------------------------------ *)
(* C04 *)

Definition squaresZ : list Z := map Z.of_nat (seq 0 64).

(* piece code of square s according to the piece sets P1..P6 *)
Definition code_of_sets (ps : list Z) (s : Z) : Z :=
  fold_right (fun pp acc => (if Z.testbit (snd pp) s then fst pp else 0) + acc) 0 (combine [1; 2; 3; 4; 5; 6] ps).

Definition sq_of_sets (ps : list Z) : Z :=
  fold_right (fun s acc => code_of_sets ps s + 8 * acc) 0 squaresZ.

Fixpoint pairwise_disjoint (l : list Z) : bool :=
  match l with
  | [] => true
  | x :: r => forallb (fun y => Z.land x y =? 0) r && pairwise_disjoint r
  end.

(* one record: P0..P6 C0 C1 stm ep castles fifty full SQ len hash calc *)
Definition c04_rec (r : list Z) : Z :=
  let ps := takeZ 6 (dropZ 1 r) in
  let c0 := nthZ r 7 in
  let c1 := nthZ r 8 in
  if negb (nthZ r 16 =? nthZ r 17) then 1
  else if negb (nthZ r 0 =? 0) then 2
  else if negb (pairwise_disjoint ps) then 3
  else if negb (Z.land c0 c1 =? 0) then 4
  else if negb (fold_right Z.lor 0 ps =? Z.lor c0 c1) then 5
  else if negb (sq_of_sets ps =? nthZ r 14) then 6
  else 0.

Fixpoint c04_recs (k : nat) (out : list Z) (i : Z) : list Z + list Z :=
  match k with
  | O => inr out
  | S k' =>
      if negb (Z.of_nat (length (takeZ 18 out)) =? 18) then inl [0; 91; i] else
      let c := c04_rec (takeZ 18 out) in
      if c =? 0 then c04_recs k' (dropZ 18 out) (i + 1) else inl [0; c; i]
  end.

(* depth of the stack after the ops *)
Fixpoint stack_depth (ops : list Z) (d : nat) : nat :=
  match ops with
  | [] => d
  | o :: r => stack_depth r (if o =? j_op_pop then pred d else S d)
  end.

Definition judge_c04 (io : list Z) : list Z :=
  match split_io io with
  | None => [0; 93; 0]
  | Some (ops, out) =>
      match split_board_out out with
      | None => [0; 94; 0]
      | Some (_, _, out1) =>
          match c04_recs (length ops) out1 0 with
          | inl v => v
          | inr out2 =>
              match split_board_out out2 with
              | None => [0; 95; 0]
              | Some (_, _, out3) =>
                  match c04_recs (stack_depth ops 0) out3 (Z.of_nat (length ops)) with
                  | inl v => v
                  | inr _ => [1]
                  end
              end
          end
      end
  end.

(* transposition pairs: the last 32 tokens are the two end positions *)
Definition tp_key (r : list Z) : list Z :=
  takeZ 10 r ++ [nthZ r 11; nthZ r 14; (if nthZ r 10 =? 0 then -1 else Z.land (nthZ r 10) 7)].

Definition judge_c04tp (io : list Z) : list Z :=
  let n := length io in
  if (n <? 32)%nat then [0; 98; 0] else
  let out := skipn (n - 32) io in
  let r1 := takeZ 16 out in
  let r2 := dropZ 16 out in
  match first_diff (tp_key r1) (tp_key r2) 0 with
  | Some _ => [1]
  | None => if nthZ r1 15 =? nthZ r2 15 then [1] else [0; 7; 0]
  end.
