package streams

// Shared plumbing of the C06/C07/C08 streams (decision layer of the search): roots with histories,
// search requests, running a request on a real search.Search, parsing of info lines.
//
// Request encoding (list of integers), shared by c06, c07, c07id, c08:
//
//	ttKB warmNodes hasDepth depth nodes softNodes stopKind stopArg | nFen fen-bytes... nMoves moves...
//
// hasDepth=0: WithDepth is not passed (the engine's default, MaxPlies). nodes=-1 / softNodes=-1: not
// passed. stopKind: 0 none, 1 stop channel already closed when Go is called, 2 closed by the output
// writer right after the info line of depth stopArg was written (= stop arrives between two
// iterations), 3 closed by a watcher goroutine once Counters.Nodes >= stopArg (approximate arrival
// point; everything judged on such a run is arrival-time independent).

import (
	"bufio"
	"bytes"
	"fmt"
	"os"
	"path/filepath"
	"sort"
	"strconv"
	"strings"
	"sync/atomic"
	"time"
	"unsafe"

	"github.com/paulsonkoly/chess-3/board"
	. "github.com/paulsonkoly/chess-3/chess"
	"github.com/paulsonkoly/chess-3/move"
	"github.com/paulsonkoly/chess-3/movegen"
	"github.com/paulsonkoly/chess-3/params"
	"github.com/paulsonkoly/chess-3/search"
	"github.com/paulsonkoly/chess-3/uci"

	"verifharness/hx"
)

// sbRoot is a root position: a FEN and a history of moves played from it (so that repetitions and
// clocks beyond the FEN parser's range exist).
type sbRoot struct {
	Name  string
	Fen   string
	Moves []move.Move
}

type sbReq struct {
	TTKB      int
	Warm      int
	HasDepth  bool
	Depth     int
	Nodes     int
	SoftNodes int
	StopKind  int
	StopArg   int
	Root      sbRoot
}

const sbHeaderLen = 8

func (r sbReq) encode() *hx.Nums {
	n := &hx.Nums{}
	n.Int(r.TTKB, r.Warm).B(r.HasDepth).Int(r.Depth, r.Nodes, r.SoftNodes, r.StopKind, r.StopArg)
	n.Int(len(r.Root.Fen)).Bytes([]byte(r.Root.Fen))
	n.Int(len(r.Root.Moves))
	for _, m := range r.Root.Moves {
		n.U(hx.M2U(m))
	}
	return n
}

func (r sbReq) desc() string {
	ms := make([]string, len(r.Root.Moves))
	for i, m := range r.Root.Moves {
		ms[i] = m.String()
	}
	d := "default"
	if r.HasDepth {
		d = strconv.Itoa(r.Depth)
	}
	return fmt.Sprintf("root=%q moves=[%s] tt=%dKB warm=%d depth=%s nodes=%d softnodes=%d stop=%d/%d (stop kind +16: with a far time limit; warm<0: previous search on fixed root number -warm)",
		r.Root.Fen, strings.Join(ms, " "), r.TTKB, r.Warm, d, r.Nodes, r.SoftNodes, r.StopKind, r.StopArg)
}

// sbDecode parses a request starting at a[at]; returns the request and the index after it.
func sbDecode(a hx.Args, at int) (sbReq, int, bool) {
	var r sbReq
	if a.Len() < at+sbHeaderLen+2 {
		return r, at, false
	}
	r.TTKB, r.Warm, r.HasDepth, r.Depth = a.Int(at), a.Int(at+1), a.Int(at+2) != 0, a.Int(at+3)
	r.Nodes, r.SoftNodes, r.StopKind, r.StopArg = a.Int(at+4), a.Int(at+5), a.Int(at+6), a.Int(at+7)
	i := at + sbHeaderLen
	nf := a.Int(i)
	i++
	if nf < 0 || nf > 200 || i+nf >= a.Len() {
		return r, at, false
	}
	r.Root.Fen = string(a.Bytes(i, i+nf))
	i += nf
	nm := a.Int(i)
	i++
	if nm < 0 || nm > 1000 || i+nm > a.Len() {
		return r, at, false
	}
	for k := 0; k < nm; k++ {
		r.Root.Moves = append(r.Root.Moves, hx.U2M(a.U64(i+k)))
	}
	return r, i + nm, true
}

// sbBoard builds the root board (nil when the FEN does not parse or a history move is not playable).
func sbBoard(r sbRoot) *board.Board {
	b, err := board.FromFEN(r.Fen)
	if err != nil {
		return nil
	}
	for _, m := range r.Moves {
		if !sbIsLegal(b, m) {
			return nil
		}
		b.MakeMove(m)
	}
	return b
}

// sbLegalMoves lists the legal moves of b in generation order (Go movegen + legality filter).
func sbLegalMoves(b *board.Board) []move.Move {
	ms := move.NewStore()
	ms.Push()
	movegen.GenNoisy(ms, b)
	movegen.GenNotNoisy(ms, b)
	var out []move.Move
	for _, w := range ms.Frame() {
		r := b.MakeMove(w.Move)
		if !b.InCheck(b.STM.Flip()) {
			out = append(out, w.Move)
		}
		b.UndoMove(w.Move, r)
	}
	return out
}

func sbIsLegal(b *board.Board, m move.Move) bool {
	if m == 0 || !b.IsPseudoLegal(m) {
		return false
	}
	for _, l := range sbLegalMoves(b) {
		if l == m {
			return true
		}
	}
	return false
}

func sbSnapEqual(x, y board.VerifSnap) bool {
	if x.SquaresToPiece != y.SquaresToPiece || x.Pieces != y.Pieces || x.Colors != y.Colors ||
		x.FullMoves != y.FullMoves || x.STM != y.STM || x.EnPassant != y.EnPassant ||
		x.Castles != y.Castles || x.FiftyCnt != y.FiftyCnt || len(x.Hashes) != len(y.Hashes) {
		return false
	}
	for i := range x.Hashes {
		if x.Hashes[i] != y.Hashes[i] {
			return false
		}
	}
	return true
}

// sbParseMoves plays UCI move texts from a FEN and returns the encoded moves.
func sbParseMoves(fen string, texts ...string) []move.Move {
	b, err := board.FromFEN(fen)
	if err != nil {
		panic("sbParseMoves: bad fen " + fen)
	}
	var out []move.Move
	for _, t := range texts {
		m, err := uci.VerifParseUCIMove(b, t)
		if err != nil || !sbIsLegal(b, m) {
			panic("sbParseMoves: bad move " + t + " in " + fen)
		}
		out = append(out, m)
		b.MakeMove(m)
	}
	return out
}

// ---------------------------------------------------------------------------------------------
// roots

var sbFixedRoots []sbRoot

func sbAddRoot(name, fen string, moves ...string) {
	sbFixedRoots = append(sbFixedRoots, sbRoot{Name: name, Fen: fen, Moves: sbParseMoves(fen, moves...)})
}

func sbRepeat(ms []string, n int) []string {
	var out []string
	for i := 0; i < n; i++ {
		out = append(out, ms...)
	}
	return out
}

var sbRootsBuilt bool

// sbRoots returns the fixed roots (built once): in check, single reply, promotion, en passant,
// near-draw clocks, repetitions reached through histories, final roots.
func sbRoots() []sbRoot {
	if sbRootsBuilt {
		return sbFixedRoots
	}
	sbRootsBuilt = true
	start := StartPosFEN
	shuffle := []string{"g1f3", "g8f6", "f3g1", "f6g8"}
	rich := "r3k2r/2pb1ppp/2pp1q2/p7/1nP1B3/1P2P3/P2N1PPP/R2QK2R w KQkq - %d 14"
	kk := "8/8/4k3/8/8/4K3/8/8 w - - %d 1"
	sbAddRoot("startpos", start)
	sbAddRoot("in-check", "rnb1kbnr/pppp1ppp/8/4p3/4PP1q/8/PPPP2PP/RNBQKBNR w KQkq - 1 3")
	sbAddRoot("in-check-2", "r1bqkb1r/pppp1Qpp/2n2n2/4p3/2B1P3/8/PPPP1PPP/RNB1K1NR b KQkq - 0 4") // mate actually (scholar's)
	sbAddRoot("single-reply", "k7/8/8/8/8/8/3R1PPP/r5K1 w - - 0 1")
	sbAddRoot("single-reply-2", "7k/8/8/8/8/8/6q1/K7 w - - 0 1")
	sbAddRoot("promotion", "8/P6k/8/8/8/8/8/K7 w - - 0 1")
	sbAddRoot("promotion-capture", "4k3/8/8/8/8/8/1p6/R3K3 b Q - 0 1")
	sbAddRoot("promotion-both", "1n2k3/P1P5/8/8/8/8/5p1p/4K1N1 w - - 0 1")
	sbAddRoot("en-passant", "rnbqkbnr/ppp1p1pp/8/3pPp2/8/8/PPPP1PPP/RNBQKBNR w KQkq f6 0 3")
	sbAddRoot("castling", "r3k2r/p1ppqpb1/bn2pnp1/3PN3/1p2P3/2N2Q1p/PPPBBPPP/R3K2R w KQkq - 0 1")
	for _, c := range []int{97, 98, 99, 100} {
		sbAddRoot(fmt.Sprintf("clock-%d-rich", c), fmt.Sprintf(rich, c))
		sbAddRoot(fmt.Sprintf("clock-%d-kk", c), fmt.Sprintf(kk, c))
	}
	sbAddRoot("clock-99-mate-in-1", "6k1/5ppp/8/8/8/8/8/R5K1 w - - 99 80")
	sbAddRoot("clock-101-by-history", fmt.Sprintf(kk, 99), "e3d3", "e6d6")
	sbAddRoot("clock-100-by-history", fmt.Sprintf(rich, 98), "e1g1", "e8g8")
	sbAddRoot("clock-100-checkmated", "7k/5Q2/6K1/8/8/8/8/8 w - - 99 90", "f7f8")
	sbAddRoot("second-occurrence", start, sbRepeat(shuffle, 1)...)
	sbAddRoot("third-occurrence", start, sbRepeat(shuffle, 2)...)
	sbAddRoot("fourth-occurrence", start, sbRepeat(shuffle, 3)...)
	sbAddRoot("second-occurrence-black", start, append([]string{"e2e4"}, sbRepeat([]string{"g8f6", "g1f3", "f6g8", "f3g1"}, 1)...)...)
	sbAddRoot("third-occurrence-black", start, append([]string{"e2e4"}, sbRepeat([]string{"g8f6", "g1f3", "f6g8", "f3g1"}, 2)...)...)
	sbAddRoot("repetition-available", "8/8/1p2k1p1/3p3p/1p1P1P1P/1P2PK2/8/8 w - - 3 54", "f3e2", "e6e7", "e2f3", "e7e6", "f3e2", "e6e7")
	sbAddRoot("repetition-rich", "r3k2r/2pb1ppp/2pp1q2/p7/1nP1B3/1P2P3/P2N1PPP/R2QK2R w - - 0 14",
		"e4f3", "f6e7", "f3e4", "e7f6", "e4f3", "f6e7", "f3e4")
	sbAddRoot("checkmate", "kbK5/pP6/p7/8/8/8/8/8 b - - 0 1")
	sbAddRoot("checkmate-fools", start, "f2f3", "e7e5", "g2g4", "d8h4")
	sbAddRoot("stalemate", "8/8/8/8/8/3q1k2/8/4K3 w - - 0 1")
	sbAddRoot("stalemate-by-history", "7k/8/6K1/5Q2/8/8/8/8 w - - 0 1", "f5f7")
	sbAddRoot("stalemate-2", "7k/5Q2/6K1/8/8/8/8/8 b - - 0 1")
	sbAddRoot("stalemate-pawns", "k7/P7/K7/8/8/8/8/8 b - - 0 1")
	sbAddRoot("mate-in-1", "6k1/5ppp/8/8/8/8/8/R5K1 w - - 0 1")
	sbAddRoot("mated-in-1", "6k1/8/8/8/8/1r6/r7/6K1 w - - 0 1")
	sbAddRoot("queens", "qqqqkqqq/8/8/8/8/8/8/QQQQKQQQ w - - 0 1")
	// evaluation beyond +-Inf (nine queens against a bare king + pawn): before /repo 73ba4a5 quiescence
	// stood pat on a value the parent took for a mate score and `go depth 1` answered bestmove 0000
	sbAddRoot("eval-beyond-inf", "4k3/p7/8/8/8/8/QQ6/QQQQKQQQ b - - 0 1")
	sbAddRoot("eval-beyond-inf-w", "qqqqkqqq/qq6/8/8/8/8/P7/4K3 w - - 0 1")
	sbAddRoot("eval-beyond-inf-mover", "4k3/p7/8/8/8/8/QQ6/QQQQKQQQ w - - 0 1")
	// final by rule AND a single legal reply (a forced move is no reason to skip the draw test: seeded C06-G)
	sbAddRoot("clock-100-single-reply", "8/8/8/8/8/8/2k5/K7 w - - 100 80")
	sbAddRoot("clock-100-single-reply-in-check", "k7/8/8/8/8/8/3R1PPP/r5K1 w - - 100 60")
	sbAddRoot("third-occurrence-single-reply", "8/8/8/8/8/8/2k5/K7 w - - 0 1", sbRepeat([]string{"a1a2", "c2c3", "a2a1", "c3c2"}, 2)...)
	sbAddRoot("second-occurrence-single-reply", "8/8/8/8/8/8/2k5/K7 w - - 0 1", sbRepeat([]string{"a1a2", "c2c3", "a2a1", "c3c2"}, 1)...)
	sbAddRoot("middlegame", "r1bq1rk1/pp2b1pp/n1pp1n2/3P1p2/2P1p3/2N1P2N/PP2BPPP/R1BQ1RK1 b - - 2 10")
	sbAddRoot("endgame", "8/p2B4/PkP5/4p1pK/4Pb1p/5P2/8/8 w - - 29 68")
	return sbFixedRoots
}

var sbEpd []sbRoot
var sbEpdRead bool

// sbEpdRoots reads the positions of debug/standard.epd of the repository under test.
func sbEpdRoots() []sbRoot {
	if sbEpdRead {
		return sbEpd
	}
	sbEpdRead = true
	repo := os.Getenv("VERIF_REPO")
	if repo == "" {
		repo = "/repo"
	}
	f, err := os.Open(filepath.Join(repo, "debug", "standard.epd"))
	if err != nil {
		return nil
	}
	defer f.Close()
	sc := bufio.NewScanner(f)
	for i := 0; sc.Scan(); i++ {
		fen := strings.TrimSpace(strings.Split(sc.Text(), ";")[0])
		if fen == "" {
			continue
		}
		if _, err := board.FromFEN(fen); err == nil {
			sbEpd = append(sbEpd, sbRoot{Name: fmt.Sprintf("epd-%d", i), Fen: fen})
		}
	}
	return sbEpd
}

// sbRandomWalk extends a root by n random legal moves (histories; walks into repetitions when the
// same few pieces shuffle).
func sbRandomWalk(rng *hx.Rng, r sbRoot, n int) sbRoot {
	b := sbBoard(r)
	out := sbRoot{Name: r.Name + "+walk", Fen: r.Fen, Moves: append([]move.Move(nil), r.Moves...)}
	for i := 0; i < n; i++ {
		ls := sbLegalMoves(b)
		if len(ls) == 0 {
			break
		}
		m := ls[rng.Intn(len(ls))]
		b.MakeMove(m)
		out.Moves = append(out.Moves, m)
	}
	return out
}

// sbFinal says whether the root is final and why: bit0 no legal move, bit1 clock >= 100, bit2 third occurrence.
func sbFinal(b *board.Board) int {
	f := 0
	if len(sbLegalMoves(b)) == 0 {
		f |= 1
	}
	if b.FiftyCnt >= 100 {
		f |= 2
	}
	if b.Threefold() >= 3 {
		f |= 4
	}
	return f
}

// ---------------------------------------------------------------------------------------------
// running a request

// sbInfo is one parsed line of the search output.
type sbInfo struct {
	Raw       string
	Kind      int // 1 complete iteration line (score+pv), 2 short line (abort: depth+nodes), 0 unparsable
	Depth     int
	Nodes     int
	ScoreKind int // 1 cp, 2 mate, 3 Inv/other
	ScoreVal  int
	HashFull  int
	PV        []string
}

func sbParseInfo(line string) sbInfo {
	// Keyword driven: `info` followed by fields `<key> <integer>` (score: `score cp|mate <integer>`) in any
	// order, then optionally `pv` and the moves up to the end of the line. The properties talk about the
	// depth, the node count, the score and the variation; further fields (time, hashfull, seldepth, nps,
	// whatever a later version adds) are skipped, so that a richer info line is not mistaken for a
	// malformed one. Kind 1 = a line with a variation field, 2 = the bare `info depth D nodes N` abort line.
	in := sbInfo{Raw: line}
	f := strings.Fields(line)
	if len(f) < 3 || f[0] != "info" {
		return in
	}
	var haveDepth, haveNodes, haveScore, havePV bool
	i := 1
	for i < len(f) {
		key := f[i]
		if key == "pv" {
			havePV = true
			in.PV = f[i+1:]
			break
		}
		if key == "info" || key == "bestmove" || key == "readyok" || i+1 >= len(f) {
			return sbInfo{Raw: line}
		}
		if key == "score" {
			if i+2 >= len(f) {
				return sbInfo{Raw: line}
			}
			switch f[i+1] {
			case "cp":
				in.ScoreKind = 1
			case "mate":
				in.ScoreKind = 2
			default:
				in.ScoreKind = 3
			}
			v, err := strconv.Atoi(f[i+2])
			if err != nil {
				in.ScoreKind = 3
			}
			in.ScoreVal = v
			haveScore = true
			i += 3
			continue
		}
		v, err := strconv.Atoi(f[i+1])
		if err != nil {
			return sbInfo{Raw: line}
		}
		switch key {
		case "depth":
			in.Depth, haveDepth = v, true
		case "nodes":
			in.Nodes, haveNodes = v, true
		case "hashfull":
			in.HashFull = v
		}
		i += 2
	}
	switch {
	case haveDepth && haveNodes && haveScore && havePV:
		in.Kind = 1
	case haveDepth && haveNodes && !haveScore && !havePV:
		in.Kind = 2
	default:
		return sbInfo{Raw: line}
	}
	return in
}

// sbStripTime removes the wall-clock dependent fields of an info line.
func sbStripTime(line string) string {
	f := strings.Fields(line)
	for i := 0; i+1 < len(f); i++ {
		if f[i] == "time" || f[i] == "nps" {
			f[i+1] = "_"
		}
	}
	return strings.Join(f, " ")
}

// sbWriter collects the output lines; optionally closes a stop channel after the line of a depth.
type sbWriter struct {
	buf       bytes.Buffer
	stop      chan struct{}
	stopDepth int
	closed    bool
}

func (w *sbWriter) Write(p []byte) (int, error) {
	w.buf.Write(p)
	if w.stop != nil && !w.closed {
		for _, l := range strings.Split(string(p), "\n") {
			in := sbParseInfo(l)
			if in.Kind == 1 && in.Depth >= w.stopDepth {
				close(w.stop)
				w.closed = true
				break
			}
		}
	}
	return len(p), nil
}

func (w *sbWriter) lines() []string {
	var out []string
	for _, l := range strings.Split(w.buf.String(), "\n") {
		if strings.TrimSpace(l) != "" {
			out = append(out, l)
		}
	}
	return out
}

// sbResult is everything observed on one search.
type sbResult struct {
	Score    Score
	Move     move.Move
	Ponder   move.Move
	Nodes    int
	Aborted  bool
	Lines    []string
	Watchdog bool
}

// sbRun runs one request on engine s and board b.
func sbRun(s *search.Search, b *board.Board, r sbReq) sbResult {
	var res sbResult
	cnt := search.Counters{}
	w := &sbWriter{}
	opts := []search.Option{search.WithCounters(&cnt), search.WithOutput(w)}
	if r.HasDepth {
		opts = append(opts, search.WithDepth(Depth(r.Depth)))
	}
	if r.Nodes >= 0 {
		opts = append(opts, search.WithNodes(r.Nodes))
	}
	if r.SoftNodes >= 0 {
		opts = append(opts, search.WithSoftNodes(r.SoftNodes))
	}
	// StopKind = kind + 16*timed: with `timed` a time limit is among the limits (as in every game played on a
	// clock), far enough away never to expire (the property quantifies over "depth, node budgets, time, stop
	// signal"; wall-clock expiry itself is not reproducible and stays outside the streams)
	if r.StopKind&16 != 0 {
		opts = append(opts, search.WithSoftTime(int64(1)<<40))
	}
	var stop chan struct{}
	done := make(chan struct{})
	var wd atomic.Bool
	switch r.StopKind & 15 {
	case 1:
		stop = make(chan struct{})
		close(stop)
	case 2:
		stop = make(chan struct{})
		w.stop, w.stopDepth = stop, r.StopArg
	case 3:
		stop = make(chan struct{})
		target := int64(r.StopArg)
		p := (*int64)(unsafe.Pointer(&cnt.Nodes))
		go func() {
			t0 := time.Now()
			for {
				select {
				case <-done:
					close(stop)
					return
				default:
				}
				if atomic.LoadInt64(p) >= target || time.Since(t0) > 20*time.Second {
					close(stop)
					return
				}
			}
		}()
	default:
		// safety net for replays of hand-edited inputs: a request without any effective limit is cut
		// after 30 s and marked.
		stop = make(chan struct{})
		go func() {
			select {
			case <-done:
			case <-time.After(30 * time.Second):
				wd.Store(true)
				close(stop)
			}
		}()
	}
	opts = append(opts, search.WithStop(stop))
	res.Score, res.Move, res.Ponder = s.Go(b, opts...)
	close(done)
	res.Nodes = cnt.Nodes
	res.Aborted = s.VerifAborted()
	res.Lines = w.lines()
	res.Watchdog = wd.Load()
	return res
}

// sbEngine builds an engine with a table of ttKB kilobytes (>= 32 KB: HashFull needs 1000 buckets),
// warmed by a search of warm soft nodes on the same root when warm > 0.
func sbEngine(ttKB, warm int, b *board.Board) *search.Search {
	if ttKB < 32 {
		ttKB = 32
	}
	if ttKB > 65536 {
		ttKB = 65536
	}
	s := search.New(ttKB * 1024)
	if warm < 0 {
		// a PREVIOUS search on ANOTHER position on the same instance (the engine keeps its table, histories and
		// its principal-variation buffer between searches): root number -warm, 2000 soft nodes, completed or
		// (odd numbers) cut by a hard budget
		rs := sbRoots()
		ob := sbBoard(rs[(-warm)%len(rs)])
		if ob != nil {
			cnt := search.Counters{}
			hard := 50000
			if (-warm)%2 == 1 {
				hard = 300 + (-warm)%700
			}
			s.Go(ob, search.WithCounters(&cnt), search.WithSoftNodes(2000), search.WithNodes(hard), search.WithOutput(nil))
		}
	}
	if warm > 0 {
		cnt := search.Counters{}
		s.Go(b, search.WithCounters(&cnt), search.WithSoftNodes(warm), search.WithNodes(4*warm+1000), search.WithOutput(nil))
	}
	return s
}

func sbSortedMoves(ms []move.Move) []uint64 {
	out := make([]uint64, len(ms))
	for i, m := range ms {
		out[i] = hx.M2U(m)
	}
	sort.Slice(out, func(i, j int) bool { return out[i] < out[j] })
	return out
}

// sbRequests is the shared generator of search requests: fixed roots x every node budget k <= K,
// plus depth limits, soft limits, stop kinds, table sizes, warmed tables, epd roots and random walks.
func sbRequests(rng *hx.Rng, n int, tier string, emit func(r sbReq, tags []string)) {
	roots := sbRoots()
	epd := sbEpdRoots()
	K := 300
	if tier == "thorough" {
		K = 20000
	}
	base := func(root sbRoot) sbReq {
		return sbReq{TTKB: 32, Nodes: -1, SoftNodes: -1, Root: root}
	}
	cnt := 0
	out := func(r sbReq, tags ...string) {
		emit(r, append(tags, "root:"+strings.SplitN(r.Root.Name, "-", 2)[0]))
		cnt++
	}
	// 1. boundary requests on every root
	for _, root := range roots {
		b := sbBoard(root)
		final := sbFinal(b) != 0
		for _, tt := range []int{32, 1024} {
			for _, d := range []int{-128, -1, 0, 1, 2, 3} {
				r := base(root)
				r.TTKB, r.HasDepth, r.Depth = tt, true, d
				out(r, "depth-limit")
			}
			if final {
				// a final root completes at every depth at once
				for _, d := range []int{5, 63, 64, 100, 127} {
					r := base(root)
					r.TTKB, r.HasDepth, r.Depth = tt, true, d
					out(r, "depth-limit-final")
				}
				r := base(root)
				r.TTKB = tt
				out(r, "no-limit-final")
				r.SoftNodes = 50
				out(r, "soft-final")
			} else {
				for _, d := range []int{63, 64, 100, 127} {
					r := base(root)
					r.TTKB, r.HasDepth, r.Depth, r.Nodes = tt, true, d, 700
					out(r, "depth-limit+nodes")
				}
			}
			for _, sn := range []int{0, 1, 50, 400} {
				r := base(root)
				r.TTKB, r.SoftNodes, r.Nodes = tt, sn, 3000
				out(r, "soft-nodes")
			}
			r := base(root)
			r.TTKB, r.StopKind = tt, 1
			out(r, "stop-before-start")
			// the same after a previous search on another position (seeded change C06-H returned the stale
			// first move of the previous principal variation)
			for _, w := range []int{-1, -2, -7 - len(root.Name)} {
				r := base(root)
				r.TTKB, r.StopKind, r.Warm = tt, 1, w
				out(r, "stop-before-start-after-other-root")
				r.StopKind, r.Nodes = 0, []int{0, 1, 2}[(-w)%3]
				out(r, "abort-point-after-other-root")
			}
			// a (far) time limit among the limits (seeded change C06-G took a shortcut for timed searches)
			for _, d := range []int{1, 3, 64} {
				r := base(root)
				r.TTKB, r.HasDepth, r.Depth, r.StopKind = tt, true, d, 16
				if !final {
					r.Nodes = 700
				}
				out(r, "timed+depth-limit")
			}
			{
				r := base(root)
				r.TTKB, r.SoftNodes, r.Nodes, r.StopKind = tt, 50, 3000, 16
				out(r, "timed+soft-nodes")
			}
			for _, sd := range []int{0, 1, 2, 3} {
				r := base(root)
				r.TTKB, r.StopKind, r.StopArg, r.Nodes = tt, 2, sd, 20000
				out(r, "stop-between-iterations")
			}
			for _, sa := range []int{1, 20, 150} {
				r := base(root)
				r.TTKB, r.StopKind, r.StopArg, r.Nodes = tt, 3, sa, 20000
				out(r, "stop-watcher")
			}
		}
	}
	// 2. every abort point k in 0..K on every fixed root (fresh small table)
	kmax := K
	if n > 0 && len(roots)*(K+1) > n*6/10 {
		kmax = n * 6 / 10 / len(roots)
	}
	for _, root := range roots {
		for k := 0; k <= kmax; k++ {
			r := base(root)
			r.Nodes = k
			out(r, "abort-point")
		}
	}
	// 3. random mix: epd roots and walks, warmed / large tables, abort points anywhere below K
	for cnt < n {
		var root sbRoot
		switch rng.Intn(4) {
		case 0:
			root = roots[rng.Intn(len(roots))]
		case 1:
			root = sbRandomWalk(rng, roots[rng.Intn(len(roots))], rng.Intn(12))
		default:
			if len(epd) > 0 {
				root = epd[rng.Intn(len(epd))]
				if rng.Chance(0.5) {
					root = sbRandomWalk(rng, root, rng.Intn(30))
				}
			} else {
				root = roots[rng.Intn(len(roots))]
			}
		}
		r := base(root)
		if rng.Chance(0.4) {
			r.TTKB = 1024
		}
		if tier == "thorough" && rng.Chance(0.1) {
			r.TTKB = 16384
		}
		if rng.Chance(0.4) {
			r.Warm = 1 + rng.Intn(600)
		}
		r.Nodes = rng.Intn(K + 1)
		tags := []string{"random-abort-point"}
		switch rng.Intn(6) {
		case 0:
			r.HasDepth, r.Depth = true, 1+rng.Intn(5)
			tags = append(tags, "+depth")
		case 1:
			r.SoftNodes = rng.Intn(K + 1)
			tags = append(tags, "+soft")
		case 2:
			r.StopKind, r.StopArg = 2, rng.Intn(5)
			tags = append(tags, "+stop-between")
		case 3:
			r.StopKind, r.StopArg = 3, rng.Intn(K+1)
			tags = append(tags, "+stop-watcher")
		}
		if r.Warm > 0 {
			tags = append(tags, "warmed")
		} else if rng.Chance(0.2) {
			r.Warm = -1 - rng.Intn(40)
			tags = append(tags, "after-other-root")
		}
		if rng.Chance(0.25) {
			r.StopKind += 16
			tags = append(tags, "timed")
		}
		out(r, tags...)
	}
}

// sbWindowSize is the aspiration window half-width of the build under test.
func sbWindowSize() int { return int(params.WindowSize) }
