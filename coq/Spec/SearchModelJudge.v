(* Property judge of the stream "search" (whole searches, harness/streams/searchmodel.go): a readable
   restatement of the C06 / C07 / C08 clauses on one observed run, independent of the search model
   (it uses only the board model: generated moves, make, in_check, repetition count).
   Takes  input ++ observed output  and answers [1] or [0; clause; request index; ...].

   input : ttBytes tracePly nReq { hasDepth depth nodes softNodes board-in }*
   output: per request  nLines { 1 depth sk sm sn nodes hashfull nPv pv.. | 2 depth nodes }*
                        score move ponder Counters.Nodes aborted generation boardUntouched
           then the state digest (not judged).

   Clauses, per request
     1  C08  a hard node budget is never passed: Counters.Nodes <= nodes
     2  C06  the board is left exactly as it was (every attribute, hash history included)
     3  C06  the returned move is null or a legal move of the root
     4  C06  with a depth limit >= 1 the null move is returned only on a final root
             (no legal move / halfmove clock >= 100 / third occurrence)
     5  C07  the move returned is the head of the last non-empty reported variation, the ponder move
             its second move (null when it has one move)
     6  C07  every reported variation is a legal line from the root
     7  C07  reported depths strictly increase, node counts never decrease
     8  C08  the generation counter advances by one per search (mod 256)
     98 the run panicked although the table has the 1000 buckets HashFull needs; 99 malformed *)
From Coq Require Import NArith ZArith List Bool.
From Chess3 Require Import Base.Bits Base.Word Model.Types Model.BoardDef Model.Board Model.Movegen Gen.Zobrist.
Import ListNotations.
Open Scope Z_scope.

Record jline := { jl_kind : Z; jl_depth : Z; jl_nodes : Z; jl_pv : list Z }.

Fixpoint j_lines (n : nat) (l : list Z) : option (list jline * list Z) :=
  match n with
  | O => Some ([], l)
  | S n' =>
      match l with
      | 1 :: d :: _ :: _ :: _ :: nd :: _ :: npv :: r =>
          let k := Z.to_nat npv in
          match j_lines n' (skipn k r) with
          | Some (ls, r') => Some ({| jl_kind := 1; jl_depth := d; jl_nodes := nd; jl_pv := firstn k r |} :: ls, r')
          | None => None
          end
      | 2 :: d :: nd :: r =>
          match j_lines n' r with
          | Some (ls, r') => Some ({| jl_kind := 2; jl_depth := d; jl_nodes := nd; jl_pv := [] |} :: ls, r')
          | None => None
          end
      | _ => None
      end
  end.

Definition j_legal (b : board) (m : Z) : bool := existsb (fun x => (Z.of_N x =? m)) (playable zob_real b).

(* a variation replayed move by move *)
Fixpoint j_line_legal (b : board) (pv : list Z) : bool :=
  match pv with
  | [] => true
  | m :: r => j_legal b m && j_line_legal (fst (make zob_real b (Z.to_N m))) r
  end.

Definition j_final (b : board) : bool :=
  match playable zob_real b with [] => true | _ => false end || (100 <=? fifty b) || (3 <=? threefold b).

Fixpoint j_last_nonempty (ls : list jline) (acc : list Z) : list Z :=
  match ls with
  | [] => acc
  | l :: r => j_last_nonempty r (match jl_pv l with [] => acc | pv => if jl_kind l =? 1 then pv else acc end)
  end.

Fixpoint j_increasing (l : list Z) : bool :=
  match l with a :: ((b :: _) as r) => (a <? b) && j_increasing r | _ => true end.
Fixpoint j_nondecreasing (l : list Z) : bool :=
  match l with a :: ((b :: _) as r) => (a <=? b) && j_nondecreasing r | _ => true end.

Fixpoint j_requests (n : nat) (ix gen0 : Z) (inp obs : list Z) : list Z :=
  match n with
  | O => [1]
  | S n' =>
      match inp with
      | hd :: dep :: nodes :: _soft :: rest =>
          match decode_board rest with
          | None => [0; 99; ix]
          | Some (b, inp') =>
              match obs with
              | nl :: obs1 =>
                  match j_lines (Z.to_nat nl) obs1 with
                  | Some (ls, _score :: move :: ponder :: cnt :: _aborted :: gen :: same :: obs') =>
                      let depth := if hd =? 0 then 64 else wrap8 dep in
                      let best := j_last_nonempty ls [] in
                      if (0 <=? nodes) && (nodes <? cnt) then [0; 1; ix; nodes; cnt]
                      else if negb (same =? 1) then [0; 2; ix]
                      else if negb ((move =? 0) || j_legal b move) then [0; 3; ix; move]
                      else if (1 <=? depth) && (move =? 0) && negb (j_final b) then [0; 4; ix]
                      else if negb (match best with
                                    | [] => true
                                    | [m] => (move =? m) && (ponder =? 0)
                                    | m :: p :: _ => (move =? m) && (ponder =? p)
                                    end) then [0; 5; ix; move; ponder]
                      else if negb (forallb (fun l => j_line_legal b (jl_pv l)) ls) then [0; 6; ix]
                      else if negb (j_increasing (map jl_depth ls) && j_nondecreasing (map jl_nodes ls)) then [0; 7; ix]
                      else if negb (gen =? Z.land (gen0 + 1) 255) then [0; 8; ix; gen]
                      else j_requests n' (ix + 1) gen inp' obs'
                  | _ => [0; 99; ix]
                  end
              | [] => [0; 99; ix]
              end
          end
      | _ => [0; 99; ix]
      end
  end.

(* split input ++ output: the input is self-delimiting (nReq requests, each with a counted hash history) *)
Fixpoint j_skip_requests (n : nat) (l : list Z) : option (list Z) :=
  match n with
  | O => Some l
  | S n' =>
      match l with
      | _ :: _ :: _ :: _ :: rest =>
          match decode_board rest with
          | Some (_, r) => j_skip_requests n' r
          | None => None
          end
      | _ => None
      end
  end.

Definition judge_search (io : list Z) : list Z :=
  match io with
  | size :: _tp :: nreq :: rest =>
      match j_skip_requests (Z.to_nat nreq) rest with
      | None => [0; 99; -1]
      | Some obs =>
          match obs with
          | [-1; -1; -1] => if Z.quot size 32 <? 1000 then [1] else [0; 98]
          | _ => j_requests (Z.to_nat nreq) 0 0 rest obs
          end
      end
  | _ => [0; 99; -1]
  end.
