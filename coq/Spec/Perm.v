(* Specification side of C20, independent of the models:
   - what "permutation of the index range", "the ranges partition [s,e)" and "the non-blank lines of
     a file" mean (readable Prop-level definitions the theorems of Properties/C20.v talk about);
   - executable judges over observed implementation behaviour (witness search): they take
     input ++ observed output of a stream of harness/streams/c20.go and answer [1] when the
     observation satisfies C20 (or lies outside its domain) and [0; clause] otherwise.
   The judges run on large observations inside an 8 MB stack, hence accumulators. *)
From Coq Require Import ZArith NArith List Bool Permutation Sorting.Mergesort Orders.
From Chess3 Require Import Gen.TunerConsts.
Import ListNotations.
Open Scope Z_scope.

(* ---------------------------------------------------------------------------------------------- *)
(* readable definitions *)

(* 0, 1, ..., n-1 *)
Definition idx (n : N) : list N := map N.of_nat (seq 0 (N.to_nat n)).

(* f permutes 0..n-1 *)
Definition perm_of_range (f : N -> N) (n : N) : Prop := Permutation (map f (idx n)) (idx n).

(* s, s+1, ..., e-1 *)
Definition zrange (s e : Z) : list Z := map (fun k => s + Z.of_nat k) (seq 0 (Z.to_nat (e - s))).

(* the half-open ranges rs, in their order, are non-empty and tile [s,e) *)
Definition partitions (rs : list (Z * Z)) (s e : Z) : Prop :=
  Forall (fun r => fst r < snd r) rs /\ concat (map (fun r => zrange (fst r) (snd r)) rs) = zrange s e.

(* the newline-terminated lines of a file (without their '\n'), and the unterminated rest *)
Fixpoint split_nl (l : list Z) : list (list Z) * list Z :=
  match l with
  | [] => ([], [])
  | c :: t =>
      let '(ls, rest) := split_nl t in
      if c =? 10 then ([] :: ls, rest)
      else match ls with
           | [] => ([], c :: rest)
           | l1 :: ls' => ((c :: l1) :: ls', rest)
           end
  end.

Definition is_blank (l : list Z) : bool := match l with [] => true | _ => false end.
Definition terminated_lines (file : list Z) : list (list Z) := fst (split_nl file).
Definition nonblank_lines (file : list Z) : list (list Z) := filter (fun l => negb (is_blank l)) (terminated_lines file).

(* the documented format: every line is newline-terminated *)
Definition well_formed_file (file : list Z) : Prop := snd (split_nl file) = [].

(* bytes s .. e-1 of the file *)
Definition slice (file : list Z) (s e : Z) : list Z := firstn (Z.to_nat (e - s)) (skipn (Z.to_nat s) file).

(* ---------------------------------------------------------------------------------------------- *)
(* executable judges *)

Fixpoint zlen_acc {A} (l : list A) (acc : Z) : Z := match l with [] => acc | _ :: t => zlen_acc t (acc + 1) end.
Definition zlength {A} (l : list A) : Z := zlen_acc l 0.

(* the first n elements (reversed into acc) and the rest *)
Fixpoint take_acc {A} (l : list A) (n : Z) (acc : list A) : list A * list A :=
  match l with
  | [] => (rev' acc, [])
  | x :: t => if n <=? 0 then (rev' acc, l) else take_acc t (n - 1) (x :: acc)
  end.
Definition take {A} (n : Z) (l : list A) := take_acc l n [].

(* out is a permutation of 0..n-1: n values, all below n, every value hit *)
Definition is_perm_list (n : Z) (out : list Z) : bool :=
  (zlength out =? n)
  && forallb (fun y => (0 <=? y) && (y <? n)) out
  && N.eqb (fold_left (fun acc y => N.lor acc (N.shiftl 1 (Z.to_N y))) out 0%N) (N.ones (Z.to_N n)).

(* pairs (x_i, y_i): equal arguments <-> equal results *)
Fixpoint injective_pairs (ps : list (Z * Z)) : bool :=
  match ps with
  | [] => true
  | (x, y) :: t => forallb (fun q => Bool.eqb (x =? fst q) (y =? snd q)) t && injective_pairs t
  end.

Definition two64 : Z := 18446744073709551616.

(* the harness records a call that did not come back as -3 and a case it did not run as -4 *)
Definition judge_c20_shuffle (io : list Z) : list Z :=
  match io with
  | mode :: p :: seed :: rest =>
      if existsb (Z.eqb (-4)) rest then [1]
      else if existsb (Z.eqb (-3)) rest then [0; 7]
      else if mode =? 0 then
        if p <=? 0 then [1] else if is_perm_list p rest then [1] else [0; 1]
      else if mode =? 1 then
        let k := zlength rest / 2 in
        let '(xs, ys) := take k rest in
        if p <=? 0 then [1]
        else if negb (forallb (fun y => (0 <=? y) && (y <? p)) ys) then [0; 2]
        else if negb (injective_pairs (combine xs ys)) then [0; 3] else [1]
      else if mode =? 2 then
        let k := zlength rest / 2 in
        let '(xs, ys) := take k rest in
        if 64 <? p then [1]
        else if negb (forallb (fun y => (0 <=? y) && (y <? 2 ^ p)) ys) then [0; 4]
        else if negb (injective_pairs (combine (map (fun x => x mod 2 ^ p) xs) ys)) then [0; 5] else [1]
      else if mode =? 3 then
        if is_perm_list (2 ^ p) rest then [1] else [0; 6]
      else [1]
  | _ => [0; 99]
  end.

(* the flattened ranges s0 e0 s1 e1 ... are non-empty and tile [s, e) (none when e <= s) *)
Fixpoint tiles (cur e : Z) (rs : list Z) (fuel : nat) : bool :=
  match fuel with
  | O => false
  | S f =>
      match rs with
      | [] => if cur <? e then false else true
      | a :: b :: t => (a =? cur) && (a <? b) && (b <=? e) && tiles b e t f
      | _ => false
      end
  end.

(* RE-USE of iterator values (modes 2 and 3 of stream c20_batch): whatever was done with an iter.Seq
   value before - ranged to its end, left with break, ranged inside another traversal - ranging over
   it yields the whole partition again. *)

(* a traversal that was left early: the ranges so far are non-empty, start at cur and follow each other *)
Fixpoint tiles_prefix (cur e : Z) (rs : list Z) : bool :=
  match rs with
  | [] => true
  | a :: b :: t => (a =? cur) && (a <? b) && (b <=? e) && tiles_prefix b e t
  | _ => false
  end.

(* [count; s0; e0; ...] ++ rest *)
Definition take_record (out : list Z) : option (Z * list Z * list Z) :=
  match out with
  | cnt :: t =>
      if cnt <? 0 then None else
      let '(r, rest) := take (2 * cnt) t in
      if zlength r =? 2 * cnt then Some (cnt, r, rest) else None
  | [] => None
  end.

Definition seq_bounds (k a b : Z) : Z * Z := if k =? 0 then (0, a) else (a, b).

Fixpoint parse_bounds (n : nat) (l : list Z) : list (Z * Z) * list Z :=
  match n with
  | O => ([], l)
  | S n' =>
      match l with
      | k :: a :: b :: t => let '(bs, r) := parse_bounds n' t in (seq_bounds k a b :: bs, r)
      | _ => ([], [])
      end
  end.

Definition whole (lo hi : Z) (r : list Z) : bool := tiles lo hi r (S (length r)).

Fixpoint judge_steps (bs : list (Z * Z)) (steps out : list Z) : list Z :=
  match steps with
  | i :: stop :: j :: pos :: t =>
      match take_record out with
      | None => [0; 8]
      | Some (cnt, r, out1) =>
          let '(lo, hi) := nth (Z.to_nat i) bs (0, 0) in
          if (stop <=? 0) && negb (whole lo hi r) then [0; 3]            (* a complete traversal is not the partition *)
          else if (1 <=? stop) && negb ((whole lo hi r && (cnt <=? stop)) || (tiles_prefix lo hi r && (cnt =? stop)))
          then [0; 4]                                                    (* a traversal left with break is not a prefix of it *)
          else if (0 <=? j) && (0 <=? pos) && (pos <? cnt) then
            match take_record out1 with
            | None => [0; 8]
            | Some (_, r2, out2) =>
                let '(lo2, hi2) := nth (Z.to_nat j) bs (0, 0) in
                if whole lo2 hi2 r2 then judge_steps bs t out2 else [0; 5]   (* nested traversal *)
            end
          else judge_steps bs t out1
      end
  | _ => match out with [] => [1] | _ => [0; 8] end
  end.

Fixpoint judge_reps (n : Z) (reps : nat) (out : list Z) : list Z :=
  match reps with
  | O => match out with [] => [1] | _ => [0; 8] end
  | S r =>
      match take_record out with
      | None => [0; 8]
      | Some (_, rs, out1) => if whole 0 n rs then judge_reps n r out1 else [0; 6]
      end
  end.

Definition far (x : Z) : bool := Z.abs x >? 1099511627776.

Definition judge_c20_batch (io : list Z) : list Z :=
  match io with
  | 2 :: nseq :: nsteps :: rest =>
      if (nseq <? 0) || (nseq >? 16) || (nsteps <? 0) then [1] else
      let '(bs, rest1) := parse_bounds (Z.to_nat nseq) rest in
      let '(steps, out) := take (4 * nsteps) rest1 in
      if existsb (fun b => far (fst b) || far (snd b)) bs then [1] else judge_steps bs steps out
  | 3 :: n :: reps :: out =>
      if far n || (reps <? 0) || (reps >? 16) then [1] else judge_reps n (Z.to_nat reps) out
  | mode :: a :: b :: rs =>
      if (Z.abs a >? 1099511627776) || (Z.abs b >? 1099511627776) then [1]
      else if mode =? 0 then (if tiles 0 a rs (S (length rs)) then [1] else [0; 1])
      else (if tiles a b rs (S (length rs)) then [1] else [0; 2])
  | _ => [0; 99]
  end.

(* --- files ---------------------------------------------------------------------------------- *)

(* terminated lines and unterminated rest of a file, in one pass with accumulators
   (computes split_nl) *)
Fixpoint split_fast (l cur : list Z) (acc : list (list Z)) : list (list Z) * list Z :=
  match l with
  | [] => (rev' acc, rev' cur)
  | c :: t => if c =? 10 then split_fast t [] (rev' cur :: acc) else split_fast t (c :: cur) acc
  end.

(* len_1 bytes_1 ... len_k bytes_k -> the k lines; need = bytes still missing of the current line *)
Fixpoint parse_lines (l : list Z) (need : Z) (cur : list Z) (acc : list (list Z)) : list (list Z) :=
  match l with
  | [] => rev' acc
  | x :: t =>
      if need <=? 0
      then (if x <=? 0 then parse_lines t 0 [] ([] :: acc) else parse_lines t x [] acc)
      else if need =? 1 then parse_lines t 0 [] (rev' (x :: cur) :: acc)
      else parse_lines t (need - 1) (x :: cur) acc
  end.

Fixpoint lex_le (a b : list Z) : bool :=
  match a, b with
  | [], _ => true
  | _ :: _, [] => false
  | x :: a', y :: b' => if x <? y then true else if y <? x then false else lex_le a' b'
  end.

Fixpoint list_eqb (a b : list Z) : bool :=
  match a, b with
  | [], [] => true
  | x :: a', y :: b' => (x =? y) && list_eqb a' b'
  | _, _ => false
  end.

(* merge of two sorted lists, result reversed into acc *)
Fixpoint merge_rev (a b acc : list (list Z)) {struct a} : list (list Z) :=
  match a with
  | [] => rev_append b acc
  | x :: a' =>
      (fix inner (b acc : list (list Z)) {struct b} : list (list Z) :=
         match b with
         | [] => rev_append a acc
         | y :: b' => if lex_le x y then merge_rev a' b (x :: acc) else inner b' (y :: acc)
         end) b acc
  end.
Definition merge (a b : list (list Z)) : list (list Z) := rev' (merge_rev a b []).

Fixpoint merge_pairs (ls acc : list (list (list Z))) : list (list (list Z)) :=
  match ls with
  | a :: b :: t => merge_pairs t (merge a b :: acc)
  | [a] => a :: acc
  | [] => acc
  end.

Fixpoint merge_passes (fuel : nat) (ls : list (list (list Z))) : list (list Z) :=
  match ls with
  | [] => []
  | [a] => a
  | _ => match fuel with O => concat ls | S f => merge_passes f (merge_pairs ls []) end
  end.

(* bottom-up merge sort in lexicographic byte order; 64 passes sort 2^64 lines *)
Definition sort_lines (ls : list (list Z)) : list (list Z) :=
  merge_passes 64 (rev' (fold_left (fun acc l => [l] :: acc) ls [])).

(* a, b sorted: every element of a, with multiplicity, occurs in b *)
Fixpoint sub_sorted (a b : list (list Z)) {struct b} : bool :=
  match a with
  | [] => true
  | x :: a' =>
      match b with
      | [] => false
      | y :: b' => if list_eqb x y then sub_sorted a' b' else if lex_le y x then sub_sorted a b' else false
      end
  end.

Fixpoint lines_eqb (a b : list (list Z)) : bool :=
  match a, b with
  | [], [] => true
  | x :: a', y :: b' => list_eqb x y && lines_eqb a' b'
  | _, _ => false
  end.

Definition max_len (ls : list (list Z)) : Z := fold_left (fun m l => Z.max m (zlength l)) ls 0.

(* [mode; B; epoch; start; end; nbytes; bytes...] ++ [status; k; len_1; bytes_1...; ...] *)
Definition judge_c20_file (io : list Z) : list Z :=
  match io with
  | mode :: B :: epoch :: start :: end_ :: nbytes :: rest =>
      let '(file, out) := take nbytes rest in
      let '(lines, frag) := split_fast file [] [] in
      let expected := filter (fun l => negb (is_blank l)) lines in
      let n := zlength expected in
      match out with
      | [-4] => [1]                                                      (* not run *)
      | [-3] => [0; 19]                                                  (* did not terminate *)
      | status :: k :: enc =>
          if status =? 4 then [1]                                        (* buffer size not supported by this build *)
          else if (LineBufSize <=? max_len lines) || (LineBufSize <=? zlength frag) then [1]   (* a line does not fit the line reader *)
          else if status =? 1 then [0; 11]                               (* NewChunker refused a file in the documented format *)
          else if B <? max_len expected then [1]                         (* refill buffer shorter than a line: outside the domain *)
          else if status =? -1 then [0; 12]                              (* panic *)
          else if status =? 3 then [0; 18]
          else
            let delivered := sort_lines (parse_lines enc 0 [] []) in
            let expected := sort_lines expected in
            if mode =? 0 then
              if negb ((0 <=? start) && (start <? end_) && (end_ <=? n)) then [1]
              else if negb (status =? 0) then [0; 13]
              else if negb ((k =? end_ - start) && (zlength delivered =? k)) then [0; 14]
              else if negb (sub_sorted delivered expected) then [0; 15] else [1]
            else if mode =? 3 then
              (* start epochs through one Batches value: every epoch delivers every line *)
              if (start <? 0) || (start >? 16) then [1]
              else if negb (status =? 0) then [0; 16]
              else if negb (lines_eqb delivered (sort_lines (concat (repeat expected (Z.to_nat start))))) then [0; 21] else [1]
            else if mode =? 4 then
              (* a session over windows that partition [0,n), whatever the order of the steps *)
              let cuts := filter (fun c => negb (c =? 0))
                            [Z.land start 65535; Z.land (Z.shiftr start 16) 65535; Z.land (Z.shiftr start 32) 65535] in
              if negb (tiles_prefix 0 n (concat (map (fun p => [fst p; snd p]) (combine (0 :: cuts) (cuts ++ [n]))))) then [1]
              else if negb (status =? 0) then [0; 16]
              else if negb (lines_eqb delivered expected) then [0; 20] else [1]
            else
              if negb (status =? 0) then [0; 16]
              else if negb (lines_eqb delivered expected) then [0; 17] else [1]
      | _ => [0; 98]
      end
  | _ => [0; 99]
  end.

(* c20_huge: files too large to be passed as numbers (9..40 MiB, generated by the harness from a seed; a
   non-blank line starts on every multiple of 1 MiB). The harness compares the multiset of delivered
   lines with the multiset of non-blank lines of the file and reports counters:
     [seed; mib; epoch] ++ [status; expected; delivered; missing; extra; maxLineLen; boundaryStarts]
   Clauses: 1 = a chunker call failed (status), 2 = a non-blank line was not delivered (missing),
   3 = something was delivered that is not a (remaining) line of the file (extra), 4 = the number of
   deliveries differs from the number of non-blank lines, 5 = the generated file is outside the
   documented format (a line of 4096 bytes or more) or has no line starting on a 1 MiB boundary (the
   case would not test what it is meant to), 9x = malformed observation (a panic lands here). *)
Definition judge_c20_huge (io : list Z) : list Z :=
  match io with
  | [_; mib; _; status; expected; delivered; missing; extra; maxlen; starts] =>
      if (4096 <=? maxlen) || (starts <? mib - 1) then [0; 5]
      else if negb (status =? 0) then [0; 1; status]
      else if negb (missing =? 0) then [0; 2; missing]
      else if negb (extra =? 0) then [0; 3; extra]
      else if negb (delivered =? expected) then [0; 4]
      else [1]
  | _ => [0; 99]
  end.
