package streams

import (
	"fmt"
	"strings"

	"github.com/paulsonkoly/chess-3/board"
	. "github.com/paulsonkoly/chess-3/chess"
	"github.com/paulsonkoly/chess-3/move"

	"verifharness/hx"
	"verifharness/posgen"
)

// mkseq: board-in ++ [n op_1 .. op_n]  (properties C03 and C04, nested make / undo)
//
//	op < 0x10000   MakeMove(op)
//	op = 0x10000   MakeNullMove()
//	op = 0x20000   undo the most recent operation that is not yet undone (the search's backtracking)
//
// output:
//
//	board-out(start)
//	per op:  REC = board-out-nohist ++ [len(hashes) Hash() calculateHash()]
//	board-out(after the ops)
//	per operation still on the stack, undone in reverse: REC
//	board-out(after everything is undone)
//
// See coq/Model/SeqStreams.v (run_mkseq) and coq/Spec/SnapJudge.v (judge_c03, judge_c04).
//
// mktp: board-in ++ [n1 moves1.. n2 moves2..] -> for each of the two sequences
// board-out-nohist ++ [Hash()] after playing it (transpositions, C04).
func init() {
	hx.Register(&hx.Stream{Name: "mkseq", Gen: genMkseq, Run: runMkseq, Shrink: shrinkMkseq, Describe: describeMkseq})
	hx.Register(&hx.Stream{Name: "mktp", Gen: genMktp, Run: runMktp})
}

const (
	opNull = 0x10000
	opPop  = 0x20000
)

type seqFrame struct {
	null bool
	m    move.Move
	r    board.Reverse
}

func seqRec(out *hx.Nums, b *board.Board) {
	out.BoardOutNoHist(b).Int(len(b.VerifHashes())).U(uint64(b.Hash()), uint64(b.VerifCalcHash()))
}

func runMkseq(a hx.Args) string {
	b, i := a.Board(0)
	n := a.Int(i)
	out := &hx.Nums{}
	out.BoardOut(b)
	var stack []seqFrame
	undo := func() {
		f := stack[len(stack)-1]
		stack = stack[:len(stack)-1]
		if f.null {
			b.UndoNullMove(f.r)
		} else {
			b.UndoMove(f.m, f.r)
		}
	}
	for k := 0; k < n; k++ {
		op := a.U64(i + 1 + k)
		switch {
		case op == opPop:
			if len(stack) > 0 {
				undo()
			}
		case op == opNull:
			stack = append(stack, seqFrame{null: true, r: b.MakeNullMove()})
		default:
			m := hx.U2M(uint64(op))
			stack = append(stack, seqFrame{m: m, r: b.MakeMove(m)})
		}
		seqRec(out, b)
	}
	out.BoardOut(b)
	for len(stack) > 0 {
		undo()
		seqRec(out, b)
	}
	out.BoardOut(b)
	return out.String()
}

func opString(op uint64) string {
	switch op {
	case opNull:
		return "null"
	case opPop:
		return "undo"
	}
	return hx.U2M(uint64(op)).String()
}

// genMkseq walks the way the search does: make a generated move; if it leaves the own king attacked
// undo it at once (the search makes and immediately undoes those), otherwise go deeper, back up,
// or pass (null move). Stack depth at most 40.
func genMkseq(rng *hx.Rng, n int, tier string, emit func(hx.Input)) {
	cnt := 0
	for cnt < n {
		posgen.Stream(rng, 40, func(p posgen.Pos) {
			if cnt >= n {
				return
			}
			b := p.B
			tags := map[string]bool{}
			// the halfmove clock is restored from a 16-bit field of the token: also start from
			// large clock values (the game is drawn long before, the engine must still undo exactly)
			if rng.Chance(0.08) {
				s := b.VerifSnapshot()
				switch rng.Intn(3) {
				case 0:
					s.FiftyCnt = 100 + rng.Intn(160)
				case 1:
					s.FiftyCnt = 250 + rng.Intn(32000)
				default:
					s.FiftyCnt = 32760 + rng.Intn(8)
				}
				b = board.VerifRestore(s)
				tags["clock>=100"] = true
			}
			in := (&hx.Nums{}).BoardIn(b)
			var ops []uint64
			var stack []seqFrame
			// the walk runs on the implementation's own board: if an operation panics there, the case that
			// led to it is emitted (with the operation in flight) before the panic travels on
			var pending uint64
			defer func() {
				if e := recover(); e != nil {
					if pending != 0 {
						ops = append(ops, pending)
					}
					if len(ops) > 0 {
						in.Int(len(ops)).U(ops...)
						emit(hx.Input{In: in.String(), Desc: p.Desc() + " (the generator's walk panicked inside the implementation at the last operation)",
							Tags: []string{"generator-panic"}, NonTrivial: true, Key: p.Desc() + "panic"})
					}
					panic(e)
				}
			}()
			maxDepth := 1 + rng.Intn(40)
			maxOps := 2 + rng.Intn(90)
			// long lines (1.2 % of the cases): the property holds "at any nesting depth", and the hash history
			// is a growing buffer: nest past 128 / 256 / 384 outstanding makes (a whole game played on one board
			// and then taken back), backing up rarely; seeded change C03-G slid the history at 256 entries
			long := rng.Chance(0.012)
			if long {
				maxDepth = []int{126, 130, 254, 258, 262, 300, 390}[rng.Intn(7)] + rng.Intn(4)
				maxOps = maxDepth + 8 + rng.Intn(40)
				tags["long-line"] = true
			}
			deepest := 0
			for len(ops) < maxOps {
				x := rng.Intn(100)
				if long && len(stack) < maxDepth && x < 26 {
					x = 26 + rng.Intn(74) // keep going down; a null move or a back-up only now and then
					if rng.Chance(0.04) {
						x = rng.Intn(26)
					}
				}
				switch {
				case x < 18 && len(stack) > 0:
					// back up
					f := stack[len(stack)-1]
					stack = stack[:len(stack)-1]
					if f.null {
						pending = opPop
						b.UndoNullMove(f.r)
						pending = 0
					} else {
						pending = opPop
						b.UndoMove(f.m, f.r)
						pending = 0
					}
					ops = append(ops, opPop)
				case x < 26 && len(stack) < maxDepth && !b.InCheck(b.STM):
					pending = opNull
					stack = append(stack, seqFrame{null: true, r: b.MakeNullMove()})
					pending = 0
					ops = append(ops, opNull)
					tags["null"] = true
				case len(stack) < maxDepth:
					ms := posgen.Pseudo(b)
					if len(ms) == 0 {
						maxOps = 0
						break
					}
					m := ms[rng.Intn(len(ms))]
					// an en-passant capture whenever there is one, half of the time
					if b.EnPassant != 0 && rng.Bool() {
						for _, x := range ms {
							if b.IsEnPassant(x) {
								m = x
							}
						}
					}
					// bias towards the moves with special undo paths
					for try := 0; try < 2; try++ {
						pc := b.SquaresToPiece[m.From()]
						if m.Promo() != NoPiece || b.IsEnPassant(m) || b.SquaresToPiece[m.To()] != NoPiece ||
							(pc == King && Abs(m.From()-m.To()) == 2) || (pc == Pawn && Abs(m.From()-m.To()) == 16) {
							break
						}
						if rng.Chance(0.5) {
							m = ms[rng.Intn(len(ms))]
						}
					}
					pc := b.SquaresToPiece[m.From()]
					switch {
					case b.IsEnPassant(m):
						tags["en-passant"] = true
					case m.Promo() != NoPiece:
						tags["promotion"] = true
					case pc == King && Abs(m.From()-m.To()) == 2:
						tags["castling"] = true
					case b.SquaresToPiece[m.To()] != NoPiece:
						tags["capture"] = true
					}
					me := b.STM
					pending = hx.M2U(m)
					r := b.MakeMove(m)
					pending = 0
					ops = append(ops, hx.M2U(m))
					if b.EnPassant != 0 {
						tags["sets-ep"] = true
					}
					if b.InCheck(me) {
						// pseudo-legal but illegal: the search undoes it immediately
						pending = opPop
						b.UndoMove(m, r)
						pending = 0
						ops = append(ops, opPop)
						tags["illegal-made-undone"] = true
					} else {
						stack = append(stack, seqFrame{m: m, r: r})
					}
				default:
					// at the depth limit: back up
					if len(stack) == 0 {
						maxOps = 0
						break
					}
					f := stack[len(stack)-1]
					stack = stack[:len(stack)-1]
					if f.null {
						pending = opPop
						b.UndoNullMove(f.r)
						pending = 0
					} else {
						pending = opPop
						b.UndoMove(f.m, f.r)
						pending = 0
					}
					ops = append(ops, opPop)
				}
				if len(stack) > deepest {
					deepest = len(stack)
				}
			}
			// restore the generator's board
			for len(stack) > 0 {
				f := stack[len(stack)-1]
				stack = stack[:len(stack)-1]
				if f.null {
					b.UndoNullMove(f.r)
				} else {
					b.UndoMove(f.m, f.r)
				}
			}
			if len(ops) == 0 {
				return
			}
			in.Int(len(ops)).U(ops...)
			var sb strings.Builder
			sb.WriteString(p.Desc() + " ops")
			for _, o := range ops {
				sb.WriteString(" " + opString(o))
			}
			tl := append(posgen.Tags(b), p.Kind)
			for t := range tags {
				tl = append(tl, t)
			}
			switch {
			case deepest <= 3:
				tl = append(tl, "depth<=3")
			case deepest <= 12:
				tl = append(tl, "depth<=12")
			case deepest <= 40:
				tl = append(tl, "depth>12")
			case deepest <= 128:
				tl = append(tl, "depth>40")
			case deepest <= 256:
				tl = append(tl, "depth>128")
			default:
				tl = append(tl, "depth>256")
			}
			emit(hx.Input{In: in.String(), Desc: sb.String(), Tags: tl, NonTrivial: true, Key: b.FEN() + sb.String()})
			cnt++
		})
	}
}

func runMktp(a hx.Args) string {
	out := &hx.Nums{}
	b0, i := a.Board(0)
	snap := b0.VerifSnapshot()
	for seq := 0; seq < 2; seq++ {
		b := board.VerifRestore(snap)
		n := a.Int(i)
		for k := 0; k < n; k++ {
			b.MakeMove(hx.U2M(a.U64(i + 1 + k)))
		}
		i += 1 + n
		out.BoardOutNoHist(b).U(uint64(b.Hash()))
	}
	return out.String()
}

func hasMove(ms []move.Move, m move.Move) bool {
	for _, x := range ms {
		if x == m {
			return true
		}
	}
	return false
}

// playLegal plays ms on a copy of the board behind snap; ok is false if one of them is not legal.
func playLegal(snap board.VerifSnap, ms []move.Move) (*board.Board, bool) {
	b := board.VerifRestore(snap)
	for _, m := range ms {
		if !hasMove(posgen.Legal(b), m) {
			return nil, false
		}
		b.MakeMove(m)
	}
	return b, true
}

func tpKey(b *board.Board) string {
	f := strings.Fields(b.FEN())
	return strings.Join(f[:4], " ")
}

// genMktp builds transposition pairs by permuting commuting moves: a b c d against c b a d
// (own moves swapped) and a b c d against a d c b (replies swapped); kept when both orders are
// legal. Pairs whose end positions differ (e.g. in the en-passant state) stay in the stream: the
// judge only demands equal hashes for equal keys, the model comparison covers the rest.
func genMktp(rng *hx.Rng, n int, tier string, emit func(hx.Input)) {
	cnt := 0
	// Family "ep-push" (added after seeded change C04-I): positions of C02's en-passant generator
	// (double pushes next to enemy pawns, with pins and discovered checks). Order 1 ENDS with the double
	// push (x y m: the en-passant state is visible), order 2 starts with it (m y x: the state is gone), so
	// an en-passant flag recorded without a legal capture makes two orders of one position hash apart.
	// When no commuting x, y exist the pair is m against m (the model comparison still sees the flag).
	for nEP := n / 5; cnt < nEP; {
		b, m, fen, ok := epPosition(rng)
		if !ok {
			continue
		}
		snap := b.VerifSnapshot()
		l1, l2 := []move.Move{m}, []move.Move{m}
		xs := posgen.Legal(b)
		for try := 0; try < 24 && len(xs) > 1; try++ {
			x := xs[rng.Intn(len(xs))]
			if x == m || b.SquaresToPiece[x.From()] == Pawn || b.SquaresToPiece[x.To()] != NoPiece {
				continue
			}
			bx, _ := playLegal(snap, []move.Move{x})
			ys := posgen.Legal(bx)
			if len(ys) == 0 {
				continue
			}
			y := ys[rng.Intn(len(ys))]
			if _, ok := playLegal(snap, []move.Move{x, y, m}); !ok {
				continue
			}
			if _, ok := playLegal(snap, []move.Move{m, y, x}); !ok {
				continue
			}
			l1, l2 = []move.Move{x, y, m}, []move.Move{m, y, x}
			break
		}
		b1, _ := playLegal(snap, l1)
		b2, _ := playLegal(snap, l2)
		same := tpKey(b1) == tpKey(b2)
		in := (&hx.Nums{}).BoardIn(board.VerifRestore(snap))
		var sb strings.Builder
		sb.WriteString("EP fen " + fen + " line1")
		in.Int(len(l1))
		for _, mv := range l1 {
			in.U(hx.M2U(mv))
			sb.WriteString(" " + mv.String())
		}
		sb.WriteString(" line2")
		in.Int(len(l2))
		for _, mv := range l2 {
			in.U(hx.M2U(mv))
			sb.WriteString(" " + mv.String())
		}
		tag := "same-position"
		if !same {
			tag = "different-position"
		}
		emit(hx.Input{In: in.String(), Desc: sb.String(), Tags: []string{tag, "ep-push"}, NonTrivial: same && len(l1) > 1,
			Key: tpKey(b1) + sb.String()})
		cnt++
	}
	// Family "ep-disc" (seeded change C04-I): a slider move x lines a rook or queen up BEHIND the origin square of
	// a double push m, the enemy king on the far side of that rank, an enemy pawn stepping next to the push target
	// with y. Order x y m ends with a discovered check through the origin square (no en-passant capture is legal:
	// none answers the check), order m y x reaches the same position without any en-passant state.
	for nDisc := cnt + n/10; cnt < nDisc; {
		var sq [64]byte
		f := 1 + rng.Intn(6)
		side := 1 - 2*rng.Intn(2)
		e := 1 - 2*rng.Intn(2)
		kx, sx := f+side*(1+rng.Intn(7)), f-side*(1+rng.Intn(7))
		if kx < 0 || kx > 7 || sx < 0 || sx > 7 {
			continue
		}
		r0 := []int{0, 2, 3, 4, 5, 6, 7}[rng.Intn(7)]
		at := func(x, y int) int { return y*8 + x }
		pieces := []struct {
			s int
			c byte
		}{{at(f, 1), 'P'}, {at(kx, 1), 'k'}, {at(sx, r0), "RQ"[rng.Intn(2)]}, {at(f+e, 4), 'p'}, {at(rng.Intn(8), 6+rng.Intn(2)), 'K'}}
		for i, n := 0, rng.Intn(4); i < n; i++ {
			pieces = append(pieces, struct {
				s int
				c byte
			}{8 + rng.Intn(48), "pnbPNB"[rng.Intn(6)]})
		}
		clash := false
		for _, pc := range pieces {
			if sq[pc.s] != 0 {
				clash = true
			}
			sq[pc.s] = pc.c
		}
		if clash {
			continue
		}
		xs, ys, ms := Square(at(sx, r0)), Square(at(f+e, 4)), Square(at(f, 1))
		xt, yt, mt := Square(at(sx, 1)), Square(at(f+e, 3)), Square(at(f, 3))
		stm := "w"
		if rng.Bool() {
			sq = mirrorSq(sq)
			stm = "b"
			xs, ys, ms, xt, yt, mt = xs^56, ys^56, ms^56, xt^56, yt^56, mt^56
		}
		fen := placementFEN(sq) + " " + stm + " - - " + fmt.Sprint(rng.Intn(40)) + " " + fmt.Sprint(1+rng.Intn(60))
		b, err := board.FromFEN(fen)
		if err != nil || !posgen.Valid(b) {
			continue
		}
		snap := b.VerifSnapshot()
		x, y, m := move.From(xs)|move.To(xt), move.From(ys)|move.To(yt), move.From(ms)|move.To(mt)
		l1, l2 := []move.Move{x, y, m}, []move.Move{m, y, x}
		b1, ok1 := playLegal(snap, l1)
		b2, ok2 := playLegal(snap, l2)
		if !ok1 || !ok2 {
			continue
		}
		same := tpKey(b1) == tpKey(b2)
		in := (&hx.Nums{}).BoardIn(board.VerifRestore(snap))
		var sb strings.Builder
		sb.WriteString("EPD fen " + fen + " line1")
		in.Int(3)
		for _, mv := range l1 {
			in.U(hx.M2U(mv))
			sb.WriteString(" " + mv.String())
		}
		sb.WriteString(" line2")
		in.Int(3)
		for _, mv := range l2 {
			in.U(hx.M2U(mv))
			sb.WriteString(" " + mv.String())
		}
		tag := "same-position"
		if !same {
			tag = "different-position"
		}
		emit(hx.Input{In: in.String(), Desc: sb.String(), Tags: []string{tag, "ep-disc"}, NonTrivial: true,
			Key: tpKey(b1) + sb.String()})
		cnt++
	}
	for cnt < n {
		posgen.Stream(rng, 40, func(p posgen.Pos) {
			if cnt >= n {
				return
			}
			snap := p.B.VerifSnapshot()
			for try := 0; try < 6 && cnt < n; try++ {
				b := board.VerifRestore(snap)
				var line []move.Move
				for k := 0; k < 4; k++ {
					ls := posgen.Legal(b)
					if len(ls) == 0 {
						break
					}
					m := ls[rng.Intn(len(ls))]
					line = append(line, m)
					b.MakeMove(m)
				}
				if len(line) < 4 {
					break
				}
				var alt []move.Move
				if rng.Bool() {
					alt = []move.Move{line[2], line[1], line[0], line[3]}
				} else {
					alt = []move.Move{line[0], line[3], line[2], line[1]}
				}
				if alt[0] == line[0] && alt[1] == line[1] {
					continue
				}
				b2, ok := playLegal(snap, alt)
				if !ok {
					continue
				}
				same := tpKey(b) == tpKey(b2)
				if !same && rng.Chance(0.8) {
					continue
				}
				in := (&hx.Nums{}).BoardIn(board.VerifRestore(snap))
				var sb strings.Builder
				sb.WriteString(p.Desc() + " line1")
				in.Int(4)
				for _, m := range line {
					in.U(hx.M2U(m))
					sb.WriteString(" " + m.String())
				}
				sb.WriteString(" line2")
				in.Int(4)
				for _, m := range alt {
					in.U(hx.M2U(m))
					sb.WriteString(" " + m.String())
				}
				tag := "same-position"
				if !same {
					tag = "different-position"
				}
				emit(hx.Input{In: in.String(), Desc: sb.String(), Tags: []string{tag, p.Kind}, NonTrivial: same,
					Key: tpKey(b) + sb.String()})
				cnt++
			}
		})
	}
}
