(* C01 stage (a): knights, bishops, rooks, queens and king steps - the generator's loops produce
   exactly the moves of the corresponding clause of [pseudo_spec]. *)
From Coq Require Import NArith ZArith List Bool Lia.
From Chess3 Require Import Base.Bits Model.Types Spec.Geometry Model.Att Model.BoardDef Model.Board
  Model.Movegen Spec.Chess Spec.Rep Proofs.GenBase Proofs.GenRep.
Import ListNotations.
Open Scope N_scope.

Lemma color_eqb_refl' c : color_eqb c c = true.
Proof. destruct c; reflexivity. Qed.
Lemma color_eqb_true a c : color_eqb a c = true <-> a = c.
Proof. destruct a, c; cbn; split; congruence. Qed.

Lemma Full_tb i : N.testbit Full i = (i <? 64).
Proof. apply ones64_tb. Qed.

(* moves without promotion piece: the encoding determines (from, to) *)
Lemma mv_fields (P : N -> N -> Prop) m : m < 32768 ->
  ((exists from to, from < 64 /\ to < 64 /\ P from to /\ m = mv from to) <->
   (P (mv_from m) (mv_to m) /\ mv_promo m = 0)).
Proof.
  intros Hm. split.
  - intros [from [to [Hf [Ht [HP ->]]]]]. unfold mv.
    rewrite mk_move_from, mk_move_to, mk_move_promo by (try assumption; reflexivity). tauto.
  - intros [HP Hpr]. exists (mv_from m), (mv_to m).
    split; [apply mv_from_lt|]. split; [apply mv_to_lt|]. split; [exact HP|].
    unfold mv. apply move_eq; auto.
Qed.

Lemma in_promo_list from to m : In m (promo_list from to) <->
  exists pr, is_promo_piece pr = true /\ m = mvp from to pr.
Proof.
  unfold promo_list. cbn [In]. split.
  - intros [H|[H|[H|[H|[]]]]]; subst m; eexists; (split; [|reflexivity]); reflexivity.
  - intros [pr [H ->]]. unfold is_promo_piece in H. rewrite !orb_true_iff, !N.eqb_eq in H.
    destruct H as [[[->| ->]| ->]| ->]; tauto.
Qed.

Lemma is_promo_piece_lt pr : is_promo_piece pr = true -> pr < 8.
Proof.
  unfold is_promo_piece. rewrite !orb_true_iff, !N.eqb_eq. unfold Knight, Bishop, Rook, Queen. lia.
Qed.

Lemma mvp_fields (P : N -> N -> Prop) m : m < 32768 ->
  ((exists from to, from < 64 /\ to < 64 /\ P from to /\ In m (promo_list from to)) <->
   (P (mv_from m) (mv_to m) /\ is_promo_piece (mv_promo m) = true)).
Proof.
  intros Hm. split.
  - intros [from [to [Hf [Ht [HP Hin]]]]]. apply in_promo_list in Hin. destruct Hin as [pr [Hpr ->]].
    pose proof (is_promo_piece_lt pr Hpr) as L. unfold mvp.
    rewrite mk_move_from, mk_move_to, mk_move_promo by assumption. tauto.
  - intros [HP Hpr]. exists (mv_from m), (mv_to m).
    split; [apply mv_from_lt|]. split; [apply mv_to_lt|]. split; [exact HP|].
    apply in_promo_list. exists (mv_promo m). split; [exact Hpr|]. unfold mvp. apply move_eq; auto.
Qed.

Section Pieces.
Variable b : board.
Hypothesis HR : PRep b.
Hypothesis HV : valid (abs b) = true.

Local Notation c := (stm b).
Local Notation self := (colors b (stm b)).
Local Notation them := (colors b (flip (stm b))).
Local Notation occ := (occupancy b).
Local Notation p := (abs b).

Lemma them_or_not to : to < 64 -> N.testbit them to = true \/ N.testbit (bnot them) to = true.
Proof.
  intros H. rewrite bnot_tb. apply N.ltb_lt in H. rewrite H.
  destruct (N.testbit them to); cbn; tauto.
Qed.

(* the double loop shared by the piece generators *)
Lemma loop_in (K : N) (att : N -> N) toMsk m :
  In m (for_bits (band (band self (pieces b K)) Full)
          (fun from => to_loop from (band (band (att from) (bnot self)) toMsk))) <->
  exists from to, from < 64 /\ to < 64 /\
    (N.testbit self from = true /\ N.testbit (pieces b K) from = true /\
     N.testbit (att from) to = true /\ N.testbit self to = false /\ N.testbit toMsk to = true) /\
    m = mv from to.
Proof.
  rewrite in_for_bits. split.
  - intros [from [H1 H2]]. apply in_to_loop in H2. destruct H2 as [to [H3 ->]].
    rewrite !band_tb, Full_tb in H1. rewrite !band_tb, bnot_tb in H3.
    rewrite !andb_true_iff in H1. rewrite !andb_true_iff in H3.
    destruct H1 as [[A1 A2] A3]. destruct H3 as [[B1 [B2 B3]] B4].
    apply N.ltb_lt in A3, B3. apply negb_true_iff in B2.
    exists from, to. tauto.
  - intros [from [to [Hf [Ht [[A1 [A2 [A3 [A4 A5]]]] ->]]]]]. exists from. split.
    + rewrite !band_tb, Full_tb, A1, A2. apply N.ltb_lt in Hf. rewrite Hf. reflexivity.
    + apply in_to_loop. exists to. split; [|reflexivity].
      rewrite !band_tb, bnot_tb, A3, A4, A5. apply N.ltb_lt in Ht. rewrite Ht. reflexivity.
Qed.

(* both halves together: target either an enemy piece or not *)
Lemma loop_both (K : N) (att : N -> N) m : m < 32768 ->
  (In m (for_bits (band (band self (pieces b K)) Full)
          (fun from => to_loop from (band (band (att from) (bnot self)) them))) \/
   In m (for_bits (band (band self (pieces b K)) Full)
          (fun from => to_loop from (band (band (att from) (bnot self)) (bnot them))))) <->
  (N.testbit self (mv_from m) = true /\ N.testbit (pieces b K) (mv_from m) = true /\
   N.testbit (att (mv_from m)) (mv_to m) = true /\ N.testbit self (mv_to m) = false /\ mv_promo m = 0).
Proof.
  intros Hm. rewrite !loop_in.
  rewrite (mv_fields (fun from to => N.testbit self from = true /\ N.testbit (pieces b K) from = true /\
     N.testbit (att from) to = true /\ N.testbit self to = false /\ N.testbit them to = true) m Hm).
  rewrite (mv_fields (fun from to => N.testbit self from = true /\ N.testbit (pieces b K) from = true /\
     N.testbit (att from) to = true /\ N.testbit self to = false /\ N.testbit (bnot them) to = true) m Hm).
  pose proof (them_or_not (mv_to m) (mv_to_lt m)). tauto.
Qed.

(* the clause of the specification for a piece that is neither pawn nor king *)
Lemma pseudo_simple m K : K = Knight \/ K = Bishop \/ K = Rook \/ K = Queen ->
  who p (mv_from m) = Some (c, K) ->
  (pseudo_spec p m = true <->
   (N.testbit self (mv_to m) = false /\ mv_promo m = 0 /\
    N.testbit (attacks_from c K (mv_from m) occ) (mv_to m) = true)).
Proof.
  intros HK Hw. unfold pseudo_spec. rewrite Hw. cbn [turn abs].
  rewrite color_eqb_refl', (owned_abs b HR), (occ_abs b HR). cbn [andb].
  assert (E1 : (K =? Pawn) = false) by (destruct HK as [->|[->|[->| ->]]]; reflexivity).
  assert (E2 : (K =? King) = false) by (destruct HK as [->|[->|[->| ->]]]; reflexivity).
  rewrite E1, E2. unfold mem. rewrite !andb_true_iff, negb_true_iff, N.eqb_eq. tauto.
Qed.

Lemma who_self_iff s K : 1 <= K <= 6 ->
  (who p s = Some (c, K) <-> N.testbit self s = true /\ N.testbit (pieces b K) s = true).
Proof. intros HK. rewrite (who_some b HR). tauto. Qed.

Lemma queen_tb from to :
  N.testbit (bor (bishop_moves from occ) (rook_moves from occ)) to =
  N.testbit (attacks_from c Queen from occ) to.
Proof.
  unfold attacks_from. change (Queen =? Pawn) with false. change (Queen =? Knight) with false.
  change (Queen =? Bishop) with false. change (Queen =? Rook) with false. change (Queen =? Queen) with true.
  cbv iota. unfold queen_attacks, bishop_moves, rook_moves. rewrite bor_tb, N.lor_spec. apply orb_comm.
Qed.

Definition simple_moves (K : N) (toMsk : N) : list N :=
  if K =? Knight then gen_knight_moves (gen_of b) b Full toMsk
  else if K =? Bishop then gen_bishop_moves (gen_of b) b Full toMsk
  else if K =? Rook then gen_rook_moves (gen_of b) b Full toMsk
  else gen_queen_moves (gen_of b) b Full toMsk.

Lemma gen_simple_iff m K : m < 32768 -> K = Knight \/ K = Bishop \/ K = Rook \/ K = Queen ->
  ((In m (simple_moves K them) \/ In m (simple_moves K (bnot them))) <->
   (who p (mv_from m) = Some (c, K) /\ pseudo_spec p m = true)).
Proof.
  intros Hm HK.
  assert (HK6 : 1 <= K <= 6) by (destruct HK as [->|[->|[->| ->]]]; unfold Knight, Bishop, Rook, Queen; lia).
  assert (G : (In m (simple_moves K them) \/ In m (simple_moves K (bnot them))) <->
     (N.testbit self (mv_from m) = true /\ N.testbit (pieces b K) (mv_from m) = true /\
      N.testbit (attacks_from c K (mv_from m) occ) (mv_to m) = true /\
      N.testbit self (mv_to m) = false /\ mv_promo m = 0)).
  { destruct HK as [->|[->|[->| ->]]]; unfold simple_moves; cbn [N.eqb Knight Bishop Rook Queen Pos.eqb];
      [unfold gen_knight_moves|unfold gen_bishop_moves|unfold gen_rook_moves|unfold gen_queen_moves];
      cbn [g_self g_them g_occ gen_of]; fold occ.
    - apply (loop_both Knight knight_moves m Hm).
    - apply (loop_both Bishop (fun from => bishop_moves from occ) m Hm).
    - apply (loop_both Rook (fun from => rook_moves from occ) m Hm).
    - rewrite (loop_both Queen (fun from => bor (bishop_moves from occ) (rook_moves from occ)) m Hm).
      rewrite queen_tb. tauto. }
  rewrite G. rewrite (who_self_iff (mv_from m) K HK6). split.
  - intros [A [B [C [D E]]]]. split; [tauto|].
    apply (pseudo_simple m K HK); [apply who_self_iff; tauto|tauto].
  - intros [[A B] P]. apply (pseudo_simple m K HK) in P; [tauto|apply who_self_iff; tauto].
Qed.

(* ---------------------------------------------------------------------------------------- *)
(* king steps *)

Lemma self_king_bit : exists k, k < 64 /\ band self (pieces b King) = bit k /\
  (forall s, holds p s c King = true <-> s = k).
Proof.
  destruct (king_unique b c HR HV) as [k [K1 [K2 K3]]]. exists k. split; [exact K1|]. split; [|exact K3].
  apply eq_bit. intros i. rewrite <- K3, (holds_abs b HR) by (unfold King; lia).
  rewrite band_tb, andb_comm. tauto.
Qed.

Lemma gen_king_in toMsk m :
  In m (gen_king_moves (gen_of b) b Full toMsk) <->
  exists from to, from < 64 /\ to < 64 /\
    (N.testbit self from = true /\ N.testbit (pieces b King) from = true /\
     N.testbit (king_moves from) to = true /\ N.testbit self to = false /\ N.testbit toMsk to = true) /\
    m = mv from to.
Proof.
  destruct self_king_bit as [k [K1 [K2 K3]]].
  unfold gen_king_moves. cbn [g_self g_them g_occ gen_of].
  assert (E : band (band self (pieces b King)) Full = bit k).
  { rewrite K2. apply bits_ext. intros i. rewrite band_tb, Full_tb, bit_testbit.
    destruct (N.eqb_spec k i) as [<-|]; [|reflexivity]. apply N.ltb_lt in K1. rewrite K1. reflexivity. }
  rewrite E. assert (Hnz : (bit k =? 0) = false).
  { apply eqb0_false_iff. exists k. rewrite bit_testbit. apply N.eqb_refl. }
  rewrite Hnz, lsb_bit. rewrite in_to_loop. split.
  - intros [to [H ->]]. rewrite !band_tb, bnot_tb, !andb_true_iff in H.
    destruct H as [[B1 [B2 B3]] B4]. apply N.ltb_lt in B3. apply negb_true_iff in B2.
    exists k, to. split; [exact K1|]. split; [exact B3|]. split; [|reflexivity].
    assert (T : N.testbit (band self (pieces b King)) k = true) by (rewrite K2, bit_testbit; apply N.eqb_refl).
    rewrite band_tb, andb_true_iff in T. tauto.
  - intros [from [to [Hf [Ht [[A1 [A2 [A3 [A4 A5]]]] ->]]]]].
    assert (from = k).
    { assert (T : N.testbit (band self (pieces b King)) from = true) by (rewrite band_tb, A1, A2; reflexivity).
      rewrite K2, bit_testbit in T. apply N.eqb_eq in T. congruence. }
    subst from. exists to. split; [|reflexivity].
    rewrite !band_tb, bnot_tb, A3, A4, A5. apply N.ltb_lt in Ht. rewrite Ht. reflexivity.
Qed.

Lemma gen_king_both m : m < 32768 ->
  (In m (gen_king_moves (gen_of b) b Full them) \/ In m (gen_king_moves (gen_of b) b Full (bnot them))) <->
  (N.testbit self (mv_from m) = true /\ N.testbit (pieces b King) (mv_from m) = true /\
   N.testbit (king_attacks (mv_from m)) (mv_to m) = true /\ N.testbit self (mv_to m) = false /\ mv_promo m = 0).
Proof.
  intros Hm. rewrite !gen_king_in.
  rewrite (mv_fields (fun from to => N.testbit self from = true /\ N.testbit (pieces b King) from = true /\
     N.testbit (king_moves from) to = true /\ N.testbit self to = false /\ N.testbit them to = true) m Hm).
  rewrite (mv_fields (fun from to => N.testbit self from = true /\ N.testbit (pieces b King) from = true /\
     N.testbit (king_moves from) to = true /\ N.testbit self to = false /\ N.testbit (bnot them) to = true) m Hm).
  pose proof (them_or_not (mv_to m) (mv_to_lt m)). unfold king_moves. tauto.
Qed.

(* the king clause of the specification *)
Lemma pseudo_king m : who p (mv_from m) = Some (c, King) ->
  (pseudo_spec p m = true <->
   (N.testbit self (mv_to m) = false /\ mv_promo m = 0 /\
    (N.testbit (king_attacks (mv_from m)) (mv_to m) = true \/
     (mv_from m = king_home c /\
      ((mv_to m = mv_from m + 2 /\ castle_ok p false = true) \/
       (mv_to m + 2 = mv_from m /\ castle_ok p true = true)))))).
Proof.
  intros Hw. unfold pseudo_spec. rewrite Hw. cbn [turn abs].
  rewrite color_eqb_refl', (owned_abs b HR). cbn [andb].
  change (King =? Pawn) with false. change (King =? King) with true. cbv iota. unfold mem.
  rewrite !andb_true_iff, negb_true_iff, !orb_true_iff, !andb_true_iff, !N.eqb_eq. tauto.
Qed.

End Pieces.
