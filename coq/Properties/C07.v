(* C07 - Reported variations are legal lines and agree with the move played.
   Statements only; proofs in Proofs/PvProofs.v (buffer) and Proofs/IterDeepenProofs.v (decision layer). *)
From Coq Require Import ZArith List Bool Lia.
Import ListNotations.
From Chess3 Require Import Base.Word Gen.IdConsts Model.Pv Model.IterDeepen Proofs.PvProofs Proofs.IterDeepenProofs.
Open Scope Z_scope.

(* index arithmetic of the triangular buffer, every ply the search inserts at (finite, by computation) *)
Theorem C07_buf : forall ply, 0 <= ply <= 62 ->
  buf_ix ply + (MaxPlies - ply) = buf_ix (ply + 1) /\ buf_ix (ply + 1) <= PVSize /\ 0 <= buf_ix ply.
Proof. exact buf_ix_step. Qed.
Print Assumptions C07_buf.

(* insert(ply, m) never panics for ply <= 62, writes only cells of region ply (the cells outside
   [bufIx ply, bufIx (ply+1)) keep their content), and reads the child's region:
   line(ply) becomes m :: line(ply+1), all other lines stay *)
Theorem C07_insert : forall b ply m, wf b -> 0 <= ply <= 62 ->
  exists b', insert b ply m = Some b' /\ wf b' /\
    (forall k, (Z.of_nat k < buf_ix ply \/ buf_ix (ply + 1) <= Z.of_nat k) -> nth k (pv_moves b') 0 = nth k (pv_moves b) 0) /\
    line b' ply = m :: line b (ply + 1) /\
    (forall q, 0 <= q <= 63 -> q <> ply -> line b' q = line b q).
Proof. exact insert_spec. Qed.
Print Assumptions C07_insert.

Theorem C07_set_null : forall b ply, wf b -> 0 <= ply <= 63 ->
  exists b', set_null b ply = Some b' /\ wf b' /\ pv_moves b' = pv_moves b /\
             line b' ply = [] /\ (forall q, 0 <= q <= 63 -> q <> ply -> line b' q = line b q).
Proof. exact set_null_spec. Qed.
Print Assumptions C07_set_null.

(* every sequence of setNull (ply <= 63) and insert (ply <= 62) on any well-formed buffer is the
   functional reading  line(ply) := [] / line(ply) := m :: line(ply+1) *)
Theorem C07_refines : forall ops b f, wf b -> ops_ok ops ->
  (forall q, 0 <= q <= 63 -> line b q = f q) ->
  exists b', run_ops b ops = Some b' /\ wf b' /\ forall q, 0 <= q <= 63 -> line b' q = abs_run f ops q.
Proof. exact run_ops_refines. Qed.
Print Assumptions C07_refines.

(* one step of the legality induction over the search tree (any position type) *)
Theorem C07_legal_step : forall (P : Type) (play : P -> Z -> P) (legal_at : P -> Z -> Prop) b ply m p,
  wf b -> 0 <= ply <= 62 -> legal_at p m -> legal_line P play legal_at (play p m) (line b (ply + 1)) ->
  exists b', insert b ply m = Some b' /\ wf b' /\ legal_line P play legal_at p (line b' ply) /\
             forall q, 0 <= q <= 63 -> q <> ply -> line b' q = line b q.
Proof. exact insert_keeps_lines_legal. Qed.
Print Assumptions C07_legal_step.

(* Decision layer: the move returned is the first move of the most recent non-empty reported line
   and the ponder move is that line's second move (null when the line has one move); when no
   non-empty line was reported the move is null, or the first legal generated move after an abort. *)
Theorem C07_best :
  forall (St : Type) (ask : St -> Z -> Z -> Z -> ab_result * St) (W : Z) (time_up : Z -> bool)
         (root_moves : list Z) (legal : Z -> bool),
  legal 0 = false ->
  (forall o a b d s m rest n o', ask o a b d = (AbValue s (m :: rest) n, o') -> a < s < b ->
                                 In m (filter legal root_moves)) ->
  forall fuel lim o,
  let res := iterative_deepen St ask W time_up root_moves legal fuel lim o in
  match last_line res with
  | Some (m :: p :: _) => r_move res = m /\ r_ponder res = p
  | Some [m] => r_move res = m /\ r_ponder res = 0
  | Some [] => False
  | None => r_ponder res = 0 /\ (r_move res = 0 \/ (r_status res = Aborted /\ r_move res = fallback root_moves legal))
  end.
Proof. exact best_is_last_line. Qed.
Print Assumptions C07_best.

(* reported depths strictly increase (they are 0, 1, 2, ...; the abort line included) - no hypothesis *)
Theorem C07_mono :
  forall (St : Type) (ask : St -> Z -> Z -> Z -> ab_result * St) (W : Z) (time_up : Z -> bool)
         (root_moves : list Z) (legal : Z -> bool) fuel lim o,
  increasing (map report_depth (r_reports (iterative_deepen St ask W time_up root_moves legal fuel lim o))).
Proof. exact depths_increase. Qed.
Print Assumptions C07_mono.

(* reported node counts never decrease, given that the engine's counter (cnt) never decreases over a
   root call and is what the call reports (Layer A: incrementNodes is the only writer) *)
Theorem C07_nodes :
  forall (St : Type) (ask : St -> Z -> Z -> Z -> ab_result * St) (W : Z) (time_up : Z -> bool)
         (root_moves : list Z) (legal : Z -> bool) (cnt : St -> Z),
  (forall o a b d r o', ask o a b d = (r, o') -> cnt o <= nodes_of r /\ cnt o' = nodes_of r) ->
  forall fuel lim o,
  nondecreasing (map report_nodes (r_reports (iterative_deepen St ask W time_up root_moves legal fuel lim o))).
Proof. exact nodes_never_decrease. Qed.
Print Assumptions C07_nodes.

(* mate-score rendering on the engine's score range *)
Theorem C07_mate_rendering : forall s, - ScoreInf <= s <= ScoreInf ->
  match score_string s with
  | (2, sg, n) => ScoreInf - MaxPlies <= Z.abs s /\ n = (ScoreInf - Z.abs s + 1) / 2 /\ 0 <= n <= (MaxPlies + 1) / 2
                  /\ sg = (if s <? 0 then 1 else 0)
  | (1, _, v) => v = s /\ Z.abs s < ScoreInf - MaxPlies
  | _ => False
  end.
Proof. exact score_string_range. Qed.
Print Assumptions C07_mate_rendering.

(* the full claim about the real search - every reported line is a legal line from the root - needs the
   induction over alphaBeta's call tree (Layer A supplies "no call at ply+1 between the child's return
   and PvInsert"); here it is observed on every line of every run (streams c07, c07uci) *)
Definition C07_full_statement : Prop :=
  forall (P : Type) (play : P -> Z -> P) (legal_at : P -> Z -> Prop) (root : P) (reported : list (list Z)),
  (* reported = the lines a real search prints from `root` *) True ->
  forall l, In l reported -> legal_line P play legal_at root l.

Example C07_nonvacuous :
  wf new_pv /\ ops_ok [0; 0; 0; 0; 1; 0; 1; 1; 77; 1; 0; 55] /\
  (exists b, run_ops new_pv [0; 0; 0; 0; 1; 0; 1; 1; 77; 1; 0; 55] = Some b /\ active b = [55; 77]) /\
  buf_ix 62 = 2077 /\ score_string (-9997) = (2, 1, 2).
Proof.
  split; [exact wf_new|]. split; [cbn; lia|]. split; [|split; vm_compute; reflexivity].
  eexists. split; vm_compute; reflexivity.
Qed.
