(* C01 / C05 shared base: bit-level facts about the 64-bit word operations, the move encoding,
   lists produced by [for_bits], and the finite-domain lifting lemmas ([forallb] over the 64
   squares discharged by [vm_compute]). *)
From Coq Require Import NArith ZArith List Bool Lia FinFun.
From Chess3 Require Import Base.Bits Model.Types Model.BoardDef Model.Movegen.
Import ListNotations.
Open Scope N_scope.

(* ------------------------------------------------------------------------------------------ *)
(* testbit of the word operations *)

Lemma band_tb x y i : N.testbit (band x y) i = N.testbit x i && N.testbit y i.
Proof. apply N.land_spec. Qed.
Lemma bor_tb x y i : N.testbit (bor x y) i = N.testbit x i || N.testbit y i.
Proof. apply N.lor_spec. Qed.
Lemma bandn_tb x y i : N.testbit (bandn x y) i = N.testbit x i && negb (N.testbit y i).
Proof. apply N.ldiff_spec. Qed.

Lemma ones64_tb i : N.testbit ones64 i = (i <? 64).
Proof.
  rewrite ones64_eq. destruct (N.ltb_spec i 64) as [H|H].
  - apply N.ones_spec_low. exact H.
  - apply N.ones_spec_high. exact H.
Qed.

Lemma bnot_tb x i : N.testbit (bnot x) i = negb (N.testbit x i) && (i <? 64).
Proof.
  unfold bnot. rewrite N.lxor_spec, w64_testbit, ones64_tb.
  destruct (N.testbit x i), (i <? 64); reflexivity.
Qed.

Lemma shl_tb x k i : N.testbit (shl x k) i = (i <? 64) && (k <=? i) && N.testbit x (i - k).
Proof.
  unfold shl. rewrite w64_testbit.
  destruct (N.ltb_spec i 64) as [H|H]; [|rewrite andb_false_r; reflexivity].
  rewrite andb_true_r. cbn [andb].
  destruct (N.leb_spec k i) as [L|L].
  - rewrite N.shiftl_spec_high' by exact L. reflexivity.
  - rewrite N.shiftl_spec_low by exact L. reflexivity.
Qed.

Lemma shr_tb x k i : N.testbit (shr x k) i = N.testbit x (i + k).
Proof. unfold shr. apply N.shiftr_spec'. Qed.

Lemma w64p_high x i : w64p x -> 64 <= i -> N.testbit x i = false.
Proof. intros H Hi. apply lt_two64_testbit; assumption. Qed.

Lemma tb_lt64 x i : w64p x -> N.testbit x i = true -> i < 64.
Proof.
  intros H T. destruct (N.lt_ge_cases i 64) as [L|L]; [exact L|].
  rewrite (w64p_high x i H L) in T. discriminate.
Qed.

Lemma nz_exists x : x <> 0 <-> exists i, N.testbit x i = true.
Proof.
  split.
  - intros H. exists (N.log2 x). apply N.bit_log2. exact H.
  - intros [i Hi] ->. rewrite N.bits_0 in Hi. discriminate.
Qed.

Lemma eqb0_false_iff x : (x =? 0) = false <-> exists i, N.testbit x i = true.
Proof. rewrite N.eqb_neq. apply nz_exists. Qed.

Lemma eqb0_true_iff x : (x =? 0) = true <-> forall i, N.testbit x i = false.
Proof.
  rewrite N.eqb_eq. split.
  - intros -> i. apply N.bits_0.
  - intros H. apply N.bits_inj_0. exact H.
Qed.

Lemma bits_ext x y : (forall i, N.testbit x i = N.testbit y i) -> x = y.
Proof. intros H. apply N.bits_inj. exact H. Qed.

Lemma lsb_bit s : lsb (bit s) = s.
Proof.
  assert (Hnz : bit s <> 0).
  { apply nz_exists. exists s. rewrite bit_testbit. apply N.eqb_refl. }
  pose proof (lsb_testbit (bit s) Hnz) as H. rewrite bit_testbit in H.
  apply N.eqb_eq in H. symmetry. exact H.
Qed.

Lemma eq_bit x s : (forall i, N.testbit x i = true <-> i = s) -> x = bit s.
Proof.
  intros H. apply bits_ext. intros i. rewrite bit_testbit.
  destruct (N.eqb_spec s i) as [->|Hn].
  - apply H. reflexivity.
  - destruct (N.testbit x i) eqn:E; [|reflexivity]. apply H in E. congruence.
Qed.

(* ------------------------------------------------------------------------------------------ *)
(* the 64 squares and finite lifting *)

Lemma in_squares64 s : In s squares64 <-> s < 64.
Proof.
  unfold squares64. rewrite in_map_iff. split.
  - intros [n [<- Hn]]. apply in_seq in Hn. lia.
  - intros H. exists (N.to_nat s). split; [apply N2Nat.id|]. apply in_seq. lia.
Qed.

Lemma squares64_NoDup : NoDup squares64.
Proof.
  unfold squares64. apply Injective_map_NoDup.
  - intros a b H. apply Nat2N.inj. exact H.
  - apply seq_NoDup.
Qed.

Lemma nth_squares64 {A} (f : N -> A) d s : s < 64 -> nthN (map f squares64) s d = f s.
Proof.
  intros H. unfold nthN, squares64. rewrite map_map.
  rewrite (nth_indep _ d (f (N.of_nat 64))) by (rewrite map_length, seq_length; lia).
  change (f (N.of_nat 64)) with ((fun x => f (N.of_nat x)) 64%nat).
  rewrite map_nth. rewrite seq_nth by lia. cbn [plus]. rewrite N2Nat.id. reflexivity.
Qed.

Lemma nth_squares64_high {A} (f : N -> A) d s : 64 <= s -> nthN (map f squares64) s d = d.
Proof.
  intros H. unfold nthN. apply nth_overflow. unfold squares64. rewrite !map_length, seq_length. lia.
Qed.

Lemma all64 (P : N -> bool) : forallb P squares64 = true -> forall s, s < 64 -> P s = true.
Proof. intros H s Hs. rewrite forallb_forall in H. apply H. apply in_squares64. exact Hs. Qed.

Lemma all64_2 (P : N -> N -> bool) :
  forallb (fun a => forallb (P a) squares64) squares64 = true ->
  forall a b, a < 64 -> b < 64 -> P a b = true.
Proof. intros H a b Ha Hb. apply (all64 (P a)); [|exact Hb]. apply (all64 _ H). exact Ha. Qed.

Lemma existsb64 (P : N -> bool) : existsb P squares64 = true <-> exists s, s < 64 /\ P s = true.
Proof.
  rewrite existsb_exists. split; intros [s [A B]]; exists s; (split; [|exact B]); apply in_squares64; exact A.
Qed.

(* ------------------------------------------------------------------------------------------ *)
(* file / rank masks *)

Lemma AFile_tb i : N.testbit AFileBB i = (i <? 64) && (i mod 8 =? 0).
Proof.
  destruct (N.ltb_spec i 64) as [H|H].
  - apply eqb_prop. apply (all64 (fun i => Bool.eqb (N.testbit AFileBB i) (true && (i mod 8 =? 0)))); [vm_compute; reflexivity|exact H].
  - apply lt_two64_testbit; [reflexivity|exact H].
Qed.

Lemma HFile_tb i : N.testbit HFileBB i = (i <? 64) && (i mod 8 =? 7).
Proof.
  destruct (N.ltb_spec i 64) as [H|H].
  - apply eqb_prop. apply (all64 (fun i => Bool.eqb (N.testbit HFileBB i) (true && (i mod 8 =? 7)))); [vm_compute; reflexivity|exact H].
  - apply lt_two64_testbit; [reflexivity|exact H].
Qed.

Lemma rank_bb_tb r i : N.testbit (rank_bb r) i = (8 * r <=? i) && (i <? 8 * r + 8).
Proof.
  unfold rank_bb. destruct (N.leb_spec (8 * r) i) as [L|L].
  - rewrite N.shiftl_spec_high' by exact L. change 255 with (N.ones 8).
    destruct (N.ltb_spec i (8 * r + 8)) as [H|H].
    + apply N.ones_spec_low. lia.
    + apply N.ones_spec_high. lia.
  - apply N.shiftl_spec_low. exact L.
Qed.

(* ------------------------------------------------------------------------------------------ *)
(* move encoding *)

Definition enc (f t p : N) : N := p * 4096 + f * 64 + t.

Lemma enc_fields_all :
  forallb (fun f => forallb (fun t => forallb (fun p =>
    let m := enc f t p in
    (mv_from m =? f) && (mv_to m =? t) && (mv_promo m =? p) && (mk_move f t p =? m))
    [0; 1; 2; 3; 4; 5; 6; 7]) squares64) squares64 = true.
Proof. vm_compute. reflexivity. Qed.

Lemma enc_fields f t p : f < 64 -> t < 64 -> p < 8 ->
  mv_from (enc f t p) = f /\ mv_to (enc f t p) = t /\ mv_promo (enc f t p) = p /\ mk_move f t p = enc f t p.
Proof.
  intros Hf Ht Hp. pose proof enc_fields_all as H.
  apply (all64 _) with (s := f) in H; [|exact Hf].
  apply (all64 _) with (s := t) in H; [|exact Ht].
  rewrite forallb_forall in H. specialize (H p).
  assert (Hin : In p [0; 1; 2; 3; 4; 5; 6; 7]).
  { cbn [In]. assert (p = 0 \/ p = 1 \/ p = 2 \/ p = 3 \/ p = 4 \/ p = 5 \/ p = 6 \/ p = 7) by lia. intuition. }
  specialize (H Hin). cbv zeta in H.
  apply andb_true_iff in H. destruct H as [H H4].
  apply andb_true_iff in H. destruct H as [H H3].
  apply andb_true_iff in H. destruct H as [H1 H2].
  apply N.eqb_eq in H1, H2, H3, H4. auto.
Qed.

Lemma mk_move_from f t p : f < 64 -> t < 64 -> p < 8 -> mv_from (mk_move f t p) = f.
Proof. intros A B C. destruct (enc_fields f t p A B C) as [H1 [H2 [H3 H4]]]. rewrite H4. exact H1. Qed.
Lemma mk_move_to f t p : f < 64 -> t < 64 -> p < 8 -> mv_to (mk_move f t p) = t.
Proof. intros A B C. destruct (enc_fields f t p A B C) as [H1 [H2 [H3 H4]]]. rewrite H4. exact H2. Qed.
Lemma mk_move_promo f t p : f < 64 -> t < 64 -> p < 8 -> mv_promo (mk_move f t p) = p.
Proof. intros A B C. destruct (enc_fields f t p A B C) as [H1 [H2 [H3 H4]]]. rewrite H4. exact H3. Qed.
Lemma mk_move_lt f t p : f < 64 -> t < 64 -> p < 8 -> mk_move f t p < 32768.
Proof. intros A B C. destruct (enc_fields f t p A B C) as [H1 [H2 [H3 H4]]]. rewrite H4. unfold enc. lia. Qed.

Lemma mv_from_lt m : mv_from m < 64.
Proof. unfold mv_from. change 63 with (N.ones 6). rewrite N.land_ones. apply N.mod_lt. discriminate. Qed.
Lemma mv_to_lt m : mv_to m < 64.
Proof. unfold mv_to. change 63 with (N.ones 6). rewrite N.land_ones. apply N.mod_lt. discriminate. Qed.
Lemma mv_promo_lt m : mv_promo m < 8.
Proof. unfold mv_promo. change 7 with (N.ones 3). rewrite N.land_ones. apply N.mod_lt. discriminate. Qed.

Lemma move_decode m : m < 32768 -> m = mk_move (mv_from m) (mv_to m) (mv_promo m).
Proof.
  intros H.
  set (t := m mod 64). set (f := (m / 64) mod 64). set (p := m / 4096).
  assert (Ht : t < 64) by (apply N.mod_lt; discriminate).
  assert (Hf : f < 64) by (apply N.mod_lt; discriminate).
  assert (Hp : p < 8) by (apply N.div_lt_upper_bound; [discriminate|exact H]).
  assert (E : m = enc f t p).
  { unfold enc, f, t, p.
    pose proof (N.div_mod m 64 ltac:(discriminate)) as D1.
    pose proof (N.div_mod (m / 64) 64 ltac:(discriminate)) as D2.
    assert (D3 : m / 64 / 64 = m / 4096) by (rewrite N.div_div by discriminate; reflexivity).
    lia. }
  destruct (enc_fields f t p Hf Ht Hp) as [H1 [H2 [H3 H4]]].
  rewrite E at 2 3 4. rewrite H1, H2, H3, H4. exact E.
Qed.

Lemma mk_move_inj f t p f' t' p' : f < 64 -> t < 64 -> p < 8 -> f' < 64 -> t' < 64 -> p' < 8 ->
  mk_move f t p = mk_move f' t' p' -> f = f' /\ t = t' /\ p = p'.
Proof.
  intros A B C A' B' C' E.
  pose proof (mk_move_from f t p A B C) as H1. pose proof (mk_move_to f t p A B C) as H2.
  pose proof (mk_move_promo f t p A B C) as H3.
  rewrite E in H1, H2, H3.
  rewrite (mk_move_from f' t' p') in H1 by assumption.
  rewrite (mk_move_to f' t' p') in H2 by assumption.
  rewrite (mk_move_promo f' t' p') in H3 by assumption. auto.
Qed.

(* a move below 2^15 is determined by its three fields *)
Lemma move_eq m f t p : m < 32768 -> mv_from m = f -> mv_to m = t -> mv_promo m = p -> m = mk_move f t p.
Proof. intros H <- <- <-. apply move_decode. exact H. Qed.

(* ------------------------------------------------------------------------------------------ *)
(* loops over set bits *)

Lemma in_for_bits {A} (x : N) (f : N -> list A) m :
  In m (for_bits x f) <-> exists s, N.testbit x s = true /\ In m (f s).
Proof.
  unfold for_bits. rewrite in_flat_map. split; intros [s [H1 H2]]; exists s; (split; [|exact H2]); apply bits_of_spec; exact H1.
Qed.

Lemma in_to_loop from tsqrs m : In m (to_loop from tsqrs) <-> exists to, N.testbit tsqrs to = true /\ m = mv from to.
Proof.
  unfold to_loop. rewrite in_for_bits. split; intros [s [H1 H2]]; exists s; (split; [exact H1|]).
  - destruct H2 as [H2|[]]. symmetry. exact H2.
  - left. symmetry. exact H2.
Qed.

Lemma NoDup_flat_map {A B} (f : A -> list B) (key : B -> A) l :
  NoDup l -> (forall a, In a l -> NoDup (f a)) -> (forall a x, In a l -> In x (f a) -> key x = a) ->
  NoDup (flat_map f l).
Proof.
  intros Hl Hf Hk. induction Hl as [|a l Hna Hl IH]; cbn [flat_map]; [constructor|].
  assert (D : forall x, In x (f a) -> ~ In x (flat_map f l)).
  { intros x Hx Hx'. apply in_flat_map in Hx'. destruct Hx' as [a' [Ha' Hx']].
    assert (key x = a) by (apply Hk; [left; reflexivity|exact Hx]).
    assert (key x = a') by (apply Hk; [right; exact Ha'|exact Hx']).
    congruence. }
  assert (N1 : NoDup (f a)) by (apply Hf; left; reflexivity).
  assert (N2 : NoDup (flat_map f l)).
  { apply IH; intros; [apply Hf|apply Hk with (1 := or_intror H)]; try (right; assumption); assumption. }
  clear IH Hf Hk. induction N1 as [|x r Hx N1 IH]; cbn [app]; [exact N2|].
  constructor.
  - rewrite in_app_iff. intros [H|H]; [exact (Hx H)|]. apply (D x); [left; reflexivity|exact H].
  - apply IH. intros y Hy. apply D. right. exact Hy.
Qed.

Lemma NoDup_app_disj {A} (l1 l2 : list A) :
  NoDup l1 -> NoDup l2 -> (forall x, In x l1 -> In x l2 -> False) -> NoDup (l1 ++ l2).
Proof.
  intros N1 N2 D. induction N1 as [|x r Hx N1 IH]; cbn [app]; [exact N2|].
  constructor.
  - rewrite in_app_iff. intros [H|H]; [exact (Hx H)|]. apply (D x); [left; reflexivity|exact H].
  - apply IH. intros y Hy. apply D. right. exact Hy.
Qed.

Lemma NoDup_for_bits {A} (x : N) (f : N -> list A) (key : A -> N) :
  (forall s, N.testbit x s = true -> NoDup (f s)) ->
  (forall s m, N.testbit x s = true -> In m (f s) -> key m = s) ->
  NoDup (for_bits x f).
Proof.
  intros Hf Hk. unfold for_bits. apply NoDup_flat_map with (key := key).
  - apply bits_of_NoDup.
  - intros a Ha. apply Hf. apply bits_of_spec. exact Ha.
  - intros a m Ha. apply Hk. apply bits_of_spec. exact Ha.
Qed.

(* [s / 8] and [s mod 8] as fresh variables with their defining equation, for [lia] *)
Ltac dm8 s :=
  let q := fresh "q" in let r := fresh "r" in
  pose proof (N.div_mod s 8 ltac:(discriminate));
  pose proof (N.mod_lt s 8 ltac:(discriminate));
  set (q := s / 8) in *; set (r := s mod 8) in *; clearbody q r.
