(* C01 stage (f): the generator never emits a move twice.  Every sub-list is duplicate free (distinct
   from-squares, to-squares, promotion pieces) and a classifier computed from the board and the move
   tells the 17 sub-lists apart (piece kind on the from-square, target an enemy piece or not, promotion
   or not, push / double push / en passant, king step or castling). *)
From Coq Require Import NArith ZArith List Bool Lia.
From Chess3 Require Import Base.Bits Model.Types Spec.Geometry Model.Att Model.BoardDef Model.Board
  Model.Movegen Spec.Chess Spec.Rep Proofs.GenBase Proofs.GenRep Proofs.GenPieces Proofs.GenPawns
  Proofs.GenSpecPre Proofs.AttackedSpec.
Import ListNotations.
Open Scope N_scope.

(* ------------------------------------------------------------------------------------------ *)
(* every generated move is a 15-bit encoding *)

Lemma mk_move_lt_any f t pr : mk_move f t pr < 32768.
Proof.
  assert (E : mk_move f t pr = mk_move (N.land f 63) (N.land t 63) (N.land pr 7)).
  { unfold mk_move. rewrite <- !N.land_assoc. reflexivity. }
  rewrite E. apply mk_move_lt.
  - change 63 with (N.ones 6). rewrite N.land_ones. apply N.mod_lt. discriminate.
  - change 63 with (N.ones 6). rewrite N.land_ones. apply N.mod_lt. discriminate.
  - change 7 with (N.ones 3). rewrite N.land_ones. apply N.mod_lt. discriminate.
Qed.

Ltac solve_lt :=
  match goal with
  | H : In _ (for_bits _ _) |- _ => apply in_for_bits in H; destruct H as [? [_ H]]; solve_lt
  | H : In _ (to_loop _ _) |- _ => apply in_to_loop in H; destruct H as [? [_ ->]]; apply mk_move_lt_any
  | H : In _ (promo_list _ _) |- _ => apply in_promo_list in H; destruct H as [? [_ ->]]; apply mk_move_lt_any
  | H : In _ [_] |- _ => destruct H as [<-|[]]; apply mk_move_lt_any
  | H : In _ [] |- _ => destruct H
  | H : In _ (if ?c then _ else _) |- _ => destruct c; solve_lt
  | H : In _ (_ ++ _) |- _ => apply in_app_iff in H; destruct H as [H|H]; solve_lt
  end.

Lemma gen_all_lt b m : In m (gen_all b) -> m < 32768.
Proof.
  intros H. unfold gen_all, gen_noisy, gen_quiet, gen_king_moves, gen_knight_moves, gen_bishop_moves,
    gen_rook_moves, gen_queen_moves, gen_promo_push, gen_pawn_captures, gen_pawn_capture_promos,
    gen_en_passant, gen_single_push, gen_double_push, gen_short_castle, gen_long_castle in H.
  cbv zeta in H. solve_lt.
Qed.

(* ------------------------------------------------------------------------------------------ *)
(* duplicate-free loops *)

Lemma NoDup_singleton {A} (x : A) : NoDup [x].
Proof. constructor; [intros []|constructor]. Qed.

Lemma NoDup_to_loop from x : from < 64 -> (forall to, N.testbit x to = true -> to < 64) -> NoDup (to_loop from x).
Proof.
  intros Hf Hx. unfold to_loop. apply NoDup_for_bits with (key := mv_to).
  - intros. apply NoDup_singleton.
  - intros to m T [<-|[]]. unfold mv. apply mk_move_to; [exact Hf|apply Hx; exact T|reflexivity].
Qed.

Lemma NoDup_loop src tgt :
  (forall from, N.testbit src from = true -> from < 64) ->
  (forall from to, N.testbit src from = true -> N.testbit (tgt from) to = true -> to < 64) ->
  NoDup (for_bits src (fun from => to_loop from (tgt from))).
Proof.
  intros Hs Ht. apply NoDup_for_bits with (key := mv_from).
  - intros from T. apply NoDup_to_loop; [apply Hs; exact T|intros to; apply (Ht from to T)].
  - intros from m T Hin. apply in_to_loop in Hin. destruct Hin as [to [T2 ->]].
    unfold mv. apply mk_move_from; [apply Hs; exact T|eapply Ht; eassumption|reflexivity].
Qed.

Lemma NoDup_promo_list from to : from < 64 -> to < 64 -> NoDup (promo_list from to).
Proof.
  intros Hf Ht. unfold promo_list, mvp.
  assert (P : forall a c, a < 8 -> c < 8 -> mk_move from to a = mk_move from to c -> a = c).
  { intros a c Ha Hc E. apply (f_equal mv_promo) in E. rewrite !mk_move_promo in E by assumption. exact E. }
  unfold Queen, Rook, Bishop, Knight.
  repeat constructor; cbn [In]; intros H;
    repeat (destruct H as [H|H]; [apply P in H; [discriminate|reflexivity|reflexivity]|]); exact H.
Qed.

Lemma NoDup_single src (g : N -> N) :
  (forall from, N.testbit src from = true -> from < 64 /\ g from < 64) ->
  NoDup (for_bits src (fun from => [mv from (g from)])).
Proof.
  intros Hs. apply NoDup_for_bits with (key := mv_from).
  - intros. apply NoDup_singleton.
  - intros from m T [<-|[]]. destruct (Hs from T). unfold mv. apply mk_move_from; [assumption|assumption|reflexivity].
Qed.

Lemma NoDup_promo_single src (g : N -> N) :
  (forall from, N.testbit src from = true -> from < 64 /\ g from < 64) ->
  NoDup (for_bits src (fun from => promo_list from (g from))).
Proof.
  intros Hs. apply NoDup_for_bits with (key := mv_from).
  - intros from T. destruct (Hs from T). apply NoDup_promo_list; assumption.
  - intros from m T Hin. destruct (Hs from T). apply in_promo_list in Hin. destruct Hin as [pr [Hp ->]].
    unfold mvp. apply mk_move_from; [assumption|assumption|apply is_promo_piece_lt; exact Hp].
Qed.

(* ------------------------------------------------------------------------------------------ *)
(* tagged concatenation *)

Section Tagged.
Variable cls : N -> N.

Fixpoint tagged (k : nat) (ls : list (list N)) : Prop :=
  match ls with
  | [] => True
  | l :: r => (NoDup l /\ forall m, In m l -> cls m = N.of_nat k) /\ tagged (S k) r
  end.

Lemma tagged_NoDup ls : forall k, tagged k ls ->
  NoDup (concat ls) /\ forall m, In m (concat ls) -> N.of_nat k <= cls m.
Proof.
  induction ls as [|l r IH]; intros k H; cbn [concat].
  - split; [constructor|intros m []].
  - destruct H as [[N1 C1] T]. destruct (IH (S k) T) as [N2 C2]. split.
    + apply NoDup_app_disj; [exact N1|exact N2|]. intros m A B. apply C1 in A. apply C2 in B. lia.
    + intros m Hm. apply in_app_iff in Hm. destruct Hm as [A|B]; [apply C1 in A; lia|apply C2 in B; lia].
Qed.
End Tagged.

(* ------------------------------------------------------------------------------------------ *)

Definition cls (b : board) (m : N) : N :=
  let from := mv_from m in let to := mv_to m in
  let k := piece_at b from in
  let noisy := N.testbit (colors b (flip (stm b))) to in
  if k =? King then (if N.testbit (king_attacks from) to then (if noisy then 0 else 9) else 16)
  else if k =? Knight then (if noisy then 1 else 10)
  else if k =? Bishop then (if noisy then 2 else 11)
  else if k =? Rook then (if noisy then 3 else 12)
  else if k =? Queen then (if noisy then 4 else 13)
  else if mv_promo m =? 0 then
    (if noisy then 6
     else if to =? fwd (stm b) from then 14
     else if to =? fwd (stm b) (fwd (stm b) from) then 15 else 8)
  else (if noisy then 7 else 5).

Lemma king_castle_sq_all :
  forallb (fun c => negb (N.testbit (king_attacks (king_home c)) (king_home c + 2)) &&
                    negb (N.testbit (king_attacks (king_home c)) (king_home c - 2))) [White; Black] = true.
Proof. vm_compute. reflexivity. Qed.

Section NoDupGen.
Variable b : board.
Hypothesis HR : PRep b.
Hypothesis HV : valid (abs b) = true.
Hypothesis castle_H : forall m, m < 32768 -> (In m (castle_lists b) <-> castle_clause b m).
Hypothesis castle_ND : NoDup (castle_lists b).

Local Notation c := (stm b).
Local Notation self := (colors b (stm b)).
Local Notation them := (colors b (flip (stm b))).
Local Notation occ := (occupancy b).
Local Notation p := (abs b).
Local Notation pawns := (pieces b Pawn).

Lemma self_lt s : N.testbit self s = true -> s < 64.
Proof. intros H. eapply tb_lt64; [apply (colors_w64 b HR c)|exact H]. Qed.

Lemma piece_at_of K s : 1 <= K <= 6 -> N.testbit self s = true -> N.testbit (pieces b K) s = true -> piece_at b s = K.
Proof.
  intros HK A B. rewrite (pieces_tb b HR s K (self_lt s A) HK) in B. apply N.eqb_eq. exact B.
Qed.

Lemma not_them_of_bnot s : N.testbit (bnot them) s = true -> N.testbit them s = false.
Proof. rewrite bnot_tb, andb_true_iff, negb_true_iff. tauto. Qed.

Lemma occ_false_them s : N.testbit occ s = false -> N.testbit them s = false.
Proof.
  intros H. destruct (N.testbit them s) eqn:E; [|reflexivity].
  rewrite (colors_occ b (flip c) s E) in H. discriminate.
Qed.

(* the piece loops *)
Lemma simple_cls K toMsk m : K = Knight \/ K = Bishop \/ K = Rook \/ K = Queen ->
  In m (simple_moves b K toMsk) ->
  mv_from m < 64 /\ piece_at b (mv_from m) = K /\ N.testbit toMsk (mv_to m) = true.
Proof.
  intros HK Hin. assert (Hm : m < 32768).
  { unfold simple_moves, gen_knight_moves, gen_bishop_moves, gen_rook_moves, gen_queen_moves in Hin.
    cbv zeta in Hin. solve_lt. }
  assert (HK6 : 1 <= K <= 6) by (destruct HK as [->|[->|[->| ->]]]; unfold Knight, Bishop, Rook, Queen; lia).
  assert (G : exists att, exists from to, from < 64 /\ to < 64 /\
     (N.testbit self from = true /\ N.testbit (pieces b K) from = true /\
      N.testbit (att from) to = true /\ N.testbit self to = false /\ N.testbit toMsk to = true) /\ m = mv from to).
  { destruct HK as [->|[->|[->| ->]]]; unfold simple_moves in Hin; cbn [N.eqb Knight Bishop Rook Queen Pos.eqb] in Hin;
      [unfold gen_knight_moves in Hin|unfold gen_bishop_moves in Hin|unfold gen_rook_moves in Hin|unfold gen_queen_moves in Hin];
      cbn [g_self g_them g_occ gen_of] in Hin; eexists; apply (loop_in b) in Hin; exact Hin. }
  destruct G as [att [from [to [Hf [Ht [[A [B [_ [_ T]]]] ->]]]]]]. unfold mv.
  rewrite mk_move_from, mk_move_to by (try assumption; reflexivity).
  split; [exact Hf|]. split; [apply piece_at_of; assumption|exact T].
Qed.

Lemma NoDup_simple K toMsk : K = Knight \/ K = Bishop \/ K = Rook \/ K = Queen -> NoDup (simple_moves b K toMsk).
Proof.
  intros HK.
  assert (S : forall from, N.testbit (band (band self (pieces b K)) Full) from = true -> from < 64).
  { intros from H. rewrite !band_tb, Full_tb, !andb_true_iff in H. apply N.ltb_lt. tauto. }
  assert (T : forall (att from to : N), N.testbit (band (band att (bnot self)) toMsk) to = true -> to < 64).
  { intros att from to H. rewrite !band_tb, bnot_tb, !andb_true_iff in H. apply N.ltb_lt. tauto. }
  destruct HK as [->|[->|[->| ->]]]; unfold simple_moves; cbn [N.eqb Knight Bishop Rook Queen Pos.eqb];
    [unfold gen_knight_moves|unfold gen_bishop_moves|unfold gen_rook_moves|unfold gen_queen_moves];
    cbn [g_self g_them g_occ gen_of]; apply NoDup_loop; try exact S; intros from to _; apply T; exact from.
Qed.

Lemma simple_tag_noisy K m : K = Knight \/ K = Bishop \/ K = Rook \/ K = Queen ->
  In m (simple_moves b K them) -> cls b m = K - 1.
Proof.
  intros HK Hin. destruct (simple_cls K them m HK Hin) as [_ [E T]]. unfold cls. cbv zeta. rewrite E, T.
  destruct HK as [->|[->|[->| ->]]]; reflexivity.
Qed.

Lemma simple_tag_quiet K m : K = Knight \/ K = Bishop \/ K = Rook \/ K = Queen ->
  In m (simple_moves b K (bnot them)) -> cls b m = K + 8.
Proof.
  intros HK Hin. destruct (simple_cls K (bnot them) m HK Hin) as [_ [E T]]. apply not_them_of_bnot in T.
  unfold cls. cbv zeta. rewrite E, T.
  destruct HK as [->|[->|[->| ->]]]; reflexivity.
Qed.

(* the king *)
Lemma gen_king_eq toMsk : exists k, k < 64 /\
  gen_king_moves (gen_of b) b Full toMsk = to_loop k (band (band (king_moves k) (bnot self)) toMsk).
Proof.
  destruct (self_king_bit b HR HV) as [k [K1 [K2 K3]]]. exists k. split; [exact K1|].
  unfold gen_king_moves. cbn [g_self g_them g_occ gen_of].
  assert (E : band (band self (pieces b King)) Full = bit k).
  { rewrite K2. apply bits_ext. intros i. rewrite band_tb, Full_tb, bit_testbit.
    destruct (N.eqb_spec k i) as [<-|]; [|reflexivity]. apply N.ltb_lt in K1. rewrite K1. reflexivity. }
  rewrite E. assert (Hnz : (bit k =? 0) = false).
  { apply eqb0_false_iff. exists k. rewrite bit_testbit. apply N.eqb_refl. }
  rewrite Hnz, lsb_bit. reflexivity.
Qed.

Lemma NoDup_king toMsk : NoDup (gen_king_moves (gen_of b) b Full toMsk).
Proof.
  destruct (gen_king_eq toMsk) as [k [K1 ->]]. apply NoDup_to_loop; [exact K1|].
  intros to H. rewrite !band_tb, bnot_tb, !andb_true_iff in H. apply N.ltb_lt. tauto.
Qed.

Lemma king_tag toMsk m : In m (gen_king_moves (gen_of b) b Full toMsk) ->
  piece_at b (mv_from m) = King /\ N.testbit (king_attacks (mv_from m)) (mv_to m) = true /\
  N.testbit toMsk (mv_to m) = true.
Proof.
  intros Hin. apply (gen_king_in b HR HV) in Hin.
  destruct Hin as [from [to [Hf [Ht [[A [B [C [_ T]]]] ->]]]]]. unfold mv.
  rewrite mk_move_from, mk_move_to by (try assumption; reflexivity).
  split; [apply piece_at_of; [unfold King; lia|assumption|assumption]|]. split; [exact C|exact T].
Qed.

Lemma king_tag_noisy m : In m (gen_king_moves (gen_of b) b Full them) -> cls b m = 0.
Proof. intros H. destruct (king_tag _ _ H) as [E [A T]]. unfold cls. cbv zeta. rewrite E, A, T. reflexivity. Qed.
Lemma king_tag_quiet m : In m (gen_king_moves (gen_of b) b Full (bnot them)) -> cls b m = 9.
Proof.
  intros H. destruct (king_tag _ _ H) as [E [A T]]. apply not_them_of_bnot in T.
  unfold cls. cbv zeta. rewrite E, A, T. reflexivity.
Qed.

Lemma castle_tag m : In m (castle_lists b) -> cls b m = 16.
Proof.
  intros Hin. assert (Hm : m < 32768).
  { unfold castle_lists, gen_short_castle, gen_long_castle in Hin. cbv zeta in Hin. solve_lt. }
  apply (castle_H m Hm) in Hin. destruct Hin as [Hh [_ [Hk Cs]]].
  rewrite (holds_abs b HR) in Hh by (unfold King; lia). apply andb_true_iff in Hh. destruct Hh as [B A].
  pose proof (piece_at_of King _ ltac:(unfold King; lia) A B) as E.
  assert (KA : N.testbit (king_attacks (mv_from m)) (mv_to m) = false).
  { pose proof king_castle_sq_all as Q. rewrite forallb_forall in Q.
    specialize (Q c ltac:(destruct (stm b); cbn; auto)). rewrite andb_true_iff, !negb_true_iff in Q.
    rewrite Hk. destruct Cs as [[Et _]|[Et _]].
    - rewrite Et, Hk. tauto.
    - replace (mv_to m) with (king_home c - 2) by lia. tauto. }
  unfold cls. cbv zeta. rewrite E, KA. reflexivity.
Qed.

(* pawns *)
Lemma pawn_cls_pre m : N.testbit self (mv_from m) = true -> N.testbit pawns (mv_from m) = true ->
  cls b m =
  if mv_promo m =? 0 then
    (if N.testbit them (mv_to m) then 6
     else if mv_to m =? fwd c (mv_from m) then 14
     else if mv_to m =? fwd c (fwd c (mv_from m)) then 15 else 8)
  else (if N.testbit them (mv_to m) then 7 else 5).
Proof.
  intros A B. pose proof (piece_at_of Pawn _ ltac:(unfold Pawn; lia) A B) as E.
  unfold cls. cbv zeta. rewrite E. reflexivity.
Qed.

Lemma promo_nz pr : is_promo_piece pr = true -> (pr =? 0) = false.
Proof.
  unfold is_promo_piece. rewrite !orb_true_iff, !N.eqb_eq. unfold Knight, Bishop, Rook, Queen.
  intros H. apply N.eqb_neq. lia.
Qed.

Lemma promo_push_tag m : In m (gen_promo_push (gen_of b) b Full) -> cls b m = 5.
Proof.
  intros Hin. assert (Hm : m < 32768) by (unfold gen_promo_push in Hin; cbv zeta in Hin; solve_lt).
  apply (promo_push_in b HR HV m Hm) in Hin. destruct Hin as [[A [B [_ [O E]]]] Pr].
  rewrite (pawn_cls_pre m A B), (promo_nz _ Pr). rewrite <- E in O. rewrite (occ_false_them _ O). reflexivity.
Qed.

Lemma captures_tag m : In m (gen_pawn_captures (gen_of b) b) -> cls b m = 6.
Proof.
  intros Hin. assert (Hm : m < 32768) by (unfold gen_pawn_captures in Hin; cbv zeta in Hin; solve_lt).
  apply (captures_in b m Hm) in Hin. destruct Hin as [[A [B [_ [_ T]]]] Pr].
  rewrite (pawn_cls_pre m A B), Pr, T. reflexivity.
Qed.

Lemma cap_promos_tag m : In m (gen_pawn_capture_promos (gen_of b) b) -> cls b m = 7.
Proof.
  intros Hin. assert (Hm : m < 32768) by (unfold gen_pawn_capture_promos in Hin; cbv zeta in Hin; solve_lt).
  apply (cap_promos_in b HR m Hm) in Hin. destruct Hin as [[A [B [_ [_ T]]]] Pr].
  rewrite (pawn_cls_pre m A B), (promo_nz _ Pr), T. reflexivity.
Qed.

Lemma pa_not_push from to : 8 <= from < 56 -> to <> 0 -> N.testbit (pawn_attacks c from) to = true ->
  (to =? fwd c from) = false /\ (to =? fwd c (fwd c from)) = false.
Proof.
  intros R T0 T. assert (Lf : from < 64) by lia. pose proof (pa_lt c from to Lf T) as Lt.
  destruct (pa_from c from Lf) as [_ F]. destruct (F to Lt) as [E _]. rewrite E in T. clear E F.
  unfold fwd. destruct (stm b); cbn [pa_formula] in T;
    rewrite orb_true_iff, !andb_true_iff, !N.eqb_eq in T; destruct T as [[T _]|[T _]]; split; apply N.eqb_neq; lia.
Qed.

Lemma ep_tag m : In m (gen_en_passant (gen_of b) b) -> cls b m = 8.
Proof.
  intros Hin. assert (Hm : m < 32768) by (unfold gen_en_passant in Hin; cbv zeta in Hin; solve_lt).
  apply (ep_in b HR HV m Hm) in Hin. destruct Hin as [[E0 [A [B [T E]]]] Pr].
  destruct (ep_facts b HR HV E0) as [_ [_ [_ [O _]]]]. rewrite <- E in O.
  assert (T0 : mv_to m <> 0) by (rewrite E; exact E0).
  destruct (pa_not_push _ _ (own_pawn_range b HR HV _ A B) T0 T) as [N1 N2].
  rewrite (pawn_cls_pre m A B), Pr, (occ_false_them _ O), N1, N2. reflexivity.
Qed.

Lemma single_tag m : In m (gen_single_push (gen_of b) b Full) -> cls b m = 14.
Proof.
  intros Hin. assert (Hm : m < 32768) by (unfold gen_single_push in Hin; cbv zeta in Hin; solve_lt).
  apply (single_in b HR HV m Hm) in Hin. destruct Hin as [[A [B [_ [O E]]]] Pr].
  rewrite <- E in O. rewrite (pawn_cls_pre m A B), Pr, (occ_false_them _ O), E, (N.eqb_refl (fwd c (mv_from m))). reflexivity.
Qed.

Lemma double_tag m : In m (gen_double_push (gen_of b) b Full) -> cls b m = 15.
Proof.
  intros Hin. assert (Hm : m < 32768) by (unfold gen_double_push in Hin; cbv zeta in Hin; solve_lt).
  apply (double_in b m Hm) in Hin. destruct Hin as [[A [B [A2 [_ [O E]]]]] Pr].
  rewrite <- E in O. pose proof (own_pawn_range b HR HV _ A B) as R.
  assert (N1 : (mv_to m =? fwd c (mv_from m)) = false).
  { rewrite E. apply N.eqb_neq. unfold fwd. destruct (stm b); cbn [on2b] in A2;
      rewrite andb_true_iff, N.leb_le, N.ltb_lt in A2; lia. }
  rewrite (pawn_cls_pre m A B), Pr, (occ_false_them _ O), N1, E, (N.eqb_refl (fwd c (fwd c (mv_from m)))). reflexivity.
Qed.

(* the pawn lists are duplicate free *)
Lemma pawn_src_range x from : N.testbit (band (band self pawns) x) from = true -> 8 <= from < 56.
Proof. rewrite !band_tb, !andb_true_iff. intros [[A B] _]. apply (own_pawn_range b HR HV); assumption. Qed.

Lemma sq_add_lt from : 8 <= from < 56 -> sq_add from (pshift c) < 64.
Proof. intros R. unfold sq_add, pshift. destruct (stm b); lia. Qed.

Lemma NoDup_single_push : NoDup (gen_single_push (gen_of b) b Full).
Proof.
  unfold gen_single_push. cbv zeta. cbn [g_self g_them g_occ gen_of]. apply NoDup_single.
  intros from H. rewrite !band_tb, !andb_true_iff in H. destruct H as [[[H _] _] _].
  pose proof (own_pawn_range b HR HV from (proj1 H) (proj2 H)) as R.
  split; [lia|apply sq_add_lt; exact R].
Qed.

Lemma NoDup_promo_push : NoDup (gen_promo_push (gen_of b) b Full).
Proof.
  unfold gen_promo_push. cbv zeta. cbn [g_self g_them g_occ gen_of]. apply NoDup_promo_single.
  intros from H. rewrite !band_tb, !andb_true_iff in H. destruct H as [[[H _] _] _].
  pose proof (own_pawn_range b HR HV from (proj1 H) (proj2 H)) as R.
  split; [lia|apply sq_add_lt; exact R].
Qed.

Lemma NoDup_double_push : NoDup (gen_double_push (gen_of b) b Full).
Proof.
  unfold gen_double_push. cbv zeta. cbn [g_self g_them g_occ gen_of]. apply NoDup_single.
  intros from H. rewrite !band_tb, rank2_tb, !andb_true_iff in H. destruct H as [[[[H _] _] _] H2].
  pose proof (own_pawn_range b HR HV from (proj1 H) (proj2 H)) as R.
  split; [lia|]. unfold sq_add, pshift. destruct (stm b); cbn [on2b] in H2;
    rewrite andb_true_iff, N.leb_le, N.ltb_lt in H2; lia.
Qed.

Lemma NoDup_captures : NoDup (gen_pawn_captures (gen_of b) b).
Proof.
  unfold gen_pawn_captures. cbv zeta. cbn [g_self g_them g_occ gen_of].
  apply (NoDup_loop _ (fun from => band (pawn_capture_moves (bit from) c) them)).
  - intros from H. rewrite !band_tb, !andb_true_iff in H. apply self_lt. tauto.
  - intros from to _ H. rewrite band_tb, andb_true_iff in H. destruct H as [_ H].
    eapply tb_lt64; [apply (colors_w64 b HR (flip c))|exact H].
Qed.

Lemma NoDup_cap_promos : NoDup (gen_pawn_capture_promos (gen_of b) b).
Proof.
  unfold gen_pawn_capture_promos. cbv zeta. cbn [g_self g_them g_occ gen_of].
  assert (S : forall from, N.testbit (band (band (band self pawns) (rank_from c SeventhRank)) (cap_occ (gen_of b) b)) from = true -> from < 64).
  { intros from H. rewrite !band_tb, !andb_true_iff in H. apply self_lt. tauto. }
  assert (T : forall from to, N.testbit (band (pawn_capture_moves (bit from) c) them) to = true -> to < 64).
  { intros from to H. rewrite band_tb, andb_true_iff in H. destruct H as [_ H].
    eapply tb_lt64; [apply (colors_w64 b HR (flip c))|exact H]. }
  apply NoDup_for_bits with (key := mv_from).
  - intros from Hs. apply NoDup_for_bits with (key := mv_to).
    + intros to Ht. apply NoDup_promo_list; [apply S; exact Hs|eapply T; exact Ht].
    + intros to m Ht Hin. apply in_promo_list in Hin. destruct Hin as [pr [Hp ->]]. unfold mvp.
      apply mk_move_to; [apply S; exact Hs|eapply T; exact Ht|apply is_promo_piece_lt; exact Hp].
  - intros from m Hs Hin. apply in_for_bits in Hin. destruct Hin as [to [Ht Hin]].
    apply in_promo_list in Hin. destruct Hin as [pr [Hp ->]]. unfold mvp.
    apply mk_move_from; [apply S; exact Hs|eapply T; exact Ht|apply is_promo_piece_lt; exact Hp].
Qed.

Lemma NoDup_ep : NoDup (gen_en_passant (gen_of b) b).
Proof.
  unfold gen_en_passant. cbv zeta. cbn [g_self g_them g_occ gen_of].
  destruct (N.eqb_spec (ep b) 0) as [E0|E0]; [constructor|].
  destruct (ep_facts b HR HV E0) as [_ [L _]].
  apply (NoDup_single _ (fun _ => ep b)). intros from H. rewrite !band_tb, !andb_true_iff in H.
  split; [apply self_lt; tauto|exact L].
Qed.

(* ---------------------------------------------------------------------------------------- *)

Definition gen_lists : list (list N) :=
  [ gen_king_moves (gen_of b) b Full them; simple_moves b Knight them; simple_moves b Bishop them;
    simple_moves b Rook them; simple_moves b Queen them;
    gen_promo_push (gen_of b) b Full; gen_pawn_captures (gen_of b) b; gen_pawn_capture_promos (gen_of b) b;
    gen_en_passant (gen_of b) b;
    gen_king_moves (gen_of b) b Full (bnot them); simple_moves b Knight (bnot them); simple_moves b Bishop (bnot them);
    simple_moves b Rook (bnot them); simple_moves b Queen (bnot them);
    gen_single_push (gen_of b) b Full; gen_double_push (gen_of b) b Full; castle_lists b ].

Lemma gen_all_concat : gen_all b = concat gen_lists.
Proof.
  unfold gen_all, gen_noisy, gen_quiet, gen_lists, castle_lists, simple_moves. cbv zeta.
  change (Knight =? Knight) with true. change (Bishop =? Knight) with false. change (Bishop =? Bishop) with true.
  change (Rook =? Knight) with false. change (Rook =? Bishop) with false. change (Rook =? Rook) with true.
  change (Queen =? Knight) with false. change (Queen =? Bishop) with false. change (Queen =? Rook) with false.
  cbv iota. cbn [g_them gen_of concat]. rewrite app_nil_r, <- !app_assoc. reflexivity.
Qed.

Lemma gen_lists_tagged : tagged (cls b) 0 gen_lists.
Proof.
  unfold gen_lists. cbn [tagged].
  assert (K : Knight = Knight \/ Knight = Bishop \/ Knight = Rook \/ Knight = Queen) by tauto.
  assert (B : Bishop = Knight \/ Bishop = Bishop \/ Bishop = Rook \/ Bishop = Queen) by tauto.
  assert (R : Rook = Knight \/ Rook = Bishop \/ Rook = Rook \/ Rook = Queen) by tauto.
  assert (Q : Queen = Knight \/ Queen = Bishop \/ Queen = Rook \/ Queen = Queen) by tauto.
  repeat split; try exact I.
  - apply NoDup_king.
  - intros m H. apply king_tag_noisy. exact H.
  - apply NoDup_simple. exact K.
  - intros m H. rewrite (simple_tag_noisy Knight m K H). reflexivity.
  - apply NoDup_simple. exact B.
  - intros m H. rewrite (simple_tag_noisy Bishop m B H). reflexivity.
  - apply NoDup_simple. exact R.
  - intros m H. rewrite (simple_tag_noisy Rook m R H). reflexivity.
  - apply NoDup_simple. exact Q.
  - intros m H. rewrite (simple_tag_noisy Queen m Q H). reflexivity.
  - apply NoDup_promo_push.
  - intros m H. apply promo_push_tag. exact H.
  - apply NoDup_captures.
  - intros m H. apply captures_tag. exact H.
  - apply NoDup_cap_promos.
  - intros m H. apply cap_promos_tag. exact H.
  - apply NoDup_ep.
  - intros m H. apply ep_tag. exact H.
  - apply NoDup_king.
  - intros m H. apply king_tag_quiet. exact H.
  - apply NoDup_simple. exact K.
  - intros m H. rewrite (simple_tag_quiet Knight m K H). reflexivity.
  - apply NoDup_simple. exact B.
  - intros m H. rewrite (simple_tag_quiet Bishop m B H). reflexivity.
  - apply NoDup_simple. exact R.
  - intros m H. rewrite (simple_tag_quiet Rook m R H). reflexivity.
  - apply NoDup_simple. exact Q.
  - intros m H. rewrite (simple_tag_quiet Queen m Q H). reflexivity.
  - apply NoDup_single_push.
  - intros m H. apply single_tag. exact H.
  - apply NoDup_double_push.
  - intros m H. apply double_tag. exact H.
  - exact castle_ND.
  - intros m H. apply castle_tag. exact H.
Qed.

Lemma gen_all_NoDup_P : NoDup (gen_all b).
Proof. rewrite gen_all_concat. apply (tagged_NoDup (cls b) gen_lists 0). apply gen_lists_tagged. Qed.

End NoDupGen.
