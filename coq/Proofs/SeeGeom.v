(* C18, second refinement step: the sequence of values the engine's bookkeeping captures
   ([see_gains], Proofs/SeeSeq.v) IS the specified sequence [swap_list b m impl_choice]
   (Spec/SeeSpec.v): least valuable attacker of the side to move under the current occupancy,
   x-rays joining as lines open, king only when no enemy attacker remains - with the engine's
   tie-break among equally valued least attackers.

   Invariant of the loop ([inv]): the accumulated [attackers] set, restricted to the pieces still
   standing, equals the from-scratch attacker set under the current occupancy; a `start` marker
   beyond Pawn (Knight) is only ever set when the side has no pawn (knight) attacker, and pawn and
   knight attackers cannot appear later (their attacks do not depend on the occupancy). *)
From Coq Require Import NArith ZArith List Bool Lia Btauto.
From Chess3 Require Import Base.Bits Base.Word Model.Types Spec.Geometry Model.Att Model.BoardDef Model.Board
  Gen.SeeConsts Model.See Model.SeeStreams Spec.SeeSpec Proofs.SeeCore Proofs.SeeSeq Proofs.SeeBits Proofs.SeeRays.
Import ListNotations.
Open Scope N_scope.

(* ------------------------------------------------------------------------------------------ *)
(* well-formed boards: the redundant encodings agree (the C04 invariant, as far as SEE reads it) *)

Record wf_board (b : board) : Prop := {
  wf_cols_lt : forall c, colors b c < two64;
  wf_disj : forall s, N.testbit (colors b White) s = true -> N.testbit (colors b Black) s = true -> False;
  wf_kind : forall s q, s < 64 -> 1 <= q <= 6 -> N.testbit (pieces b q) s = (piece_at b s =? q);
  wf_le6 : forall s, s < 64 -> piece_at b s <= 6
}.

Lemma wf_boardb_ok b : wf_boardb b = true -> wf_board b.
Proof.
  unfold wf_boardb. intros H.
  apply andb_true_iff in H. destruct H as [H H4].
  apply andb_true_iff in H. destruct H as [H H3].
  apply andb_true_iff in H. destruct H as [H1 H2].
  apply N.ltb_lt in H1, H2. apply N.eqb_eq in H3. rewrite forallb_forall in H4.
  constructor.
  - intros [|]; assumption.
  - intros s Hw Hb. assert (E : N.testbit (N.land (colors b White) (colors b Black)) s = true)
      by (rewrite N.land_spec, Hw, Hb; reflexivity).
    rewrite H3, N.bits_0 in E. discriminate.
  - intros s q Hs Hq. specialize (H4 s (in_squares64 s Hs)).
    apply andb_true_iff in H4. destruct H4 as [_ H4]. rewrite forallb_forall in H4.
    apply eqb_prop. apply H4. cbn. lia.
  - intros s Hs. specialize (H4 s (in_squares64 s Hs)).
    apply andb_true_iff in H4. destruct H4 as [H4 _]. apply N.leb_le in H4. exact H4.
Qed.

Lemma color_lt64 b c s : wf_board b -> N.testbit (colors b c) s = true -> s < 64.
Proof. intros W H. eapply testbit_lt64; [apply (wf_cols_lt b W c)|exact H]. Qed.

Lemma color_excl b c s : wf_board b ->
  N.testbit (colors b c) s = true -> N.testbit (colors b (flip c)) s = false.
Proof.
  intros W H. destruct (N.testbit (colors b (flip c)) s) eqn:E; [|reflexivity].
  exfalso. destruct c; cbn [flip] in E; eapply (wf_disj b W); eassumption.
Qed.

(* ------------------------------------------------------------------------------------------ *)
(* the from-scratch attacker set, read square by square *)

Definition att_bit (b : board) (to occ s : N) : bool :=
  let p := piece_at b s in
  if p =? Pawn then
    (N.testbit (pawn_capture_moves (bit to) Black) s && N.testbit (colors b White) s) ||
    (N.testbit (pawn_capture_moves (bit to) White) s && N.testbit (colors b Black) s)
  else if p =? Knight then N.testbit (knight_moves to) s
  else if p =? Bishop then N.testbit (bishop_moves to occ) s
  else if p =? Rook then N.testbit (rook_moves to occ) s
  else if p =? Queen then N.testbit (bishop_moves to occ) s || N.testbit (rook_moves to occ) s
  else if p =? King then N.testbit (king_moves to) s
  else false.

Lemma kind_cases p : p <= 6 -> p = 0 \/ p = 1 \/ p = 2 \/ p = 3 \/ p = 4 \/ p = 5 \/ p = 6.
Proof. lia. Qed.

Lemma SA_testbit b to occ s : wf_board b -> s < 64 ->
  N.testbit (see_attackers b to occ) s = att_bit b to occ s.
Proof.
  intros W Hs. unfold see_attackers, disc_diag, disc_line, att_bit, band, bor.
  rewrite !N.lor_spec, !N.land_spec, !N.lor_spec.
  rewrite (wf_kind b W s Pawn), (wf_kind b W s Knight), (wf_kind b W s Bishop), (wf_kind b W s Rook),
          (wf_kind b W s Queen), (wf_kind b W s King) by (try exact Hs; cbv; split; discriminate).
  destruct (kind_cases _ (wf_le6 b W s Hs)) as [E|[E|[E|[E|[E|[E|E]]]]]]; rewrite E;
    change (0 =? Pawn) with false; change (0 =? Knight) with false; change (0 =? Bishop) with false;
    cbn [N.eqb Pos.eqb Pawn Knight Bishop Rook Queen King]; btauto.
Qed.

(* seen from the attacker: the specification's relation *)
Lemma att_bit_spec b to occ s c : wf_board b -> to < 64 -> N.testbit (colors b c) s = true ->
  att_bit b to occ s = attacks_target c (piece_at b s) s occ to.
Proof.
  intros W Ht Hc. pose proof (color_lt64 b c s W Hc) as Hs.
  pose proof (color_excl b c s W Hc) as Hx.
  destruct (leaper_sym to s Ht Hs) as [Sn [Sk [Spw Spb]]].
  unfold att_bit, attacks_target, knight_moves, king_moves, bishop_moves, rook_moves, queen_attacks.
  destruct (piece_at b s =? Pawn).
  { destruct c; cbn [flip] in Hx; rewrite Hc, Hx.
    - rewrite andb_true_r, andb_false_r, orb_false_r. exact Spw.
    - rewrite andb_true_r, andb_false_r, orb_false_l. exact Spb. }
  destruct (piece_at b s =? Knight); [exact Sn|].
  destruct (piece_at b s =? Bishop); [apply bishop_sym; assumption|].
  destruct (piece_at b s =? Rook); [apply rook_sym; assumption|].
  destruct (piece_at b s =? Queen).
  { rewrite N.lor_spec, (bishop_sym to s occ Ht Hs), (rook_sym to s occ Ht Hs). apply orb_comm. }
  destruct (piece_at b s =? King); [exact Sk|reflexivity].
Qed.

Lemma att_bit_kind b to occ s : att_bit b to occ s = true -> 1 <= piece_at b s <= 6.
Proof.
  unfold att_bit.
  destruct (N.eqb_spec (piece_at b s) Pawn) as [->|_]; [intros _; cbv; split; discriminate|].
  destruct (N.eqb_spec (piece_at b s) Knight) as [->|_]; [intros _; cbv; split; discriminate|].
  destruct (N.eqb_spec (piece_at b s) Bishop) as [->|_]; [intros _; cbv; split; discriminate|].
  destruct (N.eqb_spec (piece_at b s) Rook) as [->|_]; [intros _; cbv; split; discriminate|].
  destruct (N.eqb_spec (piece_at b s) Queen) as [->|_]; [intros _; cbv; split; discriminate|].
  destruct (N.eqb_spec (piece_at b s) King) as [->|_]; [intros _; cbv; split; discriminate|].
  discriminate.
Qed.

Lemma attackers_of_In b c occ to s q :
  In (s, q) (attackers_of b c occ to) <->
  N.testbit occ s = true /\ N.testbit (colors b c) s = true /\ q = piece_at b s /\
  attacks_target c q s occ to = true.
Proof.
  unfold attackers_of. rewrite filter_In, in_map_iff. cbn [fst snd]. split.
  - intros [[s' [E Hin]] Ha]. inversion E; subst. apply bits_of_spec in Hin.
    rewrite N.land_spec in Hin. apply andb_true_iff in Hin. tauto.
  - intros [Ho [Hc [-> Ha]]]. split; [|exact Ha]. exists s. split; [reflexivity|].
    apply bits_of_spec. rewrite N.land_spec, Ho, Hc. reflexivity.
Qed.

(* ------------------------------------------------------------------------------------------ *)
(* the loop invariant *)

Section Loop.
Variable b : board.
Variable to : N.
Hypothesis W : wf_board b.
Hypothesis Ht : to < 64.

(* side c has no attacker of kind k among the pieces still standing *)
Definition noatt (occ : N) (c : color) (k : N) : Prop :=
  forall s, N.testbit occ s = true -> N.testbit (colors b c) s = true -> piece_at b s = k ->
            att_bit b to occ s = false.

Definition marker_ok (occ : N) (c : color) (st : N) : Prop :=
  st = Pawn \/ (st = Knight /\ noatt occ c Pawn) \/ (st = Bishop /\ noatt occ c Pawn /\ noatt occ c Knight).

Record inv (occ att sW sB : N) : Prop := {
  inv_occ : occ < two64;
  inv_sub : forall s, N.testbit occ s = true ->
            N.testbit (colors b White) s = true \/ N.testbit (colors b Black) s = true;
  inv_att : forall s, N.testbit occ s = true -> N.testbit att s = att_bit b to occ s;
  inv_mW : marker_ok occ White sW;
  inv_mB : marker_ok occ Black sB
}.

Definition stm_att (occ att : N) (c : color) : N := band (band att occ) (colors b c).

Lemma S_testbit occ att sW sB c s : inv occ att sW sB ->
  N.testbit (stm_att occ att c) s = N.testbit occ s && N.testbit (colors b c) s && att_bit b to occ s.
Proof.
  intros I. unfold stm_att, band. rewrite !N.land_spec.
  destruct (N.testbit occ s) eqn:E.
  - rewrite (inv_att _ _ _ _ I s E). btauto.
  - btauto.
Qed.

Lemma S_facts occ att sW sB c s : inv occ att sW sB -> N.testbit (stm_att occ att c) s = true ->
  N.testbit occ s = true /\ N.testbit (colors b c) s = true /\ att_bit b to occ s = true /\ s < 64 /\
  1 <= piece_at b s <= 6.
Proof.
  intros I H. rewrite (S_testbit _ _ _ _ _ _ I) in H.
  apply andb_true_iff in H. destruct H as [H H3]. apply andb_true_iff in H. destruct H as [H1 H2].
  repeat split; try assumption.
  - eapply color_lt64; eassumption.
  - apply (att_bit_kind _ _ _ _ H3).
  - apply (att_bit_kind _ _ _ _ H3).
Qed.

(* the link to the specification's attacker list *)
Lemma S_spec occ att sW sB c s q : inv occ att sW sB ->
  In (s, q) (attackers_of b c occ to) <-> (N.testbit (stm_att occ att c) s = true /\ q = piece_at b s).
Proof.
  intros I. rewrite attackers_of_In, (S_testbit _ _ _ _ _ _ I). split.
  - intros [Ho [Hc [-> Ha]]]. split; [|reflexivity].
    rewrite Ho, Hc, (att_bit_spec b to occ s c W Ht Hc), Ha. reflexivity.
  - intros [H ->]. apply andb_true_iff in H. destruct H as [H H3]. apply andb_true_iff in H. destruct H as [H1 H2].
    repeat split; try assumption. rewrite <- (att_bit_spec b to occ s c W Ht H2). exact H3.
Qed.

Lemma Sk_testbit occ att sW sB c k s : inv occ att sW sB -> 1 <= k <= 6 ->
  N.testbit (band (stm_att occ att c) (pieces b k)) s =
  N.testbit (stm_att occ att c) s && (piece_at b s =? k).
Proof.
  intros I Hk. unfold band at 1. rewrite N.land_spec.
  destruct (N.testbit (stm_att occ att c) s) eqn:E; [|reflexivity].
  destruct (S_facts _ _ _ _ _ _ I E) as [_ [_ [_ [Hs _]]]].
  rewrite (wf_kind b W s k Hs Hk). reflexivity.
Qed.

Lemma zero_noatt occ att sW sB c k : inv occ att sW sB -> 1 <= k <= 6 ->
  band (stm_att occ att c) (pieces b k) = 0 -> noatt occ c k.
Proof.
  intros I Hk Z s Ho Hc Hp. destruct (att_bit b to occ s) eqn:E; [|reflexivity]. exfalso.
  assert (T : N.testbit (band (stm_att occ att c) (pieces b k)) s = true).
  { rewrite (Sk_testbit _ _ _ _ _ _ _ I Hk), (S_testbit _ _ _ _ _ _ I), Ho, Hc, E, Hp, N.eqb_refl. reflexivity. }
  rewrite Z, N.bits_0 in T. discriminate.
Qed.

Lemma noatt_zero occ att sW sB c k : inv occ att sW sB -> 1 <= k <= 6 ->
  noatt occ c k -> band (stm_att occ att c) (pieces b k) = 0.
Proof.
  intros I Hk NA. apply zero_testbit. intros s.
  rewrite (Sk_testbit _ _ _ _ _ _ _ I Hk).
  destruct (N.testbit (stm_att occ att c) s) eqn:E; [|reflexivity].
  destruct (S_facts _ _ _ _ _ _ I E) as [Ho [Hc [Ha _]]].
  destruct (N.eqb_spec (piece_at b s) k) as [Ek|]; [|reflexivity].
  rewrite (NA s Ho Hc Ek) in Ha. discriminate.
Qed.

(* pawn and knight attackers cannot appear when pieces leave *)
Lemma noatt_mono occ x c k : k = Pawn \/ k = Knight -> noatt occ c k -> noatt (clrb occ x) c k.
Proof.
  intros Hk NA s Ho Hc Hp. rewrite clrb_testbit in Ho. apply andb_true_iff in Ho. destruct Ho as [Ho _].
  specialize (NA s Ho Hc Hp). unfold att_bit in *. rewrite Hp in *.
  destruct Hk as [-> | ->]; exact NA.
Qed.

Lemma marker_mono occ x c st : marker_ok occ c st -> marker_ok (clrb occ x) c st.
Proof.
  intros [H|[[H1 H2]|[H1 [H2 H3]]]]; [left; exact H|right; left|right; right].
  - split; [exact H1|]. apply noatt_mono; [left; reflexivity|exact H2].
  - split; [exact H1|]. split; apply noatt_mono; try assumption; [left|right]; reflexivity.
Qed.

(* ------------------------------------------------------------------------------------------ *)
(* what one pass through the switch picks *)

Lemma step0_spec occ att sW sB c st :
  inv occ att sW sB -> marker_ok occ c st ->
  let S := stm_att occ att c in
  match step0 b to c occ (band att occ) st with
  | PKing e =>
      (forall s, N.testbit S s = true -> piece_at b s = King) /\
      e = negb (band (band att occ) (bnot (colors b c)) =? 0)
  | PCap p o a st' =>
      let F := band S (pieces b p) in
      F <> 0 /\ 1 <= p <= 5 /\ o = band occ (bnot (isolate_lsb F)) /\ a = discover b to p o (band att occ) /\
      (forall q, 1 <= q < p -> band S (pieces b q) = 0) /\
      (st' = Pawn \/ (st' = Knight /\ band S (pieces b Pawn) = 0) \/
       (st' = Bishop /\ band S (pieces b Pawn) = 0 /\ band S (pieces b Knight) = 0))
  end.
Proof.
  intros I M S.
  assert (ZP : st <> Pawn -> band S (pieces b Pawn) = 0).
  { intros Hn. destruct M as [H|[[_ H]|[_ [H _]]]]; [congruence| |];
      apply (noatt_zero _ _ _ _ _ _ I); try exact H; cbv; split; discriminate. }
  assert (ZN : st <> Pawn -> st <> Knight -> band S (pieces b Knight) = 0).
  { intros Hn Hn2. destruct M as [H|[[H _]|[_ [_ H]]]]; [congruence|congruence|].
    apply (noatt_zero _ _ _ _ _ _ I); try exact H; cbv; split; discriminate. }
  assert (KingLeaf : band S (pieces b Pawn) = 0 -> band S (pieces b Knight) = 0 ->
                     band S (pieces b Bishop) = 0 -> band S (pieces b Rook) = 0 ->
                     band S (pieces b Queen) = 0 ->
                     forall s, N.testbit S s = true -> piece_at b s = King).
  { intros Z1 Z2 Z3 Z4 Z5 s Hs.
    destruct (S_facts _ _ _ _ _ _ I Hs) as [_ [_ [_ [_ Hk]]]].
    assert (T : forall k, 1 <= k <= 6 -> piece_at b s = k -> band S (pieces b k) = 0 -> False).
    { intros k Hk' E Z.
      assert (T : N.testbit (band S (pieces b k)) s = true).
      { unfold S. rewrite (Sk_testbit _ _ _ _ _ _ _ I Hk'). fold S. rewrite Hs, E, N.eqb_refl. reflexivity. }
      rewrite Z, N.bits_0 in T. discriminate. }
    unfold Pawn, Knight, Bishop, Rook, Queen, King in *.
    assert (C : piece_at b s = 1 \/ piece_at b s = 2 \/ piece_at b s = 3 \/ piece_at b s = 4 \/
                piece_at b s = 5 \/ piece_at b s = 6) by lia.
    destruct C as [C|[C|[C|[C|[C|C]]]]]; [exfalso..|exact C].
    - apply (T 1 ltac:(lia) C Z1).
    - apply (T 2 ltac:(lia) C Z2).
    - apply (T 3 ltac:(lia) C Z3).
    - apply (T 4 ltac:(lia) C Z4).
    - apply (T 5 ltac:(lia) C Z5). }
  unfold step0, capture0. fold (stm_att occ att c). fold S.
  destruct (N.eqb_spec st Pawn) as [EP|NP].
  - (* chain from Pawn *)
    destruct (N.eqb_spec (band S (pieces b Pawn)) 0) as [Z1|N1].
    2:{ cbv zeta. repeat split; try assumption; try (cbv; discriminate).
        - intros q Hq. unfold Pawn in Hq. lia.
        - left. exact EP. }
    destruct (N.eqb_spec (band S (pieces b Knight)) 0) as [Z2|N2].
    2:{ cbv zeta. repeat split; try assumption; try (cbv; discriminate).
        - intros q Hq. unfold Knight in Hq. assert (q = 1) by lia. subst q. exact Z1.
        - right. left. split; [reflexivity|exact Z1]. }
    destruct (N.eqb_spec (band S (pieces b Bishop)) 0) as [Z3|N3].
    2:{ cbv zeta. repeat split; try assumption; try (cbv; discriminate).
        - intros q Hq. unfold Bishop in Hq. assert (q = 1 \/ q = 2) as [-> | ->] by lia; assumption.
        - right. right. repeat split; assumption. }
    destruct (N.eqb_spec (band S (pieces b Rook)) 0) as [Z4|N4].
    2:{ cbv zeta. repeat split; try assumption; try (cbv; discriminate).
        - intros q Hq. unfold Rook in Hq. assert (q = 1 \/ q = 2 \/ q = 3) as [-> |[-> | ->]] by lia; assumption.
        - right. right. repeat split; assumption. }
    destruct (N.eqb_spec (band S (pieces b Queen)) 0) as [Z5|N5].
    2:{ cbv zeta. repeat split; try assumption; try (cbv; discriminate).
        - intros q Hq. unfold Queen in Hq.
          assert (q = 1 \/ q = 2 \/ q = 3 \/ q = 4) as [-> |[-> |[-> | ->]]] by lia; assumption.
        - right. right. repeat split; assumption. }
    split; [apply KingLeaf; assumption|reflexivity].
  - pose proof (ZP NP) as Z1.
    destruct (N.eqb_spec st Knight) as [EK|NK].
    + destruct (N.eqb_spec (band S (pieces b Knight)) 0) as [Z2|N2].
      2:{ cbv zeta. repeat split; try assumption; try (cbv; discriminate).
          - intros q Hq. unfold Knight in Hq. assert (q = 1) by lia. subst q. exact Z1.
          - right. left. split; [reflexivity|exact Z1]. }
      destruct (N.eqb_spec (band S (pieces b Bishop)) 0) as [Z3|N3].
      2:{ cbv zeta. repeat split; try assumption; try (cbv; discriminate).
          - intros q Hq. unfold Bishop in Hq. assert (q = 1 \/ q = 2) as [-> | ->] by lia; assumption.
          - right. right. repeat split; assumption. }
      destruct (N.eqb_spec (band S (pieces b Rook)) 0) as [Z4|N4].
      2:{ cbv zeta. repeat split; try assumption; try (cbv; discriminate).
          - intros q Hq. unfold Rook in Hq. assert (q = 1 \/ q = 2 \/ q = 3) as [-> |[-> | ->]] by lia; assumption.
          - right. right. repeat split; assumption. }
      destruct (N.eqb_spec (band S (pieces b Queen)) 0) as [Z5|N5].
      2:{ cbv zeta. repeat split; try assumption; try (cbv; discriminate).
          - intros q Hq. unfold Queen in Hq.
            assert (q = 1 \/ q = 2 \/ q = 3 \/ q = 4) as [-> |[-> |[-> | ->]]] by lia; assumption.
          - right. right. repeat split; assumption. }
      split; [apply KingLeaf; assumption|reflexivity].
    + pose proof (ZN NP NK) as Z2.
      destruct (N.eqb_spec (band S (pieces b Bishop)) 0) as [Z3|N3].
      2:{ cbv zeta. repeat split; try assumption; try (cbv; discriminate).
          - intros q Hq. unfold Bishop in Hq. assert (q = 1 \/ q = 2) as [-> | ->] by lia; assumption.
          - right. right. repeat split; assumption. }
      destruct (N.eqb_spec (band S (pieces b Rook)) 0) as [Z4|N4].
      2:{ cbv zeta. repeat split; try assumption; try (cbv; discriminate).
          - intros q Hq. unfold Rook in Hq. assert (q = 1 \/ q = 2 \/ q = 3) as [-> |[-> | ->]] by lia; assumption.
          - right. right. repeat split; assumption. }
      destruct (N.eqb_spec (band S (pieces b Queen)) 0) as [Z5|N5].
      2:{ cbv zeta. repeat split; try assumption; try (cbv; discriminate).
          - intros q Hq. unfold Queen in Hq.
            assert (q = 1 \/ q = 2 \/ q = 3 \/ q = 4) as [-> |[-> |[-> | ->]]] by lia; assumption.
          - right. right. repeat split; assumption. }
      split; [apply KingLeaf; assumption|reflexivity].
Qed.

(* ------------------------------------------------------------------------------------------ *)
(* the invariant survives a capture *)

Definition dflag (p : N) : bool := (p =? Pawn) || (p =? Bishop) || (p =? Queen).
Definition lflag (p : N) : bool := (p =? Rook) || (p =? Queen).

Lemma discover_testbit p o att0 s : 1 <= p <= 5 -> s < 64 ->
  N.testbit (discover b to p o att0) s =
  N.testbit att0 s
  || (dflag p && N.testbit (bishop_moves to o) s && ((piece_at b s =? Bishop) || (piece_at b s =? Queen)))
  || (lflag p && N.testbit (rook_moves to o) s && ((piece_at b s =? Rook) || (piece_at b s =? Queen))).
Proof.
  intros Hp Hs. unfold discover, disc_diag, disc_line, dflag, lflag, band, bor.
  rewrite <- (wf_kind b W s Bishop), <- (wf_kind b W s Rook), <- (wf_kind b W s Queen)
    by (try exact Hs; cbv; split; discriminate).
  assert (C : p = 1 \/ p = 2 \/ p = 3 \/ p = 4 \/ p = 5) by lia.
  destruct C as [->|[->|[->|[->| ->]]]]; cbn [N.eqb Pos.eqb Pawn Knight Bishop Rook Queen King orb];
    rewrite ?N.lor_spec, ?N.land_spec, ?N.lor_spec; btauto.
Qed.

Lemma inv_step occ att sW sB c p x : inv occ att sW sB ->
  N.testbit (stm_att occ att c) x = true -> piece_at b x = p -> 1 <= p <= 5 ->
  forall s, N.testbit (clrb occ x) s = true ->
  N.testbit (discover b to p (clrb occ x) (band att occ)) s = att_bit b to (clrb occ x) s.
Proof.
  intros I Hx Hpx Hp s Hs'.
  destruct (S_facts _ _ _ _ _ _ I Hx) as [Hox [Hcx [Hax [Hx64 _]]]].
  rewrite clrb_testbit in Hs'. apply andb_true_iff in Hs'. destruct Hs' as [Hos Hne].
  assert (Hs : s < 64) by (eapply testbit_lt64; [apply (inv_occ _ _ _ _ I)|exact Hos]).
  rewrite (discover_testbit p _ _ s Hp Hs).
  assert (Ea : N.testbit (band att occ) s = att_bit b to occ s).
  { unfold band. rewrite N.land_spec, Hos, andb_true_r. apply (inv_att _ _ _ _ I). exact Hos. }
  rewrite Ea. clear Ea.
  (* the squares the capturer can stand on *)
  assert (Hd : p = Knight \/ p = Rook -> bishop_moves to (clrb occ x) = bishop_moves to occ).
  { intros Hk. unfold bishop_moves, bishop_attacks. apply slide_clrb_off.
    unfold att_bit in Hax. rewrite Hpx in Hax. destruct Hk as [-> | ->].
    - cbn [N.eqb Pos.eqb Pawn Knight Bishop Rook Queen King] in Hax.
      apply (knight_off to x Ht Hax).
    - cbn [N.eqb Pos.eqb Pawn Knight Bishop Rook Queen King] in Hax.
      intros Hin. apply (rays_disjoint to x Ht Hin). eapply slide_in_rays. exact Hax. }
  assert (Hl : p = Pawn \/ p = Knight \/ p = Bishop -> rook_moves to (clrb occ x) = rook_moves to occ).
  { intros Hk. unfold rook_moves, rook_attacks. apply slide_clrb_off.
    unfold att_bit in Hax. rewrite Hpx in Hax. destruct Hk as [-> |[-> | ->]].
    - cbn [N.eqb Pos.eqb Pawn Knight Bishop Rook Queen King] in Hax.
      intros Hin. apply orb_true_iff in Hax.
      destruct Hax as [Hax|Hax]; apply andb_true_iff in Hax; destruct Hax as [Hax _];
        apply (rays_disjoint to x Ht (pawn_diag to _ x Ht Hax) Hin).
    - cbn [N.eqb Pos.eqb Pawn Knight Bishop Rook Queen King] in Hax.
      apply (knight_off to x Ht Hax).
    - cbn [N.eqb Pos.eqb Pawn Knight Bishop Rook Queen King] in Hax.
      intros Hin. eapply (rays_disjoint to x Ht); [|exact Hin]. eapply slide_in_rays. exact Hax. }
  assert (Hb : N.testbit (bishop_moves to occ) s = true -> N.testbit (bishop_moves to (clrb occ x)) s = true)
    by apply slide_clrb_mono.
  assert (Hr : N.testbit (rook_moves to occ) s = true -> N.testbit (rook_moves to (clrb occ x)) s = true)
    by apply slide_clrb_mono.
  unfold att_bit, dflag, lflag.
  set (bs := N.testbit (bishop_moves to occ) s) in *.
  set (bs' := N.testbit (bishop_moves to (clrb occ x)) s) in *.
  set (rs := N.testbit (rook_moves to occ) s) in *.
  set (rs' := N.testbit (rook_moves to (clrb occ x)) s) in *.
  assert (Hd' : p = Knight \/ p = Rook -> bs' = bs) by (intros H; unfold bs', bs; rewrite (Hd H); reflexivity).
  assert (Hl' : p = Pawn \/ p = Knight \/ p = Bishop -> rs' = rs) by (intros H; unfold rs', rs; rewrite (Hl H); reflexivity).
  clearbody bs bs' rs rs'. clear Hd Hl.
  assert (C : p = 1 \/ p = 2 \/ p = 3 \/ p = 4 \/ p = 5) by lia.
  destruct (kind_cases _ (wf_le6 b W s Hs)) as [E|[E|[E|[E|[E|[E|E]]]]]]; rewrite E;
    cbn [N.eqb Pos.eqb Pawn Knight Bishop Rook Queen King orb andb];
    rewrite ?andb_false_r, ?orb_false_r; try reflexivity;
    destruct C as [->|[->|[->|[->| ->]]]]; cbn [N.eqb Pos.eqb Pawn Knight Bishop Rook Queen King orb andb];
    rewrite ?andb_false_r, ?orb_false_r, ?andb_true_r;
    try (rewrite (Hd' ltac:(auto)));
    try (rewrite (Hl' ltac:(auto)));
    destruct bs, bs', rs, rs'; try reflexivity;
    try (specialize (Hb eq_refl); discriminate); try (specialize (Hr eq_refl); discriminate);
    try (specialize (Hd' ltac:(auto)); discriminate); try (specialize (Hl' ltac:(auto)); discriminate).
Qed.

End Loop.

(* ------------------------------------------------------------------------------------------ *)
(* the engine's iteration produces the specified sequence *)

Lemma land_lt_l x y : x < two64 -> N.land x y < two64.
Proof.
  intros H. apply testbit_lt_two64. intros i Hi. rewrite N.land_spec, (lt_two64_testbit x H i Hi). reflexivity.
Qed.

Lemma value_mono p q : 1 <= p -> p <= q -> q <= 6 -> (value p <= value q)%Z.
Proof.
  intros H1 H2 H3.
  assert (Cp : p = 1 \/ p = 2 \/ p = 3 \/ p = 4 \/ p = 5 \/ p = 6) by lia.
  assert (Cq : q = 1 \/ q = 2 \/ q = 3 \/ q = 4 \/ q = 5 \/ q = 6) by lia.
  destruct Cp as [->|[->|[->|[->|[->| ->]]]]]; destruct Cq as [->|[->|[->|[->|[->| ->]]]]];
    try lia; cbv; discriminate.
Qed.

Lemma candidates_nonempty A : A <> [] -> candidates A <> [].
Proof.
  intros H. destruct (least_value_attained A H) as [y [Hy E]].
  assert (In y (candidates A)).
  { unfold candidates. apply filter_In. split; [exact Hy|]. apply Z.eqb_eq. symmetry. exact E. }
  intros Z. rewrite Z in H0. destruct H0.
Qed.

Lemma enemy_nil b to occ att sW sB c : wf_board b -> to < 64 -> inv b to occ att sW sB ->
  (band (band att occ) (bnot (colors b c)) =? 0) = is_nil (attackers_of b (flip c) occ to).
Proof.
  intros W Ht I.
  assert (Hc : forall s, N.testbit (band (band att occ) (bnot (colors b c))) s = true <->
                         N.testbit (stm_att b occ att (flip c)) s = true).
  { intros s. unfold stm_att, band. rewrite !N.land_spec, bnot_testbit. split.
    - intros H. apply andb_true_iff in H. destruct H as [H1 H2]. apply andb_true_iff in H2. destruct H2 as [H2 H3].
      rewrite H1. cbn. apply andb_true_iff in H1. destruct H1 as [_ Ho].
      destruct (inv_sub _ _ _ _ _ _ I s Ho) as [Hw|Hb]; destruct c; cbn [flip]; try assumption;
        rewrite ?Hw, ?Hb in H3; discriminate.
    - intros H. apply andb_true_iff in H. destruct H as [H1 H2]. rewrite H1. cbn.
      rewrite (proj2 (N.ltb_lt s 64) (color_lt64 b _ s W H2)). cbn.
      pose proof (color_excl b _ s W H2) as X. destruct c; cbn [flip] in *; rewrite X; reflexivity. }
  destruct (attackers_of b (flip c) occ to) as [|[s q] r] eqn:E; cbn [is_nil].
  - apply N.eqb_eq. apply zero_testbit. intros s.
    destruct (N.testbit (band (band att occ) (bnot (colors b c))) s) eqn:T; [|reflexivity]. exfalso.
    apply Hc in T.
    assert (In (s, piece_at b s) (attackers_of b (flip c) occ to))
      by (apply (S_spec b to W Ht occ att sW sB); [exact I|split; [exact T|reflexivity]]).
    rewrite E in H. destruct H.
  - apply N.eqb_neq. intros Z.
    assert (In (s, q) (attackers_of b (flip c) occ to)) by (rewrite E; left; reflexivity).
    apply (S_spec b to W Ht occ att sW sB _ _ _ I) in H. destruct H as [H _].
    apply Hc in H. rewrite Z, N.bits_0 in H. discriminate.
Qed.

Lemma inv_next b to occ att sW sB c p x st' : wf_board b -> to < 64 -> inv b to occ att sW sB ->
  N.testbit (stm_att b occ att c) x = true -> piece_at b x = p -> 1 <= p <= 5 ->
  (st' = Pawn \/ (st' = Knight /\ band (stm_att b occ att c) (pieces b Pawn) = 0) \/
   (st' = Bishop /\ band (stm_att b occ att c) (pieces b Pawn) = 0 /\ band (stm_att b occ att c) (pieces b Knight) = 0)) ->
  match c with
  | White => inv b to (clrb occ x) (discover b to p (clrb occ x) (band att occ)) st' sB
  | Black => inv b to (clrb occ x) (discover b to p (clrb occ x) (band att occ)) sW st'
  end.
Proof.
  intros W Ht I Hx Hpx Hp Hst.
  assert (M : marker_ok b to (clrb occ x) c st').
  { destruct Hst as [H|[[H1 H2]|[H1 [H2 H3]]]]; [left; exact H|right; left|right; right].
    - split; [exact H1|]. apply noatt_mono; [left; reflexivity|].
      apply (zero_noatt b to W occ att sW sB c Pawn I); [cbv; split; discriminate|exact H2].
    - split; [exact H1|]. split; apply noatt_mono.
      + left; reflexivity.
      + apply (zero_noatt b to W occ att sW sB c Pawn I); [cbv; split; discriminate|exact H2].
      + right; reflexivity.
      + apply (zero_noatt b to W occ att sW sB c Knight I); [cbv; split; discriminate|exact H3]. }
  assert (Hsub : forall s, N.testbit (clrb occ x) s = true ->
                 N.testbit (colors b White) s = true \/ N.testbit (colors b Black) s = true).
  { intros s Hs. rewrite clrb_testbit in Hs. apply andb_true_iff in Hs. destruct Hs as [Hs _].
    apply (inv_sub _ _ _ _ _ _ I s Hs). }
  pose proof (inv_step b to W Ht occ att sW sB c p x I Hx Hpx Hp) as Hatt.
  destruct c; constructor; try assumption;
    try (apply clrb_lt; apply (inv_occ _ _ _ _ _ _ I));
    try (apply marker_mono; [apply (inv_mW _ _ _ _ _ _ I) || apply (inv_mB _ _ _ _ _ _ I)]).
Qed.

Lemma gains_captures b to : wf_board b -> to < 64 ->
  forall fuel stm occ att sW sB standing, inv b to occ att sW sB ->
  gains_iter fuel b to stm occ att sW sB standing =
  captures fuel b impl_choice to (flip stm) occ standing.
Proof.
  intros W Ht. induction fuel as [|k IH]; intros stm occ att sW sB standing I; [reflexivity|].
  cbn [gains_iter captures].
  set (c := flip stm).
  change (band (band att occ) (colors b c)) with (stm_att b occ att c).
  set (S := stm_att b occ att c).
  remember (attackers_of b c occ to) as A eqn:HeqA.
  assert (HA : forall s q, In (s, q) A <-> (N.testbit S s = true /\ q = piece_at b s))
    by (intros s q; rewrite HeqA; apply (S_spec b to W Ht occ att sW sB c s q I)).
  destruct (N.eqb_spec S 0) as [Z|NZ].
  { destruct A as [|[s q] A'] eqn:EA; [reflexivity|]. exfalso.
    destruct (proj1 (HA s q) (or_introl eq_refl)) as [H _]. rewrite Z, N.bits_0 in H. discriminate. }
  assert (HAne : A <> []).
  { intros E. assert (In (lsb S, piece_at b (lsb S)) A) by (apply HA; split; [apply lsb_testbit; exact NZ|reflexivity]).
    rewrite E in H. destruct H. }
  destruct A as [|a0 A']; [congruence|]. set (A := a0 :: A') in *.
  set (start := match c with White => sW | Black => sB end).
  assert (M : marker_ok b to occ c start)
    by (unfold start; destruct c; [apply (inv_mW _ _ _ _ _ _ I)|apply (inv_mB _ _ _ _ _ _ I)]).
  pose proof (step0_spec b to W Ht occ att sW sB c start I M) as SP. cbv zeta in SP. fold S in SP.
  destruct (step0 b to c occ (band att occ) start) as [e|p o a st'].
  - (* only kings attack *)
    destruct SP as [Hall He].
    pose proof (impl_choice_min (candidates A) (candidates_nonempty A HAne)) as [Hin _].
    destruct (impl_choice (candidates A)) as [s p] eqn:EC.
    apply candidates_sub in Hin. apply HA in Hin. destruct Hin as [Hs ->].
    rewrite (Hall s Hs). change (King =? King) with true. cbv iota.
    rewrite <- (enemy_nil b to occ att sW sB c W Ht I). rewrite He.
    destruct (band (band att occ) (bnot (colors b c)) =? 0); reflexivity.
  - destruct SP as [HF [Hp [Ho [Ha [Hlt Hst]]]]].
    set (F := band S (pieces b p)) in *.
    set (x := lsb F).
    assert (Hp6 : 1 <= p <= 6) by lia.
    assert (HFx : N.testbit F x = true) by (apply lsb_testbit; exact HF).
    assert (HFs : forall s, N.testbit F s = N.testbit S s && (piece_at b s =? p))
      by (intros s; apply (Sk_testbit b to W occ att sW sB c p s I Hp6)).
    assert (Hx : N.testbit S x = true /\ piece_at b x = p).
    { rewrite HFs in HFx. apply andb_true_iff in HFx. destruct HFx as [H1 H2]. apply N.eqb_eq in H2. tauto. }
    destruct Hx as [HSx Hpx].
    (* every attacker is of a kind >= p *)
    assert (Hge : forall s, N.testbit S s = true -> p <= piece_at b s <= 6).
    { intros s Hs. destruct (S_facts b to W occ att sW sB c s I Hs) as [_ [_ [_ [_ Hk]]]].
      split; [|lia]. destruct (N.le_gt_cases p (piece_at b s)) as [L|L]; [exact L|exfalso].
      assert (Z : band S (pieces b (piece_at b s)) = 0) by (apply Hlt; lia).
      assert (T : N.testbit (band S (pieces b (piece_at b s))) s = true).
      { unfold S. rewrite (Sk_testbit b to W occ att sW sB c _ s I Hk). fold S. rewrite Hs, N.eqb_refl. reflexivity. }
      rewrite Z, N.bits_0 in T. discriminate. }
    assert (Hchoice : impl_choice (candidates A) = (x, p)).
    { apply impl_choice_unique.
      - apply candidate_of_cheapest.
        + apply HA. split; [exact HSx|symmetry; exact Hpx].
        + intros [s q] Hy. apply HA in Hy. destruct Hy as [Hs ->]. cbn [snd].
          apply value_mono; try lia; apply (Hge s Hs).
      - intros [s q] Hy Hne. apply candidates_sub in Hy. apply HA in Hy. destruct Hy as [Hs ->].
        unfold impl_better. cbn [fst snd].
        destruct (N.eq_dec (piece_at b s) p) as [E|E].
        + rewrite E, N.eqb_refl. cbn [andb]. apply orb_true_iff. right. apply N.ltb_lt.
          assert (HFs' : N.testbit F s = true) by (rewrite HFs, Hs, E, N.eqb_refl; reflexivity).
          pose proof (lsb_least F s HFs') as L. fold x in L.
          assert (s <> x) by (intros ->; apply Hne; rewrite <- E, Hpx; reflexivity). lia.
        + apply orb_true_iff. left. apply N.ltb_lt. pose proof (Hge s Hs). lia. }
    rewrite Hchoice.
    replace (p =? King) with false by (symmetry; apply N.eqb_neq; unfold King; lia).
    (* the new occupancy *)
    assert (HFlt : 0 < F < two64).
    { split; [lia|]. unfold F, S, stm_att, band. apply land_lt_l. rewrite N.land_comm. apply land_lt_l.
      apply (wf_cols_lt b W). }
    assert (Eo : o = clrb occ x).
    { rewrite Ho. rewrite (isolate_lsb_bit F HFlt). apply band_bnot_bit. apply (inv_occ _ _ _ _ _ _ I). }
    subst o. rewrite Eo in *. subst a.
    pose proof (inv_next b to occ att sW sB c p x st' W Ht I HSx Hpx Hp Hst) as IN.
    f_equal. change (value p) with (pval p).
    destruct c; apply IH; exact IN.
Qed.

(* ------------------------------------------------------------------------------------------ *)
(* the whole call *)

(* the move is shaped like a playable move: the origin square is occupied, the engine's notion of
   an en-passant capture (target = the en-passant square, mover a pawn) agrees with the geometric
   one (a pawn moving diagonally onto an empty square), promotion bits only on a pawn and only to
   Knight..Queen *)
Definition move_ok (b : board) (m : N) : Prop :=
  N.testbit (occupancy b) (mv_from m) = true /\
  is_en_passant b m = ep_capture b m /\
  (mv_promo m = NoPiece \/ (piece_at b (mv_from m) = Pawn /\ Knight <= mv_promo m <= Queen)).

Lemma land63_lt x : N.land x 63 < 64.
Proof. change 63 with (N.ones 6). rewrite N.land_ones. apply N.mod_lt. discriminate. Qed.
Lemma mv_to_lt m : mv_to m < 64. Proof. apply land63_lt. Qed.
Lemma mv_from_lt m : mv_from m < 64. Proof. apply land63_lt. Qed.

Lemma ep_square_ok :
  forallb (fun f => forallb (fun t =>
    N.lor (N.land t 7) (N.land f 56) =? sq_of (file_of t) (rank_of f)) squares64) squares64 = true.
Proof. vm_compute. reflexivity. Qed.

Lemma ep_square f t : f < 64 -> t < 64 -> N.lor (N.land t 7) (N.land f 56) = sq_of (file_of t) (rank_of f).
Proof.
  intros Hf Ht'. pose proof ep_square_ok as C.
  rewrite forallb_forall in C. specialize (C f (in_squares64 f Hf)).
  rewrite forallb_forall in C. specialize (C t (in_squares64 t Ht')).
  apply N.eqb_eq. exact C.
Qed.

Lemma capture_sq_victim b m : is_en_passant b m = ep_capture b m -> capture_sq b m = victim_square b m.
Proof.
  intros E. unfold capture_sq, victim_square. rewrite E. destruct (ep_capture b m); [|reflexivity].
  apply ep_square; [apply mv_from_lt|apply mv_to_lt].
Qed.

Lemma occupancy_lt b : wf_board b -> occupancy b < two64.
Proof.
  intros W. unfold occupancy, bor. apply testbit_lt_two64. intros i Hi. rewrite N.lor_spec.
  rewrite (lt_two64_testbit _ (wf_cols_lt b W White) i Hi), (lt_two64_testbit _ (wf_cols_lt b W Black) i Hi).
  reflexivity.
Qed.

Lemma see_occ_spec b m : wf_board b -> move_ok b m ->
  see_occ b m = (let occ := clrb (occupancy b) (mv_from m) in
                 if ep_capture b m then clrb occ (victim_square b m) else occ).
Proof.
  intros W [Hf [He _]]. unfold see_occ. cbv zeta. fold (occupancy b).
  rewrite (capture_sq_victim b m He), He.
  rewrite (bxor_bit_clrb _ _ Hf).
  destruct (ep_capture b m); [|reflexivity].
  apply band_bnot_bit. apply clrb_lt. apply occupancy_lt. exact W.
Qed.

Theorem see_gains_swap_list b m : wf_board b -> move_ok b m ->
  see_gains b m = swap_list b m impl_choice.
Proof.
  intros W M. pose proof (see_occ_spec b m W M) as EO. cbv zeta in EO.
  destruct M as [Hf [He Hp]].
  unfold see_gains, swap_list. cbv zeta.
  rewrite <- EO. rewrite (capture_sq_victim b m He).
  assert (Epz : promo_val m = if mv_promo m =? NoPiece then 0%Z else (value (mv_promo m) - value Pawn)%Z).
  { unfold promo_val. destruct (mv_promo m =? NoPiece); reflexivity. }
  rewrite Epz. f_equal.
  set (occ := see_occ b m).
  assert (Est : Z.add (pval (piece_at b (mv_from m))) (if mv_promo m =? NoPiece then 0%Z else (value (mv_promo m) - value Pawn)%Z)
                = if mv_promo m =? NoPiece then value (piece_at b (mv_from m)) else value (mv_promo m)).
  { destruct Hp as [E|[E _]].
    - rewrite E. change (NoPiece =? NoPiece) with true. cbv iota. unfold value, pval. lia.
    - rewrite E. destruct (mv_promo m =? NoPiece); unfold value, pval; lia. }
  rewrite Est. unfold capture_fuel.
  apply gains_captures; [exact W|apply mv_to_lt|].
  assert (Hocc : occ < two64).
  { unfold occ. rewrite EO. destruct (ep_capture b m); repeat apply clrb_lt; apply occupancy_lt; exact W. }
  constructor.
  - exact Hocc.
  - intros s Hs. unfold occ in Hs. rewrite EO in Hs.
    assert (Ho : N.testbit (occupancy b) s = true).
    { destruct (ep_capture b m); rewrite ?clrb_testbit in Hs;
        repeat (apply andb_true_iff in Hs; destruct Hs as [Hs _]); exact Hs. }
    unfold occupancy, bor in Ho. rewrite N.lor_spec in Ho. apply orb_true_iff in Ho. exact Ho.
  - intros s Hs. apply SA_testbit; [exact W|]. eapply testbit_lt64; eassumption.
  - left. reflexivity.
  - left. reflexivity.
Qed.

Lemma impl_choice_admissible : admissible impl_choice.
Proof. intros l Hl. apply (impl_choice_min l Hl). Qed.

(* C18 for the specified sequence *)
Theorem see_balance_spec b m t :
  wf_board b -> move_ok b m -> piece_at b (victim_square b m) <> King -> (-20000 <= t <= 20000)%Z ->
  see b m t = (t <=? balance (swap_list b m impl_choice))%Z.
Proof.
  intros W M Hk Ht. rewrite <- (see_gains_swap_list b m W M).
  apply see_balance_engine; [|exact Ht].
  destruct M as [_ [He Hp]]. split; [exact Hp|]. rewrite (capture_sq_victim b m He). exact Hk.
Qed.

Lemma move_okb_ok b m : move_okb b m = true -> move_ok b m.
Proof.
  unfold move_okb. intros H.
  apply andb_true_iff in H. destruct H as [H H3]. apply andb_true_iff in H. destruct H as [H1 H2].
  split; [exact H1|]. split; [apply eqb_prop; exact H2|].
  apply orb_true_iff in H3. destruct H3 as [H3|H3]; [left; apply N.eqb_eq; exact H3|right].
  apply andb_true_iff in H3. destruct H3 as [H3 H5]. apply andb_true_iff in H3. destruct H3 as [H3 H4].
  apply N.eqb_eq in H3. apply N.leb_le in H4, H5. repeat split; assumption.
Qed.
