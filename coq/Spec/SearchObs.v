(* Property judges of C06 / C07 / C08: readable, independent restatements of the clauses on the
   integer-encoded observations of harness/streams/{c06,c07,c08}.go.
   Each judge takes  input ++ observed output  and answers [1] (clauses hold) or [0; clause; ...].

   Request header (8 numbers, see harness/streams/sb_common.go):
     ttKB warm hasDepth depth nodes softNodes stopKind stopArg, then nFen fen..., nMoves moves... *)
From Coq Require Import ZArith Bool List.
Import ListNotations.
From Chess3 Require Import Gen.IdConsts.
Open Scope Z_scope.

Definition ztake (n : Z) (l : list Z) : list Z := firstn (Z.to_nat n) l.
Definition zdrop (n : Z) (l : list Z) : list Z := skipn (Z.to_nat n) l.
Definition zmem (x : Z) (l : list Z) : bool := existsb (Z.eqb x) l.

(* a counted block  n x1 .. xn  at the head of l: (block, rest) *)
Definition counted (l : list Z) : list Z * list Z :=
  match l with
  | n :: r => (ztake n r, zdrop n r)
  | [] => ([], [])
  end.

Record request := { rq_tt : Z; rq_warm : Z; rq_has_depth : Z; rq_depth : Z; rq_nodes : Z;
                    rq_soft : Z; rq_stop_kind : Z; rq_stop_arg : Z; rq_fen : list Z; rq_moves : list Z }.

(* parse a request at the head of l; the rest of l follows *)
Definition parse_request (l : list Z) : option (request * list Z) :=
  match l with
  | ttk :: warm :: hd :: d :: nodes :: soft :: sk :: sa :: r =>
      let '(fen, r1) := counted r in
      let '(moves, r2) := counted r1 in
      Some ({| rq_tt := ttk; rq_warm := warm; rq_has_depth := hd; rq_depth := d; rq_nodes := nodes;
               rq_soft := soft; rq_stop_kind := sk; rq_stop_arg := sa; rq_fen := fen; rq_moves := moves |}, r2)
  | _ => None
  end.

(* the depth limit the engine works with: the default is MaxPlies *)
Definition effective_depth (q : request) : Z := if rq_has_depth q =? 0 then MaxPlies else rq_depth q.

(* ------------------------------------------------------------------------------------------- *)
(* C06.  Observation:
     move score ponder aborted nodes nLegal legal... fifty threefold inCheck snapEq second pseudoOK watchdog
   Clauses
     1  the returned move is null or a legal move of the root
     2  (depth >= 1) null move only on a final root (no legal move / clock >= 100 / third occurrence)
     3  (depth >= 1) a search that was not aborted on a final root returns the null move
     4  ... with score 0, or the mated score when the root is checkmate
     5  the board (every attribute, hash history included) is what it was before the call
     6  the same engine instance could be searched again (code of what failed follows)
     7  the returned move is pseudo-legal for the engine's own test
     98 the call panicked, 90 it had to be stopped by the harness' watchdog, 99 malformed observation *)
Definition score_unknown : Z := 12345.

Definition judge_observation (depth : Z) (obs : list Z) : list Z :=
  match obs with
  | [-1; -1; -1] => [0; 98]
  | move :: score :: ponder :: aborted :: nodes :: r =>
      let '(legal, r1) := counted r in
      match r1 with
      | [fifty; three; incheck; snapeq; second; pseudo; wd] =>
          let nolegal := match legal with [] => true | _ => false end in
          let other := (100 <=? fifty) || (3 <=? three) in
          let final := nolegal || other in
          let mate := nolegal && (incheck =? 1) in
          let claims := 1 <=? depth in
          let completed := aborted =? 0 in
          let score_ok :=
            if score =? score_unknown then true
            else if mate && negb other then score =? - ScoreInf
            else if mate then (score =? 0) || (score =? - ScoreInf)
            else score =? 0 in
          if wd =? 1 then [0; 90]
          else if negb ((move =? 0) || zmem move legal) then [0; 1]
          else if claims && (move =? 0) && negb final then [0; 2]
          else if claims && completed && final && negb (move =? 0) then [0; 3]
          else if claims && completed && final && negb score_ok then [0; 4]
          else if negb (snapeq =? 1) then [0; 5]
          else if negb (second =? 1) then [0; 6; second]
          else if negb (pseudo =? 1) then [0; 7]
          else [1]
      | _ => [0; 99]
      end
  | _ => [0; 99]
  end.

Definition judge_c06 (io : list Z) : list Z :=
  match parse_request io with
  | Some (q, obs) => judge_observation (effective_depth q) obs
  | None => [0; 99]
  end.

(* through UCI: whatever follows `go depth`, the claims of depth >= 1 apply (C06: "the same through
   the UCI go command with arbitrary numeric arguments"); the argument text follows the request *)
Definition judge_c06uci (io : list Z) : list Z :=
  match parse_request io with
  | Some (q, r) => let '(_, obs) := counted r in judge_observation 1 obs
  | None => [0; 99]
  end.

(* ------------------------------------------------------------------------------------------- *)
(* C07.  Observation:
     nLines (kind depth nodes scoreKind scoreVal pvlen legalPrefix pv0 pv1)* move ponder ponderLegal parsedOK
   Clauses
     1  every reported variation is legal move by move from the root (legalPrefix = pvlen)
     2  the move returned is the first move of the most recent non-empty reported variation
        (no claim when no non-empty variation was reported)
     3  the ponder move, when given, is legal after the move returned
     4  reported depths strictly increase
     5  reported node counts never decrease
     6  a ponder move is the second move of that same most recent non-empty variation (this is how
        the engine guarantees clause 3: a ponder move kept from an older variation need not be legal
        after the new first move; theorem C07_best)
     97 a line was not understood, 98 panic, 99 malformed observation *)
Definition pline := (Z * Z * Z * Z * Z * Z * Z * Z * Z)%type.

Fixpoint take_plines (n : nat) (l : list Z) : option (list pline * list Z) :=
  match n with
  | O => Some ([], l)
  | S n' =>
      match l with
      | k :: d :: nd :: sk :: sv :: pl :: lp :: p0 :: p1 :: r =>
          match take_plines n' r with
          | Some (ls, r') => Some ((k, d, nd, sk, sv, pl, lp, p0, p1) :: ls, r')
          | None => None
          end
      | _ => None
      end
  end.

Definition pl_depth (p : pline) : Z := let '(_, d, _, _, _, _, _, _, _) := p in d.
Definition pl_nodes (p : pline) : Z := let '(_, _, n, _, _, _, _, _, _) := p in n.
Definition pl_legal (p : pline) : bool := let '(_, _, _, _, _, pl, lp, _, _) := p in pl =? lp.

(* head of the most recent non-empty variation, if any *)
Fixpoint last_head (ls : list pline) (acc : option Z) : option Z :=
  match ls with
  | [] => acc
  | (_, _, _, _, _, pl, _, p0, _) :: r => last_head r (if 0 <? pl then Some p0 else acc)
  end.

(* second move of the most recent non-empty variation (0 when it has one move) *)
Fixpoint last_second (ls : list pline) (acc : option Z) : option Z :=
  match ls with
  | [] => acc
  | (_, _, _, _, _, pl, _, _, p1) :: r => last_second r (if 0 <? pl then Some (if 1 <? pl then p1 else 0) else acc)
  end.

Fixpoint strictly_increasing (l : list Z) : bool :=
  match l with
  | a :: (b :: _) as r => (a <? b) && strictly_increasing r
  | _ => true
  end.

Fixpoint non_decreasing (l : list Z) : bool :=
  match l with
  | a :: (b :: _) as r => (a <=? b) && non_decreasing r
  | _ => true
  end.

Definition judge_lines (obs : list Z) : list Z :=
  match obs with
  | [-1; -1; -1] => [0; 98]
  | n :: r =>
      match take_plines (Z.to_nat n) r with
      | Some (ls, [move; ponder; ponder_legal; parsed]) =>
          if negb (parsed =? 1) then [0; 97]
          else if negb (forallb pl_legal ls) then [0; 1]
          else if match last_head ls None with Some h => negb (h =? move) | None => false end then [0; 2]
          else if negb (ponder_legal =? 1) then [0; 3]
          else if negb (strictly_increasing (map pl_depth ls)) then [0; 4]
          else if negb (non_decreasing (map pl_nodes ls)) then [0; 5]
          else if negb (ponder =? 0) &&
                  negb (match last_second ls None with Some p => p =? ponder | None => false end) then [0; 6]
          else [1]
      | _ => [0; 99]
      end
  | _ => [0; 99]
  end.

Definition judge_c07 (io : list Z) : list Z :=
  match parse_request io with
  | Some (_, obs) => judge_lines obs
  | None => [0; 99]
  end.

(* ------------------------------------------------------------------------------------------- *)
(* C08.  Observation of one game played by engines A, B (concurrently, soft limits) and C (hard
   budgets = nodes A used):  plies abStep abWhat shStep shWhat overBudget stateEq followEq
   Clauses
     1  A and B agree on every move, score, ponder move, node count and printed line (time field
        excluded)                                   [0; 1; ply; observable]
     2  the hard-budget replay C agrees with A      [0; 2; ply; observable]
     3  no search passed its hard budget
     4  table, history tables and generation counter left behind by A and C are equal
     5  an identical follow-up search on A and C gives identical results *)
Definition judge_c08 (io : list Z) : list Z :=
  match parse_request io with
  | Some (_, obs) =>
      match obs with
      | [-1; -1; -1] => [0; 98]
      | [plies; ab; abw; sh; shw; over; st; fo] =>
          if negb (ab =? -1) then [0; 1; ab; abw]
          else if negb (sh =? -1) then [0; 2; sh; shw]
          else if negb (over =? 0) then [0; 3]
          else if st =? 0 then [0; 4]
          else if negb (fo =? 1) then [0; 5]
          else [1]
      | _ => [0; 99]
      end
  | None => [0; 99]
  end.

(* hard budget over the c06 request sweep: Counters.Nodes <= budget whenever a budget is given
   (the counter starts at 0 in these runs) *)
Definition judge_c08budget (io : list Z) : list Z :=
  match parse_request io with
  | Some (q, obs) =>
      match obs with
      | [-1; -1; -1] => [0; 98]
      | _ :: _ :: _ :: _ :: nodes :: _ =>
          if (0 <=? rq_nodes q) && (rq_nodes q <? nodes) then [0; 3; nodes] else
          if nodes <? 0 then [0; 3; nodes] else [1]
      | _ => [0; 99]
      end
  | None => [0; 99]
  end.

(* C08, engines that share nothing but the process (stream c08par): >= 4 fresh engines serve the same
   request at the same time, no WithCounters option, node counts read from the printed lines.
   Observation:  engines plies soloAgree badEngine badStep badWhat maxNodes budget refNodes refDepth
   Clauses
     6  two solo runs of the request agree (baseline of the comparison)
     7  every concurrently running engine reproduces the solo run: move, score, ponder move, node
        count and every printed line (time excluded)        [0; 7; engine; ply; observable]
     3  no printed node count passes the hard budget (maxNodes <= budget) *)
Definition judge_c08par (io : list Z) : list Z :=
  match parse_request io with
  | Some (_, obs) =>
      match obs with
      | [-1; -1; -1] => [0; 98]
      | [engines; plies; solo; bade; bads; badw; maxn; budget; refn; refd] =>
          if (0 <=? budget) && (budget <? maxn) then [0; 3]
          else if negb (solo =? 1) then [0; 6]
          else if negb (bade =? -1) then [0; 7; bade; bads; badw]
          else [1]
      | _ => [0; 99]
      end
  | None => [0; 99]
  end.

(* C08, "after Clear the engine behaves like a fresh one" (stream c08clear): results are a function of
   the stored state, and Clear / ucinewgame is what resets that state.
   Observation:  k viaUCI digestEq followStep followWhat followNodes gen
   Clauses
     8  after k searches and a clear, every table bucket, every history cell and the generation counter
        equal those of a fresh engine                                   [0; 8; k mod 256]
     9  the follow-up request is answered as a fresh engine answers it   [0; 9; observable] *)
Definition judge_c08clear (io : list Z) : list Z :=
  match parse_request io with
  | Some (_, obs) =>
      match obs with
      | [-1; -1; -1] => [0; 98]
      | [k; via; dig; fstep; fwhat; fnodes; gen] =>
          if dig =? 0 then [0; 8; k mod 256]
          else if negb (fstep =? -1) then [0; 9; fwhat]
          else [1]
      | _ => [0; 99]
      end
  | None => [0; 99]
  end.
