(* Spec-level oracle of stream c05s: property C05 asked repeatedly on one long-lived board.
   It looks only at what the implementation produced (the board it reports at each question and its two
   accepted sets and its generated set there) and at Spec/Chess.v ([valid], [abs]); neither the engine
   model nor the list of operations is used.

   input = board-in ++ [n; ops..] ++ records,  REC = [step] ++ board-out-nohist ++ [#acc1 acc1.. #gen gen.. #acc2 acc2..]
     [1]              every question on a valid position has acc1 = gen = acc2 as sets of 15-bit encodings
     [0; 1; step; m]  at that step encoding m is accepted by IsPseudoLegal but not generated
     [0; 2; step; m]  encoding m is generated but not accepted
     [0; 3; step; m]  an observed encoding is outside 0..32767
     [0; 4; step; m]  the two sweeps of one question differ in encoding m (same board object, nothing in between)
     [0; 9]           malformed observation (a panic of the implementation is recorded as -1 -1 -1)  *)
From Coq Require Import NArith ZArith List Bool.
From Chess3 Require Import Base.Bits Model.Types Spec.Geometry Model.BoardDef Spec.Chess Spec.ChessJudge Spec.C05Judge.
Import ListNotations.
Open Scope Z_scope.

(* the board a record reports: P0..P6 C0 C1 stm ep castles fifty full SQ (the per-square word SQ is not needed:
   the placement is rebuilt from the piece sets as for board-in) *)
Definition board_of_record (l : list Z) : option (board * list Z) :=
  match l with
  | _ :: p1 :: p2 :: p3 :: p4 :: p5 :: p6 :: c0 :: c1 :: st :: e :: ca :: fi :: fu :: _ :: rest =>
      match decode_board [p1; p2; p3; p4; p5; p6; c0; c1; st; e; ca; fi; fu; 1; 0] with
      | Some (b, _) => Some (b, rest)
      | None => None
      end
  | _ => None
  end.

Definition sym_diff_first (a b : list N) : option N :=
  match first_not_in a b with Some m => Some m | None => first_not_in b a end.

Definition judge_question (step : Z) (b : board) (acc1 gen acc2 : list N) : list Z :=
  if negb (valid (abs b)) then [1] else
  match judge_sets acc1 gen with
  | [1] =>
      match sym_diff_first acc1 acc2 with
      | Some m => [0; 4; step; Z.of_N m]
      | None => [1]
      end
  | 0 :: c :: m :: _ => [0; c; step; m]
  | _ => [0; 9]
  end.

Fixpoint judge_records (fuel : nat) (l : list Z) : list Z :=
  match fuel with
  | O => [0; 9]
  | S fuel' =>
      match l with
      | [] => [1]
      | step :: r0 =>
          match board_of_record r0 with
          | None => [0; 9]
          | Some (b, r1) =>
              match r1 with
              | [] => [0; 9]
              | _ =>
                let '(acc1, r2) := take_counted r1 in
                match r2 with
                | [] => [0; 9]
                | _ =>
                  let '(gen, r3) := take_counted r2 in
                  match r3 with
                  | [] => [0; 9]
                  | _ =>
                    let '(acc2, r4) := take_counted r3 in
                    match judge_question step b (map Z.to_N acc1) (map Z.to_N gen) (map Z.to_N acc2) with
                    | [1] => judge_records fuel' r4
                    | v => v
                    end
                  end
                end
              end
          end
      end
  end.

Definition judge_c05s (l : list Z) : list Z :=
  match decode_board l with
  | Some (_, n :: rest) =>
      let recs := skipn (Z.to_nat n) rest in
      match recs with
      | [] => [0; 9]
      | _ => judge_records (S (length recs)) recs
      end
  | _ => [0; 9]
  end.
