(* Values of quiescence on the closed search model, and the table invariant "every stored value is a
   score" ([tt_values_ok], Proofs/SearchModelLegalNull.v).

   Ply-relative bound.  At ply p a value v of a search that was not aborted satisfies
        |v| <= vmax p = max (Inf - p) (Inf - MaxPlies)
   - mate scores are -Inf + ply, negated on the way up: a value found at ply q > p has |v| <= Inf - q;
   - the static evaluation is clamped to +-(Inf - MaxPlies - 1) (staticEvaluation, /repo 73ba4a5);
   - a stored value sv in [-Inf, Inf] comes back as sv -+ ply when it is a mate score, unchanged otherwise;
   - Insert re-bases a value with |v| <= vmax ply to [-Inf, Inf]: the table invariant is kept.
   Quiescence needs 0 <= ply (no int8 wrap), which is Proofs/SearchModelBoundsQ.v's [ply_ok].

   NOT true of alphaBeta at depth >= 2 in general: null move pruning returns `beta`, a window bound that
   was computed at a lower ply and is not re-based (see Properties/C06_bounds.v). *)
From Coq Require Import NArith ZArith List Bool Lia Permutation.
From Chess3 Require Import Proofs.LayoutNow.
From Chess3 Require Import Base.Bits Base.Word Model.Types Model.BoardDef Model.Board Model.Search
  Spec.Chess Spec.Rep Spec.Applicable Proofs.PickerProofs Proofs.SearchModelInv Proofs.SearchModelPicker
  Proofs.SearchModelBoard Proofs.SearchModelLegalBase Proofs.SearchModelLegal Proofs.SearchModelLegalId
  Proofs.SearchModelLegalNull Proofs.SearchModelLegalFuel Proofs.SearchModelBoundsMu Proofs.SearchModelBoundsQ.
From Chess3 Require Model.Movegen Model.Mate Model.Eval Model.TT Model.Hist Model.Picker Model.See
  Model.Pv Model.IterDeepen Proofs.PvProofs.
Import ListNotations.
Open Scope Z_scope.

Definition vmax (ply : Z) : Z := Z.max (SearchParams.Inf - ply) TTConsts.MateHi.
Definition val_ok (ply v : Z) : Prop := - vmax ply <= v <= vmax ply.
Definition score_ok (v : Z) : Prop := - SearchParams.Inf <= v <= SearchParams.Inf.

Ltac consts := unfold val_ok, score_ok, vmax, SearchParams.Inf, SearchParams.MaxPlies, TTConsts.MateHi, TTConsts.MateLo in *.

Lemma val_score ply v : 0 <= ply -> val_ok ply v -> score_ok v.
Proof. consts. lia. Qed.

Lemma val_ok_0 ply : val_ok ply 0.
Proof. consts. lia. Qed.

Lemma val_ok_neg ply v : 0 <= ply -> val_ok (ply + 1) v -> val_ok ply (neg16 v).
Proof. unfold neg16. intros Hp H. rewrite wrap16_id; consts; lia. Qed.

Lemma val_ok_max ply a b : val_ok ply a -> val_ok ply b -> val_ok ply (Z.max a b).
Proof. consts. lia. Qed.

Lemma val_ok_static ply b : val_ok ply (static_evaluation b).
Proof. unfold static_evaluation, clamp. consts. lia. Qed.

Lemma val_ok_mate ply : 0 <= ply <= 127 -> val_ok ply (add16 (- SearchParams.Inf) (wrap16 ply)).
Proof. intros H. unfold add16. rewrite (wrap16_id ply) by lia. rewrite wrap16_id; consts; lia. Qed.

(* entry.Value / the re-basing of Insert *)
Lemma entry_value_ok e ply : score_ok (TT.e_value e) -> 0 <= ply <= 127 -> val_ok ply (TT.entry_value e ply).
Proof.
  intros H Hp. unfold TT.entry_value.
  destruct (TTConsts.MateHi <? TT.e_value e) eqn:C1; [apply Z.ltb_lt in C1; rewrite wrap16_id; consts; lia|].
  destruct (TT.e_value e <? TTConsts.MateLo) eqn:C2; [apply Z.ltb_lt in C2; rewrite wrap16_id; consts; lia|].
  apply Z.ltb_ge in C1, C2. consts. lia.
Qed.

Lemma store_value_ok v ply : val_ok ply v -> 0 <= ply <= 127 -> score_ok (TT.store_value v ply).
Proof.
  intros H Hp. unfold TT.store_value.
  destruct (v <? TTConsts.MateLo) eqn:C1.
  - apply Z.ltb_lt in C1. rewrite (wrap16_id (v - ply)) by (consts; lia).
    destruct (TTConsts.MateHi <? v - ply) eqn:C2; [apply Z.ltb_lt in C2; consts; lia|]. consts. lia.
  - apply Z.ltb_ge in C1.
    destruct (TTConsts.MateHi <? v) eqn:C2; [apply Z.ltb_lt in C2; rewrite wrap16_id; consts; lia|].
    apply Z.ltb_ge in C2. consts. lia.
Qed.

(* ------------------------------------------------------------------------------------------ *)
(* the table invariant *)

Definition entry_vok (e : TT.entry) : Prop := - SearchParams.Inf <= TT.e_value e <= SearchParams.Inf.
Definition bucket_vok (bk : TT.bucket) : Prop := Forall entry_vok (TT.b_entries bk).

Lemma tt_values_ok_alt t : tt_values_ok t <-> Forall bucket_vok t.
Proof. reflexivity. Qed.

Lemma zero_entry_vok : entry_vok TT.zero_entry.
Proof. unfold entry_vok. cbn. consts. lia. Qed.

Lemma zero_bucket_vok : bucket_vok TT.zero_bucket.
Proof.
  unfold bucket_vok, TT.zero_bucket. cbn [TT.b_entries]. apply Forall_forall. intros e H.
  apply repeat_spec in H. subst e. exact zero_entry_vok.
Qed.

Lemma tt_values_lookup t h e : tt_values_ok t -> TT.lookup t h = Some e -> score_ok (TT.e_value e).
Proof.
  intros Ht H. unfold TT.lookup in H. destruct (TT.match64 _ _) as [ix|]; [|discriminate H].
  injection H as <-. apply (nth_ok entry_vok); [|exact zero_entry_vok].
  unfold TT.tt_bucket. apply (nth_ok bucket_vok); [exact Ht|exact zero_bucket_vok].
Qed.

Lemma tt_values_insert t hash gen d ply sm value typ : tt_values_ok t -> score_ok (TT.store_value value ply) ->
  tt_values_ok (TT.insert t hash gen d ply sm value typ).
Proof.
  intros Ht Hs. unfold TT.insert. apply (set_nth_ok bucket_vok); [exact Ht|].
  set (bk := nth _ t TT.zero_bucket).
  assert (Hb : bucket_vok bk) by (apply (nth_ok bucket_vok); [exact Ht|exact zero_bucket_vok]).
  unfold TT.insert_bucket. destruct (TT.scan_loop _ _ _ _ _ _ _ _ _ _) as [|ix sm'] eqn:E; [exact Hb|].
  unfold bucket_vok. cbn [TT.b_entries]. apply (set_nth_ok entry_vok); [exact Hb|]. exact Hs.
Qed.

Lemma tt_values_repeat n : tt_values_ok (repeat TT.zero_bucket n).
Proof. apply Forall_forall. intros x H. apply repeat_spec in H. subst x. exact zero_bucket_vok. Qed.

Lemma tt_values_new size t : TT.tt_new size = Some t -> tt_values_ok t.
Proof.
  unfold TT.tt_new, TT.tt_resize. destruct (TT.valid_size size); [|discriminate].
  destruct (_ <=? _); intros H; injection H as <-; [rewrite firstn_nil; constructor|apply tt_values_repeat].
Qed.

Lemma tt_values_clear t : tt_values_ok (TT.tt_clear t).
Proof.
  unfold TT.tt_clear. apply Forall_forall. intros x H. apply in_map_iff in H. destruct H as (_ & <- & _).
  exact zero_bucket_vok.
Qed.

Lemma tt_insert_vok st b d ply sm v t : tt_values_ok (s_tt st) -> val_ok ply v -> 0 <= ply <= 127 ->
  tt_values_ok (s_tt (tt_insert st b d ply sm v t)).
Proof.
  intros H1 H2 H3. unfold tt_insert. cbn [s_tt set_tt]. apply tt_values_insert; [exact H1|now apply store_value_ok].
Qed.

Lemma tt_cut_ok e ply al be v : score_ok (TT.e_value e) -> 0 <= ply <= 127 -> tt_cut e ply al be = Some v -> val_ok ply v.
Proof.
  intros He Hp H. pose proof (entry_value_ok e ply He Hp) as Hv. unfold tt_cut in H.
  repeat match type of H with (if ?c then _ else _) = _ => destruct c end; try discriminate H; injection H as <-; exact Hv.
Qed.

(* ------------------------------------------------------------------------------------------ *)
(* quiescence *)

Definition q_val (f : qfun) : Prop :=
  forall st b al be ply v st' b', good b -> ply_ok b ply = true -> tt_values_ok (s_tt st) ->
    f st b al be ply = Ok (v, st', b') ->
    tt_values_ok (s_tt st') /\ (s_aborted st' = false -> val_ok ply v).

Section QVal.
  Variable c : qfun.
  Hypothesis Hb : q_brd c.
  Hypothesis Hv : q_val c.

  Lemma qs_loop_val : forall n st b Y R al be maxim delta ply v st' b',
    good b -> ply_ok b ply = true -> Forall (nmv b) (Y ++ R) -> tt_values_ok (s_tt st) -> val_ok ply maxim ->
    qs_loop c n st b (Y ++ R) (length Y) al be maxim delta ply = Ok (v, st', b') ->
    tt_values_ok (s_tt st') /\ (s_aborted st' = false -> val_ok ply v).
  Proof.
    induction n as [|n IH]; intros st b Y R al be maxim delta ply v st' b' Hg Hp HA Ht Hm H; [discriminate H|].
    pose proof (ply_ok_range b ply (proj2 Hg) Hp) as Hr.
    assert (Hr' : 0 <= ply <= 127) by lia.
    cbn [qs_loop] in H. rewrite skipn_app_len in H.
    pose proof (scan_swap Y R (wrap16 (- SearchParams.Inf - 1))) as Hs.
    destruct (Picker.scan R (length Y) (wrap16 (- SearchParams.Inf - 1)) None) as [best|].
    2:{ walk. split; [apply tt_insert_vok; assumption|intros _; exact Hm]. }
    destruct Hs as (y & Rm & Hsw & Hperm). rewrite Hsw in H.
    assert (HA' : Forall (nmv b) ((Y ++ [y]) ++ Rm)).
    { rewrite <- app_assoc. cbn [app]. apply Forall_app in HA. destruct HA as [HY HR].
      apply Forall_app. split; [exact HY|]. eapply Permutation_Forall; [apply Permutation_sym; exact Hperm|exact HR]. }
    assert (Hy : nth (length Y) ((Y ++ [y]) ++ Rm) (0, 0) = y).
    { rewrite <- app_assoc. cbn [app]. apply nth_middle. }
    rewrite Hy in H.
    assert (Ay : nmv b y).
    { apply Forall_app in HA'. destruct HA' as [HA' _]. apply Forall_app in HA'. destruct HA' as [_ HA'].
      now inversion HA'. }
    assert (Hlen : S (length Y) = length (Y ++ [y])) by (rewrite app_length; cbn; lia).
    rewrite Hlen in H.
    destruct (snd y <? 0) eqn:Cw.
    { walk. split; [apply tt_insert_vok; proj2_simpl; assumption|intros _; exact Hm]. }
    destruct (make zob b (Z.to_N (fst y))) as [b1 r] eqn:Em.
    destruct (made_move _ _ _ _ Hg (nmv_genmv _ _ Ay) Em) as (Hu & _ & Hleg).
    destruct (in_check b1 (flip (stm b1))) eqn:Ck.
    { rewrite Hu in H. eapply IH in H; [exact H|exact Hg|exact Hp|exact HA'|proj2_simpl; exact Ht|exact Hm]. }
    destruct (Hleg eq_refl) as [Hg1 Hplay].
    assert (Hnc : noisy_child b b1).
    { exists (Z.to_N (fst y)). split; [apply nmv_noisy, Ay|]. split; [apply in_zN_playable, Hplay|].
      now rewrite Em. }
    destruct (noisy_child_good _ _ Hg Hnc) as [_ Hmu].
    assert (Hp1 : ply_ok b1 (ply + 1) = true).
    { unfold ply_ok in *. apply andb_true_iff in Hp. destruct Hp as [H1 H2]. apply Z.leb_le in H1, H2.
      apply andb_true_iff. split; apply Z.leb_le; lia. }
    rewrite (wrap8_small ply) in H by lia.
    destruct (piece_value _) as [g0| |]; cbn [bind] in H; try discriminate H.
    match type of H with bind ?e _ = _ => destruct e as [g| |] end; cbn [bind] in H; try discriminate H.
    destruct (add16 g delta <? al).
    { walk. split; [apply tt_insert_vok; proj2_simpl; assumption|intros _; exact Hm]. }
    destruct (c _ b1 _ _ _) as [[[v1 st1] b2]| |] eqn:Ec; cbn [bind] in H; try discriminate H.
    pose proof (Hb _ _ _ _ _ _ _ _ Hg1 Ec) as ->.
    pose proof Ec as Ec'. apply Hv in Ec'; [|exact Hg1|exact Hp1|exact Ht]. destruct Ec' as [Ht1 Hv1].
    rewrite Hu in H.
    destruct (s_aborted st1) eqn:Ca.
    { walk. split; [exact Ht1|intros F; congruence]. }
    pose proof (val_ok_neg _ _ (proj1 Hr) (Hv1 eq_refl)) as Hc.
    destruct (be <=? neg16 v1).
    { walk. split; [apply tt_insert_vok; assumption|intros _; exact Hc]. }
    eapply IH in H; [exact H|exact Hg|exact Hp|exact HA'|exact Ht1|apply val_ok_max; assumption].
  Qed.

  Lemma qs_body_val o : q_val (qs_body o c).
  Proof.
    intros st b al be ply v st' b' Hg Hp Ht H.
    pose proof (ply_ok_range b ply (proj2 Hg) Hp) as Hr.
    assert (Hr' : 0 <= ply <= 127) by lia.
    unfold qs_body in H.
    set (st0 := trace (inc_nodes o st) ply [3; ply; al; be; s_nodes (inc_nodes o st)]) in *.
    assert (T0 : s_tt st0 = s_tt st) by (unfold st0; proj2_simpl; reflexivity).
    destruct (s_aborted st0) eqn:A0.
    { walk. rewrite T0. split; [exact Ht|congruence]. }
    destruct (_ || _).
    { walk. rewrite T0. split; [exact Ht|intros _; apply val_ok_0]. }
    match type of H with match ?e with _ => _ end = _ => destruct e as [v0|] eqn:El end.
    { walk. rewrite T0. split; [exact Ht|intros _].
      destruct (TT.lookup (s_tt st0) (zN (cur_hash b))) as [e|] eqn:E1; [|discriminate El].
      eapply tt_cut_ok; [|exact Hr'|exact El]. eapply tt_values_lookup; [|exact E1]. rewrite T0. exact Ht. }
    destruct (if in_check b (stm b) then Mate.is_checkmate b else false).
    { walk. rewrite T0. split; [exact Ht|intros _; apply val_ok_mate; exact Hr']. }
    destruct (if in_check b (stm b) then false else Mate.is_stalemate b).
    { walk. rewrite T0. split; [exact Ht|intros _; apply val_ok_0]. }
    destruct (_ && _).
    { walk. rewrite T0. split; [exact Ht|intros _; apply val_ok_static]. }
    match type of H with bind ?e _ = _ => destruct e as [[[v1 st1] b1]| |] eqn:E end; cbn [bind] in H; try discriminate H.
    walk. cbn [s_tt s_aborted set_ms].
    unfold qs_pushed in E.
    destruct (Picker.store_alloc_all _ _); cbn [of_opt bind] in E; [|discriminate E].
    destruct (ranked _ _) as [moves| |] eqn:Er; cbn [bind] in E; try discriminate E.
    eapply (qs_loop_val _ _ _ [] moves) in E; [exact E|exact Hg|exact Hp|cbn [app]; eapply ranked_nmv; exact Er| |apply val_ok_static].
    cbn [s_tt set_ms]. rewrite T0. exact Ht.
  Qed.
End QVal.

Theorem quiescence_val o : forall fuel, q_val (quiescence fuel o).
Proof.
  induction fuel as [|f IH]; intros st b al be ply v st' b' Hg Hp Ht H; [discriminate H|].
  cbn [quiescence] in H. exact (qs_body_val _ (quiescence_brd o f) IH o _ _ _ _ _ _ _ _ Hg Hp Ht H).
Qed.
