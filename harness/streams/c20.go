package streams

import (
	"bytes"
	"fmt"
	"io"
	"math/bits"
	"os"
	"sort"
	"strconv"
	"sync/atomic"
	"time"

	"github.com/paulsonkoly/chess-3/tools/tuner/epd"
	"github.com/paulsonkoly/chess-3/tools/tuner/tuning"

	"verifharness/hx"
)

// C20 - each training position exactly once per tuning epoch.
//
//	c20_shuffle  [mode a b xs...]
//	   mode 0: a=n b=seed            -> shuffleIndex(i, n, seed) for every i < n
//	   mode 1: a=n b=seed xs (< n)   -> shuffleIndex(x, n, seed) for every x
//	   mode 2: a=bits b=seed xs      -> feistel(x, seed, bits) for every x
//	   mode 3: a=bits b=seed         -> feistel(x, seed, bits) for every x < 2^bits
//	   mode 4: a=0 b=k xs            -> roundFunc(x, k) for every x
//	c20_file     [mode B epoch start end nbytes bytes...] -> [status k len_1 bytes_1... len_k bytes_k...]
//	   the file is written to disk and read through NewChunker / Open / Read;
//	   mode 0: one window Open(epoch, start, end)
//	   mode 1: the tuner's own schedule: every tuning.Chunks of every tuning.Batches(LineCount())
//	   mode 2: windows of max(start,1) lines: [0,c) [c,2c) ... up to LineCount()
//	   B is the size of the refill buffer (needs the hook epd/export_verif_c20.go; without the hook
//	   only B = epd.VerifBackingBytes is accepted). Delivered lines are reported sorted (the
//	   property speaks about the multiset). status: 0 ok, 1 NewChunker failed, 2 Open failed,
//	   3 Read failed, 4 B not supported by this build.
//	c20_big      same Run as c20_file, files above NumLinesInBatch lines; implementation + judge only
//	c20_batch    [mode a b]
//	   mode 0: tuning.Batches(a)           -> [s0 e0 s1 e1 ...]
//	   mode 1: tuning.Chunks(Range{a, b})  -> [s0 e0 s1 e1 ...]
func init() {
	hx.Register(&hx.Stream{Name: "c20_shuffle", Gen: genC20Shuffle, Run: runC20Shuffle})
	hx.Register(&hx.Stream{Name: "c20_file", Gen: genC20File, Run: runC20File, Shrink: shrinkC20File, Describe: describeC20File})
	hx.Register(&hx.Stream{Name: "c20_big", Gen: genC20Big, Run: runC20File})
	hx.Register(&hx.Stream{Name: "c20_batch", Gen: genC20Batch, Run: runC20Batch})
}

// ---------------------------------------------------------------------------------------------
// watchdog

// shuffleIndex is an unbounded loop; a change that breaks the bijection can make it spin forever.
// Every implementation call of the C20 streams therefore runs under a watchdog: no answer within
// the limit is recorded as "-3" (did not terminate; the stuck goroutine is abandoned). After three
// such cases of one process the remaining cases are not run at all and recorded as "-4" (skipped),
// so that a generation run ends; replays run in a fresh process and are unaffected.
var c20Hung atomic.Int32

const (
	c20HangOut = "-3"
	c20SkipOut = "-4"
)

func c20Guard(limit time.Duration, f func() string) string {
	if c20Hung.Load() >= 3 {
		return c20SkipOut
	}
	ch := make(chan string, 1)
	go func() {
		defer func() {
			if r := recover(); r != nil {
				ch <- hx.PanicOut
			}
		}()
		ch <- f()
	}()
	select {
	case r := <-ch:
		return r
	case <-time.After(limit):
		c20Hung.Add(1)
		return c20HangOut
	}
}

// ---------------------------------------------------------------------------------------------
// shuffle

func runC20Shuffle(a hx.Args) string {
	return c20Guard(4*time.Second, func() string { return runC20ShuffleRaw(a) })
}

func runC20ShuffleRaw(a hx.Args) string {
	out := &hx.Nums{}
	mode, p, seed := a.Int(0), a.U64(1), a.U64(2)
	switch mode {
	case 0:
		for i := uint64(0); i < p; i++ {
			out.U(epd.VerifShuffleIndex(i, p, seed))
		}
	case 1:
		for i := 3; i < a.Len(); i++ {
			out.U(epd.VerifShuffleIndex(a.U64(i), p, seed))
		}
	case 2:
		for i := 3; i < a.Len(); i++ {
			out.U(epd.VerifFeistel(a.U64(i), seed, int(p)))
		}
	case 3:
		for x := uint64(0); x < uint64(1)<<p; x++ {
			out.U(epd.VerifFeistel(x, seed, int(p)))
		}
	case 4:
		for i := 3; i < a.Len(); i++ {
			out.U(epd.VerifRoundFunc(a.U64(i), seed))
		}
	}
	return out.String()
}

func c20Seed(rng *hx.Rng) (uint64, string) {
	switch rng.Intn(4) {
	case 0:
		return uint64(rng.Intn(64)), "epoch<64"
	case 1:
		return uint64(rng.Intn(100000)), "epoch<1e5"
	case 2:
		return uint64(-int64(rng.Intn(1000)) - 1), "epoch<0"
	default:
		return rng.U64(), "epoch64"
	}
}

// c20Tame keeps a sampled index cheap. For an odd bit width the Feistel network of chunker.go never
// changes the top bit (the right half is one bit wider than the masked round output), so the
// rejection walk of an index x >= 2^(bits-1) only ever visits the upper half of [0,2^bits) and
// needs about 2^(bits-1)/(n-2^(bits-1)) turns (9 s for x = n-1, n = 2^30+1). Such indices are
// replaced by their lower-half twin unless the expected walk is short.
func c20Tame(x, m uint64, budget uint64) uint64 {
	b := bits.Len64(m - 1)
	if b%2 == 0 || b < 2 {
		return x
	}
	half := uint64(1) << (b - 1)
	if x < half || half/(m-half) <= budget {
		return x
	}
	return x - half
}

func genC20Shuffle(rng *hx.Rng, n int, tier string, emit func(hx.Input)) {
	cnt := 0
	budget := uint64(256)
	if tier == "thorough" {
		budget = 1 << 14
	}
	put := func(mode int, p, seed uint64, xs []uint64, tags ...string) {
		in := (&hx.Nums{}).Int(mode).U(p, seed).U(xs...).String()
		var desc string
		switch mode {
		case 0:
			desc = fmt.Sprintf("shuffleIndex(i, n=%d, seed=%d) for all i<n", p, seed)
		case 1:
			desc = fmt.Sprintf("shuffleIndex(x, n=%d, seed=%d) for x in %v", p, seed, xs)
		case 2:
			desc = fmt.Sprintf("feistel(x, seed=%d, bits=%d) for x in %v", seed, p, xs)
		case 3:
			desc = fmt.Sprintf("feistel(x, seed=%d, bits=%d) for all x<2^bits", seed, p)
		default:
			desc = fmt.Sprintf("roundFunc(x, k=%d) for x in %v", seed, xs)
		}
		if mode == 1 {
			for i := range xs {
				xs[i] = c20Tame(xs[i], p, budget)
			}
			in = (&hx.Nums{}).Int(mode).U(p, seed).U(xs...).String()
			desc = fmt.Sprintf("shuffleIndex(x, n=%d, seed=%d) for x in %v", p, seed, xs)
		}
		emit(hx.Input{In: in, Desc: desc, Tags: tags, NonTrivial: mode != 4 && p > 1})
		cnt++
	}
	// exhaustive small n (every n up to a bound, one or two seeds each)
	full := 160
	if tier == "thorough" {
		full = 1100
	}
	if n < 400 {
		full = n / 3
	}
	for m := 0; m <= full; m++ {
		seed, st := c20Seed(rng)
		put(0, uint64(m), seed, nil, "full-small-n", st)
		if m <= 40 {
			for e := uint64(0); e < 4; e++ {
				put(0, uint64(m), e, nil, "full-small-n", "epoch<64")
			}
		}
	}
	// whole Feistel permutation on 2^bits, balanced and unbalanced halves
	for b := 0; b <= 9; b++ {
		seed, st := c20Seed(rng)
		put(3, uint64(b), seed, nil, "feistel-full", st)
	}
	// n = 2^k, 2^k +- 1 with sampled indices
	for k := 1; k <= 63; k++ {
		for _, d := range []int64{-1, 0, 1} {
			m := uint64(int64(uint64(1)<<k) + d)
			if m < 2 {
				continue
			}
			seed, st := c20Seed(rng)
			xs := []uint64{0, m - 1, m / 2}
			for j := 0; j < 5; j++ {
				xs = append(xs, rng.U64()%m)
			}
			put(1, m, seed, xs, "pow2+-1", st)
		}
	}
	for cnt < n {
		seed, st := c20Seed(rng)
		switch r := rng.Intn(10); {
		case r < 1: // mid-size n, full
			m := uint64(rng.Range(2, 400))
			put(0, m, seed, nil, "full-mid-n", st)
		case r < 6: // random n of random magnitude, sampled
			k := rng.Intn(63) + 1
			m := rng.U64()>>(64-k) | 1<<(k-1)
			if m < 2 {
				m = 2
			}
			var xs []uint64
			for j := 0; j < 8; j++ {
				xs = append(xs, rng.U64()%m)
			}
			// neighbours, to catch collisions of adjacent indices
			x0 := rng.U64() % m
			for j := uint64(0); j < 4 && x0+j < m; j++ {
				xs = append(xs, x0+j)
			}
			put(1, m, seed, xs, "sampled-n", fmt.Sprintf("bits=%d", bits.Len64(m-1)/8*8), st)
		case r < 8: // feistel directly, all widths 0..64, arguments also above 2^bits
			b := uint64(rng.Intn(65))
			var xs []uint64
			for j := 0; j < 8; j++ {
				x := rng.U64()
				if b < 64 && rng.Chance(0.8) {
					x &= (uint64(1) << b) - 1
				}
				xs = append(xs, x)
			}
			put(2, b, seed, xs, "feistel", st)
		case r < 9:
			var xs []uint64
			for j := 0; j < 6; j++ {
				xs = append(xs, rng.U64()>>uint(rng.Intn(64)))
			}
			put(4, 0, rng.U64()>>uint(rng.Intn(64)), xs, "roundFunc")
		default: // n just above a power of two: long rejection walks
			k := rng.Intn(20) + 2
			m := uint64(1)<<k + uint64(rng.Intn(3)) + 1
			var xs []uint64
			for j := 0; j < 12; j++ {
				xs = append(xs, rng.U64()%m)
			}
			put(1, m, seed, xs, "just-above-pow2", st)
		}
	}
}

// ---------------------------------------------------------------------------------------------
// file -> chunker -> lines

// optional hook (epd/export_verif_c20.go): replaces the refill buffer of a window
type c20SetBacking interface{ VerifSetBacking(n int) }

func c20HookPresent() bool {
	_, ok := any(&epd.Chunk{}).(c20SetBacking)
	return ok
}

func runC20File(a hx.Args) string {
	return c20Guard(20*time.Second, func() string { return runC20FileRaw(a) })
}

func runC20FileRaw(a hx.Args) string {
	mode, B, epoch, start, end := a.Int(0), a.Int(1), a.Int(2), a.Int(3), a.Int(4)
	data := a.Bytes(6, 6+a.Int(5))
	fail := func(st int) string { return (&hx.Nums{}).Int(st, 0).String() }
	if B != epd.VerifBackingBytes && !c20HookPresent() || B < 0 {
		return fail(4)
	}
	f, err := os.CreateTemp("", "c20-*.epd")
	if err != nil {
		panic(err)
	}
	defer os.Remove(f.Name())
	if _, err := f.Write(data); err != nil {
		panic(err)
	}
	f.Close()

	ck, err := epd.NewChunker(f.Name())
	if err != nil {
		return fail(1)
	}
	var lines [][]byte
	window := func(s, e int) int {
		ch, err := ck.Open(epoch, s, e)
		if err != nil {
			return 2
		}
		defer ch.Close()
		if B != epd.VerifBackingBytes {
			any(ch).(c20SetBacking).VerifSetBacking(B)
		}
		for {
			l, err := ch.Read()
			if err == io.EOF {
				return 0
			}
			if err != nil {
				return 3
			}
			lines = append(lines, bytes.Clone(l))
		}
	}
	switch mode {
	case 0:
		if st := window(start, end); st != 0 {
			return fail(st)
		}
	case 1:
		for batch := range tuning.Batches(ck.LineCount()) {
			for c := range tuning.Chunks(batch) {
				if st := window(c.Start, c.End); st != 0 {
					return fail(st)
				}
			}
		}
	default:
		c := max(start, 1)
		for s := 0; s < ck.LineCount(); s += c {
			if st := window(s, min(s+c, ck.LineCount())); st != 0 {
				return fail(st)
			}
		}
	}
	sort.SliceStable(lines, func(i, j int) bool { return bytes.Compare(lines[i], lines[j]) < 0 })
	out := (&hx.Nums{}).Int(0, len(lines))
	for _, l := range lines {
		out.Int(len(l)).Bytes(l)
	}
	return out.String()
}

// c20Text builds a file: nl non-blank lines with lengths from lenOf, blank lines sprinkled in
// with probability pBlank (also at the start and at the end), last line terminated or not.
func c20Text(rng *hx.Rng, nl int, lenOf func() int, pBlank float64, terminated bool, alphabet int) []byte {
	var b []byte
	for rng.Chance(pBlank) {
		b = append(b, '\n')
	}
	for i := 0; i < nl; i++ {
		l := lenOf()
		for j := 0; j < l; j++ {
			var c byte
			if alphabet > 0 {
				c = byte('a' + rng.Intn(alphabet))
			} else {
				c = byte(rng.Intn(256))
				if c == '\n' {
					c = '\r'
				}
			}
			b = append(b, c)
		}
		if i < nl-1 || terminated {
			b = append(b, '\n')
			for rng.Chance(pBlank) {
				b = append(b, '\n')
			}
		}
	}
	return b
}

func c20FileCase(mode, B int, epoch int64, start, end int, data []byte, tags ...string) hx.Input {
	in := (&hx.Nums{}).Int(mode, B).I(epoch).Int(start, end, len(data)).Bytes(data).String()
	q := strconv.QuoteToASCII(string(data))
	if len(q) > 400 {
		q = q[:400] + fmt.Sprintf("...(%d bytes)", len(data))
	}
	what := map[int]string{0: fmt.Sprintf("Open(epoch=%d, %d, %d)", epoch, start, end),
		1: fmt.Sprintf("every Chunks of every Batches, epoch=%d", epoch),
		2: fmt.Sprintf("windows of %d lines, epoch=%d", max(start, 1), epoch)}[mode]
	nonblank := 0
	for _, l := range bytes.Split(data, []byte{'\n'}) {
		if len(l) > 0 {
			nonblank++
		}
	}
	return hx.Input{In: in, Desc: fmt.Sprintf("file %s read with %s, refill buffer %d", q, what, B),
		Tags: tags, NonTrivial: nonblank > 1}
}

func c20Epoch(rng *hx.Rng) int64 {
	switch rng.Intn(4) {
	case 0:
		return int64(rng.Intn(8))
	case 1:
		return int64(rng.Intn(100000))
	case 2:
		return -int64(rng.Intn(1000)) - 1
	default:
		return int64(rng.U64())
	}
}

func genC20File(rng *hx.Rng, n int, tier string, emit func(hx.Input)) {
	hook := c20HookPresent()
	back := epd.VerifBackingBytes
	// F4's witness and its relatives first
	for _, s := range []string{"abc\n\ndef\nghij\n\n", "\n\nabc\n\n\ndef\n", "abc\ndef", "abc", "", "\n", "\n\n\n", "a\n"} {
		emit(c20FileCase(1, back, 0, 0, 0, []byte(s), "fixed-witness"))
		emit(c20FileCase(0, back, 3, 0, 1, []byte(s), "fixed-witness"))
	}
	cnt := 16
	for cnt < n {
		var tags []string
		// shape of the file
		nl := rng.Intn(40)
		switch rng.Intn(10) {
		case 0:
			nl = rng.Intn(4)
		case 1:
			nl = 40 + rng.Intn(200)
		}
		maxLen := 1
		var lenOf func() int
		switch rng.Intn(4) {
		case 0:
			lenOf = func() int { return 1 + rng.Intn(3) }
			tags = append(tags, "len1-3")
		case 1:
			lenOf = func() int { return 1 + rng.Intn(40) }
			tags = append(tags, "len1-40")
		case 2:
			k := 1 + rng.Intn(12)
			lenOf = func() int { return k }
			tags = append(tags, "len-const")
		default:
			lenOf = func() int {
				if rng.Chance(0.1) {
					return 60 + rng.Intn(100)
				}
				return 1 + rng.Intn(10)
			}
			tags = append(tags, "len-mixed")
		}
		if nl > 60 {
			lenOf = func() int { return 1 + rng.Intn(6) }
		}
		track := lenOf
		lenOf = func() int { l := track(); maxLen = max(maxLen, l); return l }
		pBlank := []float64{0, 0.1, 0.3, 0.6}[rng.Intn(4)]
		if pBlank > 0 {
			tags = append(tags, "blank-lines")
		}
		terminated := !rng.Chance(0.08)
		if !terminated {
			tags = append(tags, "last-line-unterminated")
		}
		alphabet := []int{2, 26, 0}[rng.Intn(3)]
		data := c20Text(rng, nl, lenOf, pBlank, terminated, alphabet)
		// malformed share: a line longer than the line reader's buffer
		if rng.Chance(0.015) {
			long := bytes.Repeat([]byte{'x'}, 4090+rng.Intn(12))
			maxLen = max(maxLen, len(long))
			at := 0
			if len(data) > 0 && rng.Bool() {
				at = bytes.LastIndexByte(data, '\n') + 1
			}
			data = append(append(append([]byte{}, data[:at]...), append(long, '\n')...), data[at:]...)
			tags = append(tags, "line-near-4096")
		}
		// refill buffer
		B := back
		if hook {
			switch rng.Intn(6) {
			case 0:
				B = maxLen // smallest legal buffer: every line refills
			case 1:
				B = maxLen + 1
			case 2:
				B = maxLen + rng.Intn(20)
			case 3:
				B = maxLen + rng.Intn(len(data)+1)
			case 4:
				B = max(maxLen-1-rng.Intn(2), 0) // too small: outside the property's domain
				tags = append(tags, "buffer-too-small")
			default:
				B = back
			}
			if B < len(data) {
				tags = append(tags, "refills")
			} else {
				tags = append(tags, "single-fill")
			}
		} else {
			tags = append(tags, "single-fill(no-hook)")
		}
		epoch := c20Epoch(rng)
		switch r := rng.Intn(10); {
		case r < 4: // one window
			lo, hi := 0, 0
			if nl > 0 {
				lo = rng.Intn(nl)
				hi = lo + rng.Intn(nl-lo+1)
			}
			if rng.Chance(0.06) { // malformed window
				lo, hi = int(rng.Range(-2, int64(nl)+2)), int(rng.Range(-2, int64(nl)+2))
				tags = append(tags, "window-wild")
			}
			emit(c20FileCase(0, B, epoch, lo, hi, data, append(tags, "window")...))
		case r < 8:
			emit(c20FileCase(1, B, epoch, 0, 0, data, append(tags, "epoch-batches-chunks")...))
		default:
			// every Open allocates backingBytes (32 MiB): keep the number of windows small
			w := 1 + rng.Intn(5)
			emit(c20FileCase(2, B, epoch, max((nl+w-1)/w+rng.Intn(2), 1), 0, data, append(tags, "epoch-windows")...))
		}
		cnt++
	}
}

// files with more lines than one batch (and one chunk): the tuner's own schedule has several
// batches of NumChunksInBatch chunks. Implementation + judge only.
func genC20Big(rng *hx.Rng, n int, tier string, emit func(hx.Input)) {
	for i := 0; i < n; i++ {
		nl := tuning.NumLinesInBatch + 1 + rng.Intn(tuning.NumLinesInBatch/2)
		if i%2 == 1 {
			nl = tuning.NumLinesInBatch/tuning.NumChunksInBatch + 1 + rng.Intn(3*tuning.NumLinesInBatch/tuning.NumChunksInBatch)
		}
		data := c20Text(rng, nl, func() int { return 1 + rng.Intn(3) }, 0.05, true, 26)
		emit(c20FileCase(1, epd.VerifBackingBytes, c20Epoch(rng), 0, 0, data, "big", fmt.Sprintf("lines>%d", nl/50000*50000)))
	}
}

// ---------------------------------------------------------------------------------------------
// batches / chunks

func runC20Batch(a hx.Args) string {
	out := &hx.Nums{}
	switch a.Int(0) {
	case 0:
		for r := range tuning.Batches(a.Int(1)) {
			out.Int(r.Start, r.End)
		}
	default:
		for r := range tuning.Chunks(tuning.Range{Start: a.Int(1), End: a.Int(2)}) {
			out.Int(r.Start, r.End)
		}
	}
	return out.String()
}

func genC20Batch(rng *hx.Rng, n int, tier string, emit func(hx.Input)) {
	L, C := tuning.NumLinesInBatch, tuning.NumChunksInBatch
	per := (L + C - 1) / C
	cnt := 0
	batches := func(m int, tag string) {
		emit(hx.Input{In: (&hx.Nums{}).Int(0, m, 0).String(), Desc: fmt.Sprintf("Batches(%d)", m),
			Tags: []string{"batches", tag}, NonTrivial: m > 0})
		cnt++
	}
	chunks := func(s, e int, tag string) {
		emit(hx.Input{In: (&hx.Nums{}).Int(1, s, e).String(), Desc: fmt.Sprintf("Chunks({%d %d})", s, e),
			Tags: []string{"chunks", tag}, NonTrivial: e > s})
		cnt++
	}
	for _, m := range []int{-1, 0, 1, 2, per - 1, per, per + 1, L - 1, L, L + 1, 2*L - 1, 2 * L, 2*L + 1, 10*L + 7} {
		batches(m, "boundary")
	}
	for _, k := range []int{0, 1, 2, 5} {
		for _, d := range []int{0, 1, 2, per - 1, per, per + 1, 2 * per, L - per, L - per + 1, L - 1, L} {
			chunks(k*L, k*L+d, "boundary")
		}
	}
	for cnt < n {
		switch rng.Intn(6) {
		case 0:
			batches(rng.Intn(3*L), "random<3L")
		case 1:
			batches(rng.Intn(60*L), "random<60L")
		case 2: // a batch as Batches produces them
			k := rng.Intn(50)
			chunks(k*L, k*L+1+rng.Intn(L), "batch-shaped")
		case 3:
			k := rng.Intn(50)
			chunks(k*L, k*L+L, "full-batch")
		case 4: // chunk multiples +-1
			k, j := rng.Intn(50), rng.Intn(C+1)
			chunks(k*L, k*L+max(j*per+rng.Intn(3)-1, 0), "chunk-multiple+-1")
		default: // arbitrary ranges, also longer than a batch and empty / inverted
			s := rng.Intn(10 * L)
			chunks(s, s+int(rng.Range(-3, int64(3*L))), "arbitrary")
		}
	}
}
