(* C09, converse direction of IsStalemate, part 1: tools.  A move of a man other than the king is
   illegal as soon as some enemy slider sees the king in the new occupancy; castling is impossible when
   the king-step loop finds no square. *)
From Coq Require Import NArith ZArith List Bool Lia.
From Chess3 Require Import Base.Bits Model.Types Spec.Geometry Model.Att Model.BoardDef Model.Board
     Model.Movegen Model.Mate Spec.Chess Spec.Rep Proofs.MateGeom Proofs.MateAbs Proofs.MateKing
     Proofs.MateMove Proofs.MateCapture Proofs.MateBlockGeom Proofs.MateBlock Proofs.MateStale
     Proofs.MatePinGeom Proofs.MatePin Proofs.MateConv Proofs.MateConvMove Proofs.MateConv2 Proofs.MateConv3
     Proofs.StaleConvGeom.
Import ListNotations.
Open Scope N_scope.

Section Tools.
Variable b : board.
Hypothesis HR : Rep b.
Hypothesis HV : valid (abs b) = true.
Hypothesis Hchk : in_check b (stm b) = false.
Let me := stm b.
Let them := flip me.
Let occ := occupancy b.
Variable k0 : N.
Hypothesis Hk0 : k0 < 64.
Hypothesis Hkbit : band (pieces b King) (colors b me) = bit k0.
Hypothesis Hholds : forall s, s < 64 -> holds (abs b) s me King = (s =? k0).

Variables d t kd pr : N.
Hypothesis Hd : d < 64.
Hypothesis Ht : t < 64.
Hypothesis Hwd : who (abs b) d = Some (me, kd).
Hypothesis Hkd : kd <> King.
Hypothesis Hpr : In pr [0; Knight; Bishop; Rook; Queen].
Hypothesis Hdt : d <> t.
Hypothesis Htk : t <> k0.
Hypothesis Hnoep : is_ep_capture (abs b) (mk_move d t pr) = false.

Let p' := with_placement (abs b) (place_after (abs b) (mk_move d t pr)).

Lemma Hcsq_triv : is_ep_capture (abs b) (mk_move d t pr) = true ->
  sqfr (file_n t) (rank_n d) <> t /\ sqfr (file_n t) (rank_n d) <> d /\ sqfr (file_n t) (rank_n d) <> k0.
Proof. intros E. congruence. Qed.

(* an enemy slider u along dirs that sees the king in the new occupancy *)
Lemma nk_hit dirs u :
  (forall s t, s < 64 -> t < 64 -> sym_check dirs s t = true) ->
  u < 64 -> u <> t ->
  (forall occ2, hit dirs u occ2 k0 = true ->
     exists ku, who (abs b) u = Some (them, ku) /\ mem (attacks_from them ku u occ2) k0 = true) ->
  hit dirs k0 (occ_of p') u = true ->
  in_check_spec p' me = true.
Proof.
  intros Hsym Hu Hut Hatt Hh.
  apply (hit_sym_gen dirs Hsym k0 u (occ_of p') Hk0 Hu) in Hh.
  destruct (Hatt _ Hh) as [ku [Hwu Hm]].
  unfold in_check_spec. unfold p', me. rewrite (nk_king_sq b k0 Hk0 Hholds d t kd pr Hd Ht Hwd Hkd Hpr Hdt Htk Hcsq_triv).
  unfold attacked_by. apply existsb_exists. exists u. split; [apply squares64_spec; exact Hu|].
  assert (Hac : is_ep_capture (abs b) (mk_move d t pr) = true -> u <> sqfr (file_n t) (rank_n d)) by (intros E; congruence).
  rewrite (nk_enemy_stays b k0 Hk0 Hholds d t kd pr Hd Ht Hwd Hkd Hpr Hdt Htk Hcsq_triv u ku Hu Hwu Hut Hac).
  rewrite color_eqb_refl. cbn [andb]. exact Hm.
Qed.

(* ... in an occupancy at least as full as the new one *)
Lemma nk_attack dirs u nocc :
  (forall s t, s < 64 -> t < 64 -> sym_check dirs s t = true) ->
  u < 64 -> u <> t ->
  (forall occ2, hit dirs u occ2 k0 = true ->
     exists ku, who (abs b) u = Some (them, ku) /\ mem (attacks_from them ku u occ2) k0 = true) ->
  (forall x, N.testbit (occ_of p') x = true -> N.testbit nocc x = true) ->
  hit dirs k0 nocc u = true ->
  in_check_spec p' me = true.
Proof.
  intros Hsym Hu Hut Hatt Hsub Hh. apply (nk_hit dirs u Hsym Hu Hut Hatt).
  apply (hit_mono dirs k0 (occ_of p') nocc u Hsub Hh).
Qed.

(* ... with the mover lifted, when the destination is off the line *)
Lemma nk_exposed dirs u pre :
  good_dirs dirs -> u < 64 -> u <> t ->
  (forall occ2, hit dirs u occ2 k0 = true ->
     exists ku, who (abs b) u = Some (them, ku) /\ mem (attacks_from them ku u occ2) k0 = true) ->
  pfx dirs k0 u = Some pre -> all_clear (band occ (bnot (bit d))) pre = true -> ~ In t pre ->
  in_check_spec p' me = true.
Proof.
  intros G Hu Hut Hatt Hp Hc Hnt. apply (nk_hit dirs u (gd_sym _ G) Hu Hut Hatt).
  apply (pfx_hit dirs k0 _ u pre Hp). unfold all_clear. apply forallb_forall. intros x Hx. apply negb_true_iff.
  destruct (N.testbit (occ_of p') x) eqn:E; [|reflexivity]. exfalso.
  destruct (nk_occ b HR k0 Hk0 d t kd pr Hd Ht Hwd Hkd Hpr Hdt Htk Hcsq_triv x E) as [O|O]; [|subst x; contradiction].
  pose proof (all_clear_in _ pre x Hc Hx) as F. unfold band in F. rewrite N.land_spec, bnot_testbit, bit_testbit in F.
  fold occ in O. rewrite O in F. cbn [andb] in F.
  (* x is d itself: but d is empty after the move *)
  rewrite occ_of_testbit in E. apply andb_prop in E. destruct E as [L E]. rewrite L in F. cbn [andb] in F.
  apply negb_false_iff, N.eqb_eq in F. subst x.
  apply negb_true_iff in E. unfold empty in E. unfold p' in E.
  rewrite (nk_who b k0 Hk0 d t kd pr Hd Ht Hwd Hkd Hpr Hdt Htk Hcsq_triv) in E. rewrite Hnoep in E. cbn [andb] in E.
  destruct (N.eqb_spec t d); [congruence|]. rewrite N.eqb_refl in E. discriminate.
Qed.

(* the mover stands on the line of a slider that sees the king only when the mover is lifted *)
Lemma lifted_on_prefix dirs u pre :
  good_dirs dirs -> u < 64 ->
  (forall occ2, hit dirs u occ2 k0 = true ->
     exists ku, who (abs b) u = Some (them, ku) /\ mem (attacks_from them ku u occ2) k0 = true) ->
  pfx dirs k0 u = Some pre -> all_clear (band occ (bnot (bit d))) pre = true -> In d pre.
Proof.
  intros G Hu Hatt Hp Hc. destruct (in_dec N.eq_dec d pre) as [I|I]; [exact I|]. exfalso.
  assert (Hh : hit dirs k0 occ u = true).
  { apply (pfx_hit dirs k0 occ u pre Hp). unfold all_clear. apply forallb_forall. intros x Hx. apply negb_true_iff.
    pose proof (all_clear_in _ pre x Hc Hx) as F. unfold band in F. rewrite N.land_spec, bnot_testbit, bit_testbit in F.
    destruct (N.testbit occ x) eqn:E; [|reflexivity]. cbn [andb] in F.
    destruct (N.eqb_spec d x) as [->|]; [contradiction|]. rewrite andb_true_r in F.
    destruct (N.ltb_spec x 64) as [L|L]; [discriminate|]. unfold occ in E. rewrite (occ_high b HR x L) in E. discriminate. }
  apply (hit_sym_gen dirs (gd_sym _ G) k0 u occ Hk0 Hu) in Hh. destruct (Hatt _ Hh) as [ku [Hwu Hm]].
  apply (not_attacked b HR Hchk k0 Hk0 Hkbit u ku occ Hu Hwu Hm). intros; reflexivity.
Qed.

End Tools.

(* ------------------------------------------------------------------------------------------ *)
(* part 2: each kind of mover *)

Section Movers.
Variable b : board.
Hypothesis HR : Rep b.
Hypothesis HV : valid (abs b) = true.
Hypothesis Hchk : in_check b (stm b) = false.
Let me := stm b.
Let them := flip me.
Let own := colors b me.
Let opp := colors b them.
Let occ := occupancy b.
Variable k0 : N.
Hypothesis Hk0 : k0 < 64.
Hypothesis Hkbit : band (pieces b King) own = bit k0.
Hypothesis Hholds : forall s, s < 64 -> holds (abs b) s me King = (s =? k0).

Variables d t kd pr : N.
Hypothesis Hd : d < 64.
Hypothesis Ht : t < 64.
Hypothesis Hwd : who (abs b) d = Some (me, kd).
Hypothesis Hkd : kd <> King.
Hypothesis Hpr : In pr [0; Knight; Bishop; Rook; Queen].
Hypothesis Hdt : d <> t.
Hypothesis Htk : t <> k0.
Hypothesis Hnoep : is_ep_capture (abs b) (mk_move d t pr) = false.
Let p' := with_placement (abs b) (place_after (abs b) (mk_move d t pr)).
Let nocc := band occ (bnot (bit d)).

Lemma opp_lt' u : N.testbit opp u = true -> u < 64.
Proof. intros H. destruct (N.lt_ge_cases u 64) as [L|L]; [exact L|]. unfold opp in H. rewrite (colors_high b HR _ u L) in H. discriminate. Qed.

(* a slider that sees the king once the mover is lifted; the move goes to a square off its line *)
Lemma exposed_illegal dirs reach u :
  good_dirs dirs ->
  forallb (fun k => forallb (offline_check dirs reach k) squares64) squares64 = true ->
  N.testbit opp u = true -> hit dirs k0 nocc u = true ->
  (forall occ2, hit dirs u occ2 k0 = true ->
     exists ku, who (abs b) u = Some (them, ku) /\ mem (attacks_from them ku u occ2) k0 = true) ->
  N.testbit (reach d) t = true ->
  in_check_spec p' me = true.
Proof.
  intros G Hoff Huo Hh Hatt Hreach. pose proof (opp_lt' u Huo) as Hu.
  destruct (hit_pfx dirs k0 nocc u Hk0 Hu G Hh) as [pre [Hp [Hc _]]].
  pose proof (lifted_on_prefix b HR Hchk k0 Hk0 Hkbit d t kd pr Hd Hwd Hdt Hnoep dirs u pre G Hu Hatt Hp Hc) as Hin.
  destruct (offline_fact dirs reach Hoff k0 u pre d t Hk0 Hu Hp Hin Hreach) as [Hnt Htu].
  apply (nk_exposed b HR k0 Hk0 Hholds d t kd pr Hd Ht Hwd Hkd Hpr Hdt Htk Hnoep dirs u pre G Hu (fun X => Htu (eq_sym X)) Hatt Hp Hc Hnt).
Qed.

(* the two halves of a slider test that is true *)
Lemma diag_some nocc' opp' : negb (band (band (bishop_moves k0 nocc') (diag_sliders b)) opp' =? 0) = true ->
  (forall u, N.testbit opp' u = true -> N.testbit opp u = true) ->
  exists u, N.testbit opp' u = true /\ hit bishop_dirs k0 nocc' u = true /\
    (forall occ2, hit bishop_dirs u occ2 k0 = true ->
       exists ku, who (abs b) u = Some (them, ku) /\ mem (attacks_from them ku u occ2) k0 = true).
Proof.
  intros H Hsub. apply band3_some in H. destruct H as [u [H1 [H2 H3]]]. exists u. split; [exact H3|].
  unfold bishop_moves in H1. rewrite bishop_testbit in H1. split; [exact H1|].
  intros occ2 Hh. apply (diag_attacker b HR k0 Hk0 Hkbit u occ2 (opp_lt' u (Hsub u H3)) (Hsub u H3) H2 Hh).
Qed.

Lemma line_some nocc' opp' : negb (band (band (rook_moves k0 nocc') (line_sliders b)) opp' =? 0) = true ->
  (forall u, N.testbit opp' u = true -> N.testbit opp u = true) ->
  exists u, N.testbit opp' u = true /\ hit rook_dirs k0 nocc' u = true /\
    (forall occ2, hit rook_dirs u occ2 k0 = true ->
       exists ku, who (abs b) u = Some (them, ku) /\ mem (attacks_from them ku u occ2) k0 = true).
Proof.
  intros H Hsub. apply band3_some in H. destruct H as [u [H1 [H2 H3]]]. exists u. split; [exact H3|].
  unfold rook_moves in H1. rewrite rook_testbit in H1. split; [exact H1|].
  intros occ2 Hh. apply (line_attacker b HR k0 Hk0 Hkbit u occ2 (opp_lt' u (Hsub u H3)) (Hsub u H3) H2 Hh).
Qed.

End Movers.
