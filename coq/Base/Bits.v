(* 64-bit words (Go's uint64 / chess.BitBoard) on N.

   Conventions: a word is an N below 2^64 (predicate [w64p]); every operation that can leave the
   range in Go wraps, and the wrap is written explicitly here with [N.land _ ones64] (measured:
   cheaper than [mod 2^64] in extracted code).  Squares are N below 64, bit s of a bitboard is
   square s (A1 = 0 ... H8 = 63).

   This file holds definitions and the basic lemmas; it is in plain stdlib style. *)
From Coq Require Import NArith List Bool Lia.
Import ListNotations.
Open Scope N_scope.

Definition ones64 : N := 18446744073709551615.
Definition two64 : N := 18446744073709551616.
Definition w64 (x : N) : N := N.land x ones64.
Definition w64p (x : N) : Prop := x < two64.

Definition band (x y : N) : N := N.land x y.
Definition bor (x y : N) : N := N.lor x y.
Definition bxor (x y : N) : N := N.lxor x y.
Definition bandn (x y : N) : N := N.ldiff x y.            (* x &^ y *)
Definition bnot (x : N) : N := N.lxor (w64 x) ones64.     (* ^x on 64 bits *)
Definition shl (x k : N) : N := w64 (N.shiftl x k).       (* x << k, truncated to 64 bits *)
Definition shr (x k : N) : N := N.shiftr x k.             (* x >> k *)
Definition add64 (x y : N) : N := w64 (x + y).
Definition sub64 (x y : N) : N := w64 (x + (two64 - w64 y)).
Definition mul64 (x y : N) : N := w64 (x * y).
Definition neg64 (x : N) : N := sub64 0 x.
Definition bit (s : N) : N := N.shiftl 1 s.               (* BitBoard(1) << s, s < 64 *)
Definition testb (x s : N) : bool := N.testbit x s.
Definition setb (x s : N) : N := N.lor x (bit s).
Definition clrb (x s : N) : N := N.ldiff x (bit s).

(* bits.TrailingZeros64: index of the lowest set bit, 64 for 0 *)
Fixpoint ctzp (p : positive) : N :=
  match p with xO q => N.succ (ctzp q) | _ => 0 end.
Definition lsb (b : N) : N := match b with N0 => 64 | Npos p => ctzp p end.

(* b & (b - 1): Go's idiom for dropping the lowest set bit (0 stays 0 because 0-1 wraps to all ones) *)
Definition clear_lsb (b : N) : N := N.land b (N.pred b).

(* bits.OnesCount64 *)
Fixpoint popcount_p (p : positive) : N :=
  match p with xH => 1 | xO q => popcount_p q | xI q => N.succ (popcount_p q) end.
Definition popcount (b : N) : N := match b with N0 => 0 | Npos p => popcount_p p end.

(* the set bits in ascending order: the order in which
   [for bb != 0 { sq := bb.LowestSet(); ...; bb &= bb - 1 }] visits them *)
Fixpoint bits_pos (p : positive) (i : N) : list N :=
  match p with
  | xH => [i]
  | xO q => bits_pos q (N.succ i)
  | xI q => i :: bits_pos q (N.succ i)
  end.
Definition bits_of (b : N) : list N := match b with N0 => [] | Npos p => bits_pos p 0 end.

(* IsPow2 *)
Definition is_pow2 (b : N) : bool := (clear_lsb b =? 0) && negb (b =? 0).

(* file / rank masks *)
Definition AFileBB : N := 72340172838076673.      (* 0x0101010101010101 *)
Definition HFileBB : N := 9259542123273814144.    (* 0x8080808080808080 *)
Definition rank_bb (r : N) : N := N.shiftl 255 (8 * r).
Definition file_bb (f : N) : N := N.shiftl AFileBB f.

(* ------------------------------------------------------------------------------------------ *)
(* basic lemmas *)

Lemma ones64_eq : ones64 = N.ones 64.
Proof. reflexivity. Qed.

Lemma w64_spec x : w64 x = x mod two64.
Proof. unfold w64. rewrite ones64_eq, N.land_ones. reflexivity. Qed.

Lemma w64_lt x : w64 x < two64.
Proof. rewrite w64_spec. apply N.mod_lt. discriminate. Qed.

Lemma w64_id x : x < two64 -> w64 x = x.
Proof. intros H. rewrite w64_spec. apply N.mod_small. exact H. Qed.

Lemma w64_testbit x i : N.testbit (w64 x) i = N.testbit x i && (i <? 64).
Proof.
  unfold w64. rewrite ones64_eq, N.land_spec.
  destruct (N.ltb_spec i 64) as [H|H].
  - rewrite N.ones_spec_low by exact H. reflexivity.
  - rewrite N.ones_spec_high by exact H. reflexivity.
Qed.

Lemma lt_two64_testbit x : x < two64 -> forall i, 64 <= i -> N.testbit x i = false.
Proof.
  intros H i Hi. destruct (N.eq_dec x 0) as [->|Hx]; [apply N.bits_0|].
  apply N.bits_above_log2. change two64 with (2 ^ 64) in H.
  apply N.log2_lt_pow2 in H; lia.
Qed.

Lemma testbit_lt_two64 x : (forall i, 64 <= i -> N.testbit x i = false) -> x < two64.
Proof.
  intros H. destruct (N.eq_dec x 0) as [->|Hx]; [reflexivity|].
  change two64 with (2 ^ 64). apply N.log2_lt_pow2; [lia|].
  destruct (N.lt_ge_cases (N.log2 x) 64) as [L|L]; [exact L|].
  pose proof (N.bit_log2 x Hx) as B. rewrite H in B by exact L. discriminate.
Qed.

Lemma bit_testbit s i : N.testbit (bit s) i = (s =? i).
Proof.
  unfold bit. destruct (N.eqb_spec s i) as [->|H].
  - rewrite N.shiftl_spec_high' by lia. rewrite N.sub_diag. reflexivity.
  - destruct (N.lt_ge_cases i s) as [L|L].
    + apply N.shiftl_spec_low. exact L.
    + rewrite N.shiftl_spec_high' by exact L.
      replace (i - s) with (N.succ (N.pred (i - s))) by lia.
      change 1 with (2 * 0 + 1). rewrite N.testbit_odd_succ by lia. apply N.bits_0.
Qed.

Lemma bit_lt s : s < 64 -> bit s < two64.
Proof.
  intros H. apply testbit_lt_two64. intros i Hi. rewrite bit_testbit.
  apply N.eqb_neq. lia.
Qed.

Lemma setb_testbit x s i : N.testbit (setb x s) i = N.testbit x i || (s =? i).
Proof. unfold setb. rewrite N.lor_spec, bit_testbit. reflexivity. Qed.

Lemma clrb_testbit x s i : N.testbit (clrb x s) i = N.testbit x i && negb (s =? i).
Proof. unfold clrb. rewrite N.ldiff_spec, bit_testbit. reflexivity. Qed.

(* lowest set bit *)
Lemma ctzp_testbit p : N.testbit (Npos p) (ctzp p) = true.
Proof.
  induction p as [q IH|q IH|]; cbn [ctzp]; try reflexivity.
  change (Npos q~0) with (2 * Npos q). rewrite N.testbit_even_succ by lia. exact IH.
Qed.

Lemma ctzp_below p i : i < ctzp p -> N.testbit (Npos p) i = false.
Proof.
  revert i; induction p as [q IH|q IH|]; cbn [ctzp]; intros i Hi; try lia.
  destruct (N.eq_dec i 0) as [->|Hn]; [reflexivity|].
  replace i with (N.succ (N.pred i)) by lia.
  change (Npos q~0) with (2 * Npos q). rewrite N.testbit_even_succ by lia. apply IH. lia.
Qed.

Lemma clear_lsb_pos p : clear_lsb (Npos p) = N.clearbit (Npos p) (ctzp p).
Proof.
  unfold clear_lsb.
  induction p as [q IH|q IH|]; cbn [ctzp].
  - apply N.bits_inj; intro n. rewrite N.land_spec, N.clearbit_eqb.
    destruct (N.eq_dec n 0) as [->|Hn].
    + cbn. reflexivity.
    + rewrite (proj2 (N.eqb_neq 0 n)) by lia.
      replace n with (N.succ (N.pred n)) by lia.
      change (N.pred (Npos q~1)) with (2 * Npos q).
      change (Npos q~1) with (2 * Npos q + 1).
      rewrite N.testbit_odd_succ, N.testbit_even_succ by lia.
      rewrite andb_diag. cbn. rewrite andb_true_r. reflexivity.
  - apply N.bits_inj; intro n. rewrite N.land_spec, N.clearbit_eqb.
    change (Npos q~0) with (2 * Npos q).
    replace (N.pred (2 * Npos q)) with (2 * N.pred (Npos q) + 1) by lia.
    destruct (N.eq_dec n 0) as [->|Hn].
    + rewrite N.testbit_even_0. cbn. reflexivity.
    + replace n with (N.succ (N.pred n)) by lia.
      rewrite N.testbit_odd_succ, N.testbit_even_succ by lia.
      rewrite <- N.land_spec. rewrite IH.
      rewrite N.clearbit_eqb.
      f_equal. f_equal.
      destruct (N.eqb_spec (ctzp q) (N.pred n)); destruct (N.eqb_spec (N.succ (ctzp q)) (N.succ (N.pred n))); try reflexivity; lia.
  - reflexivity.
Qed.

Lemma clear_lsb_spec b i : b <> 0 -> N.testbit (clear_lsb b) i = N.testbit b i && negb (lsb b =? i).
Proof. destruct b as [|p]; [congruence|]. intros _. rewrite clear_lsb_pos, N.clearbit_eqb. reflexivity. Qed.

Lemma lsb_testbit b : b <> 0 -> N.testbit b (lsb b) = true.
Proof. destruct b as [|p]; [congruence|]. intros _. apply ctzp_testbit. Qed.

Lemma lsb_lowest b i : i < lsb b -> N.testbit b i = false.
Proof. destruct b as [|p]; [intros _; apply N.bits_0|]. apply ctzp_below. Qed.

(* bits_of *)
Lemma bits_pos_spec p : forall i s, In s (bits_pos p i) <-> (i <= s /\ N.testbit (Npos p) (s - i) = true).
Proof.
  induction p as [q IH|q IH|]; intros i s; cbn [bits_pos In].
  - rewrite IH. split.
    + intros [<-|[H1 H2]].
      * split; [lia|]. rewrite N.sub_diag. reflexivity.
      * split; [lia|]. replace (s - i) with (N.succ (s - N.succ i)) by lia.
        change (Npos q~1) with (2 * Npos q + 1). rewrite N.testbit_odd_succ by lia. exact H2.
    + intros [H1 H2]. destruct (N.eq_dec i s) as [->|Hn]; [left; reflexivity|right].
      split; [lia|]. replace (s - i) with (N.succ (s - N.succ i)) in H2 by lia.
      change (Npos q~1) with (2 * Npos q + 1) in H2. rewrite N.testbit_odd_succ in H2 by lia. exact H2.
  - rewrite IH. split.
    + intros [H1 H2]. split; [lia|]. replace (s - i) with (N.succ (s - N.succ i)) by lia.
      change (Npos q~0) with (2 * Npos q). rewrite N.testbit_even_succ by lia. exact H2.
    + intros [H1 H2]. destruct (N.eq_dec i s) as [->|Hn].
      * rewrite N.sub_diag in H2. discriminate.
      * split; [lia|]. replace (s - i) with (N.succ (s - N.succ i)) in H2 by lia.
        change (Npos q~0) with (2 * Npos q) in H2. rewrite N.testbit_even_succ in H2 by lia. exact H2.
  - split.
    + intros [<-|[]]. split; [lia|]. rewrite N.sub_diag. reflexivity.
    + intros [H1 H2]. left. destruct (N.eq_dec i s) as [->|Hn]; [reflexivity|].
      replace (s - i) with (N.succ (N.pred (s - i))) in H2 by lia.
      change 1 with (2 * 0 + 1) in H2. rewrite N.testbit_odd_succ in H2 by lia.
      rewrite N.bits_0 in H2. discriminate.
Qed.

Lemma bits_of_spec b s : In s (bits_of b) <-> N.testbit b s = true.
Proof.
  destruct b as [|p]; cbn [bits_of].
  - rewrite N.bits_0. split; [intros []|discriminate].
  - rewrite bits_pos_spec, N.sub_0_r. split; [intros [_ H]; exact H|intros H; split; [lia|exact H]].
Qed.

Lemma bits_pos_lb p : forall i s, In s (bits_pos p i) -> i <= s.
Proof. intros i s H. apply bits_pos_spec in H. tauto. Qed.

Lemma bits_pos_NoDup p : forall i, NoDup (bits_pos p i).
Proof.
  induction p as [q IH|q IH|]; intros i; cbn [bits_pos].
  - constructor; [|apply IH]. intros H. apply bits_pos_lb in H. lia.
  - apply IH.
  - constructor; [intros []|constructor].
Qed.

Lemma bits_of_NoDup b : NoDup (bits_of b).
Proof. destruct b as [|p]; [constructor|apply bits_pos_NoDup]. Qed.

Lemma bits_of_lt b s : b < two64 -> In s (bits_of b) -> s < 64.
Proof.
  intros Hb H. apply bits_of_spec in H.
  destruct (N.lt_ge_cases s 64) as [L|L]; [exact L|].
  rewrite (lt_two64_testbit b Hb s L) in H. discriminate.
Qed.

(* the loop view: bits_of b = lsb b :: bits_of (clear_lsb b) *)
Lemma bits_pos_shift p : forall i, bits_pos p i = map (N.add i) (bits_pos p 0).
Proof.
  induction p as [q IH|q IH|]; intros i; cbn [bits_pos map].
  - rewrite (IH (N.succ i)), (IH (N.succ 0)), map_map. f_equal; [lia|].
    apply map_ext. intros a. lia.
  - rewrite (IH (N.succ i)), (IH (N.succ 0)), map_map. apply map_ext. intros a. lia.
  - f_equal. lia.
Qed.

Lemma popcount_bits_of b : popcount b = N.of_nat (length (bits_of b)).
Proof.
  destruct b as [|p]; [reflexivity|]. cbn [popcount bits_of].
  generalize 0. induction p as [q IH|q IH|]; intros i; cbn [popcount_p bits_pos length].
  - rewrite (IH (N.succ i)). lia.
  - apply IH.
  - reflexivity.
Qed.

(* ------------------------------------------------------------------------------------------ *)
(* appended (C12 builder): testbit specifications of the word operations, closure of the 64-bit
   range, arithmetic views.  Larger developments (bits_of as the Go loop sees it, sortedness,
   popcount additivity, bit deposit/extract, the bb_pointwise tactic) are in Base/BitsLemmas.v. *)

Lemma ones64_testbit i : N.testbit ones64 i = (i <? 64).
Proof.
  rewrite ones64_eq. destruct (N.ltb_spec i 64) as [H|H].
  - apply N.ones_spec_low. exact H.
  - apply N.ones_spec_high. exact H.
Qed.

Lemma band_testbit x y i : N.testbit (band x y) i = N.testbit x i && N.testbit y i.
Proof. apply N.land_spec. Qed.
Lemma bor_testbit x y i : N.testbit (bor x y) i = N.testbit x i || N.testbit y i.
Proof. apply N.lor_spec. Qed.
Lemma bxor_testbit x y i : N.testbit (bxor x y) i = xorb (N.testbit x i) (N.testbit y i).
Proof. apply N.lxor_spec. Qed.
Lemma bandn_testbit x y i : N.testbit (bandn x y) i = N.testbit x i && negb (N.testbit y i).
Proof. apply N.ldiff_spec. Qed.

Lemma bnot_testbit x i : N.testbit (bnot x) i = (i <? 64) && negb (N.testbit x i).
Proof.
  unfold bnot. rewrite N.lxor_spec, w64_testbit, ones64_testbit.
  destruct (N.testbit x i), (i <? 64); reflexivity.
Qed.

Lemma shl_testbit x k i : N.testbit (shl x k) i = (i <? 64) && (k <=? i) && N.testbit x (i - k).
Proof.
  unfold shl. rewrite w64_testbit.
  destruct (N.leb_spec k i) as [H|H].
  - rewrite N.shiftl_spec_high' by exact H. destruct (i <? 64), (N.testbit x (i - k)); reflexivity.
  - rewrite N.shiftl_spec_low by exact H. destruct (i <? 64); reflexivity.
Qed.

Lemma shr_testbit x k i : N.testbit (shr x k) i = N.testbit x (i + k).
Proof. apply N.shiftr_spec'. Qed.

(* closure of the 64-bit range *)
Lemma w64p_testbit x : w64p x <-> (forall i, 64 <= i -> N.testbit x i = false).
Proof. split; [apply lt_two64_testbit | apply testbit_lt_two64]. Qed.

Lemma w64_w64p x : w64p (w64 x).
Proof. apply w64_lt. Qed.
Lemma shl_w64p x k : w64p (shl x k).
Proof. apply w64_lt. Qed.
Lemma add64_w64p x y : w64p (add64 x y).
Proof. apply w64_lt. Qed.
Lemma sub64_w64p x y : w64p (sub64 x y).
Proof. apply w64_lt. Qed.
Lemma mul64_w64p x y : w64p (mul64 x y).
Proof. apply w64_lt. Qed.
Lemma neg64_w64p x : w64p (neg64 x).
Proof. apply w64_lt. Qed.
Lemma bnot_w64p x : w64p (bnot x).
Proof.
  apply w64p_testbit. intros i Hi. rewrite bnot_testbit.
  destruct (N.ltb_spec i 64); [lia|reflexivity].
Qed.
Lemma band_w64p_l x y : w64p x -> w64p (band x y).
Proof.
  intros H. apply w64p_testbit. intros i Hi. rewrite band_testbit, (lt_two64_testbit x H i Hi). reflexivity.
Qed.
Lemma band_w64p_r x y : w64p y -> w64p (band x y).
Proof.
  intros H. apply w64p_testbit. intros i Hi. rewrite band_testbit, (lt_two64_testbit y H i Hi). apply andb_false_r.
Qed.
Lemma bor_w64p x y : w64p x -> w64p y -> w64p (bor x y).
Proof.
  intros Hx Hy. apply w64p_testbit. intros i Hi.
  rewrite bor_testbit, (lt_two64_testbit x Hx i Hi), (lt_two64_testbit y Hy i Hi). reflexivity.
Qed.
Lemma bxor_w64p x y : w64p x -> w64p y -> w64p (bxor x y).
Proof.
  intros Hx Hy. apply w64p_testbit. intros i Hi.
  rewrite bxor_testbit, (lt_two64_testbit x Hx i Hi), (lt_two64_testbit y Hy i Hi). reflexivity.
Qed.
Lemma bandn_w64p x y : w64p x -> w64p (bandn x y).
Proof.
  intros H. apply w64p_testbit. intros i Hi. rewrite bandn_testbit, (lt_two64_testbit x H i Hi). reflexivity.
Qed.
Lemma shr_w64p x k : w64p x -> w64p (shr x k).
Proof.
  intros H. apply w64p_testbit. intros i Hi. rewrite shr_testbit. apply (lt_two64_testbit x H). lia.
Qed.
Lemma bit_w64p s : s < 64 -> w64p (bit s).
Proof. apply bit_lt. Qed.
Lemma setb_w64p x s : w64p x -> s < 64 -> w64p (setb x s).
Proof. intros Hx Hs. apply (bor_w64p x (bit s) Hx (bit_lt s Hs)). Qed.
Lemma clrb_w64p x s : w64p x -> w64p (clrb x s).
Proof. intros Hx. apply (bandn_w64p x (bit s) Hx). Qed.

(* arithmetic views *)
Lemma add64_spec x y : add64 x y = (x + y) mod two64.
Proof. apply w64_spec. Qed.
Lemma mul64_spec x y : mul64 x y = (x * y) mod two64.
Proof. apply w64_spec. Qed.
Lemma sub64_spec x y : y < two64 -> sub64 x y = (x + two64 - y) mod two64.
Proof.
  intros H. unfold sub64. rewrite (w64_id y H), w64_spec. f_equal. lia.
Qed.
Lemma sub64_small x y : y <= x -> x < two64 -> sub64 x y = x - y.
Proof.
  intros Hy Hx. rewrite sub64_spec by lia.
  replace (x + two64 - y) with ((x - y) + 1 * two64) by lia.
  rewrite N.mod_add by discriminate. apply N.mod_small. lia.
Qed.
Lemma neg64_spec x : 0 < x -> x < two64 -> neg64 x = two64 - x.
Proof.
  intros H0 H. unfold neg64. rewrite sub64_spec by exact H. apply N.mod_small. lia.
Qed.

(* Go's b & (b - 1) on uint64 is clear_lsb *)
Lemma clear_lsb_sub64 x : x < two64 -> clear_lsb x = band x (sub64 x 1).
Proof.
  intros H. destruct (N.eq_dec x 0) as [->|Hx]; [reflexivity|].
  rewrite sub64_small by lia. unfold clear_lsb, band. f_equal. lia.
Qed.

Lemma lsb_lt b : b <> 0 -> b < two64 -> lsb b < 64.
Proof.
  intros H0 H. destruct (N.lt_ge_cases (lsb b) 64) as [L|L]; [exact L|].
  pose proof (lsb_testbit b H0) as T. rewrite (lt_two64_testbit b H _ L) in T. discriminate.
Qed.

Lemma clear_lsb_w64p b : w64p b -> w64p (clear_lsb b).
Proof. intros H. apply (band_w64p_l b (N.pred b) H). Qed.

Lemma clear_lsb_lt b : b <> 0 -> clear_lsb b < b.
Proof.
  intros H. destruct b as [|p]; [congruence|]. rewrite clear_lsb_pos.
  rewrite N.clearbit_spec'. pose proof (ctzp_testbit p) as T.
  assert (N.ldiff (N.pos p) (2 ^ ctzp p) = N.pos p - 2 ^ ctzp p) as ->.
  { symmetry. apply N.sub_nocarry_ldiff.
    apply N.bits_inj_0; intro i. rewrite N.ldiff_spec, N.pow2_bits_eqb.
    destruct (N.eqb_spec (ctzp p) i) as [<-|]; [rewrite T; reflexivity|reflexivity]. }
  assert (0 < 2 ^ ctzp p) by (apply N.neq_0_lt_0, N.pow_nonzero; discriminate).
  assert (2 ^ ctzp p <= N.pos p).
  { destruct (N.le_gt_cases (2 ^ ctzp p) (N.pos p)) as [L|L]; [exact L|].
    apply N.log2_lt_pow2 in L; [|lia]. rewrite N.bits_above_log2 in T by exact L. discriminate. }
  lia.
Qed.
