(* Soundness of the generic path analyser of Model/SkelCheck.v with respect to the semantics of
   Model/Skel.v, proved once for every statement tree and every function table.  The three domains
   are instantiated in Proofs/SkelDomains.v. *)
From Coq Require Import String List ZArith Bool Lia.
From Chess3 Require Import Model.Skel Model.SkelCheck.
Import ListNotations.
Open Scope string_scope.

(* ---------------------------------------------------------------------------------------------- *)
(* boolean equalities *)

Lemma list_eqb_eq {X} (eqb : X -> X -> bool) :
  (forall x y, eqb x y = true -> x = y) -> forall a b, list_eqb eqb a b = true -> a = b.
Proof.
  intros H a; induction a as [|x a IH]; intros [|y b] E; cbn in E; try discriminate; [reflexivity|].
  apply andb_true_iff in E as [E1 E2]. f_equal; [apply H; exact E1 | apply IH; exact E2].
Qed.

Lemma list_eqb_refl {X} (eqb : X -> X -> bool) :
  (forall x, eqb x x = true) -> forall a, list_eqb eqb a a = true.
Proof. intros H a; induction a as [|x a IH]; cbn; [reflexivity|]. rewrite H, IH. reflexivity. Qed.

Lemma strs_eqb_eq a b : list_eqb String.eqb a b = true -> a = b.
Proof. apply list_eqb_eq. intros x y H. apply String.eqb_eq. exact H. Qed.

Ltac eqb_tac :=
  repeat match goal with
         | H : _ && _ = true |- _ => apply andb_true_iff in H; destruct H
         | H : String.eqb _ _ = true |- _ => apply String.eqb_eq in H; subst
         | H : Nat.eqb _ _ = true |- _ => apply Nat.eqb_eq in H; subst
         | H : Bool.eqb _ _ = true |- _ => apply Bool.eqb_prop in H; subst
         | H : list_eqb String.eqb _ _ = true |- _ => apply strs_eqb_eq in H; subst
         end.

Lemma atom_eqb_eq a b : atom_eqb a b = true -> a = b.
Proof. destruct a, b; cbn; intros H; try discriminate; eqb_tac; reflexivity. Qed.

Lemma outcome_eqb_eq a b : outcome_eqb a b = true -> a = b.
Proof. destruct a, b; cbn; intros H; try discriminate; eqb_tac; reflexivity. Qed.

Lemma atoms_eqb_eq a b : list_eqb atom_eqb a b = true -> a = b.
Proof. apply list_eqb_eq. exact atom_eqb_eq. Qed.

Lemma mem_In x l : mem x l = true <-> In x l.
Proof.
  unfold mem. rewrite existsb_exists. split.
  - intros [y [Hy E]]. apply String.eqb_eq in E. subst. exact Hy.
  - intros H. exists x. split; [exact H | apply String.eqb_refl].
Qed.

(* ---------------------------------------------------------------------------------------------- *)
(* the continuation of a jump *)

Section AnGoto.
Variable D : domain.

Lemma an_goto_seek l s x :
  an_goto D l s x = match seek l s with Some k => an D k x | None => Some [(OGoto l, x)] end.
Proof.
  induction s; cbn; try reflexivity.
  - (* Seq *) destruct s1; cbn; try exact IHs2.
    destruct (String.eqb l l0); [reflexivity | exact IHs2].
  - (* Label *) destruct (String.eqb l l0); reflexivity.
Qed.
End AnGoto.

(* ---------------------------------------------------------------------------------------------- *)

Section Generic.
Variables B M T : Type.
Variable make : M -> B -> B * T.
Variable undo : M -> T -> B -> B.
Variable make_null : B -> B * T.
Variable undo_null : T -> B -> B.
Variable ftable : list (string * stmt).

Notation cstate := (cstate B M T).
Notation astep := (astep B M T make undo make_null undo_null).
Notation exec := (exec B M T make undo make_null undo_null ftable).

Lemma astep_defers a c c' : astep a c c' -> defers M T (snd c') = defers M T (snd c).
Proof. intros H. inversion H; subst; cbn; try reflexivity. assumption. Qed.

Variable D : domain.
Variable E : Type.
Variable G : E -> A D -> cstate -> Prop.
Variable Inv : cstate -> Prop.

Hypothesis eqb_eq : forall x y, a_eqb D x y = true -> x = y.
Hypothesis le_sound : forall e x y c, a_le D x y = true -> G e x c -> G e y c.
Hypothesis widen_sound : forall e x c, G e x c -> G e (a_widen D x) c.
Hypothesis G_inv : forall e x c, G e x c -> Inv c.
Hypothesis atom_sound : forall e a x y c c',
  tf_atom D a x = Some y -> G e x c -> astep a c c' -> G e y c'.
Hypothesis abort_sound_t : forall e x g l,
  G e x (g, l) -> G e (fst (tf_abort D x)) (set_aborted B M g true, l).
Hypothesis abort_sound_f : forall e x g l,
  G e x (g, l) -> aborted B M g = false -> exists y, snd (tf_abort D x) = Some y /\ G e y (g, l).
Hypothesis test_sound : forall e x g l c vs v,
  G e x (g, l) -> cenv M T l c vs = v -> exists y, tf_test D c vs v x = Some y /\ G e y (g, l).
Hypothesis defer_sound : forall e x g l a, G e x (g, l) -> G e x (g, push_defer M T l a).
Hypothesis call_sound : forall e x c f p xin xout me te ce,
  call_plan D f p x = Some (xin, xout) -> G e x c ->
  exists e', G e' xin (enter B M T p c me te ce) /\
             forall xe c2, G e' xe c2 -> exit_ok D f xin xe = true -> G e xout (leave B M T p c c2).
Hypothesis table_checked : forall f b, lookup f ftable = Some b -> fn_ok D f b = true.

Notation ast := (ast D).
Notation ares := (ares D).

Lemma ast_eqb_eq (x y : ast) : ast_eqb D x y = true -> x = y.
Proof.
  destruct x, y. unfold ast_eqb. cbn. intros H. apply andb_true_iff in H as [H1 H2].
  apply eqb_eq in H1. apply atoms_eqb_eq in H2. subst. reflexivity.
Qed.

Lemma ares_eqb_eq (x y : outcome * ast) : ares_eqb D x y = true -> x = y.
Proof.
  destruct x, y. unfold ares_eqb. cbn. intros H. apply andb_true_iff in H as [H1 H2].
  apply outcome_eqb_eq in H1. apply ast_eqb_eq in H2. subst. reflexivity.
Qed.

Lemma In_add e e' (r : ares) : In e r -> In e (add D e' r).
Proof. unfold add. destruct (existsb _ r); cbn; auto. Qed.

Lemma In_add_self e (r : ares) : In e (add D e r).
Proof.
  unfold add. destruct (existsb (ares_eqb D e) r) eqn:Ex; [|left; reflexivity].
  apply existsb_exists in Ex as [e' [Hin Heq]]. apply ares_eqb_eq in Heq. subst. exact Hin.
Qed.

Lemma In_union e (a b : ares) : In e a \/ In e b -> In e (union D a b).
Proof.
  unfold union. induction a as [|x a IH]; cbn; intros [H|H]; try contradiction; auto.
  - destruct H as [->|H]; [apply In_add_self | apply In_add, IH; left; exact H].
  - apply In_add, IH. right. exact H.
Qed.

Lemma bind_In (r : ares) f r' o y a e :
  bind D r f = Some r' -> In (o, y) r -> f o y = Some a -> In e a -> In e r'.
Proof.
  revert r'. induction r as [|[o1 y1] r IH]; cbn; intros r' Hb Hin Hf He; [contradiction|].
  destruct (f o1 y1) as [a1|] eqn:F1; [|discriminate].
  destruct (bind D r f) as [b1|] eqn:B1; [|discriminate].
  inversion Hb; subst r'. apply In_union. destruct Hin as [Heq|Hin].
  - inversion Heq; subst. rewrite Hf in F1. inversion F1; subst. left. exact He.
  - right. eapply IH; eauto.
Qed.

Lemma bind_some (r : ares) f r' o y :
  bind D r f = Some r' -> In (o, y) r -> exists a, f o y = Some a.
Proof.
  revert r'. induction r as [|[o1 y1] r IH]; cbn; intros r' Hb Hin; [contradiction|].
  destruct (f o1 y1) as [a1|] eqn:F1; [|discriminate].
  destruct (bind D r f) as [b1|] eqn:B1; [|discriminate].
  destruct Hin as [Heq|Hin]; [inversion Heq; subst; eauto | eapply IH; eauto].
Qed.

Lemma map_out_In f o y (r : ares) : In (o, y) r -> In (f o, y) (map_out D f r).
Proof.
  unfold map_out. induction r as [|x r IH]; cbn; intros H; [contradiction|].
  destruct H as [->|H]; [apply In_add_self | apply In_add, IH, H].
Qed.

Lemma loop_out_In o y (r : ares) : In (o, y) r -> is_back o = false -> In (unbreak o, y) (loop_out D r).
Proof.
  unfold loop_out. induction r as [|x r IH]; cbn; intros H Hb; [contradiction|].
  destruct H as [->|H].
  - cbn. rewrite Hb. apply In_add_self.
  - destruct (is_back (fst x)); [apply IH; assumption | apply In_add, IH; assumption].
Qed.

(* what the analysis promises about an execution that ends with outcome o in state c' *)
Definition post (e : E) (r : ares) (o : outcome) (c' : cstate) : Prop :=
  match o with
  | OHalt => Inv c'
  | _ => exists y, In (o, y) r /\ G e (fst y) c' /\ defers M T (snd c') = snd y
  end.

Lemma post_mono e (a r : ares) o c : (forall z, In z a -> In z r) -> post e a o c -> post e r o c.
Proof.
  intros Hsub. unfold post. destruct o; try exact (fun H => H);
    intros [y [Hin Hy]]; exists y; (split; [apply Hsub, Hin | exact Hy]).
Qed.

Lemma post_intro e (r : ares) o y c :
  o <> OHalt -> In (o, y) r -> G e (fst y) c -> defers M T (snd c) = snd y -> post e r o c.
Proof. intros Ho Hin HG Hd. unfold post. destruct o; try congruence; exists y; auto. Qed.

Lemma post_elim e (r : ares) o c :
  o <> OHalt -> post e r o c -> exists y, In (o, y) r /\ G e (fst y) c /\ defers M T (snd c) = snd y.
Proof. intros Ho. unfold post. destruct o; try congruence; exact (fun H => H). Qed.

Lemma run_defers_an dl : forall (x : A D) dl0 z,
  run_defers D dl x = Some z -> an D (defer_stmt dl) (x, dl0) = Some [(ONormal, (z, dl0))].
Proof.
  induction dl as [|a dl IH]; cbn; intros x dl0 z H.
  - inversion H; subst. reflexivity.
  - destruct (tf_atom D a x) as [y|] eqn:Ha; [|discriminate]. cbn.
    rewrite (IH y dl0 z H). cbn. reflexivity.
Qed.

Lemma an_Seq s1 s2 (x : ast) :
  an D (Seq s1 s2) x =
  match an D s1 x with
  | None => None
  | Some r1 => bind D r1 (fun o y => match o with
                                     | ONormal => an D s2 y
                                     | OGoto l => an_goto D l s2 y
                                     | _ => Some [(o, y)]
                                     end)
  end.
Proof. reflexivity. Qed.

Lemma loop_head b (x : ast) r :
  an D (Loop b) x = Some r ->
  exists xh, snd xh = snd x /\ (forall e c, G e (fst x) c -> G e (fst xh) c)
             /\ loop_at D (an D b) xh = Some r /\ an D (Loop b) xh = Some r.
Proof.
  cbn. intros H.
  destruct (loop_at D (an D b) x) as [r0|] eqn:L0.
  { inversion H; subst. exists x. repeat split; auto. rewrite L0. reflexivity. }
  destruct (loop_at D (an D b) (a_widen D (fst x), snd x)) as [r1|] eqn:L1.
  { inversion H; subst. exists (a_widen D (fst x), snd x). cbn. repeat split; auto.
    rewrite L1. reflexivity. }
  exists (a_widen D (a_widen D (fst x)), snd x). cbn. repeat split; auto.
  rewrite H. reflexivity.
Qed.

Theorem an_sound : forall s c o c', exec s c o c' ->
  forall e x r, an D s x = Some r -> G e (fst x) c -> defers M T (snd c) = snd x -> post e r o c'.
Proof.
  induction 1; intros e x r Han HG Hd.
  - (* Halt *) cbn. eapply G_inv, HG.
  - (* Skip *) cbn in Han. inversion Han; subst. apply post_intro with (y := x); cbn; auto; discriminate.
  - (* Atom *) cbn in Han. destruct (tf_atom D a (fst x)) as [y|] eqn:Ha; [|discriminate].
    inversion Han; subst. apply post_intro with (y := (y, snd x)); cbn; auto; try discriminate.
    + eapply atom_sound; eauto.
    + rewrite (astep_defers _ _ _ H). exact Hd.
  - (* Seq *) rewrite an_Seq in Han. destruct (an D s1 x) as [r1|] eqn:A1; [|discriminate].
    pose proof (IHexec1 _ _ _ A1 HG Hd) as P0; apply post_elim in P0; [|discriminate]; destruct P0 as [y1 [Hin [HG1 Hd1]]].
    destruct (bind_some _ _ _ _ _ Han Hin) as [a Ha].
    eapply post_mono; [|eapply IHexec2; [exact Ha | exact HG1 | exact Hd1]].
    intros z Hz. exact (bind_In _ _ _ _ _ _ _ Han Hin Ha Hz).
  - (* SeqJump *) rewrite an_Seq in Han. destruct (an D s1 x) as [r1|] eqn:A1; [|discriminate].
    pose proof (IHexec1 _ _ _ A1 HG Hd) as P0; apply post_elim in P0; [|discriminate]; destruct P0 as [y1 [Hin [HG1 Hd1]]].
    destruct (bind_some _ _ _ _ _ Han Hin) as [a Ha].
    pose proof Ha as Ha'. cbv beta iota in Ha'. rewrite an_goto_seek, H0 in Ha'.
    eapply post_mono; [|eapply IHexec2; [exact Ha' | exact HG1 | exact Hd1]].
    intros z Hz. exact (bind_In _ _ _ _ _ _ _ Han Hin Ha Hz).
  - (* SeqMiss *) rewrite an_Seq in Han. destruct (an D s1 x) as [r1|] eqn:A1; [|discriminate].
    pose proof (IHexec _ _ _ A1 HG Hd) as P0; apply post_elim in P0; [|discriminate]; destruct P0 as [y1 [Hin [HG1 Hd1]]].
    apply post_intro with (y := y1); auto; try discriminate.
    refine (bind_In _ _ _ _ _ _ _ Han Hin _ _);
      [cbv beta iota; rewrite an_goto_seek, H0; reflexivity | left; reflexivity].
  - (* SeqOut *) rewrite an_Seq in Han. destruct (an D s1 x) as [r1|] eqn:A1; [|discriminate].
    specialize (IHexec _ _ _ A1 HG Hd).
    destruct o; try contradiction; try exact IHexec;
      (pose proof IHexec as P0; apply post_elim in P0; [|discriminate]; destruct P0 as [y1 [Hin [HG1 Hd1]]];
       apply post_intro with (y := y1); auto; try discriminate;
       refine (bind_In _ _ _ _ _ _ _ Han Hin _ _); [reflexivity | left; reflexivity]).
  - (* IfL *) cbn in Han. destruct (an D s1 x) as [a|] eqn:A1; [|discriminate].
    destruct (an D s2 x) as [b|] eqn:A2; [|discriminate]. inversion Han; subst.
    eapply post_mono; [|eapply IHexec; eauto]. intros z Hz. apply In_union. left. exact Hz.
  - (* IfR *) cbn in Han. destruct (an D s1 x) as [a|] eqn:A1; [|discriminate].
    destruct (an D s2 x) as [b|] eqn:A2; [|discriminate]. inversion Han; subst.
    eapply post_mono; [|eapply IHexec; eauto]. intros z Hz. apply In_union. right. exact Hz.
  - (* AbortT *) cbn in Han.
    destruct (an D s1 (fst (tf_abort D (fst x)), snd x)) as [a|] eqn:A1; [|discriminate].
    destruct (match snd (tf_abort D (fst x)) with Some e0 => an D s2 (e0, snd x) | None => Some [] end) as [b|]; [|discriminate].
    inversion Han; subst.
    eapply post_mono; [|eapply IHexec; [exact A1| |exact Hd]].
    + intros z Hz. apply In_union. left. exact Hz.
    + cbn. apply abort_sound_t. exact HG.
  - (* AbortF *) cbn in Han.
    destruct (an D s1 (fst (tf_abort D (fst x)), snd x)) as [a|] eqn:A1; [|discriminate].
    destruct (abort_sound_f _ _ _ _ HG H) as [y [Hy HGy]]. rewrite Hy in Han.
    destruct (an D s2 (y, snd x)) as [b|] eqn:A2; [|discriminate]. inversion Han; subst.
    eapply post_mono; [|eapply IHexec; [exact A2| |exact Hd]].
    + intros z Hz. apply In_union. right. exact Hz.
    + exact HGy.
  - (* IfCT *) cbn in Han.
    destruct (test_sound _ _ _ _ _ _ _ HG H) as [y [Hy HGy]]. rewrite Hy in Han.
    destruct (an D s1 (y, snd x)) as [a|] eqn:A1; [|discriminate].
    destruct (match tf_test D cn vs neg (fst x) with Some y0 => an D s2 (y0, snd x) | None => Some [] end) as [b|]; [|discriminate].
    inversion Han; subst.
    eapply post_mono; [|eapply IHexec; [exact A1| |exact Hd]].
    + intros z Hz. apply In_union. left. exact Hz.
    + exact HGy.
  - (* IfCF *) cbn in Han.
    destruct (test_sound _ _ _ _ _ _ _ HG H) as [y [Hy HGy]]. rewrite Hy in Han.
    destruct (match tf_test D cn vs (negb neg) (fst x) with Some y0 => an D s1 (y0, snd x) | None => Some [] end) as [a|]; [|discriminate].
    destruct (an D s2 (y, snd x)) as [b|] eqn:A2; [|discriminate].
    inversion Han; subst.
    eapply post_mono; [|eapply IHexec; [exact A2| |exact Hd]].
    + intros z Hz. apply In_union. right. exact Hz.
    + exact HGy.
  - (* LoopIter *)
    destruct (loop_head _ _ _ Han) as [xh [Hsnd [Hup [Hat Hagain]]]].
    unfold loop_at in Hat. destruct (an D b xh) as [rb|] eqn:Ab; [|discriminate].
    destruct (back_ok D xh rb) eqn:Bk; [|discriminate].
    assert (Ho1 : o1 <> OHalt) by (destruct o1; cbn in H0; congruence).
    destruct (post_elim _ _ _ _ Ho1 (IHexec1 _ _ _ Ab (Hup _ _ HG) ltac:(rewrite Hsnd; exact Hd)))
      as [y1 [Hin [HG1 Hd1]]].
    unfold back_ok in Bk. rewrite forallb_forall in Bk. specialize (Bk _ Hin). cbn in Bk.
    rewrite H0 in Bk. cbn in Bk. unfold ast_le in Bk. apply andb_true_iff in Bk as [Hle Hdl].
    apply atoms_eqb_eq in Hdl.
    eapply IHexec2; [exact Hagain | eapply le_sound; eauto | congruence].
  - (* LoopBreak *)
    destruct (loop_head _ _ _ Han) as [xh [Hsnd [Hup [Hat Hagain]]]].
    unfold loop_at in Hat. destruct (an D b xh) as [rb|] eqn:Ab; [|discriminate].
    destruct (back_ok D xh rb) eqn:Bk; [|discriminate]. inversion Hat; subst r.
    pose proof (IHexec _ _ _ Ab (Hup _ _ HG) ltac:(rewrite Hsnd; exact Hd)) as P0; apply post_elim in P0; [|discriminate]; destruct P0 as [y1 [Hin [HG1 Hd1]]].
    apply post_intro with (y := y1); auto; try discriminate.
    apply (loop_out_In OBreak); auto.
  - (* LoopOut *)
    destruct (loop_head _ _ _ Han) as [xh [Hsnd [Hup [Hat Hagain]]]].
    unfold loop_at in Hat. destruct (an D b xh) as [rb|] eqn:Ab; [|discriminate].
    destruct (back_ok D xh rb) eqn:Bk; [|discriminate]. inversion Hat; subst r.
    specialize (IHexec _ _ _ Ab (Hup _ _ HG) ltac:(rewrite Hsnd; exact Hd)).
    destruct o; try contradiction; try exact IHexec.
    + pose proof IHexec as P0; apply post_elim in P0; [|discriminate]; destruct P0 as [y1 [Hin [HG1 Hd1]]].
      apply post_intro with (y := y1); auto; try discriminate. apply (loop_out_In OReturn); auto.
    + pose proof IHexec as P0; apply post_elim in P0; [|discriminate]; destruct P0 as [y1 [Hin [HG1 Hd1]]].
      apply post_intro with (y := y1); auto; try discriminate. apply (loop_out_In (OGoto l)); auto.
  - (* CatchCont *) cbn in Han. destruct (an D s x) as [r1|] eqn:A1; [|discriminate]. inversion Han; subst.
    specialize (IHexec _ _ _ A1 HG Hd).
    destruct o; try exact IHexec;
      (pose proof IHexec as P0; apply post_elim in P0; [|discriminate]; destruct P0 as [y1 [Hin [HG1 Hd1]]];
       apply post_intro with (y := y1); auto; try discriminate;
       match goal with |- In (?o', _) _ => apply (map_out_In uncont _ _ _ Hin) end).
  - (* CatchBreak *) cbn in Han. destruct (an D s x) as [r1|] eqn:A1; [|discriminate]. inversion Han; subst.
    specialize (IHexec _ _ _ A1 HG Hd).
    destruct o; try exact IHexec;
      (pose proof IHexec as P0; apply post_elim in P0; [|discriminate]; destruct P0 as [y1 [Hin [HG1 Hd1]]];
       apply post_intro with (y := y1); auto; try discriminate;
       match goal with |- In (?o', _) _ => apply (map_out_In unbreak _ _ _ Hin) end).
  - (* Defer *) cbn in Han. inversion Han; subst.
    apply post_intro with (y := (fst x, a :: snd x)); cbn; try discriminate;
      [left; reflexivity | apply defer_sound; exact HG | cbn in Hd; rewrite Hd; reflexivity].
  - (* Call *) cbn in Han.
    destruct (call_plan D f p (fst x)) as [[xin xout]|] eqn:Cp; [|discriminate].
    destruct (existsb (a_eqb D xin) (entries D f)) eqn:Ex; [|discriminate]. inversion Han; subst r.
    apply existsb_exists in Ex as [xin' [Hent Heq]]. apply eqb_eq in Heq. subst xin'.
    destruct (call_sound _ _ _ _ _ _ _ me te ce Cp HG) as [e' [HGin K]].
    pose proof (table_checked _ _ H) as Hok. unfold fn_ok in Hok. rewrite forallb_forall in Hok.
    specialize (Hok _ Hent). unfold fn_ok_at in Hok.
    destruct (an D b (xin, [])) as [rb|] eqn:Ab; [|discriminate].
    assert (Ho1 : o1 <> OHalt) by (destruct o1; cbn in H1; congruence).
    destruct (post_elim _ _ _ _ Ho1 (IHexec1 e' (xin, []) rb Ab HGin eq_refl)) as [y1 [Hin [HG1 Hd1]]].
    rewrite forallb_forall in Hok. specialize (Hok _ Hin). cbn in Hok.
    apply andb_true_iff in Hok as [_ Hok].
    destruct (run_defers D (snd y1) (fst y1)) as [z|] eqn:Rd; [|discriminate].
    pose proof (run_defers_an _ _ (snd y1) _ Rd) as Ad. rewrite <- Hd1 in Ad at 1.
    destruct y1 as [y1a y1d]. cbn in *.
    destruct (IHexec2 e' (y1a, y1d) _ Ad HG1 Hd1) as [y2 [Hin2 [HG2 Hd2]]].
    destruct Hin2 as [Hin2|[]]. inversion Hin2; subst y2. cbn in HG2.
    exists (xout, snd x). cbn. split; [left; reflexivity|]. split; [|exact Hd].
    apply K with (xe := z); assumption.
  - (* CallHalt *) cbn in Han.
    destruct (call_plan D f p (fst x)) as [[xin xout]|] eqn:Cp; [|discriminate].
    destruct (existsb (a_eqb D xin) (entries D f)) eqn:Ex; [|discriminate].
    apply existsb_exists in Ex as [xin' [Hent Heq]]. apply eqb_eq in Heq. subst xin'.
    destruct (call_sound _ _ _ _ _ _ _ me te ce Cp HG) as [e' [HGin K]].
    pose proof (table_checked _ _ H) as Hok. unfold fn_ok in Hok. rewrite forallb_forall in Hok.
    specialize (Hok _ Hent). unfold fn_ok_at in Hok.
    destruct (an D b (xin, [])) as [rb|] eqn:Ab; [|discriminate].
    exact (IHexec e' (xin, []) rb Ab HGin eq_refl).
  - (* CallHaltD *) cbn in Han.
    destruct (call_plan D f p (fst x)) as [[xin xout]|] eqn:Cp; [|discriminate].
    destruct (existsb (a_eqb D xin) (entries D f)) eqn:Ex; [|discriminate].
    apply existsb_exists in Ex as [xin' [Hent Heq]]. apply eqb_eq in Heq. subst xin'.
    destruct (call_sound _ _ _ _ _ _ _ me te ce Cp HG) as [e' [HGin K]].
    pose proof (table_checked _ _ H) as Hok. unfold fn_ok in Hok. rewrite forallb_forall in Hok.
    specialize (Hok _ Hent). unfold fn_ok_at in Hok.
    destruct (an D b (xin, [])) as [rb|] eqn:Ab; [|discriminate].
    assert (Ho1 : o1 <> OHalt) by (destruct o1; cbn in H1; congruence).
    destruct (post_elim _ _ _ _ Ho1 (IHexec1 e' (xin, []) rb Ab HGin eq_refl)) as [y1 [Hin [HG1 Hd1]]].
    rewrite forallb_forall in Hok. specialize (Hok _ Hin). cbn in Hok.
    apply andb_true_iff in Hok as [_ Hok].
    destruct (run_defers D (snd y1) (fst y1)) as [z|] eqn:Rd; [|discriminate].
    pose proof (run_defers_an _ _ (snd y1) _ Rd) as Ad. rewrite <- Hd1 in Ad at 1.
    destruct y1 as [y1a y1d]. cbn in *.
    exact (IHexec2 e' (y1a, y1d) _ Ad HG1 Hd1).
  - (* Return *) cbn in Han. inversion Han; subst. apply post_intro with (y := x); cbn; auto; discriminate.
  - (* Break *) cbn in Han. inversion Han; subst. apply post_intro with (y := x); cbn; auto; discriminate.
  - (* Continue *) cbn in Han. inversion Han; subst. apply post_intro with (y := x); cbn; auto; discriminate.
  - (* Goto *) cbn in Han. inversion Han; subst. apply post_intro with (y := x); cbn; auto; discriminate.
  - (* Label *) cbn in Han. inversion Han; subst. apply post_intro with (y := x); cbn; auto; discriminate.
Qed.

(* a call of a checked function, from a state described by x *)
Hypothesis eqb_refl : forall x, a_eqb D x x = true.

Corollary call_checked f p c o c' e x xin xout :
  exec (Call f p) c o c' -> call_plan D f p x = Some (xin, xout) -> In xin (entries D f) -> G e x c ->
  match o with OHalt => Inv c' | ONormal => G e xout c' | _ => False end.
Proof.
  intros Hex Hcp Hent HG.
  assert (Han : an D (Call f p) (x, defers M T (snd c)) = Some [(ONormal, (xout, defers M T (snd c)))]).
  { cbn. rewrite Hcp.
    assert (Ex : existsb (a_eqb D xin) (entries D f) = true).
    { apply existsb_exists. exists xin. split; [exact Hent | apply eqb_refl]. }
    rewrite Ex. reflexivity. }
  pose proof (an_sound _ _ _ _ Hex e _ _ Han HG eq_refl) as P.
  inversion Hex; subst; cbn in P; try exact P.
  destruct P as [y [[Hy|[]] [HGy _]]]. inversion Hy; subst. exact HGy.
Qed.

End Generic.
