(* C12, effect part - the attack lookups are functions of their arguments and of tables written only during package initialisation
   Statements only. Gen/Effects.v is written by the translator piece harness/cmd/gen/effects.go from the
   CURRENT source on every run: a conservative effect analysis (go/parser + go/types, over-approximated call
   graph, summaries to a fixed point). For a root function R
     effects_R  = the writes of R and of everything R may call: to package-level variables ("global:..."),
                  through R's parameters or receiver ("param:..."), and calls of function values the analysis
                  does not follow ("dyncall:...");
     mutreads_R = the package-level variables R may read that something outside package initialisation writes;
     effects_error = None unless the analysis could not load or understand something (it fails closed).
   What a statement below establishes is exactly: no function reachable from R in the over-approximated call
   graph contains a syntactic write to package-level state or through R's parameters, and none mentions a
   package-level variable that is written after initialisation - i.e. R keeps no state between calls. The
   over-approximations and what is not modelled (reflection, unsafe, function values) are listed in Gen/Effects.v
   and in the header of effects.go. *)
From Coq Require Import String List.
From Chess3 Require Import Gen.Effects.
Import ListNotations.
Open Scope string_scope.

Theorem C12_kingmoves_keeps_no_state :
  effects_error = None /\ effects_attacks_KingMoves = [] /\ mutreads_attacks_KingMoves = [].
Proof. repeat split; cbv; reflexivity. Qed.
Print Assumptions C12_kingmoves_keeps_no_state.

Theorem C12_knightmoves_keeps_no_state :
  effects_error = None /\ effects_attacks_KnightMoves = [] /\ mutreads_attacks_KnightMoves = [].
Proof. repeat split; cbv; reflexivity. Qed.
Print Assumptions C12_knightmoves_keeps_no_state.

Theorem C12_bishopmoves_keeps_no_state :
  effects_error = None /\ effects_attacks_BishopMoves = [] /\ mutreads_attacks_BishopMoves = [].
Proof. repeat split; cbv; reflexivity. Qed.
Print Assumptions C12_bishopmoves_keeps_no_state.

Theorem C12_rookmoves_keeps_no_state :
  effects_error = None /\ effects_attacks_RookMoves = [] /\ mutreads_attacks_RookMoves = [].
Proof. repeat split; cbv; reflexivity. Qed.
Print Assumptions C12_rookmoves_keeps_no_state.

Theorem C12_pawncapturemoves_keeps_no_state :
  effects_error = None /\ effects_attacks_PawnCaptureMoves = [] /\ mutreads_attacks_PawnCaptureMoves = [].
Proof. repeat split; cbv; reflexivity. Qed.
Print Assumptions C12_pawncapturemoves_keeps_no_state.

Theorem C12_pawnsinglepushmoves_keeps_no_state :
  effects_error = None /\ effects_attacks_PawnSinglePushMoves = [] /\ mutreads_attacks_PawnSinglePushMoves = [].
Proof. repeat split; cbv; reflexivity. Qed.
Print Assumptions C12_pawnsinglepushmoves_keeps_no_state.

(* attacks.InBetween is an exported table, not a function: nothing outside package initialisation (init, the
   unexported functions only init refers to) writes it, in any package of the repository *)
Theorem C12_inbetween_written_only_by_initialisation :
  effects_error = None /\ writers_attacks_InBetween = [].
Proof. split; cbv; reflexivity. Qed.
Print Assumptions C12_inbetween_written_only_by_initialisation.
