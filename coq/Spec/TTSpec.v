(* Specification of the transposition table (property C15), independent of Model/TT.v.

   The table is an abstract map from (bucket index, 16-bit signature) to a record. A store binds
   its own key - unless the keep-deeper rule rejects it - and may make at most one other key of
   the same bucket disappear; nothing else changes. A probe answers from the record of the probed
   key only. Signature 0 is the encoding of "empty": it is excluded from the frame / no-phantom
   clauses. Everything is plain unbounded integer arithmetic. *)
From Coq Require Import ZArith Bool List.
Import ListNotations.
From Chess3 Require Import Gen.TTConsts.
Open Scope Z_scope.

(* ---------------------------------------------------------------------------------------- *)
(* keys *)

(* the i-th 16-bit lane of a 64-bit word *)
Definition lane (i w : Z) : Z := (w / 2 ^ (16 * i)) mod 65536.

(* index of the first lane of w that equals key *)
Definition first_lane_eq (w key : Z) : option Z :=
  if lane 0 w =? key then Some 0
  else if lane 1 w =? key then Some 1
  else if lane 2 w =? key then Some 2
  else if lane 3 w =? key then Some 3
  else None.

(* signature: the top 16 bits of the hash; bucket: Lemire's reduction of the low 32 bits *)
Definition sig_of (h : Z) : Z := (h / 2 ^ 48) mod 65536.
Definition bucket_of (nb h : Z) : Z := (h mod 2 ^ 32) * nb / 2 ^ 32.

(* ---------------------------------------------------------------------------------------- *)
(* records, scores *)

(* a_score is the ply-independent form of the score (mate scores counted from the stored node) *)
Record arec := mkRec { a_depth : Z; a_type : Z; a_score : Z; a_move : Z; a_gen : Z }.

Record sop := mkSop { o_hash : Z; o_gen : Z; o_depth : Z; o_ply : Z; o_move : Z; o_value : Z; o_type : Z }.

Definition to_tt (v ply : Z) : Z :=
  if v <? MateLo then v - ply else if MateHi <? v then v + ply else v.
Definition from_tt (s ply : Z) : Z :=
  if MateHi <? s then s - ply else if s <? MateLo then s + ply else s.

(* the property's wording: mate distances re-based from the storing to the probing ply, all
   other scores unchanged *)
Definition rebase (v ply_store ply_probe : Z) : Z :=
  if MateHi <? v then v + ply_store - ply_probe
  else if v <? MateLo then v - ply_store + ply_probe
  else v.

(* what a probe at ply shows of a record: depth, bound type, score, move *)
Definition shown (r : arec) (ply : Z) : list Z :=
  [a_depth r; a_type r; from_tt (a_score r) ply; a_move r].

(* a bound does not displace a same-search entry of that key that is more than two plies deeper *)
Definition keep_deeper (old : option arec) (o : sop) : bool :=
  match old with
  | Some r => negb (o_type o =? Exact) && (o_depth o + 2 <? a_depth r) && (a_gen r =? o_gen o)
  | None => false
  end.

(* the record a store binds: a null move keeps the move the key already had *)
Definition new_rec (old : option arec) (o : sop) : arec :=
  mkRec (o_depth o) (o_type o) (to_tt (o_value o) (o_ply o))
        (if o_move o =? 0 then match old with Some r => a_move r | None => 0 end else o_move o)
        (o_gen o).

Definition op_in_domain (o : sop) : bool :=
  (0 <=? o_hash o) && (o_hash o <? 2 ^ 64) && (0 <=? o_gen o) && (o_gen o <=? 255) &&
  (0 <=? o_depth o) && (o_depth o <=? 63) && (0 <=? o_ply o) && (o_ply o <=? 63) &&
  (0 <=? o_move o) && (o_move o <=? 65535) && (-32000 <=? o_value o) && (o_value o <=? 32000) &&
  (0 <=? o_type o) && (o_type o <=? 2).

(* ---------------------------------------------------------------------------------------- *)
(* the abstract table *)

Definition amap := Z -> Z -> option arec.        (* bucket index -> signature -> record *)

Definition opt_is (v : option Z) (s : Z) : bool :=
  match v with Some x => x =? s | None => false end.

(* nb = number of buckets *)
Definition store_spec (nb : Z) (A : amap) (o : sop) (A' : amap) : Prop :=
  let ix := bucket_of nb (o_hash o) in
  let sg := sig_of (o_hash o) in
  if keep_deeper (A ix sg) o then forall i s, A' i s = A i s
  else A' ix sg = Some (new_rec (A ix sg) o) /\
       exists victim : option Z,
         forall i s, s <> 0 -> (i <> ix \/ s <> sg) ->
           A' i s = if (i =? ix) && opt_is victim s then None else A i s.

Definition cleared (A' : amap) : Prop := forall i s, s <> 0 -> A' i s = None.

(* abstract operations and runs; a resize is judged only together with the clear that follows *)
Inductive aop :=
| AStore (o : sop)
| AClear
| AResizeClear (size : Z).

Definition size_ok (size : Z) : bool := (bucketSize <=? size) && (size mod bucketSize =? 0).

Definition astate := (Z * amap)%type.            (* number of buckets, content *)

Inductive astep : astate -> aop -> astate -> Prop :=
| step_store nb A o A' : store_spec nb A o A' -> astep (nb, A) (AStore o) (nb, A')
| step_clear nb A A' : cleared A' -> astep (nb, A) AClear (nb, A')
| step_resize nb A size A' : cleared A' -> astep (nb, A) (AResizeClear size) (size / bucketSize, A').

Inductive arun : astate -> list aop -> astate -> Prop :=
| run_nil s : arun s [] s
| run_cons s op s' ops s'' : astep s op s' -> arun s' ops s'' -> arun s (op :: ops) s''.

Definition aop_ok (op : aop) : bool :=
  match op with
  | AStore o => op_in_domain o
  | AClear => true
  | AResizeClear size => size_ok size && (size <=? 2 ^ 36)
  end.

(* ---------------------------------------------------------------------------------------- *)
(* The judge of the witness search: replays an observed run of the stream c15
     input  = size0 :: npool :: pool ++ nops :: ops      (8 numbers per op, see Model/TT.v)
     output = 5 numbers (hit depth type value move) per probe; every mutating op is followed by
              a probe of every pool key at the op's ply
   against the abstract table and returns [1] iff every answer is admitted:
     [0;1] phantom: hit on a key (signature <> 0) that holds nothing
     [0;2] hit with data that differ from the record of the key (depth/type/re-based score/move)
     [0;3] a store is not readable back (and was not rejected by the keep-deeper rule)
     [0;4] a key disappeared without a store that could have evicted it
     [0;5] a store made a key of another bucket disappear
     [0;6] a store made more than one other key disappear
     [0;7] a probe misses a key that is in the table
     [0;99] malformed observation (includes a panic)
   Operations outside the property's domain end the judgement with [1]; after a resize without a
   clear nothing is judged until the next clear. *)

Definition jkey := (Z * Z)%type.
Definition jmap := list (jkey * arec).

Definition keqb (a b : jkey) : bool := (fst a =? fst b) && (snd a =? snd b).

Fixpoint jfind (k : jkey) (m : jmap) : option arec :=
  match m with
  | [] => None
  | (k', r) :: m' => if keqb k k' then Some r else jfind k m'
  end.

Fixpoint jremove (k : jkey) (m : jmap) : jmap :=
  match m with
  | [] => []
  | (k', r) :: m' => if keqb k k' then jremove k m' else (k', r) :: jremove k m'
  end.

Definition jset (k : jkey) (r : arec) (m : jmap) : jmap := (k, r) :: jremove k m.

Fixpoint kmem (k : jkey) (l : list jkey) : bool :=
  match l with [] => false | k' :: l' => keqb k k' || kmem k l' end.

Definition key_of (nb h : Z) : jkey := (bucket_of nb h, sig_of h).

(* 0 = admitted, otherwise the clause; `present and missed' is reported as 7 *)
Definition check_answer (exp : option arec) (sg ply hit d t v m : Z) : Z :=
  if hit =? 1 then
    match exp with
    | Some r =>
        if (d =? a_depth r) && (t =? a_type r) && (v =? from_tt (a_score r) ply) && (m =? a_move r)
        then 0
        else if sg =? 0 then 7   (* signature 0: the record is gone and an empty lane answers *)
        else 2
    | None => if sg =? 0 then 0 else 1
    end
  else if hit =? 0 then
    match exp with Some _ => 7 | None => 0 end
  else 99.

(* one sweep over the pool keys after a mutating op.
   stored = key of the store (if the op was an accepted store): it must be present, and only keys
   of its bucket may have disappeared. Returns the clause (inl) or the lost keys and the rest of
   the output (inr). *)
Fixpoint check_sweep (pk : list jkey) (jm : jmap) (ply : Z) (stored : option jkey) (lost : list jkey)
         (out : list Z) : Z + (list jkey * list Z) :=
  match pk with
  | [] => inr (lost, out)
  | k :: pk' =>
      match out with
      | hit :: d :: t :: v :: m :: out' =>
          let c := check_answer (jfind k jm) (snd k) ply hit d t v m in
          if c =? 0 then check_sweep pk' jm ply stored lost out'
          else if c =? 7 then
            match stored with
            | None => inl 4
            | Some ks =>
                if keqb k ks then inl 3
                else if negb (fst k =? fst ks) then inl 5
                else check_sweep pk' jm ply stored (if kmem k lost then lost else k :: lost) out'
            end
          else inl c
      | _ => inl 99
      end
  end.

Fixpoint drop (n : nat) (l : list Z) : option (list Z) :=
  match n with
  | O => Some l
  | S n' => match l with [] => None | _ :: l' => drop n' l' end
  end.

Fixpoint jremove_all (ks : list jkey) (m : jmap) : jmap :=
  match ks with [] => m | k :: ks' => jremove_all ks' (jremove k m) end.

Definition nb_ok (nb : Z) : bool := (1 <=? nb) && (nb <=? 2 ^ 31).

Fixpoint judge_ops (pool : list Z) (nb : Z) (pk : list jkey) (judged : bool) (jm : jmap)
         (ops out : list Z) {struct ops} : list Z :=
  match ops with
  | k :: h :: g :: d :: p :: m :: v :: ty :: rest =>
      let np5 := (5 * length pool)%nat in
      if k =? 0 then
        let o := mkSop h g d p m v ty in
        if negb (op_in_domain o) then [1]
        else if judged then
          let key := key_of nb h in
          let old := jfind key jm in
          let kd := keep_deeper old o in
          let jm1 := if kd then jm else jset key (new_rec old o) jm in
          match check_sweep pk jm1 p (if kd then None else Some key) [] out with
          | inl c => [0; c]
          | inr (lost, out') =>
              if (1 <? Z.of_nat (length lost)) then [0; 6]
              else judge_ops pool nb pk judged (jremove_all lost jm1) rest out'
          end
        else
          match drop np5 out with
          | Some out' => judge_ops pool nb pk judged jm rest out'
          | None => [0; 99]
          end
      else if k =? 1 then
        match out with
        | hit :: d' :: t' :: v' :: m' :: out' =>
            if judged && (0 <=? h) && (h <? 2 ^ 64) && (0 <=? p) && (p <=? 63) then
              let key := key_of nb h in
              let c := check_answer (jfind key jm) (snd key) p hit d' t' v' m' in
              if c =? 0 then judge_ops pool nb pk judged jm rest out' else [0; c]
            else judge_ops pool nb pk judged jm rest out'
        | _ => [0; 99]
        end
      else if k =? 2 then
        if negb ((0 <=? p) && (p <=? 63)) then [1] else
        match check_sweep pk [] p None [] out with
        | inl c => [0; c]
        | inr (_, out') => judge_ops pool nb pk true [] rest out'
        end
      else if k =? 3 then
        if negb (size_ok h && nb_ok (h / bucketSize) && (0 <=? p) && (p <=? 63)) then [1] else
        let nb' := h / bucketSize in
        let pk' := map (key_of nb') pool in
        match check_sweep pk' [] p None [] out with
        | inl c => [0; c]
        | inr (_, out') => judge_ops pool nb' pk' true [] rest out'
        end
      else if k =? 4 then
        if negb (size_ok h && nb_ok (h / bucketSize)) then [1] else
        let nb' := h / bucketSize in
        match drop np5 out with
        | Some out' => judge_ops pool nb' (map (key_of nb') pool) false [] rest out'
        | None => [0; 99]
        end
      else judge_ops pool nb pk judged jm rest out
  | _ => match out with [] => [1] | _ => [0; 99] end
  end.

(* a run that asks for an unsupported table size panics by design: not judged *)
Fixpoint bad_size_in (ops : list Z) {struct ops} : bool :=
  match ops with
  | k :: h :: g :: d :: p :: m :: v :: ty :: rest =>
      (((k =? 3) || (k =? 4)) && negb (size_ok h && nb_ok (h / bucketSize))) || bad_size_in rest
  | _ => false
  end.

Definition pool_ok (pool : list Z) : bool := forallb (fun h => (0 <=? h) && (h <? 2 ^ 64)) pool.

(* The clauses below are about "the probed key's bucket and signature" under the mapping the table
   documents (signature = top 16 bits, bucket = Lemire's reduction of the low 32 bits: sig_of / bucket_of
   above), which is also what the generator aims its colliding keys with. WHICH mapping a table uses is
   not constrained by the property. The runner compares the implementation's own bucket index
   (hook VerifBucketIx) with bucket_of for every key of the case; when they differ it reports the
   single number -5 instead of the probes, and the case is outside what this judge can decide (the
   exact model still disagrees, which is reported as a broken correspondence). *)
Definition other_mapping (out : list Z) : bool :=
  match out with [-5] => true | _ => false end.

Definition judge_c15 (io : list Z) : list Z :=
  match io with
  | size0 :: np :: rest =>
      let pool := firstn (Z.to_nat np) rest in
      match skipn (Z.to_nat np) rest with
      | nops :: rest2 =>
          let n8 := Z.to_nat (8 * nops) in
          let ops := firstn n8 rest2 in
          let out := skipn n8 rest2 in
          if negb (size_ok size0 && nb_ok (size0 / bucketSize) && pool_ok pool && (0 <=? np)) || bad_size_in ops then [1]
          else if other_mapping out then [1]
          else
            let nb := size0 / bucketSize in
            judge_ops pool nb (map (key_of nb) pool) true [] ops out
      | [] => [0; 99]
      end
  | _ => [0; 99]
  end.

(* ---------------------------------------------------------------------------------------- *)
(* stream c15multi: several tables alive at once, results of probes read late (format: see
   Model/TT.v). The property speaks about one table: the run is projected on every table slot -
   its own ops in the c15 encoding (New = a resize followed by a clear of a table that holds
   nothing), its own answers (a held probe is a probe whose answer arrives later; nothing is
   stored in between) - and every projection is judged against its own abstract map. *)

Fixpoint nth_alive (alive : list bool) (i : nat) : bool :=
  match alive, i with
  | [], _ => false
  | b :: _, O => b
  | _ :: r, S j => nth_alive r j
  end.

Fixpoint set_alive (alive : list bool) (i : nat) : list bool :=
  match alive, i with
  | [], _ => []
  | _ :: r, O => true :: r
  | b :: r, S j => b :: set_alive r j
  end.

Definition slot_in (alive : list bool) (tb : Z) : bool := (0 <=? tb) && (tb <? Z.of_nat (length alive)).
Definition is_alive (alive : list bool) (tb : Z) : bool := slot_in alive tb && nth_alive alive (Z.to_nat tb).

Fixpoint take_drop (n : nat) (l : list Z) : option (list Z * list Z) :=
  match n with
  | O => Some ([], l)
  | S n' => match l with
            | [] => None
            | x :: l' => match take_drop n' l' with Some (a, b) => Some (x :: a, b) | None => None end
            end
  end.

(* the answers of the held probes (in the order of the calls): those of slot t become probes *)
Fixpoint flush_proj (t : Z) (held : list (Z * list Z)) (out : list Z) : option (list Z * list Z * list Z) :=
  match held with
  | [] => Some ([], [], out)
  | (tb, op) :: held' =>
      match take_drop 5 out with
      | None => None
      | Some (mine, out1) =>
          match flush_proj t held' out1 with
          | None => None
          | Some (fo, fout, out2) =>
              if tb =? t then Some (op ++ fo, mine ++ fout, out2) else Some (fo, fout, out2)
          end
      end
  end.

(* held is kept newest first *)
Fixpoint project (t : Z) (np5 : nat) (alive : list bool) (held : list (Z * list Z)) (ops out : list Z)
         {struct ops} : option (list Z * list Z) :=
  match ops with
  | k :: tb :: h :: g :: d :: p :: m :: v :: ty :: rest =>
      let live := is_alive alive tb in
      if k =? 6 then
        project t np5 alive (if live then (tb, [1; h; g; d; p; m; v; ty]) :: held else held) rest out
      else
        match flush_proj t (rev held) out with
        | None => None
        | Some (fo, fout, out1) =>
            let creates := (k =? 5) && slot_in alive tb in
            let n_out := if creates then np5
                         else if negb live then O
                         else if (k =? 0) || (k =? 2) || (k =? 3) || (k =? 4) then np5
                         else if k =? 1 then 5%nat else O in
            let judged_op := creates || (live && (0 <=? k) && (k <=? 4)) in
            match take_drop n_out out1 with
            | None => None
            | Some (mine, out2) =>
                match project t np5 (if creates then set_alive alive (Z.to_nat tb) else alive) [] rest out2 with
                | None => None
                | Some (ro, rout) =>
                    if (tb =? t) && judged_op
                    then Some (fo ++ (if k =? 5 then 3 else k) :: h :: g :: d :: p :: m :: v :: ty :: ro,
                               fout ++ mine ++ rout)
                    else Some (fo ++ ro, fout ++ rout)
                end
            end
        end
  | _ =>
      match flush_proj t (rev held) out with
      | Some (fo, fout, []) => Some (fo, fout)
      | _ => None
      end
  end.

Fixpoint bad_size_in9 (ops : list Z) {struct ops} : bool :=
  match ops with
  | k :: tb :: h :: g :: d :: p :: m :: v :: ty :: rest =>
      (((k =? 3) || (k =? 4) || (k =? 5)) && negb (size_ok h && nb_ok (h / bucketSize))) || bad_size_in9 rest
  | _ => false
  end.

Fixpoint judge_slots (n : nat) (t : Z) (pool : list Z) (ops out : list Z) (alive0 : list bool) : list Z :=
  match n with
  | O => [1]
  | S n' =>
      match project t (5 * length pool) alive0 [] ops out with
      | None => [0; 99]
      | Some (ops_t, out_t) =>
          match judge_ops pool 1 (map (key_of 1) pool) true [] ops_t out_t with
          | [1] => judge_slots n' (t + 1) pool ops out alive0
          | verdict => verdict
          end
      end
  end.

Definition judge_c15multi (io : list Z) : list Z :=
  match io with
  | ntab :: np :: rest =>
      let pool := firstn (Z.to_nat np) rest in
      match skipn (Z.to_nat np) rest with
      | nops :: rest2 =>
          let n9 := Z.to_nat (9 * nops) in
          let ops := firstn n9 rest2 in
          let out := skipn n9 rest2 in
          let nt := Z.to_nat (Z.min 8 ntab) in
          if negb (pool_ok pool && (0 <=? np)) || bad_size_in9 ops then [1]
          else if other_mapping out then [1]
          else judge_slots nt 0 pool ops out (repeat false nt)
      | [] => [0; 99]
      end
  | _ => [0; 99]
  end.

(* stream c15big: the same run preceded by the GOMAXPROCS setting of the harness, which the
   property does not depend on *)
Definition judge_c15big (io : list Z) : list Z :=
  match io with
  | _ :: rest => judge_c15 rest
  | [] => [0; 99]
  end.

(* judge of the direct match64 stream: [w; key; ok; ix] *)
Definition judge_m64 (io : list Z) : list Z :=
  match io with
  | w :: key :: ok :: ix :: nil =>
      if negb ((0 <=? w) && (w <? 2 ^ 64) && (0 <=? key) && (key <? 65536)) then [1]
      else match first_lane_eq w key with
           | Some i => if (ok =? 1) && (ix =? i) then [1] else [0; 1]
           | None => if ok =? 0 then [1] else [0; 2]
           end
  | _ => [0; 99]
  end.
