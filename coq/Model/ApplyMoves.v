(* Executable model of the UCI move-list application (/repo/uci/uci.go: applyMoves, parseUCIMove)
   and of the way Board.FEN() (/repo/board/fen.go) reads a board.  Definitions only.

   parseUCIMove works on the bytes of the token with Go's uint8 arithmetic:
     from := Square((uciM[0] - 'a') + (uciM[1]-'1')*8)        // byte arithmetic, then int8
   so the wrap-around is written out here (a token such as "i1a3" denotes the same squares as
   "a2a3" for the engine; the model says so too). *)
From Coq Require Import NArith ZArith List Bool.
From Chess3 Require Import Base.Bits Base.Word Model.Types Model.Att Model.BoardDef Model.Board Model.Movegen.
Import ListNotations.
Open Scope N_scope.

(* a - b on uint8 *)
Definition byte_sub (a b : N) : N := (a + 256 - b) mod 256.

(* Square((c0 - 'a') + (c1 - '1')*8): uint8 arithmetic, converted to int8 *)
Definition uci_square (c0 c1 : N) : Z :=
  wrap8 (Z.of_N ((byte_sub c0 97 + (byte_sub c1 49 * 8) mod 256) mod 256)).

Definition uci_promo (rest : list N) : option N :=
  match rest with
  | [] => Some NoPiece
  | [c] => if c =? 113 then Some Queen        (* 'q' *)
           else if c =? 114 then Some Rook    (* 'r' *)
           else if c =? 98 then Some Bishop   (* 'b' *)
           else if c =? 110 then Some Knight  (* 'n' *)
           else None
  | _ => None                                  (* len(uciM) != 4 && len(uciM) != 5 *)
  end.

(* parseUCIMove(b, tok): None = the error return *)
Definition parse_uci_move (b : board) (tok : list N) : option N :=
  match tok with
  | c0 :: c1 :: c2 :: c3 :: rest =>
      match uci_promo rest with
      | None => None
      | Some promo =>
          let from := uci_square c0 c1 in
          let to := uci_square c2 c3 in
          if ((from <? 0) || (63 <? from) || (to <? 0) || (63 <? to))%Z then None else
          let m := mk_move (Z.to_N from) (Z.to_N to) promo in
          if is_pseudo_legal b m then Some m else None
      end
  | _ => None
  end.

(* applyMoves: for _, ms := range moves { m, err := parseUCIMove(b, ms); if err != nil { return }; b.MakeMove(m) } *)
Fixpoint apply_moves (z : zobrist) (b : board) (toks : list (list N)) : board :=
  match toks with
  | [] => b
  | t :: r => match parse_uci_move b t with
              | None => b
              | Some m => apply_moves z (fst (make z b m)) r
              end
  end.

(* the moves applyMoves plays (the accepted prefix) *)
Fixpoint accepted_moves (z : zobrist) (b : board) (toks : list (list N)) : list N :=
  match toks with
  | [] => []
  | t :: r => match parse_uci_move b t with
              | None => []
              | Some m => m :: accepted_moves z (fst (make z b m)) r
              end
  end.

(* ------------------------------------------------------------------------------------------ *)
(* what FEN() prints, as six integers (harness/hx/fen.go parses the text into the same six):
   SQ16 = sum code(s) * 16^s with code = 0 empty / k white / 8 + k black, read as FEN() reads it
   (SquaresToPiece[sq], colour from Colors[White]); side; rights; target or 64; clock; move number *)
Definition fen_code (b : board) (s : N) : N :=
  let k := piece_at b s in
  if k =? NoPiece then 0 else if N.testbit (colors b White) s then k else 8 + k.

Definition pack16 (l : list N) : N := fold_right (fun c acc => c + 16 * acc) 0 l.

Definition fen_view (b : board) : list Z :=
  [Z.of_N (pack16 (map (fen_code b) squares64)); Z.of_N (cix (stm b)); Z.of_N (castles b);
   Z.of_N (if ep b =? 0 then 64 else ep b); fifty b; full b].
