(* Layout of the move-reversing token (board.go: type Reverse uintW and the constants
   fiftyCntMask/Shift, castlingChangeMask/Shift, epChangeMask/Shift, captureMask/Shift).

   The board model (Model/Board.v) takes the layout as a parameter; Gen/TokLayout.v, regenerated from
   the source on every run, supplies the layout the engine has now ([gen_layout]).  [layout_ok] is
   the executable condition under which the token round-trips (C03): every mask is a contiguous
   run of ones starting at its shift, the halfmove field has at least 16 bits, the castling delta 4,
   the en-passant delta 6, the captured piece 3, every field lies inside the token's word and the
   four fields are pairwise disjoint.  Definitions only. *)
From Coq Require Import NArith Bool.
Open Scope N_scope.

Record tok_layout := mkTokLayout {
  l_fifty_mask : N;    l_fifty_shift : N;
  l_castling_mask : N; l_castling_shift : N;
  l_ep_mask : N;       l_ep_shift : N;
  l_capture_mask : N;  l_capture_shift : N;
  l_bits : N           (* width of the token's integer type: 8 * unsafe.Sizeof(Reverse(0)) *)
}.

(* width of a field: number of binary digits of mask >> shift *)
Definition field_width (mask shift : N) : N := N.size (N.shiftr mask shift).

(* the mask is ones(width) << shift, at least minw wide, and ends inside the word *)
Definition field_ok (mask shift minw bits : N) : bool :=
  let w := field_width mask shift in
  (mask =? N.shiftl (N.ones w) shift) && (minw <=? w) && (shift + w <=? bits).

(* bit ranges [k1, k1+w1) and [k2, k2+w2) do not meet *)
Definition fields_apart (m1 k1 m2 k2 : N) : bool :=
  (k1 + field_width m1 k1 <=? k2) || (k2 + field_width m2 k2 <=? k1).

Definition layout_ok (l : tok_layout) : bool :=
  field_ok (l_fifty_mask l) (l_fifty_shift l) 16 (l_bits l) &&
  field_ok (l_castling_mask l) (l_castling_shift l) 4 (l_bits l) &&
  field_ok (l_ep_mask l) (l_ep_shift l) 6 (l_bits l) &&
  field_ok (l_capture_mask l) (l_capture_shift l) 3 (l_bits l) &&
  fields_apart (l_fifty_mask l) (l_fifty_shift l) (l_castling_mask l) (l_castling_shift l) &&
  fields_apart (l_fifty_mask l) (l_fifty_shift l) (l_ep_mask l) (l_ep_shift l) &&
  fields_apart (l_fifty_mask l) (l_fifty_shift l) (l_capture_mask l) (l_capture_shift l) &&
  fields_apart (l_castling_mask l) (l_castling_shift l) (l_ep_mask l) (l_ep_shift l) &&
  fields_apart (l_castling_mask l) (l_castling_shift l) (l_capture_mask l) (l_capture_shift l) &&
  fields_apart (l_ep_mask l) (l_ep_shift l) (l_capture_mask l) (l_capture_shift l).
