(* C01 stages (b) and (c): pawn pushes, double pushes, captures, promotions and en passant - the
   generator's shift formulas produce exactly the pawn clause of [pseudo_spec]. *)
From Coq Require Import NArith ZArith List Bool Lia.
From Chess3 Require Import Base.Bits Model.Types Spec.Geometry Model.Att Model.BoardDef Model.Board
  Model.Movegen Spec.Chess Spec.Rep Proofs.GenBase Proofs.GenRep Proofs.GenPieces Proofs.AttackedSpec.
Import ListNotations.
Open Scope N_scope.

(* ------------------------------------------------------------------------------------------ *)
(* finite geometry of pawns *)

Definition on7b (c : color) (s : N) : bool :=
  match c with White => (48 <=? s) && (s <? 56) | Black => (8 <=? s) && (s <? 16) end.
Definition on2b (c : color) (s : N) : bool :=
  match c with White => (8 <=? s) && (s <? 16) | Black => (48 <=? s) && (s <? 56) end.
Definition pa_formula (c : color) (from to : N) : bool :=
  match c with
  | White => ((to =? from + 7) && negb (to mod 8 =? 7)) || ((to =? from + 9) && negb (to mod 8 =? 0))
  | Black => ((to + 7 =? from) && negb (to mod 8 =? 0)) || ((to + 9 =? from) && negb (to mod 8 =? 7))
  end.

Lemma pa_all :
  forallb (fun c => forallb (fun from => (pawn_attacks c from <? two64) && forallb (fun to =>
    Bool.eqb (N.testbit (pawn_attacks c from) to) (pa_formula c from to) &&
    Bool.eqb (N.testbit (pawn_attacks (flip c) to) from) (N.testbit (pawn_attacks c from) to) &&
    implb (N.testbit (pawn_attacks c from) to) (Bool.eqb (rank_n to =? last_rank c) (on7b c from)))
    squares64) squares64) [White; Black] = true.
Proof. vm_compute. reflexivity. Qed.

Lemma pa_from c from : from < 64 ->
  pawn_attacks c from < two64 /\
  forall to, to < 64 ->
    N.testbit (pawn_attacks c from) to = pa_formula c from to /\
    N.testbit (pawn_attacks (flip c) to) from = N.testbit (pawn_attacks c from) to /\
    (N.testbit (pawn_attacks c from) to = true -> (rank_n to =? last_rank c) = on7b c from).
Proof.
  intros Hf. pose proof pa_all as H. rewrite forallb_forall in H.
  specialize (H c ltac:(destruct c; cbn; auto)).
  pose proof (all64 _ H from Hf) as H1. cbv beta in H1. apply andb_true_iff in H1. destruct H1 as [H1 H2].
  split; [apply N.ltb_lt; exact H1|].
  intros to Ht. pose proof (all64 _ H2 to Ht) as H3. cbv beta in H3.
  rewrite !andb_true_iff in H3. destruct H3 as [[A B] C].
  split; [apply eqb_prop; exact A|]. split; [apply eqb_prop; exact B|].
  intros T. rewrite T in C. cbn [implb] in C. apply eqb_prop. exact C.
Qed.

Lemma pa_lt c from to : from < 64 -> N.testbit (pawn_attacks c from) to = true -> to < 64.
Proof. intros Hf T. destruct (pa_from c from Hf) as [W _]. eapply tb_lt64; [exact W|exact T]. Qed.

Lemma push_all :
  forallb (fun c => forallb (fun from =>
    implb ((8 <=? from) && (from <? 56))
      (Bool.eqb (rank_n (fwd c from) =? last_rank c) (on7b c from) &&
       Bool.eqb (rank_n from =? second_rank c) (on2b c from) &&
       negb (rank_n from =? last_rank c) &&
       implb (on2b c from) (negb (rank_n (fwd c (fwd c from)) =? last_rank c) && negb (on7b c from))))
    squares64) [White; Black] = true.
Proof. vm_compute. reflexivity. Qed.

Lemma push_facts c from : 8 <= from < 56 ->
  (rank_n (fwd c from) =? last_rank c) = on7b c from /\
  (rank_n from =? second_rank c) = on2b c from /\
  (rank_n from =? last_rank c) = false /\
  (on2b c from = true -> (rank_n (fwd c (fwd c from)) =? last_rank c) = false /\ on7b c from = false).
Proof.
  intros Hf. pose proof push_all as H. rewrite forallb_forall in H.
  specialize (H c ltac:(destruct c; cbn; auto)).
  assert (L : from < 64) by lia. pose proof (all64 _ H from L) as H1. cbv beta in H1.
  assert (E : ((8 <=? from) && (from <? 56)) = true).
  { apply andb_true_iff. split; [apply N.leb_le|apply N.ltb_lt]; lia. }
  rewrite E in H1. cbn [implb] in H1. rewrite !andb_true_iff in H1. destruct H1 as [[[A B] C] D].
  split; [apply eqb_prop; exact A|]. split; [apply eqb_prop; exact B|].
  split; [apply negb_true_iff; exact C|].
  intros O. rewrite O in D. cbn [implb] in D. rewrite andb_true_iff, !negb_true_iff in D. exact D.
Qed.

Lemma rank7_tb c s : N.testbit (rank_from c SeventhRank) s = on7b c s.
Proof. unfold rank_from, SeventhRank. destruct c; rewrite rank_bb_tb; reflexivity. Qed.
Lemma rank2_tb c s : N.testbit (rank_from c SecondRank) s = on2b c s.
Proof. unfold rank_from, SecondRank. destruct c; rewrite rank_bb_tb; reflexivity. Qed.

Lemma sq_add_fwd c from : 8 <= from -> sq_add from (pshift c) = fwd c from.
Proof. intros H. unfold sq_add, pshift, fwd. destruct c; lia. Qed.

(* the occupancy masks of the push generators, read at one square *)
Lemma occ1_tb o c from : from < 64 ->
  N.testbit (shl (shr o 8) (N.shiftl (cix c) 4)) from =
  match c with White => N.testbit o (from + 8) | Black => (16 <=? from) && N.testbit o (from - 8) end.
Proof.
  intros H. apply N.ltb_lt in H. destruct c; cbn [cix].
  - change (N.shiftl 0 4) with 0. rewrite shl_tb, shr_tb, H, N.sub_0_r.
    assert (Z0 : (0 <=? from) = true) by (apply N.leb_le; lia). rewrite Z0. reflexivity.
  - change (N.shiftl 1 4) with 16. rewrite shl_tb, shr_tb, H. cbn [andb].
    destruct (N.leb_spec 16 from) as [L|L]; [|reflexivity]. cbn [andb]. f_equal. lia.
Qed.

Lemma occ1b_tb o c from : from < 64 ->
  N.testbit (shr (shl o 8) (N.shiftl (cix (flip c)) 4)) from =
  match c with White => (from <? 48) && N.testbit o (from + 8) | Black => (8 <=? from) && N.testbit o (from - 8) end.
Proof.
  intros H. destruct c; cbn [cix flip].
  - change (N.shiftl 1 4) with 16. rewrite shr_tb, shl_tb.
    destruct (N.ltb_spec from 48) as [L'|L'].
    + assert (E1 : (from + 16 <? 64) = true) by (apply N.ltb_lt; lia).
      assert (E : (8 <=? from + 16) = true) by (apply N.leb_le; lia). rewrite E1, E. cbn [andb]. f_equal. lia.
    + assert (E1 : (from + 16 <? 64) = false) by (apply N.ltb_ge; lia). rewrite E1. reflexivity.
  - change (N.shiftl 0 4) with 0. rewrite shr_tb, shl_tb, N.add_0_r. apply N.ltb_lt in H. rewrite H. reflexivity.
Qed.

Lemma occ2_tb o c from : from < 64 ->
  N.testbit (shl (shr o 16) (N.shiftl (cix c) 5)) from =
  match c with White => N.testbit o (from + 16) | Black => (32 <=? from) && N.testbit o (from - 16) end.
Proof.
  intros H. apply N.ltb_lt in H. destruct c; cbn [cix].
  - change (N.shiftl 0 5) with 0. rewrite shl_tb, shr_tb, H, N.sub_0_r.
    assert (Z0 : (0 <=? from) = true) by (apply N.leb_le; lia). rewrite Z0. reflexivity.
  - change (N.shiftl 1 5) with 32. rewrite shl_tb, shr_tb, H. cbn [andb].
    destruct (N.leb_spec 32 from) as [L|L]; [|reflexivity]. cbn [andb]. f_equal. lia.
Qed.

(* ------------------------------------------------------------------------------------------ *)

Section Pawns.
Variable b : board.
Hypothesis HR : PRep b.
Hypothesis HV : valid (abs b) = true.

Local Notation c := (stm b).
Local Notation self := (colors b (stm b)).
Local Notation them := (colors b (flip (stm b))).
Local Notation occ := (occupancy b).
Local Notation p := (abs b).
Local Notation pawns := (pieces b Pawn).

Lemma own_pawn_range from : N.testbit self from = true -> N.testbit pawns from = true -> 8 <= from < 56.
Proof.
  intros A B. apply (valid_no_edge_pawn b c from HR HV).
  rewrite (holds_abs b HR) by (unfold Pawn; lia). rewrite A, B. reflexivity.
Qed.

Lemma them_not_self s : N.testbit them s = true -> N.testbit self s = false.
Proof. intros H. pose proof (colors_excl b HR (flip c) s H) as E. destruct (stm b); exact E. Qed.

Lemma not_occ_not_self s : N.testbit occ s = false -> N.testbit self s = false.
Proof.
  intros H. destruct (N.testbit self s) eqn:E; [|reflexivity].
  rewrite (colors_occ b c s E) in H. discriminate.
Qed.

(* what the push masks say for a pawn of the mover *)
Lemma fwd_occ1 from : 8 <= from < 56 -> on7b c from = false ->
  N.testbit (shl (shr occ 8) (N.shiftl (cix c) 4)) from = N.testbit occ (fwd c from).
Proof.
  intros Hf H7. rewrite occ1_tb by lia. unfold fwd. destruct (stm b); [reflexivity|].
  cbn [on7b] in H7. assert (L : (16 <=? from) = true).
  { apply N.leb_le. rewrite andb_false_iff, N.leb_gt, N.ltb_ge in H7. lia. }
  rewrite L. reflexivity.
Qed.

Lemma fwd_occ1_promo from : 8 <= from < 56 -> on7b c from = true ->
  N.testbit (bor (shl (shr occ 8) (N.shiftl (cix c) 4)) (shr (shl occ 8) (N.shiftl (cix (flip c)) 4))) from =
  N.testbit occ (fwd c from).
Proof.
  intros Hf H7. rewrite bor_tb, occ1_tb, occ1b_tb by lia. unfold fwd. destruct (stm b); cbn [on7b] in H7;
    rewrite andb_true_iff, N.leb_le, N.ltb_lt in H7.
  - assert (L : (from <? 48) = false) by (apply N.ltb_ge; lia). rewrite L. cbn [andb]. apply orb_false_r.
  - assert (L : (16 <=? from) = false) by (apply N.leb_gt; lia).
    assert (L' : (8 <=? from) = true) by (apply N.leb_le; lia). rewrite L, L'. reflexivity.
Qed.

Lemma fwd_occ2 from : on2b c from = true ->
  N.testbit (shl (shr occ 16) (N.shiftl (cix c) 5)) from = N.testbit occ (fwd c (fwd c from)).
Proof.
  intros H2. assert (Hf : from < 64).
  { destruct (stm b); cbn [on2b] in H2; rewrite andb_true_iff, N.leb_le, N.ltb_lt in H2; lia. }
  rewrite occ2_tb by exact Hf. unfold fwd. destruct (stm b); cbn [on2b] in H2;
    rewrite andb_true_iff, N.leb_le, N.ltb_lt in H2.
  - f_equal. lia.
  - assert (L : (32 <=? from) = true) by (apply N.leb_le; lia). rewrite L. cbn [andb]. f_equal. lia.
Qed.

(* ---------------------------------------------------------------------------------------- *)
(* membership in the six pawn lists, in terms of the fields of the move *)

Lemma single_in m : m < 32768 ->
  (In m (gen_single_push (gen_of b) b Full) <->
   (N.testbit self (mv_from m) = true /\ N.testbit pawns (mv_from m) = true /\
    on7b c (mv_from m) = false /\ N.testbit occ (fwd c (mv_from m)) = false /\
    mv_to m = fwd c (mv_from m)) /\ mv_promo m = 0).
Proof.
  intros Hm. unfold gen_single_push. cbn [g_self g_them g_occ gen_of]. fold occ.
  rewrite <- (mv_fields (fun from to => N.testbit self from = true /\ N.testbit pawns from = true /\
    on7b c from = false /\ N.testbit occ (fwd c from) = false /\ to = fwd c from) m Hm).
  rewrite in_for_bits. split.
  - intros [from [H [E|[]]]]. subst m.
    rewrite !band_tb, !bnot_tb, rank7_tb, Full_tb, !andb_true_iff, !negb_true_iff in H.
    destruct H as [[[[A B] [C _]] D] [E _]].
    pose proof (own_pawn_range from A B) as R. rewrite fwd_occ1 in C by assumption.
    exists from, (fwd c from). rewrite sq_add_fwd by lia.
    split; [lia|]. split; [unfold fwd; destruct (stm b); lia|]. tauto.
  - intros [from [to [Hf [Ht [[A [B [C [D E]]]] ->]]]]]. subst to. exists from.
    pose proof (own_pawn_range from A B) as R. split.
    + rewrite !band_tb, !bnot_tb, rank7_tb, Full_tb, fwd_occ1, A, B, C, D by assumption.
      apply N.ltb_lt in Hf. rewrite Hf. reflexivity.
    + left. rewrite sq_add_fwd by lia. reflexivity.
Qed.

Lemma promo_push_in m : m < 32768 ->
  (In m (gen_promo_push (gen_of b) b Full) <->
   (N.testbit self (mv_from m) = true /\ N.testbit pawns (mv_from m) = true /\
    on7b c (mv_from m) = true /\ N.testbit occ (fwd c (mv_from m)) = false /\
    mv_to m = fwd c (mv_from m)) /\ is_promo_piece (mv_promo m) = true).
Proof.
  intros Hm. unfold gen_promo_push. cbn [g_self g_them g_occ gen_of]. fold occ.
  rewrite <- (mvp_fields (fun from to => N.testbit self from = true /\ N.testbit pawns from = true /\
    on7b c from = true /\ N.testbit occ (fwd c from) = false /\ to = fwd c from) m Hm).
  rewrite in_for_bits. split.
  - intros [from [H E]].
    rewrite !band_tb, !bnot_tb, rank7_tb, Full_tb, !andb_true_iff, !negb_true_iff in H.
    destruct H as [[[[A B] [C _]] D] E7].
    pose proof (own_pawn_range from A B) as R. rewrite fwd_occ1_promo in C by assumption.
    exists from, (fwd c from). rewrite sq_add_fwd in E by lia.
    split; [lia|]. split; [unfold fwd; destruct (stm b); lia|]. tauto.
  - intros [from [to [Hf [Ht [[A [B [C [D E]]]] Hin]]]]]. subst to. exists from.
    pose proof (own_pawn_range from A B) as R. split.
    + rewrite !band_tb, !bnot_tb, rank7_tb, Full_tb, fwd_occ1_promo, A, B, C, D by assumption.
      apply N.ltb_lt in Hf. rewrite Hf. reflexivity.
    + rewrite sq_add_fwd by lia. exact Hin.
Qed.

Lemma double_in m : m < 32768 ->
  (In m (gen_double_push (gen_of b) b Full) <->
   (N.testbit self (mv_from m) = true /\ N.testbit pawns (mv_from m) = true /\
    on2b c (mv_from m) = true /\ N.testbit occ (fwd c (mv_from m)) = false /\
    N.testbit occ (fwd c (fwd c (mv_from m))) = false /\
    mv_to m = fwd c (fwd c (mv_from m))) /\ mv_promo m = 0).
Proof.
  intros Hm. unfold gen_double_push. cbn [g_self g_them g_occ gen_of]. fold occ.
  rewrite <- (mv_fields (fun from to => N.testbit self from = true /\ N.testbit pawns from = true /\
    on2b c from = true /\ N.testbit occ (fwd c from) = false /\ N.testbit occ (fwd c (fwd c from)) = false /\
    to = fwd c (fwd c from)) m Hm).
  rewrite in_for_bits.
  assert (R2 : forall from, on2b c from = true ->
            8 <= from < 56 /\ on7b c from = false /\ fwd c (fwd c from) < 64 /\
            sq_add from (2 * pshift c) = fwd c (fwd c from)).
  { intros from H2. unfold fwd, sq_add, pshift. destruct (stm b); cbn [on2b on7b] in *;
      rewrite andb_true_iff, N.leb_le, N.ltb_lt in H2.
    - split; [lia|]. split; [apply andb_false_iff; left; apply N.leb_gt; lia|]. split; lia.
    - split; [lia|]. split; [apply andb_false_iff; right; apply N.ltb_ge; lia|]. split; lia. }
  split.
  - intros [from [H [E|[]]]]. subst m.
    rewrite !band_tb, !bnot_tb, rank2_tb, Full_tb, !andb_true_iff, !negb_true_iff in H.
    destruct H as [[[[[A B] [C _]] [D _]] F] E2].
    destruct (R2 from E2) as [R [N7 [L S]]].
    rewrite fwd_occ1 in C by assumption. rewrite fwd_occ2 in D by assumption.
    exists from, (fwd c (fwd c from)). rewrite S.
    split; [lia|]. split; [exact L|]. tauto.
  - intros [from [to [Hf [Ht [[A [B [E2 [C [D E]]]]] ->]]]]]. subst to. exists from.
    destruct (R2 from E2) as [R [N7 [L S]]]. split.
    + rewrite !band_tb, !bnot_tb, rank2_tb, Full_tb, fwd_occ1, fwd_occ2, A, B, C, D, E2 by assumption.
      apply N.ltb_lt in Hf. rewrite Hf. reflexivity.
    + left. rewrite S. reflexivity.
Qed.

(* the pre-filter of the capture generators never removes a capturing pawn *)
Lemma cap_occ_ok from to : from < 64 ->
  N.testbit (pawn_attacks c from) to = true -> N.testbit them to = true ->
  N.testbit (cap_occ (gen_of b) b) from = true.
Proof.
  intros Hf T Th. pose proof (pa_lt c from to Hf T) as Ht.
  destruct (pa_from c from Hf) as [_ F]. destruct (F to Ht) as [E _]. rewrite E in T. clear E F.
  unfold cap_occ. cbn [g_them gen_of]. destruct (stm b); cbn [pa_formula flip] in *;
    rewrite orb_true_iff, !andb_true_iff, !negb_true_iff, !N.eqb_eq, !N.eqb_neq in T.
  - rewrite bor_tb, !shr_tb, !bandn_tb, HFile_tb, AFile_tb. destruct T as [[-> M]|[-> M]].
    + rewrite Th. apply N.eqb_neq in M. rewrite M, andb_false_r. reflexivity.
    + rewrite Th. apply N.eqb_neq in M. rewrite M, andb_false_r. cbn. apply orb_true_r.
  - rewrite bor_tb, !shl_tb, !bandn_tb, HFile_tb, AFile_tb. apply N.ltb_lt in Hf. rewrite Hf.
    destruct T as [[<- M]|[<- M]].
    + assert (L : (7 <=? to + 7) = true) by (apply N.leb_le; lia). rewrite L.
      replace (to + 7 - 7) with to by lia. rewrite Th. apply N.eqb_neq in M. rewrite M, andb_false_r. reflexivity.
    + assert (L : (9 <=? to + 9) = true) by (apply N.leb_le; lia). rewrite L.
      replace (to + 9 - 9) with to by lia. rewrite Th. apply N.eqb_neq in M. rewrite M, andb_false_r. cbn.
      apply orb_true_r.
Qed.

Lemma captures_in m : m < 32768 ->
  (In m (gen_pawn_captures (gen_of b) b) <->
   (N.testbit self (mv_from m) = true /\ N.testbit pawns (mv_from m) = true /\
    on7b c (mv_from m) = false /\ N.testbit (pawn_attacks c (mv_from m)) (mv_to m) = true /\
    N.testbit them (mv_to m) = true) /\ mv_promo m = 0).
Proof.
  intros Hm. unfold gen_pawn_captures.
  rewrite <- (mv_fields (fun from to => N.testbit self from = true /\ N.testbit pawns from = true /\
    on7b c from = false /\ N.testbit (pawn_attacks c from) to = true /\ N.testbit them to = true) m Hm).
  rewrite in_for_bits. cbn [g_self g_them gen_of]. split.
  - intros [from [H Hin]]. apply in_for_bits in Hin. destruct Hin as [to [H2 [E|[]]]]. subst m.
    rewrite !band_tb, !bnot_tb, rank7_tb, !andb_true_iff, !negb_true_iff in H.
    destruct H as [[[A B] [C L]] _]. apply N.ltb_lt in L.
    rewrite band_tb, pcm_bit, andb_true_iff in H2 by exact L. destruct H2 as [T Th].
    exists from, to. split; [exact L|]. split; [eapply pa_lt; eassumption|]. tauto.
  - intros [from [to [Hf [Ht [[A [B [C [T Th]]]] ->]]]]]. exists from. split.
    + rewrite !band_tb, !bnot_tb, rank7_tb, A, B, C, (cap_occ_ok from to Hf T Th).
      apply N.ltb_lt in Hf. rewrite Hf. reflexivity.
    + apply in_for_bits. exists to. split; [|left; reflexivity].
      rewrite band_tb, pcm_bit, T, Th by exact Hf. reflexivity.
Qed.

Lemma cap_promos_in m : m < 32768 ->
  (In m (gen_pawn_capture_promos (gen_of b) b) <->
   (N.testbit self (mv_from m) = true /\ N.testbit pawns (mv_from m) = true /\
    on7b c (mv_from m) = true /\ N.testbit (pawn_attacks c (mv_from m)) (mv_to m) = true /\
    N.testbit them (mv_to m) = true) /\ is_promo_piece (mv_promo m) = true).
Proof.
  intros Hm. unfold gen_pawn_capture_promos.
  rewrite <- (mvp_fields (fun from to => N.testbit self from = true /\ N.testbit pawns from = true /\
    on7b c from = true /\ N.testbit (pawn_attacks c from) to = true /\ N.testbit them to = true) m Hm).
  rewrite in_for_bits. cbn [g_self g_them gen_of]. split.
  - intros [from [H Hin]]. apply in_for_bits in Hin. destruct Hin as [to [H2 Hin]].
    rewrite !band_tb, rank7_tb, !andb_true_iff in H.
    destruct H as [[[A B] C] _].
    assert (L : from < 64) by (eapply tb_lt64; [apply (colors_w64 b HR c)|exact A]).
    rewrite band_tb, pcm_bit, andb_true_iff in H2 by exact L. destruct H2 as [T Th].
    exists from, to. split; [exact L|]. split; [eapply pa_lt; eassumption|]. tauto.
  - intros [from [to [Hf [Ht [[A [B [C [T Th]]]] Hin]]]]]. exists from. split.
    + rewrite !band_tb, rank7_tb, A, B, C, (cap_occ_ok from to Hf T Th). reflexivity.
    + apply in_for_bits. exists to. split; [|exact Hin].
      rewrite band_tb, pcm_bit, T, Th by exact Hf. reflexivity.
Qed.

(* the en-passant target of a valid position *)
Lemma ep_facts : ep b <> 0 ->
  epsq p = Some (ep b) /\ ep b < 64 /\ (rank_n (ep b) =? last_rank c) = false /\
  N.testbit occ (ep b) = false /\
  holds p (fwd (flip c) (ep b)) (flip c) Pawn = true.
Proof.
  intros Hne. destruct (valid_split _ HV) as [_ [_ [_ [_ [_ [_ EP]]]]]].
  assert (E : epsq p = Some (ep b)).
  { unfold abs. cbn [epsq]. apply N.eqb_neq in Hne. rewrite Hne. reflexivity. }
  unfold ep_ok in EP. rewrite E in EP. cbn [turn abs] in EP.
  rewrite !andb_true_iff in EP. destruct EP as [[[[A B] _] D] _].
  rewrite (empty_abs b HR), negb_true_iff in B. apply N.eqb_eq in A.
  split; [exact E|]. unfold rank_n in *.
  assert (L : ep b < 64).
  { dm8 (ep b). destruct (stm b); lia. }
  split; [exact L|]. split; [|tauto].
  apply N.eqb_neq. unfold last_rank. destruct (stm b); lia.
Qed.

Lemma ep_in m : m < 32768 ->
  (In m (gen_en_passant (gen_of b) b) <->
   (ep b <> 0 /\ N.testbit self (mv_from m) = true /\ N.testbit pawns (mv_from m) = true /\
    N.testbit (pawn_attacks c (mv_from m)) (mv_to m) = true /\ mv_to m = ep b) /\ mv_promo m = 0).
Proof.
  intros Hm. unfold gen_en_passant.
  rewrite <- (mv_fields (fun from to => ep b <> 0 /\ N.testbit self from = true /\ N.testbit pawns from = true /\
    N.testbit (pawn_attacks c from) to = true /\ to = ep b) m Hm).
  cbn [g_self g_them gen_of]. destruct (N.eqb_spec (ep b) 0) as [E0|E0].
  - split; [intros []|]. intros [from [to [_ [_ [[A _] _]]]]]. contradiction.
  - destruct (ep_facts E0) as [_ [L _]]. rewrite in_for_bits. split.
    + intros [from [H [E|[]]]]. subst m. rewrite !band_tb, pcm_bit, !andb_true_iff in H by exact L.
      destruct H as [[T A] B].
      assert (Lf : from < 64) by (eapply tb_lt64; [apply (colors_w64 b HR c)|exact A]).
      destruct (pa_from c from Lf) as [_ F]. destruct (F (ep b) L) as [_ [S _]]. rewrite S in T.
      exists from, (ep b). tauto.
    + intros [from [to [Hf [Ht [[_ [A [B [T ->]]]] ->]]]]]. exists from. split; [|left; reflexivity].
      rewrite !band_tb, pcm_bit, A, B by exact L.
      destruct (pa_from c from Hf) as [_ F]. destruct (F (ep b) L) as [_ [S _]]. rewrite S, T. reflexivity.
Qed.

(* ---------------------------------------------------------------------------------------- *)
(* the pawn clause of the specification, on the engine's bitboards *)

Lemma pseudo_pawn m : who p (mv_from m) = Some (c, Pawn) ->
  (pseudo_spec p m = true <->
   (N.testbit self (mv_to m) = false /\
    (if rank_n (mv_to m) =? last_rank c then is_promo_piece (mv_promo m) = true else mv_promo m = 0) /\
    ((mv_to m = fwd c (mv_from m) /\ (rank_n (mv_from m) =? last_rank c) = false /\ N.testbit occ (mv_to m) = false) \/
     ((rank_n (mv_from m) =? second_rank c) = true /\ mv_to m = fwd c (fwd c (mv_from m)) /\
      N.testbit occ (fwd c (mv_from m)) = false /\ N.testbit occ (mv_to m) = false) \/
     (N.testbit (pawn_attacks c (mv_from m)) (mv_to m) = true /\
      (N.testbit them (mv_to m) = true \/ (ep b <> 0 /\ ep b = mv_to m)))))).
Proof.
  intros Hw. unfold pseudo_spec. rewrite Hw. change (turn p) with (stm b).
  rewrite color_eqb_refl', !(owned_abs b HR), !(empty_abs b HR). cbn [andb].
  change (Pawn =? Pawn) with true. cbv iota. unfold mem.
  assert (EP : match epsq p with Some e => e =? mv_to m | None => false end = true <-> (ep b <> 0 /\ ep b = mv_to m)).
  { unfold abs. cbn [epsq]. destruct (N.eqb_spec (ep b) 0) as [E|E].
    - split; [discriminate|]. intros [A _]. contradiction.
    - rewrite N.eqb_eq. tauto. }
  rewrite !andb_true_iff, !orb_true_iff, !andb_true_iff, !orb_true_iff, EP, !negb_true_iff, !N.eqb_eq.
  destruct (rank_n (mv_to m) =? last_rank c); rewrite ?N.eqb_eq; tauto.
Qed.

Definition pawn_lists : list N :=
  gen_promo_push (gen_of b) b Full ++ gen_pawn_captures (gen_of b) b ++ gen_pawn_capture_promos (gen_of b) b ++
  gen_en_passant (gen_of b) b ++ gen_single_push (gen_of b) b Full ++ gen_double_push (gen_of b) b Full.

Lemma gen_pawn_iff m : m < 32768 ->
  (In m pawn_lists <-> (who p (mv_from m) = Some (c, Pawn) /\ pseudo_spec p m = true)).
Proof.
  intros Hm. unfold pawn_lists. rewrite !in_app_iff.
  rewrite (promo_push_in m Hm), (captures_in m Hm), (cap_promos_in m Hm), (ep_in m Hm), (single_in m Hm), (double_in m Hm).
  assert (WP : forall A : Prop, N.testbit self (mv_from m) = true -> N.testbit pawns (mv_from m) = true -> A ->
            who p (mv_from m) = Some (c, Pawn) /\ A).
  { intros A H1 H2 HA. split; [|exact HA]. apply who_self_iff; [exact HR|unfold Pawn; lia|tauto]. }
  split.
  - intros H.
    assert (S : N.testbit self (mv_from m) = true /\ N.testbit pawns (mv_from m) = true) by tauto.
    destruct S as [S1 S2]. apply (WP _ S1 S2).
    pose proof (own_pawn_range _ S1 S2) as R.
    destruct (push_facts c (mv_from m) R) as [P1 [P2 [P3 P4]]].
    assert (Lf : mv_from m < 64) by lia.
    destruct (pa_from c (mv_from m) Lf) as [_ F].
    apply (pseudo_pawn m); [apply who_self_iff; [exact HR|unfold Pawn; lia|tauto]|].
    destruct H as [H|[H|[H|[H|[H|H]]]]].
    + destruct H as [[_ [_ [A7 [O E]]]] Pr]. rewrite E, P1, A7. rewrite <- E.
      split; [apply not_occ_not_self; rewrite E; exact O|]. split; [exact Pr|]. left. split; [reflexivity|]. split; [exact P3|]. rewrite E. exact O.
    + destruct H as [[_ [_ [A7 [T Th]]]] Pr].
      destruct (F (mv_to m) (mv_to_lt m)) as [_ [_ Rk]]. rewrite (Rk T), A7.
      split; [apply them_not_self; exact Th|]. split; [exact Pr|]. right. right. tauto.
    + destruct H as [[_ [_ [A7 [T Th]]]] Pr].
      destruct (F (mv_to m) (mv_to_lt m)) as [_ [_ Rk]]. rewrite (Rk T), A7.
      split; [apply them_not_self; exact Th|]. split; [exact Pr|]. right. right. tauto.
    + destruct H as [[E0 [_ [_ [T E]]]] Pr]. destruct (ep_facts E0) as [_ [_ [Rk [O _]]]].
      rewrite E, Rk. rewrite <- E.
      split; [apply not_occ_not_self; rewrite E; exact O|]. split; [exact Pr|]. right. right. split; [exact T|]. right. split; [rewrite E; exact E0|reflexivity].
    + destruct H as [[_ [_ [A7 [O E]]]] Pr]. rewrite E, P1, A7. rewrite <- E.
      split; [apply not_occ_not_self; rewrite E; exact O|]. split; [exact Pr|]. left. split; [reflexivity|]. split; [exact P3|]. rewrite E. exact O.
    + destruct H as [[_ [_ [A2 [O1 [O2 E]]]]] Pr]. destruct (P4 A2) as [Q1 Q2]. rewrite E, Q1. rewrite <- E.
      split; [apply not_occ_not_self; rewrite E; exact O2|]. split; [exact Pr|]. right. left.
      rewrite P2. split; [exact A2|]. split; [reflexivity|]. split; [exact O1|]. rewrite E. exact O2.
  - intros [Hw Hp]. pose proof Hw as Hw'. apply who_self_iff in Hw'; [|exact HR|unfold Pawn; lia].
    destruct Hw' as [S1 S2]. pose proof (own_pawn_range _ S1 S2) as R.
    destruct (push_facts c (mv_from m) R) as [P1 [P2 [P3 P4]]].
    assert (Lf : mv_from m < 64) by lia.
    destruct (pa_from c (mv_from m) Lf) as [_ F].
    apply (pseudo_pawn m Hw) in Hp. destruct Hp as [NS [Pr [H|[H|H]]]].
    + destruct H as [E [_ O]]. rewrite E, P1 in Pr. rewrite E in O.
      destruct (on7b c (mv_from m)) eqn:A7; [left|right; right; right; right; left]; tauto.
    + destruct H as [A2 [E [O1 O2]]]. rewrite P2 in A2. destruct (P4 A2) as [Q1 Q2]. rewrite E, Q1 in Pr. rewrite E in O2.
      right; right; right; right; right. tauto.
    + destruct H as [T [Th|[E0 E]]].
      * destruct (F (mv_to m) (mv_to_lt m)) as [_ [_ Rk]]. rewrite (Rk T) in Pr.
        destruct (on7b c (mv_from m)) eqn:A7; [right; right; left|right; left]; tauto.
      * destruct (ep_facts E0) as [_ [_ [Rk _]]]. rewrite <- E, Rk in Pr.
        right; right; right; left. split; [|exact Pr]. split; [exact E0|]. split; [exact S1|]. split; [exact S2|]. split; [exact T|]. symmetry; exact E.
Qed.

End Pawns.
